import UnytModel.Num
import UnytModel.Dim
import UnytModel.UExpr
import UnytModel.Lut
import UnytModel.Unit
import UnytModel.Tables
import UnytModel.Driver
import UnytModel.Convert
