/-
  UnytModel.SystemRegistry — `unit_system_registry` as a state machine (C10).

  Models, in `unyt/unit_systems.py` and `unyt/unit_registry.py`:
  * the module-level dict `unit_system_registry` (name ↦ `UnitSystem` object, insertion ordered);
  * the LAST THREE steps of `UnitSystem.__init__` in their order: validate (may raise) →
    `self.base_units = …` → `unit_system_registry[name] = self` — i.e. a construction that raises
    leaves the registry and every live object untouched, a construction that succeeds registers the
    new object under its name, replacing whatever was registered under that name;
  * `UnitSystem.__getitem__` / `__setitem__` applied to a live OBJECT (objects are mutable and
    shared between the caller and the registry: the heap below);
  * `_sanitize_unit_system(unit_system, obj)`: a name is looked up in the registry (`KeyError` when
    absent); an object with a `name` attribute is resolved THROUGH ITS NAME
    (`unit_system_registry[unit_system.name]`), so a stale object whose name has been
    re-registered resolves to the newer system.

  The state is a heap of the `UnitSystem` objects created by successful constructions (object id =
  position; an object whose `__init__` raised is garbage and never enters the heap) and the dict
  from names to object ids.  `UnytProofs/C10Registry.lean` proves, by induction over arbitrary
  histories (accepted and rejected constructions, re-registration under an existing name,
  memoising look-ups, overrides, look-ups by name and by object), that every registered system
  passed the validation of `__init__` and carries the name it is registered under, and that a
  rejected construction changes nothing.
-/
import UnytModel.UnitSystem

namespace Unyt

/-! ### an insertion-ordered `dict` with string keys -/
section dict
variable {α : Type}

/-- `d.get(k)` -/
def dfind? : List (String × α) → String → Option α
  | [], _ => none
  | (k, v) :: r, n => if k = n then some v else dfind? r n

/-- `d[k] = v`: an existing key keeps its position, a new key is appended -/
def dset : List (String × α) → String → α → List (String × α)
  | [], n, v => [(n, v)]
  | (k, w) :: r, n, v => if k = n then (k, v) :: r else (k, w) :: dset r n v

end dict

/-- a live `UnitSystem` object: `name`, `units_map`, `base_units` and `self.registry` -/
structure SysObj (K : Type) where
  sys : USys K
  reg : Option (Lut K)

/-- the process state: the `UnitSystem` objects that exist (object id = index) and
    `unit_system_registry` (name ↦ object id) -/
structure SysWorld (K : Type) where
  heap : List (SysObj K)
  names : List (String × Nat)

/-- one step of a history -/
inductive SysOp (K : Type)
  /-- `UnitSystem(name, …eight units…, registry=reg)` -/
  | construct (name : String) (reg : Option (Lut K)) (units : List (Option (UExpr K)))
  /-- `obj[dim]` on a live object (memoises) -/
  | getitem (obj : Nat) (d : Dim)
  /-- `obj[dim] = unit` on a live object -/
  | setitem (obj : Nat) (d : Dim) (e : UExpr K)
  /-- `_sanitize_unit_system("name", …)` -/
  | byName (name : String)
  /-- `_sanitize_unit_system(obj, …)` -/
  | byObject (obj : Nat)

/-- what a step answers -/
inductive SysOut (K : Type)
  | built (id : Nat)        -- the constructor returned the new object
  | unit (e : UExpr K)      -- the expression of the unit `obj[dim]` returned
  | done                    -- `obj[dim] = …` returned
  | system (id : Nat)       -- the object the look-up resolved to
  | raised (e : Err)

namespace SysWorld
variable {K : Type}

/-- `unit_system_registry[name]` -/
def resolveName (W : SysWorld K) (name : String) : SysOut K :=
  match dfind? W.names name with
  | some i => .system i
  | none => .raised .KeyError

section
variable [Mul K] [OfNat K 1] [RPow K]

/-- one step.  `pre`, `t0`, `inv` are the prefix table, the default unit table and
    `inv_name_alternatives` consulted by the validation of `__init__`.
    (`Err.Other` on an object id that does not exist: the history is ill-formed.) -/
def step (pre : Prefixes K) (t0 : Lut K) (inv : List (String × String)) (W : SysWorld K) :
    SysOp K → SysWorld K × SysOut K
  | .construct name reg units =>
    -- validate (may raise) → base_units → unit_system_registry[name] = self
    match USys.init pre t0 inv reg name units with
    | .error e => (W, .raised e)
    | .ok S =>
      ({ heap := W.heap ++ [{ sys := S, reg := reg }], names := dset W.names name W.heap.length },
       .built W.heap.length)
  | .getitem i d =>
    match W.heap[i]? with
    | none => (W, .raised .Other)
    | some o =>
      match o.sys.getItem d with
      | .error e => (W, .raised e)
      | .ok (e, S') => ({ W with heap := W.heap.set i { o with sys := S' } }, .unit e)
  | .setitem i d e =>
    match W.heap[i]? with
    | none => (W, .raised .Other)
    | some o =>
      match o.sys.setItem d e with
      | .error err => (W, .raised err)
      | .ok S' => ({ W with heap := W.heap.set i { o with sys := S' } }, .done)
  | .byName name => (W, W.resolveName name)
  | .byObject i =>
    match W.heap[i]? with
    | none => (W, .raised .Other)
    | some o => (W, W.resolveName o.sys.name)

/-- the state after a history -/
def run (pre : Prefixes K) (t0 : Lut K) (inv : List (String × String)) (W : SysWorld K) :
    List (SysOp K) → SysWorld K
  | [] => W
  | op :: ops => run pre t0 inv (step pre t0 inv W op).1 ops

/-- the state after a history together with every answer (what the driver prints) -/
def trace (pre : Prefixes K) (t0 : Lut K) (inv : List (String × String)) (W : SysWorld K) :
    List (SysOp K) → SysWorld K × List (SysOut K)
  | [] => (W, [])
  | op :: ops =>
    let r := step pre t0 inv W op
    let rest := trace pre t0 inv r.1 ops
    (rest.1, r.2 :: rest.2)

end

/-- did the validation loop of `__init__` pass -/
def validated [Mul K] (pre : Prefixes K) (t0 : Lut K) (inv : List (String × String)) (o : SysObj K) : Bool :=
  match validateAll pre t0 inv o.reg o.sys.base with
  | .ok _ => true
  | .error _ => false

/-- executable form of the registry invariant (decided by the kernel for the regenerated
    registry): every object passed the validation, every registered name leads to an object that
    carries this name -/
def checkB [Mul K] (pre : Prefixes K) (t0 : Lut K) (inv : List (String × String)) (W : SysWorld K) : Bool :=
  W.heap.all (validated pre t0 inv) &&
  W.names.all fun (n, i) =>
    match W.heap[i]? with
    | some o => o.sys.name == n
    | none => false

/-- the world in which `names` are registered, in this order, each with an object of its own
    and no registry (`import unyt` leaves the built-in systems in this shape) -/
def ofSystems (l : List (USys K)) : SysWorld K :=
  { heap := l.map fun S => { sys := S, reg := none },
    names := (l.zipIdx).map fun (S, i) => (S.name, i) }

end SysWorld
end Unyt
