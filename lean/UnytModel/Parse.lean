/-
  UnytModel.Parse — the string path of `Unit.__new__`.

  Models, for the parser's own vocabulary (numbers, names, `* / **`, unary `+ -`, parentheses,
  `sqrt(·)`, the `%`/`°` rewrites, the empty string):

    unyt/unit_object.py   Unit.__new__ (str / bytes branch), _get_unit_data_from_expr
    unyt/_parsing.py      parse_unyt_expr, _auto_positive_symbol, global_dict
    sympy.parsing         stringify_expr (str.strip, generate_tokens, untokenize), auto_number,
                          rationalize, eval of the transformed code (Python's operator precedence,
                          sympy's automatic evaluation of products and powers of positive symbols)

  `parseUnit : String → Except PErr (UExpr Rat)`.

  **Inside the vocabulary the model is a model of the code** (compared with the library on every
  input of the correspondence run): `ok e`, `PErr.unitParseError` (the code raises UnitParseError)
  and `PErr.hang` (integer towers / float exponents that do not come back — the defect the
  totality clause is about).
  **Outside the vocabulary the model is the specification, not the code**: it answers
  `PErr.outOfVocabulary` — "the property requires UnitParseError here" — for characters outside
  the lexer's alphabet (`, [ ] { } ' " # = < > ! . \\ …`), for binary `+`/`-`, and for the class names
  of `global_dict`.  The real code does NOT always behave like that (`Unit('m+m')` is accepted,
  `Unit("Symbol('')")` raises IndexError — findings `vocab|*`, `escape|outside-vocabulary|*`);
  those clauses of the property ("no other exception escapes", "nothing outside the vocabulary is
  evaluated") rest on the direct oracles of the harness, not on a theorem.
  `PErr.unmodelled` marks inputs whose outcome depends on sympy internals this model does not
  cover (irrational coefficients, `zoo`/`nan`, numbers beyond 8192 bits, nesting beyond 100, a lone
  CR); the harness counts them and applies only the direct oracles there.
-/
import UnytModel.Tables
import UnytModel.Generated.ParseVocab
import UnytModel.Generated.ParseNames

namespace Unyt
namespace Parse

inductive PErr
  | unitParseError | outOfVocabulary | hang | unmodelled
deriving DecidableEq, Repr, Inhabited

def PErr.str : PErr → String
  | .unitParseError => "UnitParseError" | .outOfVocabulary => "outOfVocabulary"
  | .hang => "hang" | .unmodelled => "unmodelled"

/-- the shared exception enum (what the property requires outside the vocabulary is
    UnitParseError; a hang is no exception) -/
def PErr.toErr : PErr → Err
  | .unitParseError => .UnitParseError | .outOfVocabulary => .UnitParseError
  | .hang => .RuntimeError | .unmodelled => .Other

/-! ### characters -/

/-- `str.isspace()` — what `str.strip()` removes at both ends (stringify_expr strips first) -/
def isPySpace (c : Char) : Bool :=
  let n := c.toNat
  (9 ≤ n && n ≤ 13) || (28 ≤ n && n ≤ 32) || n == 0x85 || n == 0xa0 || n == 0x1680
  || (0x2000 ≤ n && n ≤ 0x200a) || n == 0x2028 || n == 0x2029 || n == 0x202f || n == 0x205f
  || n == 0x3000

def pyStrip (cs : List Char) : List Char :=
  ((cs.dropWhile isPySpace).reverse.dropWhile isPySpace).reverse

/-- `str.replace(pat, rep)`: left to right, non-overlapping (`pat` non-empty) -/
def replaceAll (pat rep : List Char) : Nat → List Char → List Char
  | 0, cs => cs
  | _ + 1, [] => []
  | fuel + 1, c :: cs =>
    if pat.isPrefixOf (c :: cs) then rep ++ replaceAll pat rep fuel ((c :: cs).drop pat.length)
    else c :: replaceAll pat rep fuel cs

/-- the `unit_expr.replace(a, b)` statements of `parse_unyt_expr` (`%` → `percent`, `Δ°` → `delta_deg`,
    `°` → `deg`): the regenerated `Generated.parseRewriteCodes`, applied one after the other -/
def rewrite (cs : List Char) : List Char :=
  Generated.parseRewriteCodes.foldl
    (fun acc (p : List Nat × List Nat) =>
      if p.1.isEmpty then acc
      else replaceAll (p.1.map Char.ofNat) (p.2.map Char.ofNat) (acc.length + 1) acc) cs

def isDigit (c : Char) : Bool := 48 ≤ c.toNat && c.toNat ≤ 57

/-- a character the tokenizer takes as the start of a NAME: ASCII letter, `_`, any non-ASCII
    character (a non-identifier one makes the tokenizer or the table look-up fail, which is
    the same `UnitParseError` as an unknown name) -/
def isIdStart (c : Char) : Bool :=
  let n := c.toNat
  (65 ≤ n && n ≤ 90) || (97 ≤ n && n ≤ 122) || n == 95 || n ≥ 128

def isIdCont (c : Char) : Bool := isIdStart c || isDigit c

def decVal (c : Char) : Option Nat := if isDigit c then some (c.toNat - 48) else none
def hexVal (c : Char) : Option Nat :=
  let n := c.toNat
  if isDigit c then some (n - 48)
  else if 97 ≤ n && n ≤ 102 then some (n - 87)
  else if 65 ≤ n && n ≤ 70 then some (n - 55) else none
def octVal (c : Char) : Option Nat := if 48 ≤ c.toNat && c.toNat ≤ 55 then some (c.toNat - 48) else none
def binVal (c : Char) : Option Nat := if c = '0' then some 0 else if c = '1' then some 1 else none

/-! ### tokens -/

inductive Tok
  /-- a NUMBER literal `m × 10^e`; its value is computed only when the code is evaluated
      (a syntax error elsewhere in the string is reported before `Rational('1e999999999')` is tried) -/
  | num (m : Nat) (e : Int) | name (s : List Char) | star | dstar | slash | lpar | rpar | minus | plus
deriving DecidableEq, Repr, Inhabited

/-- Python's `digitpart`: `digit (["_"] digit)*`, the first character already known to be a
    digit.  Returns the digits (most significant first) and the rest; `none` when an
    underscore is not followed by a digit. -/
def scanDigs (dv : Char → Option Nat) : Nat → List Char → List Nat → Option (List Nat × List Char)
  | 0, _, _ => none
  | _ + 1, [], acc => some (acc.reverse, [])
  | fuel + 1, c :: cs, acc =>
    match dv c with
    | some d => scanDigs dv fuel cs (d :: acc)
    | none =>
      if c = '_' then
        match cs with
        | c2 :: cs2 =>
          match dv c2 with
          | some d => scanDigs dv fuel cs2 (d :: acc)
          | none => none
        | [] => none
      else some (acc.reverse, c :: cs)

def digitsVal (base : Nat) (ds : List Nat) : Nat := ds.foldl (fun a d => a * base + d) 0

/-- numbers whose numerator or denominator exceeds this many bits are outside the exact model -/
def bitLimit : Nat := 8192
/-- a power whose result would exceed this many bits is modelled as not terminating -/
def hangBits : Nat := 2 ^ 28

def bitsOf (n : Nat) : Nat := if n = 0 then 0 else n.log2 + 1

def okRat (q : Rat) : Bool := bitsOf q.num.natAbs ≤ bitLimit && bitsOf q.den ≤ bitLimit

def guardRat (q : Rat) : Except PErr Rat := if okRat q then .ok q else .error .unmodelled

/-- `[eE][+-]?digitpart` → signed exponent and rest; `none` when there is no well-formed
    exponent at this point (then the `e` is an identifier character following the number) -/
def scanExponent (cs : List Char) : Option (Int × List Char) :=
  match cs with
  | e :: rest =>
    if e = 'e' || e = 'E' then
      let (neg, rest') : Bool × List Char :=
        match rest with
        | '+' :: r => (false, r)
        | '-' :: r => (true, r)
        | r => (false, r)
      match rest' with
      | d :: _ =>
        if isDigit d then
          match scanDigs decVal (rest'.length + 1) rest' [] with
          | some (ds, r) =>
            let v : Int := digitsVal 10 ds
            some (if neg then -v else v, r)
          | none => none
        else none
      | [] => none
    else none
  | [] => none

/-- value of `mantissa × 10^exp` as `Rational('…')` computes it; exponents beyond 2000 are
    outside the exact model, beyond 10⁸ they do not finish in practical time
    (`fractions.Fraction` computes `10**exp` whatever the mantissa is) -/
def numValue (m : Nat) (e : Int) : Except PErr Rat :=
  if e.natAbs ≥ 10 ^ 8 then .error .hang
  else if e.natAbs > 2000 then .error .unmodelled
  else
    let q : Rat :=
      if e ≥ 0 then (((m * 10 ^ e.toNat : Nat) : Int) : Rat)
      else (((m : Nat) : Int) : Rat) / (((10 ^ e.natAbs : Nat) : Int) : Rat)
    guardRat q

/-- the literal `intDs.fracDs e exp` as mantissa and power of ten (the size tests of `numValue`
    then see the written exponent shifted by the number of fraction digits — a handful) -/
def mkDecimal (intDs fracDs : List Nat) (exp : Int) : Nat × Int :=
  (digitsVal 10 (intDs ++ fracDs), exp - fracDs.length)

/-- one NUMBER token (the input starts with a digit, or with `.` followed by a digit).
    `none` for what Python's tokenizer rejects (`007`, `1__0`, `0x`, `1_`). -/
def lexNumber (cs : List Char) : Option ((Nat × Int) × List Char) :=
  let fuel := cs.length + 1
  let radix (dv : Char → Option Nat) (base : Nat) (rest : List Char) : Option ((Nat × Int) × List Char) :=
    let rest := match rest with | '_' :: r => r | r => r
    match rest with
    | d :: _ =>
      if (dv d).isSome then
        match scanDigs dv fuel rest [] with
        | some (ds, r) => some ((digitsVal base ds, 0), r)
        | none => none
      else none
    | [] => none
  match cs with
  | '0' :: 'x' :: r => radix hexVal 16 r
  | '0' :: 'X' :: r => radix hexVal 16 r
  | '0' :: 'o' :: r => radix octVal 8 r
  | '0' :: 'O' :: r => radix octVal 8 r
  | '0' :: 'b' :: r => radix binVal 2 r
  | '0' :: 'B' :: r => radix binVal 2 r
  | _ =>
    -- integer part (possibly empty when the literal starts with '.')
    let ip : Option (List Nat × List Char) :=
      match cs with
      | c :: _ => if isDigit c then scanDigs decVal fuel cs [] else some ([], cs)
      | [] => some ([], cs)
    match ip with
    | none => none
    | some (intDs, r1) =>
      -- fraction
      let fp : Option (Bool × List Nat × List Char) :=
        match r1 with
        | '.' :: r2 =>
          match r2 with
          | d :: _ => if isDigit d then (scanDigs decVal fuel r2 []).map fun (ds, r) => (true, ds, r)
                      else some (true, [], r2)
          | [] => some (true, [], r2)
        | _ => some (false, [], r1)
      match fp with
      | none => none
      | some (hasDot, fracDs, r3) =>
        if intDs.isEmpty && fracDs.isEmpty then none else
        match scanExponent r3 with
        | some (e, r4) => some (mkDecimal intDs fracDs e, r4)
        | none =>
          if hasDot then some (mkDecimal intDs fracDs 0, r3)
          else
            -- a plain decimal integer: no leading zeros unless it is all zeros
            let v := digitsVal 10 intDs
            if intDs.head? == some 0 && v ≠ 0 then none
            else some ((v, 0), r3)

def isBlank (c : Char) : Bool := c = ' ' || c = '\t' || c.toNat = 12

def takeName : List Char → List Char → List Char × List Char
  | [], acc => (acc.reverse, [])
  | c :: cs, acc => if isIdCont c then takeName cs (c :: acc) else (acc.reverse, c :: cs)

/-- the tokenizer: `depth` is the current parenthesis nesting (a newline is white space inside
    parentheses and ends the expression outside) -/
def lex : Nat → Nat → List Char → Except PErr (List Tok)
  | 0, _, _ => .error .unmodelled
  | _ + 1, depth, [] => if depth = 0 then .ok [] else .error .unitParseError
  | fuel + 1, depth, c :: cs =>
    if c = ' ' || c = '\t' || c.toNat = 12 then lex fuel depth cs
    else if c = '\r' then .error .unmodelled      -- `tokenize` glues a lone CR to the next token: not modelled
    else if c = '\n' then
      if depth = 0 then .error .unitParseError else lex fuel depth cs
    else if c = '(' then (lex fuel (depth + 1) cs).map (Tok.lpar :: ·)
    else if c = ')' then
      if depth = 0 then .error .unitParseError else (lex fuel (depth - 1) cs).map (Tok.rpar :: ·)
    else if c = '*' then
      match cs with
      | '*' :: cs' => (lex fuel depth cs').map (Tok.dstar :: ·)
      | _ =>
        -- `untokenize` glues neighbouring operator tokens back together, so `* *` (blanks, but
        -- no line break, in between) is read as `**`
        match cs.dropWhile isBlank with
        | '*' :: cs' =>
          (match cs' with
           | '*' :: _ => (lex fuel depth cs).map (Tok.star :: ·)        -- `* **` is `***`: refused by the parser anyway
           | _ => (lex fuel depth cs').map (Tok.dstar :: ·))
        | _ => (lex fuel depth cs).map (Tok.star :: ·)
    else if c = '/' then (lex fuel depth cs).map (Tok.slash :: ·)
    else if c = '-' then (lex fuel depth cs).map (Tok.minus :: ·)
    else if c = '+' then (lex fuel depth cs).map (Tok.plus :: ·)
    else if isDigit c || (c = '.' && (match cs with | d :: _ => isDigit d | [] => false)) then
      match lexNumber (c :: cs) with
      | none => .error .unitParseError
      | some ((m, e), rest) =>
        -- `2m`, `1_`: a NAME character directly after a number is never accepted — except the
        -- imaginary suffix: `1j` is a NUMBER token, `auto_number` writes it as `<number>*I`, the number
        -- is evaluated (`1e999999999j` does not come back) and then `I`, no name of `global_dict`,
        -- raises NameError.  The pseudo-name `[NUL]` evaluates to such an immediately failing value.
        if (match rest with | d :: _ => isIdCont d | [] => false) then
          match rest with
          | j :: rest' =>
            if (j = 'j' || j = 'J') && !(match rest' with | d :: _ => isIdCont d | [] => false) then
              (lex fuel depth rest').map (fun ts => Tok.num m e :: Tok.star :: Tok.name [Char.ofNat 0] :: ts)
            else .error .unitParseError
          | [] => .error .unitParseError
        else (lex fuel depth rest).map (Tok.num m e :: ·)
    else if isIdStart c then
      let (nm, rest) := takeName cs [c]
      (lex fuel depth rest).map (Tok.name nm :: ·)
    else .error .outOfVocabulary        -- a character outside the alphabet of unit strings

def maxDepth : List Tok → Nat → Nat → Nat
  | [], _, m => m
  | .lpar :: r, d, m => maxDepth r (d + 1) (max m (d + 1))
  | .rpar :: r, d, m => maxDepth r (d - 1) m
  | _ :: r, d, m => maxDepth r d m

/-- string → tokens: strip, tokenize.  Beyond 100 nested parentheses or 600 tokens
    CPython's own limits come into play (200 levels, recursion limit) — not modelled. -/
def tokenize (cs : List Char) : Except PErr (List Tok) :=
  let s := pyStrip cs
  match lex (s.length + 1) 0 s with
  | .error e => .error e
  | .ok ts =>
    if ts.length > 600 || maxDepth ts 0 0 > 100 then .error .unmodelled
    else .ok ts

/-! ### syntax: Python's expression grammar restricted to the vocabulary

    term    := factor (('*' | '/') factor)*
    factor  := ('+' | '-') factor | power
    power   := primary ['**' factor]
    primary := atom ('(' term ')')*
    atom    := NUMBER | NAME | '(' term ')'
-/

inductive PExpr
  | num (m : Nat) (e : Int) | name (s : List Char)
  | neg (e : PExpr) | pos (e : PExpr)
  | mul (a b : PExpr) | div (a b : PExpr) | pow (a b : PExpr)
  | call (f arg : PExpr)
deriving DecidableEq, Repr, Inhabited

abbrev PRes := Option (PExpr × List Tok)

mutual
  def pTerm : Nat → List Tok → PRes
    | 0, _ => none
    | fuel + 1, ts =>
      match pFactor fuel ts with
      | none => none
      | some (e, rest) => pTermLoop fuel e rest
  def pTermLoop : Nat → PExpr → List Tok → PRes
    | 0, _, _ => none
    | fuel + 1, lhs, ts =>
      match ts with
      | .star :: r =>
        match pFactor fuel r with
        | none => none
        | some (e, rest) => pTermLoop fuel (.mul lhs e) rest
      | .slash :: r =>
        match pFactor fuel r with
        | none => none
        | some (e, rest) => pTermLoop fuel (.div lhs e) rest
      | _ => some (lhs, ts)
  def pFactor : Nat → List Tok → PRes
    | 0, _ => none
    | fuel + 1, ts =>
      match ts with
      | .minus :: r => (pFactor fuel r).map fun (e, rest) => (.neg e, rest)
      | .plus :: r => (pFactor fuel r).map fun (e, rest) => (.pos e, rest)
      | _ =>
        match pPrimary fuel ts with
        | none => none
        | some (b, rest) =>
          match rest with
          | .dstar :: r => (pFactor fuel r).map fun (e, rest') => (.pow b e, rest')
          | _ => some (b, rest)
  def pPrimary : Nat → List Tok → PRes
    | 0, _ => none
    | fuel + 1, ts =>
      match ts with
      | .num m e :: r => pTrailers fuel (.num m e) r
      | .name s :: r => pTrailers fuel (.name s) r
      | .lpar :: r =>
        match pTerm fuel r with
        | some (e, .rpar :: rest) => pTrailers fuel e rest
        | _ => none
      | _ => none
  def pTrailers : Nat → PExpr → List Tok → PRes
    | 0, _, _ => none
    | fuel + 1, f, ts =>
      match ts with
      | .lpar :: r =>
        match pTerm fuel r with
        | some (a, .rpar :: rest) => pTrailers fuel (.call f a) rest
        | _ => none
      | _ => some (f, ts)
end

/-- the whole token list must be one `term` -/
def parseTokens (ts : List Tok) : Option PExpr :=
  match pTerm (4 * ts.length + 40) ts with
  | some (e, []) => some e
  | _ => none

/-! ### evaluation: what Python + sympy make of the syntax tree -/

/-- `⌊x^(1/k)⌋` by bisection -/
def irootAux (x k : Nat) : Nat → Nat → Nat → Nat
  | 0, lo, _ => lo
  | fuel + 1, lo, hi =>
    if lo + 1 ≥ hi then lo
    else
      let mid := (lo + hi) / 2
      if mid ^ k ≤ x then irootAux x k fuel mid hi else irootAux x k fuel lo mid

def iroot (x k : Nat) : Nat :=
  if k = 0 then 0 else if x = 0 then 0 else
  let hi := 2 ^ (bitsOf x / k + 1)
  irootAux x k (bitsOf x + 2) 0 (hi + 1)

/-- exact `k`-th root of a positive rational, if it is rational -/
def ratRoot (c : Rat) (k : Nat) : Option Rat :=
  let n := c.num.natAbs
  let d := c.den
  if k > bitLimit then (if n = 1 && d = 1 then some 1 else none) else
  let rn := iroot n k
  let rd := iroot d k
  if rn ^ k = n && rd ^ k = d then some (((rn : Nat) : Int) / (((rd : Nat) : Int) : Rat)) else none

/-- integer power of a rational by repeated multiplication (exponent already known to be small) -/
def ratPowNat (c : Rat) : Nat → Rat
  | 0 => 1
  | n + 1 => ratPowNat c n * c

def ratPowInt (c : Rat) (n : Int) : Rat :=
  if n ≥ 0 then ratPowNat c n.toNat else 1 / ratPowNat c n.natAbs

/-- `c ** n` for a rational `c` and an integer `n`, with the size guards:
    exact up to `bitLimit` bits, `hang` beyond `hangBits`, `unmodelled` in between;
    `0 ** negative` is sympy's `zoo` (unmodelled) -/
def numPowInt (c : Rat) (n : Int) : Except PErr Rat :=
  if n = 0 then .ok 1
  else if c = 0 then (if n > 0 then .ok 0 else .error .unmodelled)
  else if c = 1 then .ok 1
  else if c = -1 then .ok (if n % 2 = 0 then 1 else -1)
  else
    let w := max (bitsOf c.num.natAbs) (bitsOf c.den)
    let est := n.natAbs * (w - 1)
    if est > hangBits then .error .hang
    else if est > bitLimit then .error .unmodelled
    else guardRat (ratPowInt c n)

/-- what the evaluation of a sub-expression yields -/
inductive Val
  /-- a rational coefficient times symbols to rational powers (factor list normalised) -/
  | mono (e : UExpr Rat)
  /-- the function object `sqrt` -/
  | fn
  /-- one of `Symbol`, `Integer`, `Float`, `Rational` of `global_dict`: outside the vocabulary -/
  | ty
  /-- a factor on which `Unit()` fails with `cls`, times the clean symbols `rest`;
      `sticky`: survives multiplication and division by clean monomials -/
  | bad (cls : PErr) (rest : Factors) (sticky : Bool)
deriving Repr, Inhabited

def okFactors (f : Factors) : Bool := f.all fun p => okRat p.2

def mkMono (c : Rat) (f : Factors) : Except PErr Val :=
  if !okRat c then .error .unmodelled
  else if c = 0 then .ok (.mono ⟨0, []⟩)                -- sympy: 0 * anything = 0
  else
    let nf := UExpr.normF f
    if okFactors nf then .ok (.mono ⟨c, nf⟩) else .error .unmodelled

def upe {α} : Except PErr α := .error .unitParseError
def unm {α} : Except PErr α := .error .unmodelled

/-- the NAME tokens `_auto_positive_symbol` leaves alone (`name in global_dict`, callable):
    the regenerated key set of `global_dict` -/
def globalTypes : List (List Nat) := Generated.parseGlobalTypeCodes
def globalFns : List (List Nat) := Generated.parseGlobalFnCodes

def vMul (a b : Val) : Except PErr Val :=
  match a, b with
  | .fn, _ | _, .fn | .ty, _ | _, .ty => upe      -- TypeError inside eval → UnitParseError
  | .mono x, .mono y => mkMono (x.coeff * y.coeff) (x.factors ++ y.factors)
  | .mono x, .bad c r true | .bad c r true, .mono x =>
    if x.coeff = 0 then unm else .ok (.bad c (UExpr.normF (r ++ x.factors)) true)
  | _, _ => unm

def vInv (b : Val) : Except PErr Val :=
  match b with
  | .fn | .ty => upe
  | .mono y => if y.coeff = 0 then unm else mkMono (1 / y.coeff) (UExpr.negF y.factors)
  | .bad c r true => .ok (.bad c (UExpr.negF r) true)
  | _ => unm

def vDiv (a b : Val) : Except PErr Val :=
  match a, b with
  | .fn, _ | _, .fn | .ty, _ | _, .ty => upe
  | _, _ => do let ib ← vInv b; vMul a ib

def vNeg (a : Val) : Except PErr Val :=
  match a with
  | .fn | .ty => upe
  | .mono x => mkMono (-x.coeff) x.factors
  | .bad c r true => .ok (.bad c r true)
  | _ => unm

def vPos (a : Val) : Except PErr Val :=
  match a with
  | .fn | .ty => upe
  | .mono x => .ok (.mono x)
  | .bad c r true => .ok (.bad c r true)
  | _ => unm

def isBareSymbol (x : UExpr Rat) : Bool :=
  x.coeff == 1 && (match x.factors with | [(_, q)] => q == 1 | _ => false)

/-- `a ** b` -/
def vPow (a b : Val) : Except PErr Val :=
  match a, b with
  | .fn, _ | _, .fn | .ty, _ | _, .ty => upe
  | .mono x, .mono y =>
    if !y.factors.isEmpty then
      -- symbolic exponent: only the shapes whose outcome does not depend on sympy's rewriting
      if x.coeff == 1 && x.factors.isEmpty then .ok (.mono ⟨1, []⟩)            -- 1 ** anything = 1
      else if isBareSymbol x then
        if isBareSymbol y then .ok (.bad .unitParseError x.factors false)       -- "Invalid unit expression"
        else .ok (.bad .unitParseError x.factors false)                         -- float(1.0**(2*s)): TypeError, caught
      else if x.factors.isEmpty && x.coeff.den == 1 && x.coeff ≥ 2 && isBareSymbol y then
        .ok (.bad .unitParseError [] false)
      else unm
    else
      let q := y.coeff
      let c := x.coeff
      if q = 0 then .ok (.mono ⟨1, []⟩)
      else if c = 0 then (if q > 0 then .ok (.mono ⟨0, []⟩) else unm)
      else if q.den = 1 then do
        let cn ← numPowInt c q.num
        mkMono cn (UExpr.scaleF x.factors q)
      else if c > 0 then
        match ratRoot c q.den with
        | none => unm                                                             -- irrational coefficient
        | some r => do
          let cn ← numPowInt r q.num
          mkMono cn (UExpr.scaleF x.factors q)
      else
        -- negative number under a non-integer power: `I` (→ UnitParseError) for square roots,
        -- `(-1)**(p/q)` (→ float() of a complex: TypeError, caught → UnitParseError) otherwise
        -- (sympy first takes out the integer part of the exponent: `(-8)**(19**9/3)` computes 2**(19**9))
        let w := max (bitsOf c.num.natAbs) (bitsOf c.den)
        let est := (q.num.natAbs / q.den) * (w - 1)
        if est > hangBits then .error .hang
        else if est > bitLimit then unm
        else
        let f := UExpr.normF (UExpr.scaleF x.factors q)
        if okFactors f then .ok (.bad .unitParseError f true) else unm
  | _, _ => unm

/-- `f(arg)`: only `sqrt` is callable; `sqrt(x)` is `x ** (1/2)` -/
def vCall (f a : Val) : Except PErr Val :=
  match f, a with
  | .fn, .mono x => vPow (.mono x) (.mono ⟨(1 : Rat) / 2, []⟩)
  | .fn, .fn | .fn, .ty => upe                       -- SympifyError
  | .fn, .bad _ _ _ => unm
  | .ty, _ => upe                                    -- `Integer(2)`: accepted by the code, outside the vocabulary
  | _, _ => upe                                      -- "object is not callable"

/-- `inv_name_alternatives.get(name, name)` through the regenerated search tree
    (`Generated.nameTree`; it answers every key of the shared table like the shared `canonName`,
    theorem `name_tree_matches_table`) -/
def canonTree (cs : List Char) : String :=
  match Generated.nameTree.find? (cs.map Char.toNat) with
  | some v => v
  | none =>
    -- `_rewritten_name_alternatives.get(name, name)`: the documented names containing `°`, under
    -- the spelling the `°`→`deg` rewrite gives them (regenerated; empty on trees without the table)
    match Generated.rewrittenNames.find? (fun p => p.1 == String.ofList cs) with
    | some (_, c) => c
    | none => String.ofList cs

/-- NAME → value: `sqrt` and the four classes of `global_dict` stay Python names, everything
    else becomes `Symbol(inv_name_alternatives.get(name, name), positive=True)` -/
def vName (cs : List Char) : Val :=
  let codes := cs.map Char.toNat
  if codes == [0] then .ty                      -- the `I` of an imaginary literal (see `lex`): NameError
  else if globalFns.contains codes then .fn
  else if globalTypes.contains codes then .ty
  else .mono ⟨1, [(canonTree cs, 1)]⟩

def evalP : PExpr → Except PErr Val
  | .num m e => do let q ← numValue m e; .ok (.mono ⟨q, []⟩)
  | .name s =>
    if s.map Char.toNat == [0] then upe                 -- `[NUL]`: the `I` of `1j`, NameError on evaluation
    else if globalTypes.contains (s.map Char.toNat) then .error .outOfVocabulary   -- `Integer`, `Symbol`, …
    else .ok (vName s)
  | .neg e => do let v ← evalP e; vNeg v
  | .pos e => do let v ← evalP e; vPos v
  | .mul a b => do let x ← evalP a; let y ← evalP b; vMul x y
  | .div a b => do let x ← evalP a; let y ← evalP b; vDiv x y
  | .pow a b => do let x ← evalP a; let y ← evalP b; vPow x y
  | .call f a => do let x ← evalP f; let y ← evalP a; vCall x y

/-! ### `_get_unit_data_from_expr` on the resulting monomial -/

/-- sign bit of the table cell (the double `base_value`) -/
def rawNegative (bits : Nat) : Bool := bits / 2 ^ 63 % 2 = 1

/-- `_lookup_unit_symbol` on the default table, reduced to what the outcome depends on:
    `none` = unknown symbol (UnitParseError), `some neg` = resolves, with the sign of its scale
    (prefix values are positive, so a prefixed symbol has the sign of its stem) -/
def resolveSign (s : String) : Option Bool :=
  let t := defaultLut Rat
  let pre := defaultPrefixes Rat
  match resolve pre t s with
  | some e => some (decide (e.scale < 0))
  | none => none

/-- which failures the factors of a monomial cause: (some symbol unknown, some negative-scale
    symbol under a non-integer power) -/
def factorFlags : Factors → Bool × Bool
  | [] => (false, false)
  | (s, q) :: r =>
    let (u, t) := factorFlags r
    match resolveSign s with
    | none => (true, t)
    | some neg => (u, t || (neg && q.den != 1))

/-- the end of `Unit.__new__`: look the symbols up; `float(scale ** power)` fails with
    `TypeError` for a negative scale under a non-integer power, which the `Pow` branch of
    `_get_unit_data_from_expr` turns into `UnitParseError` like an unknown symbol -/
def unitData (e : UExpr Rat) : Except PErr (UExpr Rat) :=
  match factorFlags e.factors with
  | (false, false) => .ok e
  | _ => upe

def finish : Val → Except PErr (UExpr Rat)
  | .fn | .ty => upe                                 -- "must be a string or sympy Expr"
  | .mono e => unitData e
  | .bad _ _ _ => upe                                -- every such factor ends in `UnitParseError`

/-- a `+` or `-` directly after an operand: binary addition / subtraction, outside the vocabulary -/
def hasBinarySign : List Tok → Bool
  | .num _ _ :: .plus :: _ | .num _ _ :: .minus :: _ => true
  | .name _ :: .plus :: _ | .name _ :: .minus :: _ => true
  | .rpar :: .plus :: _ | .rpar :: .minus :: _ => true
  | _ :: r => hasBinarySign r
  | [] => false

/-- `Unit(s)` for a `str` -/
def parseChars (cs : List Char) : Except PErr (UExpr Rat) :=
  let cs := if cs.isEmpty then Generated.parseEmptyCodes.map Char.ofNat else cs   -- `if not unit_expr: unit_expr = "1"`
  match tokenize (rewrite cs) with
  | .error e => .error e
  | .ok ts =>
    if hasBinarySign ts then .error .outOfVocabulary else
    match parseTokens ts with
    | none => upe
    | some p =>
      match evalP p with
      | .error e => .error e
      | .ok v => finish v

def parseUnit (s : String) : Except PErr (UExpr Rat) := parseChars s.toList

/-- the syntax tree a string is read as (for stating guards) -/
def syntaxOf (s : String) : Option PExpr :=
  let cs := if s.toList.isEmpty then Generated.parseEmptyCodes.map Char.ofNat else s.toList
  match tokenize (rewrite cs) with
  | .error _ => none
  | .ok ts => if hasBinarySign ts then none else parseTokens ts

end Parse
end Unyt
