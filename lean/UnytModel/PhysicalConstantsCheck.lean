/-
  UnytModel.PhysicalConstantsCheck — executable Boolean checks of the regenerated constants
  (symbolic definitions `Generated.C15Ratios`, materialised quantities `Generated.C15Constants`)
  against the hand-written reference `Ref.C15Constants`; decided by the kernel in
  `UnytProofs/C15.lean`, executed by the driver (`Ops/C15.lean`).
-/
import UnytModel.TableCheck
import UnytModel.Generated.C15Ratios
import UnytModel.Generated.C15Constants
import UnytModel.Ref.C15Constants

namespace Unyt.PCheck
open Unyt Generated Ref.C15

/-! ### symbolic layer: defining relations on normal forms -/

/-- name of the constants table / `unit:<symbol>` ↦ its cell expression over ratio names -/
def cellDefs : Defs := constCells ++ unitCells.map (fun p => ("unit:" ++ p.1, p.2))

/-- closed forms of `_physical_ratios.py` over its base constants -/
def closedRatios : Defs := closedForms ratioDefs

/-- rewrite an expression over table names into one over the base constants -/
def closeRel (e : CExpr) : CExpr := (e.subst cellDefs).subst closedRatios

/-- every name a relation mentions is a table name -/
def bound (e : CExpr) : Bool := e.names.all (fun n => (cellDefs.lookup n).isSome)

def relationOk (r : Relation) : Bool :=
  bound r.lhs && bound r.rhs && sameNormalForm (closeRel r.lhs) (closeRel r.rhs)

def relationsOk : Bool := relations.all relationOk

/-- base constants of `_physical_ratios.py` with their exact decimal values -/
def baseQ : List (String × Rat) := baseConstants ratioDefs

def basePositive : Bool := baseQ.all (fun p => decide (0 < p.2))

/-- `lhs / rhs`, a monomial `k·πⁿ` once the base constants are put in, is within the class
    tolerance of 1 at both ends of the enclosure of π (hence, being monotone in π, at π) -/
def numRelationOk (r : NumRelation) : Bool :=
  bound r.lhs && bound r.rhs &&
  match ratioAtPi baseQ piLo (closeRel r.lhs) (closeRel r.rhs),
        ratioAtPi baseQ piHi (closeRel r.lhs) (closeRel r.rhs) with
  | some v1, some v2 => within v1 1 r.tol && within v2 1 r.tol
  | _, _ => false

def numRelationsOk : Bool := numRelations.all numRelationOk

/-- the double `d` of a table cell is the value of the cell's symbolic definition `e` (an
    expression over base constants): same sign, and `e²` evaluated exactly at both ends of the
    enclosure of π is within `2·2⁻⁴⁵` of `d²` -/
def cellMatchesDouble (e : CExpr) (d : Rat) : Bool :=
  match squareAtPi baseQ piLo e, squareAtPi baseQ piHi e with
  | some s1, some s2 =>
    decide (0 < coefOf e * d) && within s1 (d * d) (2 * guiseTol) && within s2 (d * d) (2 * guiseTol)
  | _, _ => false

/-- every value cell of `physical_constants`: the stored double is its symbolic definition -/
def constCellsMatchDoubles : Bool :=
  constTable.all fun c =>
    match constCells.lookup c.spec.name with
    | some e => cellMatchesDouble (e.subst closedRatios) (ratOfBits c.value)
    | none => false

/-- every scale cell of `default_unit_symbol_lut` (outside the literal list of non-monomial
    cells): the stored double is its symbolic definition -/
def unitCellsMatchDoubles : Bool :=
  (defaultLut Rat).all fun p =>
    nonMonomialUnitCells.contains p.1 ||
    match unitCells.lookup p.1 with
    | some e => cellMatchesDouble (e.subst closedRatios) p.2.scale
    | none => false

/-! ### materialised layer -/

/-- SI magnitude: value × SI scale of the unit, at the exact rationals of the two doubles -/
def mag (v s : Nat) : Rat := ratOfBits v * ratOfBits s

def sameSign (a b : Rat) : Bool :=
  (decide (0 < a) && decide (0 < b)) || (decide (a < 0) && decide (b < 0))

/-- the same physical quantity: same dimension and SI magnitude within 2⁻⁴⁵, or — for an
    electromagnetic quantity — the Gaussian counterpart of the other (either direction) -/
def sameQuantity (m : Rat) (d : Dim) (m0 : Rat) (d0 : Dim) : Bool :=
  (d == d0 && within m m0 guiseTol)
  || emCounterparts.any (fun p =>
       sameSign m m0 &&
       ((d0 == p.1 && d == p.2.1 && within (m * m) (m0 * m0 * p.2.2) (2 * guiseTol))
        || (d == p.1 && d0 == p.2.1 && within (m * m * p.2.2) (m0 * m0) (2 * guiseTol))))

def _root_.Unyt.Generated.MatRow.mag (r : MatRow) : Rat := PCheck.mag r.value r.scale
def _root_.Unyt.Generated.ConstRow.mag (c : ConstRow) : Rat := PCheck.mag c.value c.unitScale

def sameRows (a b : MatRow) : Bool := sameQuantity a.mag a.dim b.mag b.dim

/-- the writes of `add_constants`, one block per table row -/
def blocks : List (List (String × Guise)) := constTable.map (fun c => constWrites emUnits c.spec)

def expectedKeys : List String := blocks.flatMap (fun b => b.map (·.1))

/-- a namespace holds exactly the keys `add_constants` is modelled to write -/
def namesOk (rows : List MatRow) : Bool := rows.map (·.name) == expectedKeys

/-- consecutive blocks of the given lengths -/
def splitBy {α : Type} : List Nat → List α → List (List α)
  | [], _ => []
  | n :: ns, xs => xs.take n :: splitBy ns (xs.drop n)

/-- the rows of a namespace grouped by the table row they come from, each with its guise -/
def rowsByConst (rows : List MatRow) : List (ConstRow × List (Guise × MatRow)) :=
  ((constTable.zip (splitBy (blocks.map (·.length)) rows)).zip blocks).map
    fun p => (p.1.1, (p.2.map (·.2)).zip p.1.2)

/-- every guise denotes the quantity of its table row -/
def matchesTable (rows : List MatRow) : Bool :=
  (rowsByConst rows).all fun p => p.2.all fun gr =>
    sameQuantity gr.2.mag gr.2.dim p.1.mag p.1.spec.dim

/-- `X_mks` (and `hmks`) is the table entry itself: same double, same unit scale, same dimension -/
def mksIsTable (rows : List MatRow) : Bool :=
  (rowsByConst rows).all fun p => p.2.all fun gr =>
    !(gr.1 == .mks || gr.1 == .hmks)
    || (gr.2.value == p.1.value && gr.2.scale == p.1.unitScale && gr.2.dim == p.1.spec.dim)

/-- `X_cgs` / `hcgs` really are CGS: no MKS current in their dimension (an electromagnetic
    constant written there is the Gaussian counterpart, not the SI value under another name) -/
def cgsHasNoCurrent (rows : List MatRow) : Bool :=
  (rowsByConst rows).all fun p => p.2.all fun gr =>
    !(gr.1 == .cgs || gr.1 == .hcgs) || !gr.2.dim.hasCurrent

/-- every alternate name equals the principal name of its row, within the namespace -/
def aliasesEqual (rows : List MatRow) : Bool :=
  (rowsByConst rows).all fun p =>
    match p.2[principalPos emUnits p.1.spec]? with
    | some pr => pr.1 == .plain && p.2.all fun gr => gr.1 != .plain || sameRows gr.2 pr.2
    | none => false

/-- every `_mks` / `_cgs` / `hmks` / `hcgs` entry equals the principal name of its row -/
def suffixesEqual (rows : List MatRow) : Bool :=
  (rowsByConst rows).all fun p =>
    match p.2[principalPos emUnits p.1.spec]? with
    | some pr => p.2.all fun gr => gr.1 == .plain || sameRows gr.2 pr.2
    | none => false

/-- a namespace built for another registry / unit system equals `unyt.physical_constants`
    entry by entry -/
def registryEqual (pc rows : List MatRow) : Bool :=
  rows.length == pc.length && (rows.zip pc).all fun p => sameRows p.1 p.2

/-- the top-level namespace holds the very constants of `unyt.physical_constants` -/
def bitwiseEqual (pc rows : List MatRow) : Bool :=
  rows.length == pc.length && (rows.zip pc).all fun p =>
    p.1.name == p.2.name && p.1.value == p.2.value && p.1.scale == p.2.scale && p.1.dim == p.2.dim

def pcRows : List MatRow := (spaces.lookup "pc").getD []
def topRows : List MatRow := (spaces.lookup "top").getD []

def allSpaces (f : List MatRow → Bool) : Bool := spaces.all fun s => f s.2

/-! ### the unit table against the constants -/

/-- the table row a bare (unsuffixed) namespace key comes from -/
def constOfKey (k : String) : Option ConstRow :=
  ((constTable.zip blocks).find? fun p => p.2.any fun w => w.2 == Guise.plain && w.1 == k).map (·.1)

/-- no unit symbol looks like a suffixed guise (`…_mks`, `…_cgs`, `hmks`, `hcgs`), so the bare
    keys are all the namespace keys a unit symbol can coincide with -/
def unitSymbolsUnsuffixed : Bool :=
  (defaultLut Rat).all fun p =>
    let cs := p.1.toList.reverse
    !(cs.take 4 == ['s', 'k', 'm', '_'] || cs.take 4 == ['s', 'g', 'c', '_'] || p.1 == "hmks" || p.1 == "hcgs")

/-- a unit symbol that is also a constant denotes the same quantity — unless it is a declared
    homonym, which must then really be a different kind of quantity -/
def unitVsConstOk (k : String) (e : Entry Rat) : Bool :=
  match constOfKey k with
  | none => true
  | some c =>
    if homonyms.contains k then e.dim != c.spec.dim
    else e.dim == c.spec.dim && e.offset == 0 && within e.scale c.mag guiseTol

def unitAndConstantAgree (excl : List String) : Bool :=
  (defaultLut Rat).all fun p => unitVsConstOk p.1 p.2 || excl.contains p.1

def unitVsConstOkByName (k : String) : Bool :=
  match (defaultLut Rat).find? k with
  | some e => unitVsConstOk k e
  | none => false

def oneBits : Nat := 4607182418800017408

/-- … and already at the source level: the unit cell and the value cell of the table row the
    key comes from (principal name or alias) have the same normal form over the base constants
    (the constant being stated in a coherent SI unit).  A unit symbol that is no constant key
    passes; a constant key whose cells cannot be found fails. -/
def unitVsConstSymbolicOk (k : String) : Bool :=
  match constOfKey k with
  | none => true
  | some c =>
    homonyms.contains k ||
    match constCells.lookup c.spec.name, unitCells.lookup k with
    | some ce, some ue =>
      c.unitScale == oneBits && sameNormalForm (ue.subst closedRatios) (ce.subst closedRatios)
    | _, _ => false

def unitAndConstantAgreeSymbolic (excl : List String) : Bool :=
  unitCells.all fun p => excl.contains p.1 || unitVsConstSymbolicOk p.1

/-! ### the unit strings of the constants table against the unit table -/

/-- (SI scale, dimension) of a product of integer powers of unit symbols, resolved in the
    regenerated unit table (prefixes included) — `Unit(unit_name)` for the strings of the table -/
def unitDenoteQ : List (String × Rat) → Option (Rat × Dim)
  | [] => some (1, Dim.one)
  | (s, q) :: rest =>
    match resolve (defaultPrefixes Rat) (defaultLut Rat) s, unitDenoteQ rest with
    | some ent, some (v, d) =>
      if q.den = 1 && ent.offset == 0 then some (zpowK ent.scale q.num * v, ent.dim.pow q * d) else none
    | _, _ => none

/-- the SI scale and dimension recorded for a row's unit string are what the unit table gives -/
def constUnitOk (c : ConstRow) : Bool :=
  match unitDenoteQ c.unitFactors with
  | some (v, d) => d == c.spec.dim && within (ratOfBits c.unitScale) v guiseTol
  | none => false

def constUnitsOk : Bool := constTable.all constUnitOk

/-! ### values against the published ones -/

def valueOk (c : ConstRow) : Bool :=
  match Ref.C15.find? c.spec.name with
  | some r => c.spec.dim == r.dim && within c.mag r.v r.tol
  | none => false

def valuesInClass (excl : List String) : Bool :=
  constTable.all fun c => excl.contains c.spec.name || valueOk c

/-- a constant the 2019 SI fixes exactly carries, digit for digit, the recommended value of one
    of the listed editions -/
def editionOk (c : ConstRow) : Bool :=
  match editions.lookup c.spec.name with
  | none => true
  | some es => es.any fun e => within c.mag e.2 guiseTol

def editionsOk : Bool := constTable.all editionOk

/-- which edition a row matches (for the evidence) -/
def editionOf (c : ConstRow) : Option String :=
  match editions.lookup c.spec.name with
  | none => none
  | some es => (es.find? fun e => within c.mag e.2 guiseTol).map (·.1)

def valueOkByName (k : String) : Bool :=
  match constTable.find? (fun c => c.spec.name == k) with
  | some c => valueOk c
  | none => false

end Unyt.PCheck
