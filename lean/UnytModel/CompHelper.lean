/-
  UnytModel.CompHelper — `unyt/_array_functions.py: _array_comp_helper` as a *program* (property C19).

  The helper shared by the `numpy.isclose` / `numpy.allclose` handlers is an if/elif chain over
  comparisons of the two operands' units with each other and with `NULL_UNIT`; each branch converts
  one operand to the other's unit or lets a unit-less operand adopt the other's unit.  `CompProg` is
  the abstract syntax of exactly that shape, `runCompProg` its interpreter.  The program the driver
  runs is `Generated.compHelperProg`, regenerated from the live source on every run by
  `tools/extract.d/c19_handlers.py`; `UnytProofs/C19CompHelper.lean` proves that interpreting the
  expected program is the hand-written `arrayCompHelper` for all operands and carriers.
  No Mathlib import.
-/
import UnytModel.Testing

namespace Unyt.Testing

/-- a unit-valued name inside the helper: `au = getattr(a, "units", NULL_UNIT)`, `bu` likewise,
    or the constant `NULL_UNIT` -/
inductive URef where
  | au | bu | null
deriving DecidableEq, Repr

/-- one comparison `lhs == rhs` (`eq = true`) or `lhs != rhs` (`eq = false`), i.e. `Unit.__eq__`
    and its negation -/
structure UTest where
  lhs : URef
  rhs : URef
  eq : Bool
deriving DecidableEq, Repr

/-- one assignment in a branch -/
inductive CompAct where
  /-- `b = b.in_units(au)` -/
  | bInUnitsOfA
  /-- `a = a.in_units(bu)` -/
  | aInUnitsOfB
  /-- `b = np.array(b) * <u>`: the numbers are kept, the unit is replaced -/
  | bAdopts (u : URef)
  /-- `a = np.array(a) * <u>` -/
  | aAdopts (u : URef)
  /-- a statement outside this language (its source text) -/
  | unknown (text : String)
deriving DecidableEq, Repr

/-- `if/elif guard: acts` — the guard is a conjunction (`and`); an `else:` has the empty guard -/
structure CompBranch where
  guard : List UTest
  acts : List CompAct
deriving DecidableEq, Repr

/-- the whole helper: the chain, and the names in the returned tuple -/
structure CompProg where
  branches : List CompBranch
  ret : List String
deriving DecidableEq, Repr

section
variable {K : Type} [Add K] [Sub K] [Mul K] [Div K] [Neg K] [OfNat K 0] [OfNat K 1] [BEq K]
  [LE K] [DecidableLE K] [UnitClose K]

/-- the two operands while the helper runs: numbers and current unit of `a` and of `b` -/
structure CompState (K : Type) where
  x : List K
  xu : TUnit K
  y : List K
  yu : TUnit K

def URef.resolve (au bu : TUnit K) : URef → TUnit K
  | .au => au
  | .bu => bu
  | .null => nullUnit

def UTest.holds (au bu : TUnit K) (t : UTest) : Bool :=
  TUnit.eq (t.lhs.resolve au bu) (t.rhs.resolve au bu) == t.eq

/-- one assignment; `au`, `bu` are the locals computed on entry (they are not re-read) -/
def CompAct.run (au bu : TUnit K) (s : CompState K) : CompAct → Except Err (CompState K)
  | .bInUnitsOfA =>
    match inUnits s.yu au s.y with
    | .error e => .error e
    | .ok y' => .ok { s with y := y', yu := au }
  | .aInUnitsOfB =>
    match inUnits s.xu bu s.x with
    | .error e => .error e
    | .ok x' => .ok { s with x := x', xu := bu }
  | .bAdopts u => .ok { s with yu := u.resolve au bu }
  | .aAdopts u => .ok { s with xu := u.resolve au bu }
  | .unknown _ => .error .Other

def runActs (au bu : TUnit K) : List CompAct → CompState K → Except Err (CompState K)
  | [], s => .ok s
  | c :: cs, s =>
    match c.run au bu s with
    | .error e => .error e
    | .ok s' => runActs au bu cs s'

/-- the first branch whose guard holds is executed; none: nothing happens -/
def runBranches (au bu : TUnit K) : List CompBranch → CompState K → Except Err (CompState K)
  | [], s => .ok s
  | br :: rest, s =>
    if br.guard.all (UTest.holds au bu) then runActs au bu br.acts s
    else runBranches au bu rest s

/-- `_array_comp_helper(a, b)` by interpretation of its program: the two value lists and the unit
    of the first returned operand (the same triple `arrayCompHelper` returns).  A program that does
    not return `(a, b)` in this order is outside the language (`Other`). -/
def runCompProg (p : CompProg) (a b : ArgIn K) : Except Err (List K × List K × TUnit K) :=
  if p.ret != ["a", "b"] then .error .Other
  else
    let au := unitsAttr a
    let bu := unitsAttr b
    match runBranches au bu p.branches ⟨rawVals a, au, rawVals b, bu⟩ with
    | .error e => .error e
    | .ok s => .ok (s.x, s.y, s.xu)

/-- handler of `numpy.isclose` over a helper program -/
def iscloseHandlerOf (p : CompProg) (a b : ArgIn K) (rt atl : K) : Except Err (List Bool) :=
  match runCompProg p a b with
  | .error e => .error e
  | .ok (x, y, _) => npIsclose rt atl x y

/-- handler of `numpy.allclose` over a helper program -/
def allcloseHandlerOf (p : CompProg) (a b : ArgIn K) (rt atl : K) : Except Err Bool :=
  match runCompProg p a b with
  | .error e => .error e
  | .ok (x, y, _) => npAllclose rt atl x y

end
end Unyt.Testing
