/-
  UnytModel.TempTable — the regenerated temperature rows, prefixes and code constants
  (`Generated/TempRows.lean`, written by tools/extract.d/c08_temp.py from the live `/repo`)
  instantiated at a carrier `K`, in the shape `UnytModel.Temp` consumes.
-/
import UnytModel.Temp
import UnytModel.Generated.TempRows

namespace Unyt.Temp

/-- the regenerated row of a temperature symbol (a missing row reads as `(0, 0, false)`, which
    fails the table obligations) -/
def genRow (K : Type) [OfBits K] (b : TBase) : TRow K :=
  match Generated.tempRows.find? (fun r => r.1 == b.name) with
  | some (_, _, s, o, p) => ⟨OfBits.ofBits s, OfBits.ofBits o, p⟩
  | none => ⟨OfBits.ofBits 0, OfBits.ofBits 0, false⟩

/-- `default_unit_symbol_lut` restricted to the six temperature symbols -/
def genTab (K : Type) [OfBits K] : TTable K := genRow K

/-- the symbols of `unit_prefixes` -/
def genSyms : List Name := Generated.tempPrefixes.map (·.1)

/-- `unit_prefixes[sym][0]` -/
def genPfx (K : Type) [OfBits K] (sym : Name) : Option (Pfx K) :=
  match Generated.tempPrefixes.find? (fun r => r.1 == sym) with
  | some (_, _, v) => some ⟨sym, OfBits.ofBits v⟩
  | none => none

/-- every table symbol with its prefixable flag -/
def genNames : List (Name × Bool) := Generated.lutNames

/-- temperature rows of the table other than the six modelled symbols: (name, scale bits, offset bits) -/
def genOtherRows : List (String × Nat × Nat) :=
  (Generated.tempRows.filter (fun r => (TBase.ofName r.1).isNone)).map fun r => (r.2.1, r.2.2.1, r.2.2.2.1)

/-- the unit rule the registry holds for a ufunc name -/
def genRule (ufunc : String) : String :=
  match Generated.tempRules.find? (fun r => r.1 == ufunc) with
  | some (_, r) => r
  | none => ""

end Unyt.Temp
