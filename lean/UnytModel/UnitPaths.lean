/-
  UnytModel.UnitPaths — the control flow of `Unit.__mul__`, `Unit.__truediv__` and `Unit.__pow__`
  (unyt/unit_object.py) as DATA: every way through the method body — the conjunction of branch
  conditions taken and the `raise`/`return` it ends in — is one `Path`.  The translator plugin
  `tools/extract.d/c05_paths.py` regenerates the path lists from the live source by `ast`
  (`Generated/C05Paths.lean`); `evalPaths` below is the interpreter the driver runs
  (`c05.umul`/`c05.udiv`/`c05.upow`).  The theorems of `UnytProofs/C05Paths.lean` state that the
  regenerated programs compute `UnitV.mul`/`UnitV.div`/`UnitV.powSrc` for every pair of unit values
  — on the operands' STORED data — so a new early return (a fast path) or a changed field of a
  returned unit breaks a proof obligation.  No Mathlib.
-/
import UnytModel.Unit

namespace Unyt.UnitPaths

/-- a boolean observation a branch condition makes on `(self, u)` (or on `(self, p)` in `__pow__`) -/
inductive Atom
  /-- `not isinstance(u, Unit)` / `not getattr(u, "is_Unit", False)`: the operand is an array or a number -/
  | otherNotUnit
  /-- `X.dimensions is logarithmic` -/
  | selfLog | otherLog
  /-- `X.is_dimensionless` -/
  | selfDimless | otherDimless
  /-- truthiness of `X.base_offset` / `X.base_offset != 0.0` -/
  | selfOff | otherOff
  /-- `X.dimensions in (temperature, angle)` -/
  | selfTA | otherTA
  /-- `p == 0`, `p == 1` (the exponent of `__pow__`, already rationalised) -/
  | pEq0 | pEq1
  /-- `__eq__`: `isinstance(u, Unit)`, `math.isclose` of the two scales / offsets, `self.dimensions is u.dimensions`,
      `self.dimensions == u.dimensions` -/
  | otherIsUnit | scaleClose | offsetClose | dimIs | dimEq
  /-- a condition the translator does not know, as source text -/
  | opaque (src : String)
deriving DecidableEq, Repr

inductive Cond
  | const (b : Bool)
  | atom (a : Atom)
  | not (c : Cond)
  | and (a b : Cond)
  | or (a b : Cond)
deriving DecidableEq, Repr

/-- the value handed to `base_offset=` -/
inductive OffE
  | zero | ofSelf | ofOther
  | ite (c : Cond) (a b : OffE)
  | opaque (src : String)
deriving DecidableEq, Repr

/-- how one of the parallel fields (expression, scale, dimension) of a returned `Unit(...)` is computed -/
inductive FieldE
  /-- `self.F * u.F` -/
  | mul
  /-- `self.F / u.F` -/
  | div
  /-- `self.F ** p` -/
  | powP
  /-- the argument is absent: the constructor's default (the dimensionless 1 when the expression is absent) -/
  | default
  | opaque (src : String)
deriving DecidableEq, Repr

inductive RegE
  | ofSelf | ofOther | default | opaque (src : String)
deriving DecidableEq, Repr

/-- what a path ends in -/
inductive Outcome
  | raise (e : Err)
  /-- `return Unit(expr, base_value=…, base_offset=…, dimensions=…, registry=…)` -/
  | unit (expr scale dim : FieldE) (off : OffE) (reg : RegE)
  /-- `return <boolean expression>` (`__eq__`) -/
  | bool (c : Cond)
  /-- any other `return` (source text), or falling off the end of the body -/
  | other (src : String)
deriving DecidableEq, Repr

structure Path where
  /-- the branch conditions on the way, each with the truth value taken -/
  guard : List (Cond × Bool)
  out : Outcome
deriving DecidableEq, Repr

section eval
variable {K : Type} [Mul K] [Div K] [OfNat K 1] [OfNat K 0] [RPow K] [BEq K]

/-- the observations, on the stored data of the operands; `ω` answers the opaque conditions -/
def Atom.eval (ω : String → Bool) (u v : UnitV K) (p : Rat) : Atom → Bool
  | .otherNotUnit => false
  | .selfLog => u.isLogarithmic
  | .otherLog => v.isLogarithmic
  | .selfDimless => u.isDimensionless
  | .otherDimless => v.isDimensionless
  | .selfOff => u.offset != 0
  | .otherOff => v.offset != 0
  | .selfTA => u.isTempOrAngle
  | .otherTA => v.isTempOrAngle
  | .pEq0 => p == 0
  | .pEq1 => p == 1
  | .otherIsUnit => true
  | .scaleClose | .offsetClose => false   -- read by `Atom.evalB` (needs the closeness relation)
  | .dimIs => u.canon && v.canon && u.dim == v.dim
  | .dimEq => u.dim == v.dim
  | .opaque s => ω s

def Cond.eval (ω : String → Bool) (u v : UnitV K) (p : Rat) : Cond → Bool
  | .const b => b
  | .atom a => a.eval ω u v p
  | .not c => !(c.eval ω u v p)
  | .and a b => a.eval ω u v p && b.eval ω u v p
  | .or a b => a.eval ω u v p || b.eval ω u v p

def guardHolds (ω : String → Bool) (u v : UnitV K) (p : Rat) : List (Cond × Bool) → Bool
  | [] => true
  | (c, b) :: rest => (c.eval ω u v p == b) && guardHolds ω u v p rest

def OffE.eval (ω : String → Bool) (u v : UnitV K) (p : Rat) : OffE → Option K
  | .zero => some 0
  | .ofSelf => some u.offset
  | .ofOther => some v.offset
  | .ite c a b => if c.eval ω u v p then a.eval ω u v p else b.eval ω u v p
  | .opaque _ => none

def exprField (u v : UnitV K) (p : Rat) : FieldE → Option (UExpr K)
  | .mul => some (u.expr.mul v.expr)
  | .div => some (u.expr.div v.expr)
  | .powP => some (u.expr.pow p)
  | .default => some UExpr.one
  | .opaque _ => none

def scaleField (u v : UnitV K) (p : Rat) : FieldE → Option K
  | .mul => some (u.scale * v.scale)
  | .div => some (u.scale / v.scale)
  | .powP => some (RPow.rpow u.scale p)
  | .default => some 1
  | .opaque _ => none

def dimField (u v : UnitV K) (p : Rat) : FieldE → Option Dim
  | .mul => some (u.dim * v.dim)
  | .div => some (u.dim / v.dim)
  | .powP => some (u.dim.pow p)
  | .default => some Dim.one
  | .opaque _ => none

/-- run the end of a path; anything the model has no reading for is `Err.Other` -/
def Outcome.eval (ω : String → Bool) (u v : UnitV K) (p : Rat) : Outcome → Except Err (UnitV K)
  | .raise e => .error e
  | .other _ => .error .Other
  | .bool _ => .error .Other
  | .unit e s d o _ =>
    match exprField u v p e, scaleField u v p s, dimField u v p d, o.eval ω u v p with
    | some e, some s, some d, some o => .ok ⟨e, s, o, d, true⟩
    | _, _, _, _ => .error .Other

/-- the method body: the first path whose conditions all hold (the translator emits them in source
    order; they are mutually exclusive by construction) -/
def evalPaths (ω : String → Bool) (u v : UnitV K) (p : Rat) : List Path → Except Err (UnitV K)
  | [] => .error .Other
  | pa :: rest => if guardHolds ω u v p pa.guard then pa.out.eval ω u v p else evalPaths ω u v p rest

/-! #### boolean-valued bodies (`__eq__`), relative to a closeness relation on scales/offsets
   (`math.isclose` at `Float`, equality at an exact carrier) -/

def Atom.evalB (close : K → K → Bool) (ω : String → Bool) (u v : UnitV K) : Atom → Bool
  | .scaleClose => close u.scale v.scale
  | .offsetClose => close u.offset v.offset
  | a => a.eval ω u v 0

def Cond.evalB (close : K → K → Bool) (ω : String → Bool) (u v : UnitV K) : Cond → Bool
  | .const b => b
  | .atom a => a.evalB close ω u v
  | .not c => !(c.evalB close ω u v)
  | .and a b => a.evalB close ω u v && b.evalB close ω u v
  | .or a b => a.evalB close ω u v || b.evalB close ω u v

def guardHoldsB (close : K → K → Bool) (ω : String → Bool) (u v : UnitV K) : List (Cond × Bool) → Bool
  | [] => true
  | (c, b) :: rest => (c.evalB close ω u v == b) && guardHoldsB close ω u v rest

/-- a boolean method body: the value of the first path whose conditions hold (`none`: no path, or it does
    not end in a boolean return) -/
def evalBoolPaths (close : K → K → Bool) (ω : String → Bool) (u v : UnitV K) : List Path → Option Bool
  | [] => none
  | pa :: rest =>
    if guardHoldsB close ω u v pa.guard then
      match pa.out with
      | .bool c => some (c.evalB close ω u v)
      | _ => none
    else evalBoolPaths close ω u v rest

end eval

/-- every returned unit is attached to `self.registry` (the result belongs to the left operand's registry) -/
def regsOfSelf : List Path → Bool
  | [] => true
  | pa :: rest =>
    (match pa.out with
     | .unit _ _ _ _ r => r == RegE.ofSelf
     | _ => true) && regsOfSelf rest

end Unyt.UnitPaths

namespace Unyt.UnitV
variable {K : Type} [Mul K] [Div K] [OfNat K 1] [OfNat K 0] [RPow K] [BEq K]

/-- `Unit.__pow__` as the source has it: like `UnitV.pow`, but `u ** 1` keeps the offset of `u`
    (`base_offset=(self.base_offset if p == 1 else 0.0)`) -/
def powSrc (u : UnitV K) (p : Rat) : Except Err (UnitV K) :=
  if u.isLogarithmic && p != 1 then .error .InvalidUnitOperation
  else if u.offset != 0 && p != 0 && p != 1 then .error .InvalidUnitOperation
  else .ok ⟨u.expr.pow p, RPow.rpow u.scale p, if p == 1 then u.offset else 0, u.dim.pow p, true⟩

end Unyt.UnitV
