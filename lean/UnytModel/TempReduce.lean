/-
  UnytModel.TempReduce — reductions of a temperature array with a start value carrying units (C08).

  Models unyt/array.py `__array_ufunc__`, unary path (reductions arrive with one input):
      if hasattr(kwargs.get("initial"), "units") and self._ufunc_registry.get(ufunc) in
              (_preserve_units, _comparison_unit, _arctan2_unit, _difference_units):
          kwargs["initial"] = kwargs["initial"].to_value(u)
      out_arr = func(np.asarray(inp), **kwargs)          # ufunc.reduce(data, initial=number)
      mul, unit = self._ufunc_registry[ufunc](u)          # _preserve_units(u) / _difference_units(u)
  for `np.add.reduce(a, initial=q)`, `np.sum(a, initial=q)`, `a.sum(initial=q)` and
  `np.subtract.reduce(a, initial=q)`: the start value is converted with `.to_value(u)` — the affine
  conversion of a *position* (`UnytModel.Temp.tempConv`), whatever the kinds of `q` and of the data —
  and NumPy folds `initial ∘ a[0] ∘ a[1] ∘ …` from the left.
-/
import UnytModel.Temp

namespace Unyt.Temp

section
variable {K : Type} [Add K] [Sub K]

/-- `np.add.reduce(xs, initial=a)`: `((a + x0) + x1) + …` -/
def foldAdd (a : K) : List K → K
  | [] => a
  | x :: xs => foldAdd (a + x) xs

/-- `np.subtract.reduce(xs, initial=a)`: `((a − x0) − x1) − …` -/
def foldSub (a : K) : List K → K
  | [] => a
  | x :: xs => foldSub (a - x) xs

end

/-- the two reductions whose unit rule sees temperature kinds -/
inductive RedOp | add | sub
deriving DecidableEq, Repr

section
variable {K : Type} [Add K] [Sub K] [Mul K] [Div K] [OfNat K 0] [BEq K] [IsClose K]

/-- `np.add.reduce(a, initial=q)` / `np.subtract.reduce(a, initial=q)` on a temperature array
    `a = (u, xs)` with the start value `q = (ui, xi)`: label and value -/
def tempReduceInitial (op : RedOp) (syms : List Name) (names : List (Name × Bool)) (tab : TTable K)
    (u : TU K) (xs : List K) (ui : TU K) (xi : K) : Except Err (TU K × K) :=
  -- `kwargs["initial"].to_value(u)`
  let i' := tempConv syms names tab ui u xi
  match op with
  | .add =>
    match reduceUnit .preserve tab u with
    | .ok (some l) => .ok (l, foldAdd i' xs)
    | .ok none => .error .Other
    | .error e => .error e
  | .sub =>
    match reduceUnit .difference tab u with
    | .ok (some l) => .ok (l, foldSub i' xs)
    | .ok none => .error .Other
    | .error e => .error e

end

/-- source text (`ast.unparse`) of the start-value block of `__array_ufunc__`: its test and its body —
    compared with the regenerated text by `temp_seq_source_matches` -/
def srcInitialBlock : List (String × List String) :=
  [("hasattr(kwargs.get('initial'), 'units') and self._ufunc_registry.get(ufunc) in (_preserve_units, _comparison_unit, _arctan2_unit, _difference_units)",
    ["kwargs['initial'] = kwargs['initial'].to_value(u)"])]

end Unyt.Temp
