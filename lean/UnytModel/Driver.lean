/-
  UnytModel.Driver — dispatch over the per-property opcode handlers and the I/O loop.
-/
import UnytModel.Ops.Core
import UnytModel.Ops.Tables

namespace Unyt

/-- registered handlers, tried in order; an opcode nobody claims answers `bad-op` -/
def handlers : List Handler := [opsCore, opsTables]

def step (st : DriverState) (fields : List String) : DriverState × String :=
  let rec go : List Handler → DriverState × String
    | [] => (st, "bad-op")
    | h :: hs => match h st fields with
      | some r => r
      | none => go hs
  go handlers

partial def loop (h : IO.FS.Stream) (out : IO.FS.Stream) (st : DriverState) : IO Unit := do
  let line ← h.getLine
  if line.isEmpty then return ()
  let l := if line.back == '\n' then String.ofList line.toList.dropLast else line
  let (st', o) := step st (l.splitOn "\t")
  out.putStrLn o
  loop h out st'

end Unyt
