/-
  UnytModel.Driver — dispatch over opcode handlers and the I/O loop.
  Every property has its own driver executable (`Drivers/Cnn.lean` → `drv_cnn`) that lists the
  handlers it needs, so a model file that no longer compiles for one property never takes
  another property's correspondence run down with it.  `unytmodel` (Main.lean) serves the
  shared opcodes (tables, units, conversion).
-/
import UnytModel.Ops.Core
import UnytModel.Ops.Tables

namespace Unyt

def stepWith (handlers : List Handler) (st : DriverState) (fields : List String) : DriverState × String :=
  let rec go : List Handler → DriverState × String
    | [] => (st, "bad-op")
    | h :: hs => match h st fields with
      | some r => r
      | none => go hs
  go handlers

partial def loopWith (handlers : List Handler) (h : IO.FS.Stream) (out : IO.FS.Stream) (st : DriverState) : IO Unit := do
  let line ← h.getLine
  if line.isEmpty then return ()
  let l := if line.back == '\n' then String.ofList line.toList.dropLast else line
  let (st', o) := stepWith handlers st (l.splitOn "\t")
  out.putStrLn o
  loopWith handlers h out st'

/-- the whole driver: read operations from stdin, answer on stdout -/
def runDriver (handlers : List Handler) : IO Unit := do
  let stdin ← IO.getStdin
  let stdout ← IO.getStdout
  loopWith handlers stdin stdout {}

/-- the shared handlers -/
def baseHandlers : List Handler := [opsCore, opsTables]

end Unyt
