/-
  UnytModel.Unit — unit objects and the affine conversion rule.

  Models `unyt/unit_object.py`: `_get_unit_data_from_expr` (`ofExpr`), `Unit.__mul__`,
  `__truediv__`, `__pow__`, `__eq__`, `_get_conversion_factor`, `as_coeff_unit`.
-/
import UnytModel.UExpr
import UnytModel.Lut

namespace Unyt

/-! ### the affine conversion rule (`_get_conversion_factor`) -/
section conv
variable {K : Type} [Add K] [Sub K] [Mul K] [Div K]

/-- `(ratio, ratio * old_offset - new_offset)` for scales `sA sB` and offsets `oA oB` -/
def convFactor (sA oA sB oB : K) : K × K :=
  let r := sA / sB
  (r, r * oA - oB)

/-- what `in_units`/`convert_to_units` do with the factor: `x * factor - offset` -/
def applyConv (f : K × K) (x : K) : K := x * f.1 - f.2

/-- the SI magnitude a reading `x` in a unit `(s, o)` denotes: `s * (x - o)` -/
def toBase (s o x : K) : K := s * (x - o)

/-- the prefix-aware variant: for a temperature unit spelled with an SI prefix the stored
    offset is divided by the stored scale before use -/
def effOffset (pref : Bool) (s o : K) : K := if pref then o / s else o

def convFactorP (pA : Bool) (sA oA : K) (pB : Bool) (sB oB : K) : K × K :=
  convFactor sA (effOffset pA sA oA) sB (effOffset pB sB oB)

end conv

section denote
variable {K : Type} [Mul K] [OfNat K 1] [RPow K]

/-- `scale ** q` as `_get_unit_data_from_expr` computes it: a bare symbol is not raised to 1 -/
def pw (x : K) (q : Rat) : K := if q = 1 then x else RPow.rpow x q

/-- the denotation of a factor list against a table, without the write-back:
    `(Π scale(sym)^exp, Π dim(sym)^exp)`, `none` when a symbol does not resolve -/
def denoteF (pre : Prefixes K) (t : Lut K) : Factors → Option (K × Dim)
  | [] => some (1, Dim.one)
  | (s, q) :: rest =>
    match resolve pre t s with
    | none => none
    | some ent =>
      match denoteF pre t rest with
      | none => none
      | some (v, d) => some (pw ent.scale q * v, ent.dim.pow q * d)

/-- the denotation of an expression: coefficient times the denotation of its factors -/
def denote (pre : Prefixes K) (t : Lut K) (e : UExpr K) : Option (K × Dim) :=
  match denoteF pre t e.factors with
  | none => none
  | some (v, d) => some (e.coeff * v, d)

end denote

/-! ### evaluation of an expression against a table (`_get_unit_data_from_expr`) -/
section ofExpr
variable {K : Type} [Mul K] [OfNat K 1] [RPow K]

/-- product of `scale(sym) ^ exp` and of `dim(sym) ^ exp` over a factor list, threading the
    table (look-ups write derived prefixed entries back) -/
def evalFactors (pre : Prefixes K) : Lut K → Factors → Except Err (K × Dim × Lut K)
  | t, [] => .ok (1, Dim.one, t)
  | t, (s, q) :: rest =>
    match lookupUnitSymbol pre t s with
    | .error e => .error e
    | .ok (ent, t') =>
      match evalFactors pre t' rest with
      | .error e => .error e
      | .ok (v, d, t'') =>
        .ok (pw ent.scale q * v, (ent.dim.pow q) * d, t'')

end ofExpr


/-- a unit object; `canon` records whether its dimension object is built from the library's
    singleton symbols (the code branches on `is`; pickling can yield equal-but-not-identical
    symbols) -/
structure UnitV (K : Type) where
  expr : UExpr K
  scale : K
  offset : K
  dim : Dim
  canon : Bool := true
deriving Repr

namespace UnitV
variable {K : Type}

section
variable [Mul K] [Div K] [OfNat K 1] [OfNat K 0] [RPow K] [BEq K]

def dimensionless : UnitV K := ⟨UExpr.one, 1, 0, Dim.one, true⟩

def isDimensionless (u : UnitV K) : Bool := u.dim == Dim.one
def isLogarithmic (u : UnitV K) : Bool := u.canon && u.dim == Dim.dLogarithmic
def isTempOrAngle (u : UnitV K) : Bool := u.dim == Dim.dTemperature || u.dim == Dim.dAngle

/-- `Unit(expr, registry=…)`: data from the table; only a bare symbol carries an offset -/
def ofExpr (pre : Prefixes K) (t : Lut K) (e : UExpr K) : Except Err (UnitV K × Lut K) :=
  let nf := UExpr.normF e.factors
  match evalFactors pre t nf with
  | .error err => .error err
  | .ok (v, d, t') =>
    match nf with
    | [(s, q)] =>
      if q == 1 && e.coeff == 1 then
        match t'.find? s with
        | some ent => .ok (⟨⟨1, nf⟩, ent.scale, ent.offset, ent.dim, true⟩, t')
        | none => .error .UnitParseError
      else .ok (⟨⟨e.coeff, nf⟩, e.coeff * v, 0, d, true⟩, t')
    | _ => .ok (⟨⟨e.coeff, nf⟩, e.coeff * v, 0, d, true⟩, t')

/-- the offset rule of `Unit.__mul__` -/
def mulOffset (u v : UnitV K) : Except Err K :=
  if u.offset != 0 || v.offset != 0 then
    if v.isTempOrAngle && u.isDimensionless then .ok v.offset
    else if u.isTempOrAngle && v.isDimensionless then .ok u.offset
    else .error .InvalidUnitOperation
  else .ok 0

/-- `Unit.__mul__` on two units -/
def mul (u v : UnitV K) : Except Err (UnitV K) :=
  if u.isLogarithmic && !v.isDimensionless then .error .InvalidUnitOperation
  else if v.isLogarithmic && !u.isDimensionless then .error .InvalidUnitOperation
  else
    match mulOffset u v with
    | .error e => .error e
    | .ok o => .ok ⟨u.expr.mul v.expr, u.scale * v.scale, o, u.dim * v.dim, true⟩

/-- `Unit.__truediv__` on two units -/
def div (u v : UnitV K) : Except Err (UnitV K) :=
  if u.isLogarithmic && !v.isDimensionless then .error .InvalidUnitOperation
  else if v.isLogarithmic && !u.isDimensionless then .error .InvalidUnitOperation
  else
    let off : Except Err K :=
      if u.offset != 0 || v.offset != 0 then
        if u.isTempOrAngle && v.isDimensionless then .ok u.offset
        else .error .InvalidUnitOperation
      else .ok 0
    match off with
    | .error e => .error e
    | .ok o => .ok ⟨u.expr.div v.expr, u.scale / v.scale, o, u.dim / v.dim, true⟩

/-- `Unit.__pow__` with an already rationalised exponent: a logarithmic unit refuses every
    exponent but 1, a unit with an offset every exponent but 0 and 1 (fix C08-02); the result has
    no offset -/
def pow (u : UnitV K) (p : Rat) : Except Err (UnitV K) :=
  if u.isLogarithmic && p != 1 then .error .InvalidUnitOperation
  else if u.offset != 0 && p != 0 && p != 1 then .error .InvalidUnitOperation
  else .ok ⟨u.expr.pow p, RPow.rpow u.scale p, 0, u.dim.pow p, true⟩

end

/-- well-formed: only temperature- or angle-dimensioned units carry an offset (true of every
    table row and preserved by the operations) -/
def WF [OfNat K 0] (u : UnitV K) : Prop := u.offset ≠ 0 → u.isTempOrAngle = true

/-- `Unit.as_coeff_unit`: `(coeff, Unit(mul, base_value / coeff, base_offset, dimensions))` -/
def asCoeffUnit [Div K] [OfNat K 1] (u : UnitV K) : K × UnitV K :=
  (u.expr.coeff, ⟨⟨1, u.expr.factors⟩, u.scale / u.expr.coeff, u.offset, u.dim, u.canon⟩)

/-- two unit values denote the same unit: same scale, offset, dimension, and expressions
    with the same coefficient and the same exponent for every symbol -/
def Equiv (u v : UnitV K) : Prop :=
  u.scale = v.scale ∧ u.offset = v.offset ∧ u.dim = v.dim ∧ u.expr.Equiv v.expr

/-- `Unit.__eq__` at a lawful carrier: exact equality of scale and offset, equal dimensions
    (at `Float` the driver uses `math.isclose`, see `eqFloat`) -/
def eqv [BEq K] (u v : UnitV K) : Bool := u.scale == v.scale && u.offset == v.offset && u.dim == v.dim

def eqFloat (u v : UnitV Float) : Bool :=
  Float.isclose u.scale v.scale && Float.isclose u.offset v.offset && u.dim == v.dim

end UnitV

/-- outcomes agree: the same refusal, or values related by `R` -/
def ExceptRel {α : Type} (R : α → α → Prop) : Except Err α → Except Err α → Prop
  | .ok a, .ok b => R a b
  | .error e, .error f => e = f
  | _, _ => False

end Unyt
