/-
  UnytModel.Tables — the regenerated default tables instantiated at a carrier `K`.
-/
import UnytModel.Generated.Tables
import UnytModel.Generated.Dims
import UnytModel.Generated.NameTables
import UnytModel.Unit

namespace Unyt

def defaultLut (K : Type) [OfBits K] : Lut K :=
  Generated.rawLut.map fun (k, r) =>
    (k, { scale := OfBits.ofBits r.scale, dim := r.dim, offset := OfBits.ofBits r.offset,
          prefixable := r.prefixable })

def defaultPrefixes (K : Type) [OfBits K] : Prefixes K :=
  Generated.rawPrefixes.map fun (k, v, _) => (k, OfBits.ofBits v)

/-- `inv_name_alternatives[name]` with the parser's fall-back to the name itself -/
def canonName (name : String) : String :=
  match Generated.invNames.find? (fun p => p.1 == name) with
  | some (_, c) => c
  | none => name

/-- the textual rewrites `parse_unyt_expr` applies before tokenising: `%` → `percent`, `°` → `deg` -/
def parserRewrite (s : String) : String :=
  String.ofList (s.toList.flatMap fun c =>
    if c = '%' then "percent".toList else if c = '°' then "deg".toList else [c])

/-- the symbol a single NAME token becomes: rewrites, then `inv_name_alternatives`, else itself -/
def nameToSymbol (name : String) : String := canonName (parserRewrite name)

end Unyt
