/-
  UnytModel.UnitSystem — unit systems and conversion to a system's base units (C10).

  Models
  * `unyt/unit_systems.py`: `UnitSystem.__init__` (validation of the base units),
    `__getitem__` (synthesis through `_get_system_unit_string` + memoisation into `units_map`),
    `__setitem__`, `has_current_mks`;
  * `unyt/unit_object.py`: `_check_em_conversion`, `_em_conversion`, `Unit.get_base_equivalent`;
  * `unyt/array.py`: `in_base`, `convert_to_base` (= `convert_to_units(get_base_equivalent)`),
    `in_cgs`/`in_mks` (= `in_base("cgs"/"mks")`).

  Conventions.  A key of `units_map` is a sympy dimension expression; equal keys are equal
  `Dim`s.  A value is the sympy expression `parse_unyt_expr(str(v))` — a `UExpr` (the parser is
  not part of this model: the harness sends parsed expressions).  The answers of
  `unit_system[dims]` are modelled by the *pure* function `USys.lookup`; the state change of the
  real `__getitem__` (memoisation) is `USys.getItem`, and which keys a call touches is given by
  the `…Touches` functions.  `UnytProofs/C10.lean` proves that memoisation never changes an answer,
  which is what makes this split faithful; the correspondence run compares both the answers and
  the grown `units_map` with the library.
  The process-wide `lru_cache` on `_check_em_conversion` is not modelled (its keys are the
  identities of the unit system and the unit; a stale hit needs `__setitem__` after a conversion).
-/
import UnytModel.Em
import UnytModel.Convert

namespace Unyt

/-- `units_map` / `base_units`: dimension ↦ expression (`None` only for `current_mks` in CGS-like systems) -/
abbrev UMap (K : Type) := List (Dim × Option (UExpr K))

namespace UMap
variable {K : Type}

/-- `um.get(d)`: `none` = key absent, `some none` = present with value `None` -/
def find? (m : UMap K) (d : Dim) : Option (Option (UExpr K)) :=
  match m with
  | [] => none
  | (d', v) :: r => if d' = d then some v else find? r d

/-- `um[d] = v` -/
def set (m : UMap K) (d : Dim) (v : Option (UExpr K)) : UMap K := (d, v) :: m.filter (fun p => p.1 ≠ d)

/-- `um[d]` when it is present and not `None` -/
def get? (m : UMap K) (d : Dim) : Option (UExpr K) :=
  match m.find? d with
  | some (some e) => some e
  | _ => none

end UMap

/-- the base dimensions in the order of the `OrderedDict` built by `UnitSystem.__init__` -/
def baseDimsInit : List Dim :=
  [Dim.dLength, Dim.dMass, Dim.dTime, Dim.dTemperature, Dim.dAngle, Dim.dCurrent, Dim.dLuminous, Dim.dLogarithmic]

/-- the base dimensions with their exponent projections, in the order in which
    `dims.as_ordered_factors()` lists the base-dimension symbols (by symbol name:
    `(angle) (current_mks) (length) (logarithmic) (luminous_intensity) (mass) (temperature) (time)`) -/
def baseDimsSympy : List (Dim × (Dim → Rat)) :=
  [(Dim.dAngle, (·.angle)), (Dim.dCurrent, (·.current)), (Dim.dLength, (·.length)),
   (Dim.dLogarithmic, (·.logarithmic)), (Dim.dLuminous, (·.luminous)), (Dim.dMass, (·.mass)),
   (Dim.dTemperature, (·.temperature)), (Dim.dTime, (·.time))]

section synth
variable {K : Type} [Mul K] [OfNat K 1] [RPow K]

/-- `"(unit)"` or `"(unit)**(q)"` of `_get_system_unit_string`, parsed: no power is applied
    for a factor that is not a `Pow` (exponent 1) -/
def powE (e : UExpr K) (q : Rat) : UExpr K := if q = 1 then e else e.pow q

/-- `base_units[dim]` inside `_get_system_unit_string`; the `None` case is excluded by the
    `MissingMKSCurrent` guard of the callers (the model then contributes nothing) -/
def baseOf (m : UMap K) (bd : Dim) : UExpr K := (m.get? bd).getD UExpr.one

/-- `parse_unyt_expr(_get_system_unit_string(dims, base_units))`: the product over the base
    dimension symbols occurring in `dims` of `(base unit)**(exponent)`; `""` (→ 1) for
    dimensionless -/
def synthOver (m : UMap K) (d : Dim) : List (Dim × (Dim → Rat)) → UExpr K
  | [] => UExpr.one
  | (bd, proj) :: rest =>
    if proj d = 0 then synthOver m d rest
    else (powE (baseOf m bd) (proj d)).mul (synthOver m d rest)

def synth (m : UMap K) (d : Dim) : UExpr K := synthOver m d baseDimsSympy

end synth

/-- a unit system: `name`, `units_map`, `base_units` (the copy taken at the end of `__init__`) -/
structure USys (K : Type) where
  name : String
  um : UMap K
  base : UMap K

namespace USys
variable {K : Type}

/-- `has_current_mks`: `units_map[current_mks] is not None` -/
def hasCurrent (S : USys K) : Bool := (S.um.get? Dim.dCurrent).isSome

section
variable [Mul K] [OfNat K 1] [RPow K]

/-- `UnitSystem.__getitem__(key)` with its state change: the expression of the returned unit
    and the system afterwards (`units_map` grown by the synthesised entry) -/
def getItem (S : USys K) (key : Dim) : Except Err (UExpr K × USys K) :=
  match S.um.get? key with
  | some e => .ok (e, S)
  | none =>
    if key.hasCurrent && !S.hasCurrent then .error .MissingMKSCurrent
    else
      let e := synth S.um key
      .ok (e, { S with um := S.um.set key (some e) })

/-- what `unit_system[key]` answers (no state change) -/
def lookup (S : USys K) (key : Dim) : Except Err (UExpr K) :=
  match S.um.get? key with
  | some e => .ok e
  | none =>
    if key.hasCurrent && !S.hasCurrent then .error .MissingMKSCurrent
    else .ok (synth S.um key)

/-- the state after a sequence of `unit_system[key]` calls (failed calls change nothing) -/
def memoAll (S : USys K) : List Dim → USys K
  | [] => S
  | k :: ks =>
    match S.getItem k with
    | .ok (_, S') => memoAll S' ks
    | .error _ => memoAll S ks

end

/-- `UnitSystem.__setitem__(key, value)` (the key already resolved to a dimension, the value
    already parsed) -/
def setItem (S : USys K) (key : Dim) (v : UExpr K) : Except Err (USys K) :=
  if !S.hasCurrent && key.hasCurrent then .error .MissingMKSCurrent
  else .ok { S with um := S.um.set key (some v) }

end USys

/-! ### `UnitSystem.__init__` -/
section init
variable {K : Type} [Mul K]

/-- `inv_name_alternatives[name]` as a partial map (`none` = `KeyError`) -/
def invLookup (inv : List (String × String)) (name : String) : Option String :=
  match inv with
  | [] => none
  | (k, c) :: r => if k = name then some c else invLookup r name

/-- the body of the validation loop of `__init__` for one `(dimension, unit)` item.
    `reg = none`: the system has no registry and the default table `t0` is consulted through
    `_split_prefix` and `inv_name_alternatives`; `reg = some r`: `registry[str(unit)]`.
    A unit that is not `coefficient × symbol` prints as a string that is no table key, so the
    look-up fails (`KeyError`, resp. `SymbolNotFoundError`). `Err.Other` = `AttributeError`
    (`None.is_Mul`). -/
def validateBase (pre : Prefixes K) (t0 : Lut K) (inv : List (String × String)) (reg : Option (Lut K))
    (bd : Dim) (unit : Option (UExpr K)) : Except Err Unit :=
  match unit with
  | none => if bd = Dim.dCurrent then .ok () else .error .Other
  | some e =>
    -- `if unit.is_Mul: unit = unit.as_coeff_Mul()[1]` then `str(unit)`
    match UExpr.normF e.factors with
    | [(s, q)] =>
      if q = 1 then
        match reg with
        | some r =>
          match resolve pre r s with
          | none => .error .SymbolNotFoundError
          | some ent => if ent.dim = bd then .ok () else .error .IllDefinedUnitSystem
        | none =>
          let bu := (splitPrefix pre t0 s).2
          match invLookup inv bu with
          | none => .error .KeyError
          | some c =>
            match t0.find? c with
            | none => .error .KeyError
            | some ent => if ent.dim = bd then .ok () else .error .IllDefinedUnitSystem
      else (match reg with | some _ => .error .SymbolNotFoundError | none => .error .KeyError)
    | _ => (match reg with | some _ => .error .SymbolNotFoundError | none => .error .KeyError)

/-- the validation loop over `units_map.items()` (first failure raises) -/
def validateAll (pre : Prefixes K) (t0 : Lut K) (inv : List (String × String)) (reg : Option (Lut K)) :
    UMap K → Except Err Unit
  | [] => .ok ()
  | (bd, u) :: rest =>
    match validateBase pre t0 inv reg bd u with
    | .error e => .error e
    | .ok () => validateAll pre t0 inv reg rest

/-- `UnitSystem(name, length_unit, mass_unit, time_unit, temperature_unit, angle_unit,
    current_mks_unit, luminous_intensity_unit, logarithmic_unit, registry)`: the eight units in
    that order, already parsed.  (Registration in `unit_system_registry` is the caller's state.) -/
def USys.init (pre : Prefixes K) (t0 : Lut K) (inv : List (String × String)) (reg : Option (Lut K))
    (name : String) (units : List (Option (UExpr K))) : Except Err (USys K) :=
  if units.length ≠ 8 then .error .TypeError
  else
    let um : UMap K := baseDimsInit.zip units
    match validateAll pre t0 inv reg um with
    | .error e => .error e
    | .ok () => .ok { name := name, um := um, base := um }

end init

/-! ### the electromagnetic route and the conversion to base units -/
section inbase
variable {K : Type} [Add K] [Sub K] [Mul K] [Div K] [OfNat K 0] [OfNat K 1] [BEq K] [RPow K]

/-- `Unit(expr, registry=…)` without the table write-back (which is transparent, C02) -/
def mkUnit (pre : Prefixes K) (t : Lut K) (e : UExpr K) : Except Err (UnitV K) :=
  match UnitV.ofExpr pre t e with
  | .ok (u, _) => .ok u
  | .error err => .error err

/-- the symbol of an atomic unit (`unit.is_atomic`: the expression is a bare `Symbol`) -/
def UnitV.atomName (u : UnitV K) : Option String :=
  match UExpr.normF u.expr.factors with
  | [(s, q)] => if q == 1 && u.expr.coeff == 1 then some s else none
  | _ => none

/-- sympy `==` on two unit expressions: same coefficient, same canonical factor list -/
def exprEq (a b : UExpr K) : Bool :=
  a.coeff == b.coeff && UExpr.normF a.factors == UExpr.normF b.factors

/-- `u.dimensions in um and u.expr == um[u.dimensions]` -/
def umMatches (S : USys K) (u : UnitV K) : Bool :=
  match S.um.get? u.dim with
  | some e => exprEq u.expr e
  | none => false

/-- the non-empty `em_map` tuple `(conv_unit | None, canonical_unit, scale)` -/
structure EmMap (K : Type) where
  conv : Option (UnitV K)
  canon : UnitV K
  scale : K

/-- the `(prefix, em_conversions row)` an atomic unit hits in `_check_em_conversion` -/
def emHit (pre : Prefixes K) (t : Lut K) (T : EmTable K) (u : UnitV K) : Option (String × EmRow K) :=
  match u.atomName with
  | some s =>
    let sp := splitPrefix pre t (displayName s)
    match T.find? sp.2 u.dim with
    | some r => some (sp.1, r)
    | none => none
  | none => none

/-- the loop over `unit.expr.atoms()` at the end of `_check_em_conversion`:
    `Unit(str(atom)).dimensions` is looked up in the system; `MissingMKSCurrent` becomes
    `MKSCGSConversionError`.  (`Unit(str(atom))` re-parses the symbol's name; a symbol the parser
    produced is a fixed point of the parser's name mapping — assumed here, checked by the harness
    on every atom it meets.) -/
def emAtomLoop (pre : Prefixes K) (t : Lut K) (S : USys K) : List String → Except Err Unit
  | [] => .ok ()
  | a :: rest =>
    match mkUnit pre t (UExpr.sym a) with
    | .error e => .error e
    | .ok bu =>
      match S.lookup bu.dim with
      | .error .MissingMKSCurrent => .error .MKSCGSConversionError
      | .error e => .error e
      | .ok _ => emAtomLoop pre t S rest

/-- `_check_em_conversion(unit, to_unit=None, unit_system=S, registry)`: `none` = `()` -/
def checkEm (pre : Prefixes K) (t : Lut K) (T : EmTable K) (S : USys K) (u : UnitV K) :
    Except Err (Option (EmMap K)) :=
  if !T.hasDim u.dim then .ok none
  else
    match emHit pre t T u with
    | some (p, r) =>
      match mkUnit pre t (UExpr.sym (r.partnerSym p)) with
      | .error e => .error e
      | .ok emUnit =>
        if u.dim.hasCurrent && S.hasCurrent then
          match S.lookup u.dim with
          | .error e => .error e
          | .ok ex =>
            match mkUnit pre t ex with
            | .error e => .error e
            | .ok cu => .ok (some ⟨some cu, u, 1⟩)
        else .ok (some ⟨none, emUnit, r.factor⟩)
    | none =>
      match emAtomLoop pre t S u.expr.atoms with
      | .error e => .error e
      | .ok () => .ok none

/-- the dimensions `_check_em_conversion` looks up in the system (each look-up memoises) -/
def checkEmTouches (pre : Prefixes K) (t : Lut K) (T : EmTable K) (S : USys K) (u : UnitV K) : List Dim :=
  if !T.hasDim u.dim then []
  else
    match emHit pre t T u with
    | some _ => if u.dim.hasCurrent && S.hasCurrent then [u.dim] else []
    | none => u.expr.atoms.filterMap fun a =>
        match mkUnit pre t (UExpr.sym a) with
        | .ok bu => some bu.dim
        | .error _ => none

/-- `_em_conversion(orig_units, conv_data, unit_system=S)`: `(to_units, (factor, offset))` -/
def emConversion (pre : Prefixes K) (t : Lut K) (m : EmMap K) : Except Err (UnitV K × (K × Option K)) :=
  let convUnit := m.conv.getD m.canon
  let newExpr : UExpr K := ⟨m.scale * m.canon.expr.coeff, m.canon.expr.factors⟩
  match mkUnit pre t convUnit.expr with
  | .error e => .error e
  | .ok toUnits =>
    match mkUnit pre t newExpr with
    | .error e => .error e
    | .ok newUnits =>
      match getConversionFactor pre t newUnits toUnits with
      | .error e => .error e
      | .ok f => .ok (toUnits, f)

/-- `Unit.get_base_equivalent(unit_system)` -/
def getBaseEquivalent (pre : Prefixes K) (t : Lut K) (T : EmTable K) (S : USys K) (u : UnitV K) :
    Except Err (UnitV K) :=
  match checkEm pre t T S u with
  | .error .MKSCGSConversionError => .error .UnitsNotReducible
  | .error e => .error e
  | .ok cd =>
    if umMatches S u then .ok u
    else
      match cd with
      | some m =>
        match emConversion pre t m with
        | .error e => .error e
        | .ok (toUnits, _) => .ok toUnits
      | none =>
        match S.lookup u.dim with
        | .error .MissingMKSCurrent => .error .UnitsNotReducible
        | .error e => .error e
        | .ok ex => mkUnit pre t ex

/-- `unyt_array.in_base(unit_system)`, element-wise: the new reading and the unit it carries -/
def inBase (pre : Prefixes K) (t : Lut K) (T : EmTable K) (S : USys K) (u : UnitV K) (x : K) :
    Except Err (K × UnitV K) :=
  match checkEm pre t T S u with
  | .error .MKSCGSConversionError => .error .UnitsNotReducible
  | .error e => .error e
  | .ok (some m) =>
    if umMatches S u then .ok (x, u)
    else
      match emConversion pre t m with
      | .error e => .error e
      | .ok (toUnits, f) => .ok (applyFactor f x, toUnits)
  | .ok none =>
    match getBaseEquivalent pre t T S u with
    | .error e => .error e
    | .ok toUnits =>
      match getConversionFactor pre t u toUnits with
      | .error e => .error e
      | .ok f => .ok (applyFactor f x, toUnits)

/-- the dimensions one `in_base` call looks up in the system, in order (successful calls) -/
def inBaseTouches (pre : Prefixes K) (t : Lut K) (T : EmTable K) (S : USys K) (u : UnitV K) : List Dim :=
  let c := checkEmTouches pre t T S u
  match checkEm pre t T S u with
  | .ok (some _) => c
  | .ok none => if umMatches S u then c ++ c else c ++ c ++ [u.dim]
  | .error _ => []

/-- `_check_em_conversion(unit, to_unit, registry)` with a target (used by `convert_to_units`);
    the trailing atom loop runs against `mks`, which has a current unit, and cannot raise -/
def checkEmTo (pre : Prefixes K) (t : Lut K) (T : EmTable K) (u target : UnitV K) :
    Except Err (Option (EmMap K)) :=
  if UnitV.eqv u target || !T.hasDim u.dim then .ok none
  else
    match emHit pre t T u with
    | some (p, r) =>
      match mkUnit pre t (UExpr.sym (r.partnerSym p)) with
      | .error e => .error e
      | .ok emUnit => if target.dim == emUnit.dim then .ok (some ⟨some target, emUnit, r.factor⟩) else .ok none
    | none => .ok none

/-- `convert_to_units(target)` including the EM branch (`_em_conversion(…, to_units=target)`) -/
def convertToUnitsEm (pre : Prefixes K) (t : Lut K) (T : EmTable K) (st : K × UnitV K) (target : UnitV K) :
    Except Err (K × UnitV K) :=
  match checkEmTo pre t T st.2 target with
  | .error e => .error e
  | .ok (some m) =>
    let newExpr : UExpr K := ⟨m.scale * m.canon.expr.coeff, m.canon.expr.factors⟩
    match mkUnit pre t newExpr with
    | .error e => .error e
    | .ok newUnits =>
      match getConversionFactor pre t newUnits target with
      | .error e => .error e
      | .ok f => .ok (applyFactor f st.1, target)
  | .ok none => convertToUnits pre t st target

/-- `convert_to_base(unit_system)` = `convert_to_units(units.get_base_equivalent(unit_system))` -/
def convertToBase (pre : Prefixes K) (t : Lut K) (T : EmTable K) (S : USys K) (st : K × UnitV K) :
    Except Err (K × UnitV K) :=
  match getBaseEquivalent pre t T S st.2 with
  | .error e => .error e
  | .ok target => convertToUnitsEm pre t T st target

end inbase

end Unyt
