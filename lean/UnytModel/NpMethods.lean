/-
  UnytModel.NpMethods — the ndarray-method overrides of unyt/array.py (argsort, squeeze, __getitem__,
  __setitem__, __pow__, __eq__, __ne__, copy, dot, take, __pos__, __deepcopy__, unyt_quantity.reshape) as
  forwarding records.  An override is a handler in miniature: it delegates to the ndarray method of the
  same name (`super().m(...)`, `self.view(np.ndarray).m(...)`), to the equivalent `np.m` function or to
  the `__array_function__` handler of `np.m`, and re-labels the result — so it is read by the SAME
  interpreter `Np.run` and judged by the SAME `Np.defects`.  Rows are regenerated from the live classes by
  tools/extract.d/c06_methods.py (harness/c06_methods.py:method_static).  No Mathlib.
-/
import UnytModel.NpHandlers

namespace Unyt.Np

/-- defects of an override's row, not counting a delegation to a kernel that NumPy documents as
    equivalent to the method (`equiv`: hand-written reference list of (method, "calls:<kernel>")) -/
def methodDefects (equiv : List (String × String)) (r : Row) : List String :=
  (defects r).filter fun d => !equiv.contains (r.func, d)

def methodTableOk (equiv excl : List (String × String)) (rows : List Row) : Bool :=
  rows.all fun r => (methodDefects equiv r).all fun d => excl.contains (r.func, d)

/-- every redefined method has at least one row that delegates somewhere -/
def overridesModelled (names : List String) (rows : List Row) : Bool :=
  names.all fun m => rows.any fun r => r.func == m && !r.calls.isEmpty

def methodExclusionsWitnessed (equiv excl : List (String × String)) (rows : List Row) : Bool :=
  excl.all fun (f, d) => rows.any fun r => r.func == f && (methodDefects equiv r).contains d

end Unyt.Np
