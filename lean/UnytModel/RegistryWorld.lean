/-
  UnytModel.RegistryWorld — several unit registries in one process, with the aliasing of their
  mutable containers made explicit (C13).

  A `UnitRegistry` object holds three mutable containers by reference — `lut` (a dict),
  `_unit_object_cache` (a dict) and `_derived_symbols` (a set) — and two plain fields
  (`_unit_system_id`, `unit_system`).  Whether two registries can see each other's edits is a
  question about which of those containers they share, so the model is a small heap:

      World K = cells of tables  ×  cells of string caches (with the Unit objects they refer to)
              × cells of derived-symbol sets × registry objects (three addresses + own fields)
              × the attributes `define_unit` sets on the `unyt` module
              × the keys of the process-wide `unit_system_registry`

  Cell 0 of the tables is the module-level `default_unit_symbol_lut` (`_unit_lookup_table.py`);
  registry 0 is `default_unit_registry` (`unit_registry.py`, class `_NonModifiableUnitRegistry`).

  What a call THROUGH one registry does is not written again here: it is `RegC12.step` (the C12
  state machine: `add/modify/remove`, string → `Unit` construction with the cache and the write-back
  of derived prefixed entries, `in`, `[]`, `unit_system_id`) run on the registry's *view* of the heap
  and stored back into the cells the registry points to (`regStep`).

  Models
    unyt/unit_registry.py   `UnitRegistry.__init__` (`if lut: self.lut = lut` — the caller's dict BY
                            REFERENCE unless it is empty — then `self.lut.update(default_unit_symbol_lut)`),
                            `_NonModifiableUnitRegistry.modify/remove`, `__deepcopy__`, `__setstate__`
                            (what `copy.copy` and pickling go through), `to_json/from_json`,
                            `_correct_old_unit_registry`
    unyt/unit_object.py     `Unit.copy(deep=…)`, `__deepcopy__`, `define_unit`, the explicit-data branch of
                            `Unit.__new__` used by `__mul__/__truediv__/__pow__` (`registry=self.registry`)
    unyt/array.py           `__reduce__/__setstate__`, `__deepcopy__`
    unyt/unit_systems.py    `UnitSystem.__init__(…, registry=r)` (`registry[str(unit)]` per base unit, then
                            `unit_system_registry[name] = self`)

  WHICH containers a creation route shares and what it copies is not written here either: a
  `RouteShape` per route is regenerated from the live code on every run
  (`tools/extract.d/c13_routes.py` → `Generated/RegistryRoutes.lean`, measured with `is` on the live
  objects), and the theorems are about `create` for an arbitrary shape.
-/
import UnytModel.RegistryC12

namespace Unyt.RegWorld
open Unyt RegC12

/-! ## route shapes (regenerated) -/

inductive LutShare
  /-- the new registry's `lut` IS the source's dict -/
  | same
  /-- a new dict holding every row of the source's -/
  | copy
  /-- a new dict holding the rows that were not written back by look-ups -/
  | copyNoDerived
deriving DecidableEq, Repr

inductive CacheShare
  | same
  /-- a new, empty `_unit_object_cache` -/
  | empty
  /-- a new dict with the same strings (and copies of the Unit objects) -/
  | copy
deriving DecidableEq, Repr

inductive DerivedShare
  | same
  | empty
  | copy
deriving DecidableEq, Repr

structure RouteShape where
  lut : LutShare
  /-- default symbols missing from the table are added to the new one (`_correct_old_unit_registry`) -/
  addMissingDefaults : Bool
  cache : CacheShare
  derived : DerivedShare
  keepsMemo : Bool
  keepsUsys : Bool
  /-- the copy of the non-modifiable default registry is non-modifiable -/
  keepsClass : Bool
deriving DecidableEq, Repr

/-- the new registry shares no mutable container with its source -/
def RouteShape.independent (s : RouteShape) : Bool :=
  s.lut != .same && s.cache != .same && s.derived != .same

/-- what the explicit-data branch of `Unit.__new__` does (regenerated) -/
structure WCfg where
  /-- a unit built with explicit data (the result of `u * v`, `Unit.copy`) is stored in the string
      cache of the registry it is given -/
  cachesExplicit : Bool
deriving DecidableEq, Repr

/-! ## the heap -/

structure RegObj (K : Type) where
  lut : Nat
  cache : Nat
  derived : Nat
  idMemo : Option (Lut K) := none
  memoStale : Bool := false
  usys : String := "mks"
  /-- class `_NonModifiableUnitRegistry` -/
  frozen : Bool := false

/-- a `_unit_object_cache` dict and the `Unit` objects created through it (C12's heap) -/
structure CacheCell (K : Type) where
  cache : List (String × Nat) := []
  objs : List (UnitD K) := []

structure World (K : Type) where
  luts : List (Lut K)
  caches : List (CacheCell K)
  deriveds : List (List String)
  regs : List (RegObj K)
  /-- `setattr(unyt, symbol, unit)` of `define_unit` -/
  exported : List (String × UnitD K) := []
  /-- keys of `unit_system_registry` added since start-up -/
  systems : List String := []

inductive WOp (K : Type) where
  /-- the user builds a dict `d = {…}` (to be handed to `UnitRegistry(lut=d)`) -/
  | dict (t : Lut K)
  /-- `UnitRegistry(add_default_symbols=…, unit_system=…)` -/
  | fresh (addDefaults : Bool) (usys : String)
  /-- `UnitRegistry(lut=<the dict in cell c>, add_default_symbols=…)` -/
  | fromDict (c : Nat) (addDefaults : Bool)
  /-- a registry made from registry `src` by the route of this shape
      (`copy.copy`, `copy.deepcopy`, `from_json(to_json())`, pickling of a registry / unit / array, …) -/
  | route (sh : RouteShape) (src : Nat)
  /-- a call through registry `r` -/
  | reg (r : Nat) (op : Op K)
  /-- `define_unit(sym, value, registry=r, prefixable=…)`, `value` already reduced to a table row -/
  | defineUnit (r : Nat) (sym : String) (e : Entry K)
  /-- `UnitSystem(name, <base units>, registry=r)` -/
  | newSystem (r : Nat) (name : String) (baseUnits : List String)
  /-- `u * v` (`/`, `**`) with `u` from registry `a` and `v` from registry `b`; `key` = `str` of the result -/
  | mixed (a b : Nat) (key : String) (d : UnitD K)

inductive WOut (K : Type) where
  | cell (c : Nat)
  | regId (r : Nat)
  | out (o : Out K)
  | err (e : Err)
  /-- the registry a resulting unit belongs to -/
  | unitIn (r : Nat)
  | done

section
variable {K : Type}

def lutAt (σ : World K) (c : Nat) : Lut K := (σ.luts[c]?).getD []
def cacheAt (σ : World K) (c : Nat) : CacheCell K := (σ.caches[c]?).getD {}
def derivedAt (σ : World K) (c : Nat) : List String := (σ.deriveds[c]?).getD []

/-- the module-level `default_unit_symbol_lut` -/
def globalLut (σ : World K) : Lut K := lutAt σ 0

/-- what registry object `ro` sees: the C12 machine state assembled from the cells it points to -/
def view (σ : World K) (ro : RegObj K) : RegState K :=
  ⟨lutAt σ ro.lut, (cacheAt σ ro.cache).cache, (cacheAt σ ro.cache).objs, ro.idMemo,
   derivedAt σ ro.derived, ro.memoStale⟩

def viewOf (σ : World K) (r : Nat) : Option (RegState K) := (σ.regs[r]?).map (view σ)

/-- write a machine state back into the cells `ro` points to (and `ro`'s own fields) -/
def store (σ : World K) (r : Nat) (ro : RegObj K) (s : RegState K) : World K :=
  { σ with luts := σ.luts.set ro.lut s.lut,
           caches := σ.caches.set ro.cache ⟨s.cache, s.objs⟩,
           deriveds := σ.deriveds.set ro.derived s.derived,
           regs := σ.regs.set r { ro with idMemo := s.idMemo, memoStale := s.memoStale } }

/-- the two calls `_NonModifiableUnitRegistry` overrides -/
def isModifyOrRemove : Op K → Bool
  | .modifyF .. | .modifyQ .. | .remove .. => true
  | _ => false

/-- `dict.update(g)` -/
def updateWith (t g : Lut K) : Lut K := g.foldl (fun t p => t.set p.1 p.2) t

/-- rows of `g` whose key `t` lacks, appended (`_correct_old_unit_registry`) -/
def addMissing (t g : Lut K) : Lut K := t ++ g.filter fun p => !(t.contains p.1)

/-- allocate a registry object with three given addresses -/
def pushReg (σ : World K) (ro : RegObj K) : World K × WOut K :=
  ({ σ with regs := σ.regs ++ [ro] }, .regId σ.regs.length)

end

section
variable {K : Type} [Mul K] [OfNat K 1] [OfNat K 0] [RPow K]

/-- one call through registry `r`: C12's step on `r`'s view, stored back through `r`'s addresses;
    the default registry refuses `modify` and `remove` before doing anything -/
def regStep (cfg : Cfg) (pre : Prefixes K) (parse : String → Except Err (PExpr K))
    (σ : World K) (r : Nat) (op : Op K) : World K × Out K :=
  match σ.regs[r]? with
  | none => (σ, .err .KeyError)
  | some ro =>
    if ro.frozen && isModifyOrRemove op then (σ, .err .TypeError)
    else
      let res := step cfg pre parse (view σ ro) op
      (store σ r ro res.1, res.2)

/-- a sequence of calls through `r`, stopping at the first that raises (`UnitSystem.__init__`) -/
def regSteps (cfg : Cfg) (pre : Prefixes K) (parse : String → Except Err (PExpr K))
    (σ : World K) (r : Nat) : List (Op K) → World K × Option Err
  | [] => (σ, none)
  | op :: rest =>
    match regStep cfg pre parse σ r op with
    | (σ', .err e) => (σ', some e)
    | (σ', _) => regSteps cfg pre parse σ' r rest

/-- the new registry's table: the source's dict itself, or the next free cell holding `rows` -/
def allocLut (luts : List (Lut K)) (sh : LutShare) (srcAddr : Nat) (rows : Lut K) : List (Lut K) × Nat :=
  match sh with
  | .same => (luts, srcAddr)
  | _ => (luts ++ [rows], luts.length)

def allocCache (caches : List (CacheCell K)) (sh : CacheShare) (srcAddr : Nat) (srcCell : CacheCell K) :
    List (CacheCell K) × Nat :=
  match sh with
  | .same => (caches, srcAddr)
  | .empty => (caches ++ [({} : CacheCell K)], caches.length)
  | .copy => (caches ++ [srcCell], caches.length)

def allocDerived (ds : List (List String)) (sh : DerivedShare) (srcAddr : Nat) (src : List String) :
    List (List String) × Nat :=
  match sh with
  | .same => (ds, srcAddr)
  | .empty => (ds ++ [[]], ds.length)
  | .copy => (ds ++ [src], ds.length)

/-- the rows a route carries over -/
def routeRows (σ : World K) (sh : RouteShape) (s : RegState K) : Lut K :=
  let rows : Lut K :=
    match sh.lut with
    | .copyNoDerived => eraseKeys s.lut s.derived
    | _ => s.lut
  if sh.addMissingDefaults then addMissing rows (globalLut σ) else rows

/-- a registry made from `src` by a route of shape `sh` -/
def create (σ : World K) (sh : RouteShape) (src : Nat) : World K × WOut K :=
  match σ.regs[src]? with
  | none => (σ, .err .KeyError)
  | some ro =>
    let s := view σ ro
    let l := allocLut σ.luts sh.lut ro.lut (routeRows σ sh s)
    let c := allocCache σ.caches sh.cache ro.cache (cacheAt σ ro.cache)
    let d := allocDerived σ.deriveds sh.derived ro.derived s.derived
    pushReg { σ with luts := l.1, caches := c.1, deriveds := d.1 }
      { lut := l.2, cache := c.2, derived := d.2,
        idMemo := if sh.keepsMemo then ro.idMemo else none,
        memoStale := if sh.keepsMemo then ro.memoStale else false,
        usys := if sh.keepsUsys then ro.usys else "mks",
        frozen := sh.keepsClass && ro.frozen }

/-- one operation on the world -/
def runOp (cfg : Cfg) (wc : WCfg) (pre : Prefixes K) (parse : String → Except Err (PExpr K))
    (σ : World K) : WOp K → World K × WOut K
  | .dict t => ({ σ with luts := σ.luts ++ [t] }, .cell σ.luts.length)
  -- unit_registry.py `__init__`, `lut=None`
  | .fresh addDefaults usys =>
    pushReg { σ with luts := σ.luts ++ [if addDefaults then globalLut σ else []],
                     caches := σ.caches ++ [({} : CacheCell K)], deriveds := σ.deriveds ++ [[]] }
      { lut := σ.luts.length, cache := σ.caches.length, derived := σ.deriveds.length, usys := usys }
  -- unit_registry.py `__init__`, `lut=d`: `if lut:` — an empty dict is replaced by a new one
  | .fromDict c addDefaults =>
    match σ.luts[c]? with
    | none => (σ, .err .KeyError)
    | some t =>
      let (luts1, lc) := if t.isEmpty then (σ.luts ++ [[]], σ.luts.length) else (σ.luts, c)
      let luts2 := if addDefaults then luts1.set lc (updateWith ((luts1[lc]?).getD []) (globalLut σ)) else luts1
      pushReg { σ with luts := luts2, caches := σ.caches ++ [({} : CacheCell K)], deriveds := σ.deriveds ++ [[]] }
        { lut := lc, cache := σ.caches.length, derived := σ.deriveds.length }
  | .route sh src => create σ sh src
  | .reg r op =>
    let res := regStep cfg pre parse σ r op
    (res.1, .out res.2)
  -- unit_object.py `define_unit`: `symbol in registry` → RuntimeError; `registry.add`; for the default
  -- registry `setattr(unyt, symbol, Unit(symbol, registry=registry))`
  | .defineUnit r sym e =>
    match regStep cfg pre parse σ r (.contains sym) with
    | (σ1, .bool false) =>
      match regStep cfg pre parse σ1 r (.add sym e) with
      | (σ2, .done) =>
        if r = 0 then
          match regStep cfg pre parse σ2 r (.unit sym) with
          | (σ3, .unit _ d) => ({ σ3 with exported := (sym, d) :: σ3.exported.filter (·.1 ≠ sym) }, .done)
          | (σ3, o) => (σ3, .out o)
        else (σ2, .done)
      | (σ2, o) => (σ2, .out o)
    | (σ1, .bool true) => (σ1, .err .RuntimeError)
    | (σ1, o) => (σ1, .out o)
  -- unit_systems.py `UnitSystem.__init__`
  | .newSystem r name baseUnits =>
    match regSteps cfg pre parse σ r (baseUnits.map .getitem) with
    | (σ', some .SymbolNotFoundError) => (σ', .err .SymbolNotFoundError)
    | (σ', some e) => (σ', .err e)
    | (σ', none) => ({ σ' with systems := name :: σ'.systems }, .done)
  -- unit_object.py `__mul__`: `Unit(expr, base_value=…, dimensions=…, registry=self.registry)`
  | .mixed a _b key d =>
    match σ.regs[a]? with
    | none => (σ, .err .KeyError)
    | some ro =>
      if wc.cachesExplicit then
        let cc := cacheAt σ ro.cache
        let cc' : CacheCell K := ⟨(key, cc.objs.length) :: cc.cache.filter (·.1 ≠ key), cc.objs ++ [d]⟩
        ({ σ with caches := σ.caches.set ro.cache cc' }, .unitIn a)
      else (σ, .unitIn a)

/-- the world after a history -/
def runW (cfg : Cfg) (wc : WCfg) (pre : Prefixes K) (parse : String → Except Err (PExpr K))
    (σ : World K) (h : List (WOp K)) : World K :=
  h.foldl (fun σ o => (runOp cfg wc pre parse σ o).1) σ

end

/-! ## what the theorems speak about -/

section
variable {K : Type}

/-- every address a registry holds points at an allocated cell -/
def RegObj.InRange (σ : World K) (ro : RegObj K) : Prop :=
  ro.lut < σ.luts.length ∧ ro.cache < σ.caches.length ∧ ro.derived < σ.deriveds.length

def WF (σ : World K) : Prop := ∀ (r : Nat) (ro : RegObj K), σ.regs[r]? = some ro → ro.InRange σ

/-- two registry objects share none of their three containers -/
def Sep (a b : RegObj K) : Prop := a.lut ≠ b.lut ∧ a.cache ≠ b.cache ∧ a.derived ≠ b.derived

/-- the operation is a call made through registry `r` -/
def WOp.through (r : Nat) : WOp K → Bool
  | .reg r' _ => r' == r
  | .defineUnit r' _ _ => r' == r
  | .newSystem r' _ _ => r' == r
  | .mixed a _ _ _ => a == r
  | _ => false

/-- the operation hands one of `r`'s containers to somebody else (by design: `lut=` with `r`'s dict,
    a shallow copy of `r`) — `lc` is the address of `r`'s table -/
def WOp.aliases (r lc : Nat) : WOp K → Bool
  | .fromDict c _ => c == lc
  | .route sh src => src == r && !sh.independent
  | _ => false

end

end Unyt.RegWorld
