/-
  UnytModel.Convert — the conversion routes of `unyt_array`.

  Models `_get_conversion_factor` on unit values, and the numeric/label part of
  `in_units`/`to`, `to_value`, `convert_to_units`, and "apply `get_conversion_factor` by hand",
  element-wise (arrays are maps of this).  Dtype selection is `UnytModel.Dtype`; the
  electromagnetic branch is `UnytModel.Em`.
-/
import UnytModel.Unit
import UnytModel.Tables

namespace Unyt

/-- what `str(unit)` is for a bare symbol (`Unit.__str__` special cases) -/
def displayName (s : String) : String :=
  if s = "degC" then "°C" else if s = "delta_degC" then "Δ°C"
  else if s = "degF" then "°F" else if s = "delta_degF" then "Δ°F" else s

section
variable {K : Type} [Add K] [Sub K] [Mul K] [Div K] [OfNat K 0] [OfNat K 1] [BEq K]

/-- whether `_split_prefix(str(u), lut)` finds an SI prefix -/
def UnitV.spelledWithPrefix (pre : Prefixes K) (t : Lut K) (u : UnitV K) : Bool :=
  match UExpr.normF u.expr.factors with
  | [(s, q)] => q == 1 && u.expr.coeff == 1 && (splitPrefix pre t (displayName s)).1 != ""
  | _ => false

/-- `_get_conversion_factor(old, new)`: `(factor, offset or None)` -/
def getConversionFactor (pre : Prefixes K) (t : Lut K) (old new : UnitV K) :
    Except Err (K × Option K) :=
  if old.dim != new.dim then .error .UnitConversionError
  else
    let ratio := old.scale / new.scale
    if old.offset == 0 && new.offset == 0 then .ok (ratio, none)
    else
      let isT := old.dim == Dim.dTemperature
      let oo := effOffset (isT && old.spelledWithPrefix pre t) old.scale old.offset
      let no := effOffset (isT && new.spelledWithPrefix pre t) new.scale new.offset
      .ok (ratio, some (ratio * oo - no))

/-- `ret = x * factor; if offset: ret -= offset` -/
def applyFactor (f : K × Option K) (x : K) : K :=
  match f.2 with
  | some o => if o != 0 then x * f.1 - o else x * f.1
  | none => x * f.1

/-- `in_units` / `to` (non-EM branch): new reading and the unit it is labelled with -/
def inUnits (pre : Prefixes K) (t : Lut K) (u : UnitV K) (x : K) (target : UnitV K) :
    Except Err (K × UnitV K) :=
  match getConversionFactor pre t u target with
  | .error e => .error e
  | .ok f => .ok (applyFactor f x, target)

/-- `to_value` -/
def toValue (pre : Prefixes K) (t : Lut K) (u : UnitV K) (x : K) (target : UnitV K) :
    Except Err K :=
  (inUnits pre t u x target).map (·.1)

/-- `convert_to_units` (non-EM branch): state = (buffer value, unit label);
    `values *= factor; if offset: subtract` -/
def convertToUnits (pre : Prefixes K) (t : Lut K) (st : K × UnitV K) (target : UnitV K) :
    Except Err (K × UnitV K) :=
  match getConversionFactor pre t st.2 target with
  | .error e => .error e
  | .ok f =>
    let v := st.1 * f.1
    let v := match f.2 with
      | some o => if o != 0 then v - o else v
      | none => v
    .ok (v, target)

end
end Unyt
