/-
  UnytModel.ExprTreeC02 — nested unit expressions as trees (C02: "any product, quotient or
  rational power" of constituents, with numeric coefficients, at any nesting depth).

  A unit string such as `(2*km)**2/sqrt(4*g)` is a tree of numbers, symbols, products and
  rational powers (a quotient `a/b` is `a * b**-1`, `sqrt(a)` is `a**(1/2)` — what sympy makes
  of them).  Two readings of a tree:

    `build`  the expression sympy hands to `Unit.__new__` (unyt/unit_object.py): coefficient ×
             symbol powers, via the shared `UExpr.mul` / `UExpr.pow`; `UnitV.ofExpr` then looks
             the symbols up (`_get_unit_data_from_expr`)
    `sem`    what the definitions of the constituents imply: a number is (itself, dimensionless),
             a symbol is its table entry, products multiply scales and dimensions, powers raise them

  `UnytProofs/C02Tree.lean` proves that they agree for every tree; the driver (`c02.tree`) runs both
  next to `Unit(<rendered string>)` of unyt.
-/
import UnytModel.Unit

namespace Unyt

inductive CExpr (K : Type) where
  | num (c : K)
  | sym (s : String)
  | mul (a b : CExpr K)
  | pow (a : CExpr K) (q : Rat)
deriving Repr

namespace CExpr
variable {K : Type} [Mul K] [OfNat K 1] [RPow K]

/-- the flat expression (coefficient, symbol powers) of a tree -/
def build : CExpr K → UExpr K
  | .num c => UExpr.num c
  | .sym s => UExpr.sym s
  | .mul a b => (build a).mul (build b)
  | .pow a q => (build a).pow q

/-- scale and dimension implied by the constituents -/
def sem (pre : Prefixes K) (t : Lut K) : CExpr K → Option (K × Dim)
  | .num c => some (c, Dim.one)
  | .sym s => (resolve pre t s).map fun e => (e.scale, e.dim)
  | .mul a b =>
    match sem pre t a, sem pre t b with
    | some (va, da), some (vb, db) => some (va * vb, da * db)
    | _, _ => none
  | .pow a q =>
    match sem pre t a with
    | some (va, da) => some (RPow.rpow va q, da.pow q)
    | none => none

/-- number of nodes (for the wire parser's fuel) -/
def size : CExpr K → Nat
  | .num _ | .sym _ => 1
  | .mul a b => a.size + b.size + 1
  | .pow a _ => a.size + 1

end CExpr

/-- wire format, prefix notation, blank-separated: `N p/q` | `S name` | `M a b` | `P p/q a` -/
def CExpr.parseToks (conv : Rat → K) : Nat → List String → Option (CExpr K × List String)
  | 0, _ => none
  | fuel + 1, toks =>
    match toks with
    | "N" :: q :: r => (parseRat q).map fun c => (.num (conv c), r)
    | "S" :: s :: r => some (.sym s, r)
    | "M" :: r =>
      match parseToks conv fuel r with
      | some (a, r1) =>
        match parseToks conv fuel r1 with
        | some (b, r2) => some (.mul a b, r2)
        | none => none
      | none => none
    | "P" :: q :: r =>
      match parseRat q, parseToks conv fuel r with
      | some p, some (a, r1) => some (.pow a p, r1)
      | _, _ => none
    | _ => none

def CExpr.parse (conv : Rat → K) (s : String) : Option (CExpr K) :=
  let toks := s.splitOn " "
  match CExpr.parseToks conv (toks.length + 1) toks with
  | some (e, []) => some e
  | _ => none

end Unyt
