/-
  UnytModel.Num — numbers shared by the model.

  Model definitions are polymorphic over a carrier `K` with `+ - * /` notation; they are
  * executed at `K := Float` by the driver (mirrors the IEEE operations of unyt),
  * decided at `K := Rat` by the kernel for table obligations (every table cell is the exact
    dyadic value of the double the code holds), and
  * proved about at an arbitrary field of characteristic zero.
  No Mathlib import anywhere under `UnytModel/`.
-/

namespace Unyt

/-- Exact rational value of an IEEE-754 binary64 bit pattern (finite values only;
    NaN/Inf patterns are mapped to 0 and never occur in the generated tables — the
    translator refuses to emit them). -/
def ratOfBits (b : Nat) : Rat :=
  let neg : Bool := b / 2^63 % 2 = 1
  let e : Nat := b / 2^52 % 2^11
  let m : Nat := b % 2^52
  let mag : Rat :=
    if e = 2047 then 0
    else if e = 0 then ((m : Int) : Rat) / (((2^1074 : Nat) : Int) : Rat)
    else if e ≥ 1075 then (((2^52 + m) * 2^(e - 1075) : Nat) : Int)
    else (((2^52 + m : Nat) : Int) : Rat) / (((2^(1075 - e) : Nat) : Int) : Rat)
  if neg then -mag else mag

/-- A carrier that table cells can be decoded into. -/
class OfBits (K : Type) where
  ofBits : Nat → K

instance : OfBits Rat := ⟨ratOfBits⟩
instance : OfBits Float := ⟨fun n => Float.ofBits (UInt64.ofNat n)⟩

/-- Rational powers.  At `Float` this is C `pow`; general theorems take the laws as
    hypotheses (`RPowLaws`, proved for positive reals in `UnytProofs/Real/RPow.lean`). -/
class RPow (K : Type) where
  rpow : K → Rat → K

def ratToFloat (q : Rat) : Float :=
  Float.ofInt q.num / Float.ofNat q.den

instance : RPow Float := ⟨fun x q =>
  if q.den = 1 then
    -- integer exponents: repeated multiplication is what `float ** int` does for small
    -- exponents up to rounding; C pow is correctly rounded for these on glibc.
    Float.pow x (Float.ofInt q.num)
  else Float.pow x (ratToFloat q)⟩

/-- Integer power by repeated multiplication / division (used at `Rat` and in theorems). -/
def zpowK {K : Type} [Mul K] [Div K] [OfNat K 1] (x : K) : Int → K
  | .ofNat n => natPow x n
  | .negSucc n => (1 : K) / natPow x (n + 1)
where
  natPow (x : K) : Nat → K
    | 0 => 1
    | n + 1 => natPow x n * x

/-- The laws of a rational-power operation on the "positive" part `P` of `K`. -/
structure RPowLaws {K : Type} [Mul K] [OfNat K 1] (rpow : K → Rat → K) (P : K → Prop) : Prop where
  pos_one : P 1
  pos_mul : ∀ {a b}, P a → P b → P (a * b)
  pos_rpow : ∀ {a} (q : Rat), P a → P (rpow a q)
  rpow_zero : ∀ {a}, P a → rpow a 0 = 1
  rpow_one : ∀ {a}, P a → rpow a 1 = a
  rpow_add : ∀ {a} (p q : Rat), P a → rpow a (p + q) = rpow a p * rpow a q
  rpow_mul : ∀ {a} (p q : Rat), P a → rpow (rpow a p) q = rpow a (p * q)
  mul_rpow : ∀ {a b} (q : Rat), P a → P b → rpow (a * b) q = rpow a q * rpow b q
  one_rpow : ∀ (q : Rat), rpow 1 q = 1

/-- Relative closeness used by `Unit.__eq__` (`math.isclose`, rel_tol = 1e-9, abs_tol = 0). -/
def Float.isclose (a b : Float) : Bool :=
  a == b || (a - b).abs ≤ 1e-9 * (if a.abs ≥ b.abs then a.abs else b.abs)

/-- Parse a decimal natural → Float bit pattern field. -/
def floatOfBitsStr (s : String) : Option Float :=
  s.toNat?.map fun n => Float.ofBits (UInt64.ofNat n)

def bitsStr (x : Float) : String := toString x.toBits.toNat

/-- `p/q` printing of a rational, `p` when `q = 1`. -/
def ratStr (q : Rat) : String :=
  if q.den = 1 then toString q.num else s!"{q.num}/{q.den}"

def parseRat (s : String) : Option Rat :=
  match s.splitOn "/" with
  | [p] => p.toInt?.map fun n => (n : Rat)
  | [p, q] => do
    let n ← p.toInt?
    let d ← q.toNat?
    if d = 0 then none else some ((n : Rat) / (d : Rat))
  | _ => none

end Unyt
