/-
  UnytModel.ResultClass — where unyt decides "unyt_quantity or unyt_array?" (property C16).

  Modelled code (all in /repo/unyt):
    * array.py:_get_binary_op_return_class                      → `binaryReturnClass`
    * array.py:unyt_array.__array_ufunc__ (result wrap-up,
      the `mul * out_arr` post-multiplication)                  → `wrapUp`, `ufuncResult`
    * array.py:unyt_array.__getitem__ (+ __array_finalize__)    → `getitem`, `iterate`
    * array.py:unyt_array.__new__, unyt_quantity.__new__        → `arrayNew`, `quantityNew`
    * array.py:unyt_quantity.reshape, ndarray.reshape & friends → `quantityReshape`, `viewOp`
    * unit_object.py:Unit.__mul__/__rmul__ with data            → `unitMulData`
    * _array_functions.py: the three ways a handler builds its result
      (`res * units`, `unyt_array(res, …, bypass_validation=True)`, `cls by res.ndim`) → `handlerClass`
    * array.py:_coerce_iterable_units                           → `coerceList`
  No Mathlib import.  The theorems are in `UnytProofs/C16.lean`; the driver opcodes in
  `UnytModel/Ops/C16.lean` call exactly these definitions.
-/
import UnytModel.Shape
import UnytModel.Unit

namespace Unyt
open Shape

/-- Python classes the class decisions distinguish -/
inductive PyCls
  | unit | ndarray | matrix | masked
  | pyint | pyfloat | pycomplex | npnumber | list | tuple
  | uarray | uquantity
  /-- `class subA(unyt_array)` -/
  | subA
  /-- `class subA2(subA)` -/
  | subA2
  /-- `class subB(unyt_array)`, unrelated to `subA` -/
  | subB
  /-- `class subQ(unyt_quantity)` -/
  | subQ
  /-- anything else (`str`, `np.bool_`, …) -/
  | other
deriving DecidableEq, Repr, Inhabited

namespace PyCls

def str : PyCls → String
  | unit => "Unit" | ndarray => "ndarray" | matrix => "matrix" | masked => "masked"
  | pyint => "int" | pyfloat => "float" | pycomplex => "complex" | npnumber => "npnumber"
  | list => "list" | tuple => "tuple" | uarray => "unyt_array" | uquantity => "unyt_quantity"
  | subA => "subA" | subA2 => "subA2" | subB => "subB" | subQ => "subQ" | other => "other"

def parse (s : String) : Option PyCls :=
  [unit, ndarray, matrix, masked, pyint, pyfloat, pycomplex, npnumber, list, tuple, uarray,
   uquantity, subA, subA2, subB, subQ, other].find? (fun c => c.str == s)

/-- the direct base class (Python's single-inheritance chain as far as it matters here) -/
def base : PyCls → Option PyCls
  | uquantity => some uarray
  | subA => some uarray
  | subA2 => some subA
  | subB => some uarray
  | subQ => some uquantity
  | uarray => some ndarray
  | matrix => some ndarray
  | masked => some ndarray
  | _ => none

/-- `issubclass(c, d)` (chains have length ≤ 4) -/
def isSub (c d : PyCls) : Bool :=
  c == d ||
  match c.base with
  | none => false
  | some b1 => b1 == d ||
    match b1.base with
    | none => false
    | some b2 => b2 == d ||
      match b2.base with
      | none => false
      | some b3 => b3 == d ||
        match b3.base with
        | none => false
        | some b4 => b4 == d

/-- `issubclass(c, unyt_quantity)` -/
def isQuantity (c : PyCls) : Bool := c.isSub uquantity
/-- `issubclass(c, unyt_array)` -/
def isUnyt (c : PyCls) : Bool := c.isSub uarray

/-- `cls in (Unit, np.ndarray, np.matrix, np.ma.masked_array) or
    issubclass(cls, (numeric_type, np.number, list, tuple))` -/
def isBare : PyCls → Bool
  | unit | ndarray | matrix | masked | pyint | pyfloat | pycomplex | npnumber | list | tuple => true
  | _ => false

end PyCls

/-- array.py:`_get_binary_op_return_class(cls1, cls2)` -/
def binaryReturnClass (c1 c2 : PyCls) : Except SErr PyCls :=
  if c1 = c2 then .ok c1
  else if c1.isBare then .ok c2
  else if c2.isBare then .ok c1
  else if c1.isQuantity then .ok c2
  else if c2.isQuantity then .ok c1
  else if c1.isSub c2 then .ok c1
  else if c2.isSub c1 then .ok c2
  else .error .RuntimeError

/-- what a class decision returns: the Python class and the array shape -/
structure Res where
  cls : PyCls
  shape : Shape
deriving DecidableEq, Repr, Inhabited

def Res.str (r : Res) : String := s!"{r.cls.str}\t{",".intercalate (r.shape.map toString)}"

/-- the property's requirement on one result (C16, first sentence): shape `()` ⇒ quantity,
    more than one element ⇒ not a quantity -/
def Res.Good (r : Res) : Prop :=
  (r.shape = [] → r.cls.isQuantity = true) ∧ (size r.shape > 1 → r.cls.isQuantity = false)

instance (r : Res) : Decidable r.Good := by unfold Res.Good; exact inferInstance

/-- the sharper rule the dedicated code paths implement: quantity exactly for shape `()` -/
def Res.Strict (r : Res) : Prop := r.cls.isQuantity = true ↔ r.shape = []

instance (r : Res) : Decidable r.Strict := by unfold Res.Strict; exact inferInstance

/-- `cls(value, unit)` through `unyt_array.__new__` / `unyt_quantity.__new__`: the quantity
    classes refuse more than one element (also with `bypass_validation=True`: the size check
    comes after the call of `unyt_array.__new__`) -/
def construct (cls : PyCls) (sh : Shape) : Except SErr Res :=
  if cls.isQuantity then (if size sh > 1 then .error .RuntimeError else .ok ⟨cls, sh⟩)
  else if cls.isUnyt then .ok ⟨cls, sh⟩
  else .error .TypeError

/-- array.py:`_wrap_ufunc_output` — the end of `__array_ufunc__` ("if unit is None: … else:
    `shape == ()` → quantity; `size == 1` → array; quantity ret_class → array; else
    `ret_class(out_arr, unit, bypass_validation=True)`") for one output of shape `sh`; the two
    outputs of `modf`/`divmod` each go through the same cascade -/
def wrapUp (unitNone : Bool) (retCls : PyCls) (sh : Shape) : Except SErr Res :=
  if unitNone then .ok ⟨.ndarray, sh⟩
  else if sh = [] then construct .uquantity []
  else if size sh = 1 then construct .uarray sh
  else if retCls.isQuantity then construct .uarray sh
  else if retCls.isUnyt then .ok ⟨retCls, sh⟩   -- `ret_class(out_arr, unit, bypass_validation=True)`: a view as that class
  else .error .TypeError

/-- how the ufunc is invoked -/
inductive UMethod
  | call
  | reduce (axes : Option (List Int)) (keep : Bool)
  | accumulate
  | outer
  /-- the core-dimension contraction of `matmul` -/
  | matmul
  /-- the last-axis contraction of `vecdot` -/
  | vecdot
deriving Repr

/-- one ufunc invocation as far as class and shape depend on it -/
structure UfuncCall where
  method : UMethod
  /-- the unit rule returns `None` (comparisons, `isfinite`, `log`, …) -/
  unitNone : Bool
  /-- `modf` / `divmod`: a tuple of two outputs, each wrapped like a single output -/
  multiOut : Bool
  /-- the coefficient split off by `as_coeff_unit` is 1 (else the result is `mul * out_arr`) -/
  mulIsOne : Bool
  /-- operand classes and shapes (1, 2 or — `clip` — 3 operands) -/
  ops : List (PyCls × Shape)

/-- shape NumPy gives the raw result -/
def ufuncOutShape (m : UMethod) (ops : List Shape) : Except SErr Shape :=
  match m, ops with
  | .call, [a] => .ok a
  | .call, [a, b] => match broadcast a b with | some r => .ok r | none => .error .ValueError
  | .call, [a, b, c] =>
    match broadcast a b with
    | none => .error .ValueError
    | some r => match broadcast r c with | some r => .ok r | none => .error .ValueError
  | .reduce axes keep, [a] =>
    -- NumPy lets `axis=0` (the default of `ufunc.reduce`) and `axis=-1` through for a 0-d operand
    if a = [] then
      (if axes = none ∨ axes = some [] ∨ axes = some [0] ∨ axes = some [-1] then .ok [] else .error .AxisError)
    else reduceAxes a axes keep
  | .accumulate, [a] => if a = [] then .error .AxisError else .ok a
  | .outer, [a, b] => .ok (outer a b)
  | .matmul, [a, b] => match matmulShape a b with | some r => .ok r | none => .error .ValueError
  | .vecdot, [a, b] => match vecdotShape a b with | some r => .ok r | none => .error .ValueError
  | _, _ => .error .TypeError

/-- the class handed to the wrap-up: `type(self)` for one input, `_get_binary_op_return_class`
    for two, `type(inputs[0])` for `clip` -/
def ufuncRetClass (ops : List PyCls) : Except SErr PyCls :=
  match ops with
  | [a] => .ok a
  | [a, b] => binaryReturnClass a b
  | [a, _, _] => .ok a
  | _ => .error .RuntimeError

/-- class and shape of the value `__array_ufunc__` returns -/
def ufuncResult (c : UfuncCall) : Except SErr Res :=
  match ufuncRetClass (c.ops.map (·.1)) with
  | .error e => .error e
  | .ok rc =>
    match ufuncOutShape c.method (c.ops.map (·.2)) with
    | .error e => .error e
    | .ok sh =>
      match wrapUp c.unitNone rc sh with
      | .error e => .error e
      | .ok r =>
        if c.mulIsOne || c.unitNone then .ok r
        else
          -- `mul * out_arr`: float.__mul__ defers to out_arr.__rmul__, i.e. np.multiply(mul, out_arr)
          match binaryReturnClass .pyfloat r.cls with
          | .error e => .error e
          | .ok rc' => wrapUp false rc' r.shape

/-- unit_object.py:`Unit.__mul__` / `__rmul__` with data `u` (not a Unit): `data = np.array(u,
    subok=True)`; `data.shape == ()` → `unyt_quantity`, else `unyt_array` (a copy either way);
    `kindOk`: `data.dtype.kind in "fuic"` -/
def unitMulData (kindOk : Bool) (sh : Shape) : Except SErr Res :=
  if !kindOk then .error .InvalidUnitOperation
  else if sh = [] then .ok ⟨.uquantity, []⟩
  else .ok ⟨.uarray, sh⟩

/-- how a handler of `_array_functions.py` turns NumPy's raw result `res` into its return value -/
inductive HRule
  /-- `res * units` (or `res / units`): `Unit.__rmul__` decides by `res.shape == ()` -/
  | timesUnit
  /-- `unyt_quantity if res.ndim == 0 else unyt_array` (einsum, take) -/
  | byNdim
  /-- `unyt_array(res, units, bypass_validation=True)` whatever the shape -/
  | alwaysArray
  /-- `unyt_quantity(res, …)` whatever the shape -/
  | alwaysQuantity
  /-- the returned expression mentions a unyt class, `.view(` or `type(x)(…)` in a way the
      translator does not recognise -/
  | unknown
  /-- a public NumPy call or a call of a caller-supplied function: the class is decided by that
      callee's own handler / NumPy's default path, not here -/
  | redispatch
  /-- built only from `np.X._implementation(…)` results and plain Python: no unyt object is built
      by this return statement -/
  | npImpl
  /-- `None`, a constant, a string, a comparison -/
  | noValue
deriving DecidableEq, Repr, Inhabited

def HRule.str : HRule → String
  | .timesUnit => "timesUnit" | .byNdim => "byNdim" | .alwaysArray => "alwaysArray"
  | .alwaysQuantity => "alwaysQuantity" | .unknown => "unknown" | .redispatch => "redispatch"
  | .npImpl => "npImpl" | .noValue => "noValue"

def HRule.parse (s : String) : Option HRule :=
  [HRule.timesUnit, .byNdim, .alwaysArray, .alwaysQuantity, .unknown, .redispatch, .npImpl, .noValue].find?
    (fun r => r.str == s)

/-- class of a handler's return value for a raw result of shape `sh` -/
def handlerClass (r : HRule) (sh : Shape) : Option Res :=
  match r with
  | .timesUnit => (unitMulData true sh).toOption
  | .byNdim => some (if sh.length = 0 then ⟨.uquantity, sh⟩ else ⟨.uarray, sh⟩)
  | .alwaysArray => some ⟨.uarray, sh⟩
  | .alwaysQuantity => (construct .uquantity sh).toOption
  | .unknown => none
  | .redispatch => none
  | .npImpl => none
  | .noValue => none

/-! ### objects with metadata: `__getitem__`, iteration -/

/-- `units` and `name` attributes -/
structure Meta (U : Type) where
  units : U
  name : Option String
deriving DecidableEq, Repr

structure Obj (U : Type) where
  cls : PyCls
  shape : Shape
  md : Meta U
deriving Repr

def Obj.res {U} (o : Obj U) : Res := ⟨o.cls, o.shape⟩

/-- array.py:`__array_finalize__(self, obj)`: `units = getattr(obj, "units", NULL_UNIT)`,
    `name = getattr(obj, "name", None)` -/
def arrayFinalize {U} (nullUnit : U) (parent : Option (Meta U)) : Meta U :=
  match parent with
  | some m => ⟨m.units, m.name⟩
  | none => ⟨nullUnit, none⟩

/-- what `ndarray.__getitem__` hands back to `unyt_array.__getitem__`: a NumPy scalar (no
    attributes) or an array of the parent's class finalised from the parent -/
inductive NpItem (U : Type)
  | scalar
  | arr (o : Obj U)

/-- `super().__getitem__(item)`: full integer indexing yields a scalar, everything else an
    array of `type(self)` (view or copy) whose metadata come from `__array_finalize__` -/
def npGetitem {U} (nullUnit : U) (p : Obj U) (ixs : List Ix) (s' : Shape) : NpItem U :=
  if s' = [] ∧ !(ixs.any Ix.isEllipsis) then .scalar
  else .arr ⟨p.cls, s', arrayFinalize nullUnit (some p.md)⟩

/-- array.py:`unyt_array.__getitem__`:
    `ret = super().__getitem__(item)`; `if getattr(ret, "shape", None) == (): ret =
    unyt_quantity(ret, bypass_validation=True, name=self.name); ret.units = self.units`;
    a non-scalar item that is still a `unyt_quantity` (the parent was one) is viewed as `unyt_array` -/
def getitem {U} (nullUnit : U) (p : Obj U) (ixs : List Ix) : Except SErr (Obj U) :=
  match index p.shape ixs with
  | .error e => .error e
  | .ok s' =>
    match npGetitem nullUnit p ixs s' with
    | .scalar =>
      -- unyt_quantity.__new__: units = getattr(scalar, "units", None); bypass: obj.name = name
      let q : Obj U := ⟨.uquantity, [], ⟨nullUnit, p.md.name⟩⟩
      .ok { q with md := { q.md with units := p.md.units } }
    | .arr o =>
      if o.shape = [] then
        let q : Obj U := ⟨.uquantity, [], ⟨o.md.units, p.md.name⟩⟩
        .ok { q with md := { q.md with units := p.md.units } }
      else if o.cls.isQuantity then
        -- `elif isinstance(ret, unyt_quantity): ret = ret.view(unyt_array)` (metadata via
        -- `__array_finalize__` from `ret`)
        .ok { o with cls := .uarray, md := arrayFinalize nullUnit (some o.md) }
      else .ok o

/-- iteration (`ndarray.__iter__` → `self[i]` through the Python-level `__getitem__`):
    0-d arrays are not iterable -/
def iterate {U} (nullUnit : U) (p : Obj U) : Except SErr (List (Except SErr (Obj U))) :=
  match p.shape with
  | [] => .error .TypeError
  | d :: _ => .ok ((List.range d).map (fun i => getitem nullUnit p [.int (Int.ofNat i)]))

/-! ### constructors -/

/-- what is handed to a constructor -/
inductive NewInput
  /-- Python `int`/`float`/`complex` -/
  | pyscalar
  /-- `np.float64(…)` and friends -/
  | npnumber
  /-- a base-class `ndarray` -/
  | ndarray (s : Shape)
  /-- an existing unyt object -/
  | unyt (cls : PyCls) (s : Shape)
  /-- a non-empty (nested) list/tuple of bare numbers -/
  | list (s : Shape)
  /-- a list/tuple whose first element is a unyt object: `n` elements of shape `elem` -/
  | listOfUnyt (n : Nat) (elem : Shape)
  /-- `[]` / `()` -/
  | emptyList
  /-- a string or another non-numeric object -/
  | nonNumeric
deriving Repr

/-- result of a constructor: class, shape, and whether the data buffer is the argument's -/
structure NewRes where
  res : Res
  sharesInput : Bool
deriving Repr, DecidableEq

/-- array.py:`unyt_array.__new__(cls, input_array, units, …, bypass_validation)` (dtype=None) -/
def arrayNew (cls : PyCls) (inp : NewInput) (bypass : Bool) : Except SErr NewRes :=
  if bypass then
    -- obj = input_array.view(type=cls, dtype=dtype): needs an array
    match inp with
    | .ndarray s => .ok ⟨⟨cls, s⟩, true⟩
    | .unyt _ s => .ok ⟨⟨cls, s⟩, true⟩
    | _ => .error .AttributeError
  else
    match inp with
    | .unyt _ s => .ok ⟨⟨cls, s⟩, true⟩                    -- input_array.view(cls)
    | .ndarray s => .ok ⟨⟨cls, s⟩, true⟩                   -- np.asarray(input_array).view(cls)
    | .listOfUnyt n e => .ok ⟨⟨.uarray, n :: e⟩, false⟩    -- return _coerce_iterable_units(…): always unyt_array
    | .list s => .ok ⟨⟨cls, s⟩, false⟩
    | .emptyList => .ok ⟨⟨cls, [0]⟩, false⟩
    | .pyscalar => .ok ⟨⟨cls, []⟩, false⟩
    | .npnumber => .ok ⟨⟨cls, []⟩, false⟩
    | .nonNumeric => .ok ⟨⟨cls, []⟩, false⟩                -- np.asarray('abc').view(cls): not refused here

/-- `isinstance(input_scalar, (numeric_type, np.number, np.ndarray))` -/
def NewInput.isNumeric : NewInput → Bool
  | .pyscalar | .npnumber | .ndarray _ | .unyt _ _ => true
  | _ => false

/-- `np.asarray(input_scalar)`: a base-class array — its shape, and whether it is a view of the
    argument (array input) or new data (scalars, lists) -/
def NewInput.asarray : NewInput → Shape × Bool
  | .pyscalar | .npnumber => ([], false)
  | .ndarray s => (s, true)
  | .unyt _ s => (s, true)
  | .list s => (s, false)
  | .emptyList => ([0], false)
  | .listOfUnyt n e => (n :: e, false)
  | .nonNumeric => ([], false)

/-- array.py:`unyt_quantity.__new__`: numeric check, `unyt_array.__new__(cls, np.asarray(x), …)`,
    `if ret.size > 1: raise RuntimeError` -/
def quantityNew (cls : PyCls) (inp : NewInput) (bypass : Bool) : Except SErr NewRes :=
  if !(bypass || inp.isNumeric) then .error .RuntimeError
  else if size inp.asarray.1 > 1 then .error .RuntimeError
  else .ok ⟨⟨cls, inp.asarray.1⟩, inp.asarray.2⟩

/-! ### reshape and the other view-making methods -/

/-- the argument of `reshape` -/
inductive ReshapeArg
  /-- `q.reshape(())`, `q.reshape()`, `q.reshape(None)` -/
  | emptyOrNone
  /-- a tuple, several ints, one int, or a list (`isList`) -/
  | dims (t : List Int)
deriving Repr

/-- array.py:`unyt_quantity.reshape`: `()`/`None` → `super().reshape`, else
    `unyt_array(self).reshape(shape)` -/
def quantityReshape (cls : PyCls) (s : Shape) (a : ReshapeArg) : Except SErr Res :=
  match a with
  | .emptyOrNone => if size s = 1 then .ok ⟨cls, []⟩ else .error .ValueError
  | .dims t =>
    match reshape s t with
    | .error e => .error e
    | .ok s' => .ok ⟨.uarray, s'⟩

/-- the ndarray methods unyt does not override keep `type(self)` (NumPy's
    `__array_finalize__` protocol) and only change the shape -/
inductive ViewOp
  | squeeze | squeezeAxis (ax : Int) | transpose | transposeAxes (p : List Nat)
  | ravel | expandDims (k : Nat)
  /-- `x.reshape(t)`; `isList`: the shape was passed as a list (`x.reshape([1, 2])`), not as a
      tuple / separate ints — `unyt_quantity.reshape` compares the argument with `()` -/
  | reshape (t : List Int) (isList : Bool)
  | repeat_ (n : Nat)
deriving Repr

def viewShape (s : Shape) : ViewOp → Except SErr Shape
  | .squeeze => .ok (squeeze s)
  | .squeezeAxis ax => squeezeAxis s ax
  | .transpose => .ok (transpose s)
  | .transposeAxes p => transposeAxes s p
  | .ravel => .ok (ravel s)
  | .expandDims k => expandDims s k
  | .reshape t _ => reshape s t
  | .repeat_ n => .ok [size s * n]

/-- `x.squeeze()`, `x.T`, `x.ravel()`, `x.reshape(t)`, … on a unyt object of class `cls`:
    `unyt_quantity.reshape` and `unyt_array.squeeze` are the only overrides -/
def viewOp (cls : PyCls) (s : Shape) (op : ViewOp) : Except SErr Res :=
  match op with
  | .reshape t isList =>
    -- `shape == ()` holds for the empty tuple only: `[] == ()` is False, so `q.reshape([])`
    -- takes the `unyt_array(self).reshape(shape)` branch
    if cls.isQuantity then quantityReshape cls s (if t = [] ∧ isList = false then .emptyOrNone else .dims t)
    else match reshape s t with | .error e => .error e | .ok s' => .ok ⟨cls, s'⟩
  | .expandDims k =>
    -- `np.expand_dims` is `a.reshape(shape)`: a quantity goes through its `reshape` override
    match expandDims s k with
    | .error e => .error e
    | .ok s' => .ok ⟨if cls.isQuantity then .uarray else cls, s'⟩
  | .squeeze =>
    -- array.py:`unyt_array.squeeze`: a 0-d result that is not yet a quantity is viewed as one
    .ok ⟨if squeeze s = [] ∧ cls.isUnyt = true ∧ cls.isQuantity = false then .uquantity else cls, squeeze s⟩
  | .squeezeAxis ax =>
    match squeezeAxis s ax with
    | .error e => .error e
    | .ok s' => .ok ⟨if s' = [] ∧ cls.isUnyt = true ∧ cls.isQuantity = false then .uquantity else cls, s'⟩
  | op => match viewShape s op with | .error e => .error e | .ok s' => .ok ⟨cls, s'⟩

/-! ### accessors: view or copy -/

inductive MemRel
  /-- shares the parent's buffer -/
  | view
  /-- independent data -/
  | copy
  /-- the probe saw both behaviours (depends on the input) -/
  | mixed
deriving DecidableEq, Repr, Inhabited

def MemRel.str : MemRel → String | .view => "view" | .copy => "copy" | .mixed => "mixed"

/-! ### `_coerce_iterable_units` on a list of unyt objects -/

section coerce
variable {K : Type} [Add K] [Sub K] [Mul K] [Div K]

/-- one list element: reading, and the scale / offset / dimension of its unit -/
structure CoItem (K : Type) where
  value : K
  scale : K
  offset : K
  dim : Dim

/-- array.py:`_coerce_iterable_units` for a list whose elements all carry units: the first
    element's unit `ff` labels the result; if any unit differs (`unitNe`) every element goes
    through `in_units(ff)` (factor `s/s₀`, offset `s/s₀·o − o₀`), a dimension mismatch raising
    `IterableUnitCoercionError`; if none differs the raw readings are kept -/
def coerceList (unitNe : CoItem K → CoItem K → Bool) (items : List (CoItem K)) :
    Except SErr (List K × Option (CoItem K)) :=
  match items with
  | [] => .ok ([], none)
  | ff :: _ =>
    if items.any (fun it => unitNe ff it) then
      if items.all (fun it => it.dim == ff.dim) then
        .ok (items.map (fun it => applyConv (convFactor it.scale it.offset ff.scale ff.offset) it.value), some ff)
      else .error .IterableUnitCoercionError
    else .ok (items.map (·.value), some ff)

end coerce

end Unyt
