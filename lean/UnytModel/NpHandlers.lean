/-
  UnytModel.NpHandlers — the `__array_function__` layer of unyt as data + an interpreter.

  Models  unyt/array.py: unyt_array.__array_function__  (dispatcher: unsupported → NotImplemented
  → TypeError; handled → handler; otherwise `func._implementation(*args, **kwargs)`) and the shape
  every handler of unyt/_array_functions.py has:

      strip the units (np.asarray), call ONE `np.<g>._implementation` with (a selection of) the
      caller's arguments, re-attach a unit to what the kernel returned.

  A handler's behaviour on one call form is a `Row` (regenerated from the live source by
  tools/extract.d/c06_handlers.py: dynamic trace of the kernel call + `ast` pass).  The numeric
  kernel `numpy` is an uninterpreted parameter: nothing below depends on what NumPy computes,
  only on *which* computation is invoked with *which* arguments.  No Mathlib.
-/
namespace Unyt.Np

/-- how a numpy parameter of the call reaches the kernel call (per parameter, per call form) -/
inductive Fwd where
  | same      -- reaches the kernel under the same parameter, units stripped (np.asarray)
  | sameRaw   -- reaches the kernel under the same parameter, still carrying units
  | dropped   -- passed by the caller, never reaches the kernel
  | changed   -- reaches the kernel as a different value
  | injected  -- not passed by the caller, the handler passes a non-default value
  | copied    -- an out= target that reaches the kernel as a different buffer
  deriving DecidableEq, Repr, Inhabited

/-- what the handler does to the kernel's result before returning it (unit attachment aside) -/
inductive Post where
  | id       -- the numbers returned are exactly the kernel's
  | text     -- the result is text (array_repr, array2string): no numbers
  | changed  -- the numbers differ from the kernel's
  | none     -- no kernel result to compare with (no call, or the call raised)
  deriving DecidableEq, Repr, Inhabited

def Fwd.str : Fwd → String
  | .same => "same" | .sameRaw => "sameRaw" | .dropped => "dropped"
  | .changed => "changed" | .injected => "injected" | .copied => "copied"

def Post.str : Post → String
  | .id => "id" | .text => "text" | .changed => "changed" | .none => "none"

/-- one observed call form of one handler: `func` is the NumPy function the caller invoked,
    `calls` the kernels the handler invoked (`true` = through `._implementation`, `false` = through
    the public function on stripped arguments), `params` the fate of every numpy parameter -/
structure Row where
  func : String
  variant : String
  sig : String
  raised : Bool
  calls : List (Bool × String)
  params : List (String × Fwd)
  /-- parameters whose `same`/`sameRaw` label rests on equality of value only (None, bool, a value the
      handler converts, a spelled-out default the handler elides); for all other parameters `same`
      means provenance: the kernel received the very object / buffer the caller passed -/
  byValue : List String
  post : Post
  deriving Repr, Inhabited

/-- static facts about one handler (ast pass over its source) -/
structure HandlerStatic where
  implements : String
  handler : String
  params : List (String × String)
  raisesOnly : Bool
  /-- every `np.<g>._implementation` the handler (or the helper it delegates to) mentions -/
  staticCalls : List String
  /-- numpy parameters the handler accepts but can never forward (its `*args/**kwargs` or the
      named parameter are never read) -/
  staticDropped : List String
  /-- static provenance column (ast, independent of the trace): numpy parameters of the kernel call
      fed by `NAME | np.asarray(NAME) | [np.asarray(_) for _ in NAME] | np.asarray(NAME) if NAME is
      not None else None` where NAME is the handler parameter of the same slot -/
  fwdDirect : List String
  /-- … fed by any expression over the handler parameter of the same slot (⊇ fwdDirect) -/
  fwdDerived : List String
  /-- a kernel call site forwards the handler's `*args` / `**kwargs` -/
  starPos : Bool
  starKw : Bool
  /-- numpy-space names of the handler's named parameters -/
  named : List String
  /-- numpy parameters fed from a handler parameter of another slot -/
  crossed : List String
  /-- for parameters labelled by value: on how many distinct caller values equality was observed -/
  byValueSeen : List (String × Nat)
  deriving Repr, Inhabited

/-! ### Python values and calls, as far as the wrapper logic can see them -/

/-- `V` = bare data (ndarray, scalar, None, str, …), opaque -/
inductive PyVal (V : Type) where
  | bare (v : V)
  | qty (v : V) (unit : String)
  | seq (xs : List (PyVal V))
  deriving Repr, Inhabited

mutual
  /-- `np.asarray` on every quantity, element-wise through lists/tuples -/
  def PyVal.strip {V : Type} : PyVal V → PyVal V
    | .bare v => .bare v
    | .qty v _ => .bare v
    | .seq xs => .seq (stripList xs)
  def stripList {V : Type} : List (PyVal V) → List (PyVal V)
    | [] => []
    | x :: xs => x.strip :: stripList xs
end

/-- a call bound to the numpy function's signature: parameter ↦ value -/
abbrev Args (V : Type) := List (String × PyVal V)

def stripArgs {V : Type} (a : Args V) : Args V := a.map fun (p, v) => (p, v.strip)

/-- the numeric kernel: `numpy g args` = what `np.<g>._implementation(**args)` computes
    (returned numbers, shape, dtype and the writes to out= / in-place targets) -/
abbrev Kernel (V R : Type) := String → Args V → R

def lookupFwd (spec : List (String × Fwd)) (p : String) : Option Fwd :=
  match spec with
  | [] => none
  | (q, f) :: rest => if q == p then some f else lookupFwd rest p

/-- the arguments the kernel receives.  `alt p` stands for whatever a `changed`/`injected`/`copied`
    parameter holds instead (unknown to the model).  A parameter the row says nothing about is
    treated as not forwarded. -/
def forward {V : Type} (spec : List (String × Fwd)) (alt : String → PyVal V) (args : Args V) : Args V :=
  (args.filterMap fun (p, v) =>
    match lookupFwd spec p with
    | some .same => some (p, v.strip)
    | some .sameRaw => some (p, v)
    | some .changed => some (p, alt p)
    | some .copied => some (p, alt p)
    | some .dropped => none
    | some .injected => none
    | none => none)
  ++ (spec.filterMap fun (p, f) => if f == .injected then some (p, alt p) else none)

/-- what a handled call produces: the unit label attached and the kernel-level result -/
inductive Outcome (R : Type) where
  | raised (exc : String)
  | noKernel                       -- the handler produced its result without a kernel call
  | value (unit : String) (r : R)
  deriving Repr

/-- `attach`: re-attaching a unit never touches the numbers -/
def attach {R : Type} (unit : String) (r : R) : Outcome R := .value unit r

def Outcome.values {R : Type} : Outcome R → Option R
  | .value _ r => some r
  | _ => none

def applyPost {R : Type} (p : Post) (alter : R → R) (r : R) : R :=
  match p with
  | .id => r
  | .text => r
  | .changed => alter r
  | .none => r

/-- one handled call: `attach (unitRule) (post (numpy calls (forward (args))))`.
    `unitRule` is C07's matter and stays a parameter. -/
def run {V R : Type} (numpy : Kernel V R) (alt : String → PyVal V) (alter : R → R)
    (unitRule : Args V → String) (row : Row) (args : Args V) : Outcome R :=
  match row.calls with
  | [] => if row.raised then .raised "handler" else .noKernel
  | (_, g) :: _ =>
    if row.raised then .raised "kernel"   -- every observed instance of this call form raised inside the kernel
    else attach (unitRule args) (applyPost row.post alter (numpy g (forward row.params alt args)))

/-! ### the dispatcher (array.py:2050-2068) -/

inductive Route where
  | unsupported | handled | default
  deriving DecidableEq, Repr

def route (unsupported handled : List String) (f : String) : Route :=
  if unsupported.contains f then .unsupported
  else if handled.contains f then .handled
  else .default

/-- `foreign` = some type in `types` is neither a unyt_array subclass nor ndarray -/
def dispatch {V R : Type} (unsupported handled : List String) (numpy : Kernel V R)
    (alt : String → PyVal V) (alter : R → R) (unitRule : Args V → String)
    (rowOf : String → Row) (foreign : Bool) (f : String) (args : Args V) : Outcome R :=
  match route unsupported handled f with
  | .unsupported => .raised "TypeError"
  | .default => .value "" (numpy f args)
  | .handled => if foreign then .raised "TypeError" else run numpy alt alter unitRule (rowOf f) args

/-! ### defects of a row (what keeps it from being a faithful forwarder) -/

def callDefects (row : Row) : List String :=
  match row.calls with
  | [] => if row.raised then [] else ["nocall"]
  | [(_, g)] => if g == row.func then [] else ["calls:" ++ g]
  | (_, g) :: _ :: _ => (if g == row.func then [] else ["calls:" ++ g]) ++ ["multicall"]

def paramDefects (row : Row) : List String :=
  row.params.filterMap fun (p, f) =>
    match f with
    | .same => none
    | .sameRaw => none
    | f => some (f.str ++ ":" ++ p)

def postDefects (row : Row) : List String :=
  match row.calls, row.post with
  | [], _ => []
  | _, .changed => ["post:changed"]
  | _, _ => []

def defects (row : Row) : List String := callDefects row ++ paramDefects row ++ postDefects row

def staticDefects (h : HandlerStatic) : List String :=
  (h.staticCalls.filterMap fun g => if g == h.implements then none else some ("calls:" ++ g))
  ++ (if h.raisesOnly then [] else h.staticDropped.map fun p => "dropped:" ++ p)
  ++ (h.crossed.map fun p => "crossed:" ++ p)

def seenCount (h : HandlerStatic) (p : String) : Nat :=
  match h.byValueSeen.find? (·.1 == p) with
  | some (_, n) => n
  | none => 0

/-- is the dynamic label `same`/`sameRaw` of parameter `p` backed by the static column?
    provenance labels need any static feed from the same slot (or star forwarding); by-value labels
    need a direct feed, or a derived feed observed on at least two distinct values -/
def justified (h : HandlerStatic) (row : Row) (p : String) : Bool :=
  let viaStar := !h.named.contains p && (h.starPos || h.starKw)
  if row.byValue.contains p then
    h.fwdDirect.contains p || viaStar || (h.fwdDerived.contains p && seenCount h p ≥ 2)
  else
    h.fwdDerived.contains p || viaStar

/-- cross-check of the two regenerated columns (dynamic trace vs ast) -/
def provenanceDefects (h : HandlerStatic) (row : Row) : List String :=
  match row.calls with
  | [] => []
  | _ :: _ =>
    row.params.filterMap fun (p, f) =>
      match f with
      | .same => if justified h row p then none else some ("unjustified:" ++ p)
      | .sameRaw => if justified h row p then none else some ("unjustified:" ++ p)
      | _ => none

/-- every defect of every row / handler is on the literal exclusion list -/
def tableOk (excl : List (String × String)) (rows : List Row) : Bool :=
  rows.all fun r => (defects r).all fun d => excl.contains (r.func, d)

/-- the same over the handler-grouped table, including the cross-check of the dynamic labels with
    the static provenance column of the row's handler -/
def groupedOk (excl : List (String × String)) (tbl : List (HandlerStatic × List Row)) : Bool :=
  tbl.all fun (h, rows) => rows.all fun r =>
    r.func == h.implements && (defects r ++ provenanceDefects h r).all fun d => excl.contains (r.func, d)

def staticOk (excl : List (String × String)) (hs : List HandlerStatic) : Bool :=
  hs.all fun h => (staticDefects h).all fun d => excl.contains (h.implements, d)

/-- every exclusion is witnessed by a row or a handler (it cannot outlive its finding) -/
def exclusionsWitnessed (excl : List (String × String)) (rows : List Row) (hs : List HandlerStatic) : Bool :=
  excl.all fun (f, d) =>
    rows.any (fun r => r.func == f && (defects r).contains d)
    || (hs.any fun h => h.implements == f && rows.any fun r => r.func == f && (provenanceDefects h r).contains d)
    || hs.any (fun h => h.implements == f && (staticDefects h).contains d)

/-- rendering used by the correspondence driver: the kernel call predicted for symbolic arguments
    (`V := String`, a value is named by the parameter that carried it) -/
def renderVal : PyVal String → String
  | .bare v => "~" ++ v
  | .qty v _ => v
  | .seq _ => "[]"

def renderCall (g : String) (a : Args String) : String :=
  g ++ "(" ++ ",".intercalate (a.map fun (p, v) => p ++ "=" ++ renderVal v) ++ ")"

end Unyt.Np
