/-
  UnytModel.UnitRulesCheck — comparing a regenerated unit-rule row (UnytModel/UnitRules.lean) with the
  hand-written homogeneity degrees (Ref/C07Degrees.lean), symbolically in the shapes.
  Executable Booleans over the WHOLE regenerated table; decided by the kernel in UnytProofs/C07.lean and
  executed by the driver (Ops/C07.lean).  No Mathlib.
-/
import UnytModel.UnitRules
import UnytModel.Ref.C07Degrees

namespace Unyt.UR
open Unyt.Ref

def Row.callForm (r : Row) : CallForm :=
  ⟨r.func, r.flags, r.operands.filter fun (_, g) => g != "d" && g != "out"⟩

/-- the operand groups that carry units in this call form -/
def Row.groups (r : Row) : List String := (r.callForm.operands.map (·.2)).eraseDups

/-- the roles (reference names) of the parameters of group `g` -/
def Row.rolesOf (r : Row) (g : String) : List String :=
  ((r.callForm.operands.filter (·.2 == g)).map fun (n, _) => roleOf r.func n).eraseDups

/-- number of unit-carrying operands passed in (list) parameter `p` -/
def Row.count (r : Row) (p : String) : Nat :=
  (r.callForm.operands.filter fun (n, _) => paramBase n == p).length

/-- the degree the reference gives group `g` in a leaf -/
def expectedExpo (r : Row) (spec : List (String × Expo)) (g : String) : Option Expo :=
  match r.rolesOf g with
  | [role] => some ((expoOf spec role).spec r.count)
  | _ => none

/-- defects of leaf number `i` against its spec -/
def leafDefects (r : Row) (i : Nat) (spec : LeafSpec) (leaf : Leaf) : List String :=
  let foreign := leaf.expo.filterMap fun (g, e) =>
    if r.groups.contains g || e.isZero then none else some s!"degree:{i}:foreign:{g}:{e.str}"
  match spec with
  | .unitless =>
    leaf.expo.filterMap fun (g, e) => if e.isZero then none else some s!"degree:{i}:{g}:{e.str}/c:0"
  | .units l =>
    let perGroup := r.groups.filterMap fun g =>
      match expectedExpo r l g with
      | some e => if (expoOf leaf.expo g).same e then none else some s!"degree:{i}:{g}:{(expoOf leaf.expo g).str}/{e.str}"
      | none => some s!"degree:{i}:{g}:roles"
    let needsUnits := r.groups.any fun g =>
      match expectedExpo r l g with
      | some e => !e.isZero
      | none => true
    (if needsUnits && !leaf.carries && perGroup.isEmpty then [s!"degree:{i}:bare"] else []) ++ perGroup ++ foreign

/-- the label's scale must be the product of the operand scales (no simplification coefficient dropped) -/
def kappaDefects (r : Row) : List String :=
  (r.leaves.zipIdx.filterMap fun (leaf, i) =>
    if leaf.carries && leaf.kappa != 1 then some s!"coefficient:{i}:{ratStr leaf.kappa}" else none)

def zipDefects (r : Row) : Nat → List LeafSpec → List Leaf → List String
  | _, [], [] => []
  | i, s :: ss, l :: ls => leafDefects r i s l ++ zipDefects r (i + 1) ss ls
  | _, ss, ls => [s!"degree:leaves:{ls.length}/{ss.length}"]

def restDefects (r : Row) (spec : LeafSpec) : Nat → List Leaf → List String
  | _, [] => []
  | i, l :: ls => leafDefects r i spec l ++ restDefects r spec (i + 1) ls

/-- the out= buffer must end up with the label of the (first) result leaf -/
def outDefects (r : Row) : List String :=
  match r.outLabel, r.leaves with
  | some lab, leaf :: _ =>
    let gs := ((lab.map (·.1)) ++ (leaf.expo.map (·.1))).eraseDups
    gs.filterMap fun g =>
      if (expoOf lab g).same (expoOf leaf.expo g) then none
      else some s!"out-label:{g}:{(expoOf lab g).str}/{(expoOf leaf.expo g).str}"
  | _, _ => []

/-- what keeps a row from agreeing with the reference (empty = the unit rule IS the degree, for all shapes) -/
def rowDefects (r : Row) : List String :=
  if r.raised then [] else
  (match expected r.callForm with
   | .missing => ["missing"]
   | .mustRefuse => ["refuse"]
   | .allUnitless => restDefects r .unitless 0 r.leaves
   | .leaves l => if r.tailRepeats then ["degree:leaves:repeat"] else zipDefects r 0 l r.leaves
   | .headRest h rest =>
     match r.leaves with
     | [] => ["degree:leaves:0/1"]
     | lf :: more => leafDefects r 0 h lf ++ restDefects r rest 1 more)
  ++ outDefects r ++ kappaDefects r

/-- every defect of every row is on the literal exclusion list -/
def tableOk (excl : List (String × String)) (rows : List Row) : Bool :=
  rows.all fun r => (rowDefects r).all fun d => excl.contains (r.func, d)

/-- every exclusion is witnessed by a row (it cannot outlive its finding) -/
def exclusionsWitnessed (excl : List (String × String)) (rows : List Row) : Bool :=
  excl.all fun (f, d) => rows.any fun r => r.func == f && (rowDefects r).contains d

/-- the `ast` pass and the dynamic fit agree: a non-constant exponent in a handler's source is the
    expression the fit found in every returning row of that function, and every non-constant fitted
    exponent is in the source -/
def isConst : Expo → Bool
  | .const _ => true
  | _ => false

def rowExpos (r : Row) : List Expo :=
  (r.leaves.flatMap fun l => l.expo.map (·.2)) ++ ((r.outLabel.getD []).map (·.2))

def staticsMatch (statics : List (String × Expo)) (rows : List Row) : Bool :=
  (statics.all fun (f, e) =>
    isConst e || rows.all fun r => r.func != f || r.raised || (rowExpos r).any (· == e))
  && rows.all fun r => (rowExpos r).all fun e => isConst e || statics.contains (r.func, e)

/-- dimension-preserving functions: handled ones label the result with the input's unit to the power
    one (the group of the reference's `dimOperand`, default the first unit-carrying operand) -/
def dimGroup (r : Row) : Option String :=
  match dimOperand r.func with
  | some p => (r.callForm.operands.find? fun (n, _) => paramBase n == p).map (·.2)
  | none => (r.callForm.operands.head?).map (·.2)

def keepsUnits (r : Row) : Bool :=
  r.raised ||
  match r.leaves, dimGroup r with
  | leaf :: _, some g =>
    leaf.carries && (expoOf leaf.expo g).same (.const 1)
      && leaf.expo.all fun (g', e) => g' == g || e.isZero
  | _, _ => false

/-- `fs` = the hand-written list of dimension-preserving functions: none is unsupported, and every
    regenerated row of one of them keeps the units (or the function is on the exclusion list);
    functions of the list without a handler are on the default path by definition of `Np.route` -/
def dimPreservingOk (unsupported : List String) (excl : List String) (rows : List Row) (fs : List String) : Bool :=
  (fs.all fun f => !unsupported.contains f)
  && rows.all fun r => keepsUnits r || !fs.contains r.func || excl.contains r.func

/-- drop adjacent duplicates (the regenerated rows are grouped by function) -/
def dedupAdj : List String → List String
  | [] => []
  | [a] => [a]
  | a :: b :: t => if a == b then dedupAdj (b :: t) else a :: dedupAdj (b :: t)

end Unyt.UR
