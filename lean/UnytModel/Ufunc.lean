/-
  UnytModel.Ufunc — the decision logic of `unyt_array.__array_ufunc__`
  (unyt/array.py:1798-2048) as a total function from operand descriptors to a `Run`:
  the ordered list of effects on `out=` operands plus `Except Err Outcome`.

  Layout (so that C04 covariance, C17 dtypes, C18 effects, C16 result class can reuse it):
    §1 `Rule`, `Tables`       the regenerated `_ufunc_registry` and operator sets
    §2 operand descriptors    `UnitR`, `Data`, `Operand`, `OutSpec`, `Call`
    §3 `coerce`, `unitsOf`    `_coerce_iterable_units` and the unit defaulting for bare operands
    §4 `applyRule1/2`         the unit rule functions (`_preserve_units`, `_difference_units`, …)
    §5 `commensurate`         the dimension check with its exceptions (zero, dimensionless
                              comparison, `==`/`!=` early return) — the heart of C01
    §6 `prepOut`, `finishOut` `out=` handling (int→float retype before anything else, unit labelling after)
    §7 `unaryPath`, `binaryPath`, `powerPath`, `clipPath`, `dispatch`
  The numeric kernel is a parameter: `Call.kernelErr` says whether NumPy itself refuses the
  stripped call; the numbers are not modelled here.  Nothing in this file imports Mathlib.
-/
import UnytModel.Convert
import UnytModel.Generated.Ufuncs

namespace Unyt.Ufunc

/-! ## §1 rules and tables -/

/-- the unit-rule functions of unyt/array.py:179-291 -/
inductive Rule
  | preserve | difference | multiply | divide | returnWithoutUnit | passthrough | power
  | sqrt | cbrt | square | reciprocal | arctan2 | comparison | invert | bitop | floorDivide
  | other (fn : String)
deriving DecidableEq, Repr, Inhabited

def Rule.ofName (s : String) : Rule :=
  if s = "_preserve_units" then .preserve else if s = "_difference_units" then .difference
  else if s = "_multiply_units" then .multiply else if s = "_divide_units" then .divide
  else if s = "_return_without_unit" then .returnWithoutUnit
  else if s = "_passthrough_unit" then .passthrough else if s = "_power_unit" then .power
  else if s = "_sqrt_unit" then .sqrt else if s = "_cbrt_unit" then .cbrt
  else if s = "_square_unit" then .square else if s = "_reciprocal_unit" then .reciprocal
  else if s = "_arctan2_unit" then .arctan2 else if s = "_comparison_unit" then .comparison
  else if s = "_invert_units" then .invert else if s = "_bitop_units" then .bitop
  else if s = "_floor_divide_units" then .floorDivide
  else .other s

def Rule.str : Rule → String
  | .preserve => "preserve" | .difference => "difference" | .multiply => "multiply"
  | .divide => "divide" | .returnWithoutUnit => "return_without_unit"
  | .passthrough => "passthrough" | .power => "power" | .sqrt => "sqrt" | .cbrt => "cbrt"
  | .square => "square" | .reciprocal => "reciprocal" | .arctan2 => "arctan2"
  | .comparison => "comparison" | .invert => "invert" | .bitop => "bitop"
  | .floorDivide => "floor_divide" | .other s => "other:" ++ s

/-- the rules for which `__array_ufunc__` enters the dimension check
    (`unit_operator in (_preserve_units, _comparison_unit, _arctan2_unit, _difference_units)`) -/
def Rule.checked : Rule → Bool
  | .preserve | .comparison | .arctan2 | .difference => true
  | _ => false

/-- the rules under which the dispatcher enters the "rescale the second operand" block: the four
    checked ones and `_floor_divide_units` — which gets there only with commensurable operands
    (on a dimension mismatch it has been replaced by `_divide_units` just before) -/
def Rule.rescales (r : Rule) : Bool := r.checked || r == .floorDivide

/-- everything `__array_ufunc__` reads from module-level tables; ufuncs are identified by `__name__` -/
structure Tables where
  registry : List (String × Rule)
  trig : List String
  multiOut : List (String × Nat)
  /-- `POWER_MAPPING`: name ↦ (f 0, f 1) of the affine count → exponent map -/
  powerMap : List (String × Int × Int)
  multiplyName : String
  divideName : String
  powerName : String
  equalName : String
  notEqualName : String
  clipName : String
  modfName : String
  divmodName : String
  /-- whether the `clip` imported by unyt/array.py is a ufunc (it is `numpy.clip`, a function) -/
  clipIsUfunc : Bool
deriving Repr

/-- the tables regenerated from the live objects -/
def Tables.generated : Tables where
  registry := Generated.ufuncRegistryRows.map fun r => (r.1, Rule.ofName r.2.1)
  trig := Generated.trigonometricOperators
  multiOut := Generated.multipleOutputOperators
  powerMap := Generated.powerMapping
  multiplyName := Generated.ident_multiply
  divideName := Generated.ident_divide
  powerName := Generated.ident_power
  equalName := Generated.ident_equal
  notEqualName := Generated.ident_not_equal
  clipName := Generated.ident_clip
  modfName := Generated.ident_modf
  divmodName := Generated.ident_divmod
  clipIsUfunc := Generated.clipIsUfunc

/-- `self._ufunc_registry[ufunc]` (`none` = `KeyError`) -/
def Tables.ruleOf (T : Tables) (f : String) : Option Rule :=
  (T.registry.find? (·.1 == f)).map (·.2)

/-! ## §2 operand descriptors -/

/-- a unit together with what `repr(unit)` prints (the dispatcher branches on that string) -/
structure UnitR (K : Type) where
  v : UnitV K
  repr : String
deriving Repr

/-- `Unit()` / `NULL_UNIT` -/
def UnitR.null {K : Type} [OfNat K 0] [OfNat K 1] : UnitR K :=
  ⟨⟨UExpr.one, 1, 0, Dim.one, true⟩, "(dimensionless)"⟩

inductive Cls | array | quantity
deriving DecidableEq, Repr, Inhabited

inductive DtKind | f | i | u | c | b | other
deriving DecidableEq, Repr, Inhabited

/-- what the dispatcher can observe of an operand's numbers -/
structure Data where
  shape : List Nat := []
  /-- `np.count_nonzero(·) == 0` -/
  allZero : Bool := false
  kind : DtKind := .f
  itemsize : Nat := 8
  /-- `np.ptp(·) == 0` (read on the `power` path only) -/
  constant : Bool := true
  /-- `float(first element)` rationalised the way `Unit.__pow__` does (`power` path only) -/
  first : Rat := 0
deriving Repr, Inhabited

def Data.size (d : Data) : Nat := d.shape.foldl (· * ·) 1

/-- an input of a ufunc call -/
inductive Operand (K : Type)
  /-- an instance of `unyt_array` (or of its subclass `unyt_quantity`) -/
  | unyt (cls : Cls) (u : UnitR K) (d : Data)
  /-- a number, an ndarray, a list/tuple of plain numbers -/
  | bare (d : Data)
  /-- a list/tuple holding at least one `unyt_array`; an item without `units` is `none` -/
  | seq (items : List (Option (UnitR K))) (d : Data)
deriving Repr

def Operand.data {K : Type} : Operand K → Data
  | .unyt _ _ d => d | .bare d => d | .seq _ d => d

/-- `isinstance(i, unyt_array)` -/
def Operand.isUnyt {K : Type} : Operand K → Bool
  | .unyt _ _ _ => true | _ => false

/-- an `out=` array -/
structure OutArr where
  isUnyt : Bool := true
  /-- `out.dtype.kind in ("u", "i")` -/
  intDtype : Bool := false
deriving Repr, DecidableEq, Inhabited

inductive OutSpec
  | none
  | one (o : OutArr)
  /-- the tuple form used by multiple-output ufuncs -/
  | many (os : List (Option OutArr))
deriving Repr, Inhabited

inductive Method | call | reduce | accumulate | outer | reduceat | at
deriving DecidableEq, Repr, Inhabited

/-- one `__array_ufunc__(ufunc, method, *inputs, **kwargs)` call -/
structure Call (K : Type) where
  ufunc : String
  method : Method := .call
  inputs : List (Operand K)
  out : OutSpec := .none
  /-- `in_shape[axis]` (axis defaults to 0); `none` = an explicit `axis=None`: the whole size
      (read by the multiply/divide reduction only) -/
  axisLen : Option Nat := none
  /-- NumPy's own refusal of the stripped call (the kernel is a parameter of the model) -/
  kernelErr : Option Err := none
  /-- shape of what NumPy's kernel returns for the stripped call (read by the wrap-up only) -/
  kernelShape : List Nat := []
  /-- `initial=` of a reduction: expressed in the operand's units when it carries units and the
      ufunc's rule is a checked one (array.py, one-input branch) -/
  initial : Option (Operand K) := none
  /-- other keyword operands that `__array_ufunc__` forwards to NumPy without looking at them
      (`where=`, …): they cannot influence the outcome -/
  extra : List (String × Operand K) := []

/-- effects on the `out=` operands (inputs are never written unless they are `out`) -/
inductive Effect (K : Type)
  /-- `out.dtype = 'f<itemsize>'` + `np.copyto(out, float_values)` — integer out made float -/
  | retypeOut
  /-- the kernel (or the `==`/`!=` early return) wrote into output `i` -/
  | writeOut (i : Nat)
  /-- `multiply(out, mul, out=out)` -/
  | scaleOut
  /-- `out.units = …` -/
  | setOutUnits (i : Nat) (u : UnitV K)
deriving Repr

/-- an effect that leaves the numbers and the unit of the array it touches as they were -/
def Effect.harmless {K : Type} : Effect K → Bool
  | .retypeOut => true
  | _ => false

structure Outcome (K : Type) where
  /-- unit of the result; `none` = a plain ndarray / bool comes back -/
  unit : Option (UnitV K)
  /-- factor the (second, or for trigonometric functions the only) operand was multiplied by -/
  factor : Option K := none
  /-- factor the *first* operand was multiplied by (temperature difference + temperature point:
      the difference is re-expressed in the point's degrees, array.py:1997-2006) -/
  factorFirst : Option K := none
  /-- itemsize of the float (complex for a complex operand) dtype the factor and the second operand were cast to -/
  factorItemsize : Option Nat := none
  /-- factor `initial=` was multiplied by (`initial.to_value(u)`) -/
  factorInitial : Option K := none
  /-- multiplier applied to the result afterwards (`mul`, and the dimensionless-ratio rescale) -/
  mul : K
  /-- `==`/`!=` early return: `some false` = all-False, `some true` = all-True -/
  early : Option Bool := none
deriving Repr

/-- effects performed (in order, also when the call then raises) and the result -/
structure Run (K : Type) where
  effects : List (Effect K)
  result : Except Err (Outcome K)

/-- what the model is parametrised by besides the call -/
structure Ctx (K : Type) where
  T : Tables
  pre : Prefixes K
  lut : Lut K
  /-- `Unit.__eq__` (`math.isclose` on scale and offset at `Float`, exact at a lawful carrier) -/
  ueq : UnitV K → UnitV K → Bool
  /-- `(…).simplify().as_coeff_unit()` (C04/C05 refine this; identity-like by default) -/
  simp : UnitV K → K × UnitV K

section
variable {K : Type} [Add K] [Sub K] [Mul K] [Div K] [OfNat K 0] [OfNat K 1] [BEq K] [RPow K]

/-! ## §3 coercion and unit defaulting -/

/-- `unit.dimensions is temperature` / `is angle`: identity with the library's singleton -/
def isTemperature (u : UnitV K) : Bool := u.canon && u.dim == Dim.dTemperature
def isAngle (u : UnitV K) : Bool := u.canon && u.dim == Dim.dAngle

/-- the loop of `_coerce_iterable_units` that converts every datum to the first item's unit -/
def coerceItems (ff : UnitR K) : List (Option (UnitR K)) → Except Err Unit
  | [] => .ok ()
  | none :: _ => .error .Other              -- AttributeError: 'float' object has no attribute 'in_units'
  | some u :: rest =>
    if u.v.dim != ff.v.dim then .error .IterableUnitCoercionError else coerceItems ff rest

/-- `_coerce_iterable_units(i)`: the units of the coerced array (`none` = plain ndarray) -/
def coerce (ueq : UnitV K → UnitV K → Bool) : Operand K → Except Err (Option (UnitR K))
  | .unyt _ u _ => .ok (some u)
  | .bare d => if d.kind == .other then .error .IterableUnitCoercionError else .ok none
  | .seq items d =>
    let ff : UnitR K := match items.head? with
      | some (some u) => u
      | _ => UnitR.null
    let unitOf : Option (UnitR K) → UnitV K := fun o => match o with
      | some u => u.v | none => (UnitR.null : UnitR K).v
    let r : Except Err Unit :=
      if items.any (fun o => !(ueq ff.v (unitOf o))) then coerceItems ff items else .ok ()
    match r with
    | .error e => .error e
    | .ok () => if d.kind == .other then .error .IterableUnitCoercionError else .ok (some ff)

/-- `getattr(i, "units", None) or getattr(inp, "units", None)` -/
def unitsOf (i : Operand K) (coerced : Option (UnitR K)) : Option (UnitR K) :=
  match i with
  | .unyt _ u _ => some u
  | _ => coerced

/-- `u = Unit(registry=…)` for an operand without units (array.py:1859-1862) -/
def defaultUnit (o : Option (UnitR K)) : UnitR K :=
  match o with | some u => u | none => UnitR.null

/-- the unit `__array_ufunc__` works with for input `i` once it has been coerced to `coerced` -/
def resolved (i : Operand K) (coerced : Option (UnitR K)) : UnitR K := defaultUnit (unitsOf i coerced)

/-! ## §4 the unit rules -/

/-- `repr(unit)` of a unit that came out of the table by name -/
def tableUnit (lut : Lut K) (name : String) : Option (UnitV K) :=
  (lut.find? name).map fun e => ⟨⟨1, [(name, 1)]⟩, e.scale, e.offset, e.dim, true⟩

def isInfixL (a : List Char) : List Char → Bool
  | [] => a.isEmpty
  | c :: t => a.isPrefixOf (c :: t) || isInfixL a t

/-- Python's `s1 in s2` on strings -/
def strIn (s1 s2 : String) : Bool := isInfixL s1.toList s2.toList

def startsDelta (s : String) : Bool := "delta_".toList.isPrefixOf s.toList

/-- `_preserve_units(unit1, unit2)` -/
def preserveUnits (u0 : UnitR K) (u1 : Option (UnitR K)) : UnitR K :=
  match u1 with
  | none => u0
  | some u1 =>
    if !(isTemperature u0.v) then u0
    else if u0.v.offset == 0 && u1.v.offset != 0 then u1 else u0

/-- `_difference_units(unit1, unit2)` -/
def differenceUnits (C : Ctx K) (u0 : UnitR K) (u1 : Option (UnitR K)) : Except Err (UnitV K) :=
  if !(isTemperature u0.v) then .ok (preserveUnits u0 u1).v
  else
    let s1 := u0.repr
    let cont : Except Err (UnitV K) :=
      if u0.v.offset == 0 then .ok u0.v
      else if s1 = "degF" then
        match tableUnit C.lut "delta_degF" with | some u => .ok u | none => .error .RuntimeError
      else if s1 = "degC" then
        match tableUnit C.lut "delta_degC" with | some u => .ok u | none => .error .RuntimeError
      else .error .RuntimeError
    match u1 with
    | none => cont
    | some u1 =>
      if !(C.ueq u1.v u0.v) then
        let s2 := u1.repr
        if strIn s1 s2 && startsDelta s2 then .ok u0.v
        else if strIn s2 s1 && startsDelta s1 then .ok u1.v
        else .error .InvalidUnitOperation
      else cont

/-- the rule function called with one unit (unary ufuncs, and `reduce`/`accumulate` of binary ones):
    `(mul, unit)`; `none` unit = "return without unit" -/
def applyRule1 (C : Ctx K) (r : Rule) (u : UnitR K) : Except Err (K × Option (UnitV K)) :=
  match r with
  | .preserve | .passthrough => .ok (1, some u.v)
  | .difference => (differenceUnits C u none).map fun x => (1, some x)
  | .returnWithoutUnit | .comparison => .ok (1, none)
  | .sqrt => (u.v.pow (1/2)).map fun x => (1, some x)
  | .cbrt => (u.v.pow (1/3)).map fun x => (1, some x)
  | .square => (u.v.mul u.v).map fun x => (1, some x)
  | .reciprocal => (u.v.pow (-1)).map fun x => (1, some x)
  -- two-argument rule functions called with one argument, and the refusing ones: TypeError
  | .multiply | .divide | .power | .arctan2 | .bitop | .invert | .floorDivide => .error .TypeError
  | .other _ => .error .Other

/-- the rule function called with two units -/
def applyRule2 (C : Ctx K) (r : Rule) (u0 u1 : UnitR K) : Except Err (K × Option (UnitV K)) :=
  match r with
  | .preserve => .ok (1, some (preserveUnits u0 (some u1)).v)
  | .difference => (differenceUnits C u0 (some u1)).map fun x => (1, some x)
  | .passthrough => .ok (1, some u0.v)
  | .returnWithoutUnit | .comparison => .ok (1, none)
  | .arctan2 => .ok (1, some (UnitR.null : UnitR K).v)
  | .multiply => (u0.v.mul u1.v).map fun x => let s := C.simp x; (s.1, some s.2)
  | .divide => (u0.v.div u1.v).map fun x => let s := C.simp x; (s.1, some s.2)
  -- `_floor_divide_units`: dividing the units refuses offset / logarithmic operands; the floored
  -- ratio of two commensurable quantities is a pure number
  | .floorDivide => (u0.v.div u1.v).map fun _ => (1, some (UnitR.null : UnitR K).v)
  | .power | .sqrt | .cbrt | .square | .reciprocal | .bitop | .invert => .error .TypeError
  | .other _ => .error .Other

/-! ## §5 the dimension check and its exceptions -/

/-- verdict of the block `if unit_operator in (…): if u0 is not u1 and u0 != u1: …` -/
inductive Check (K : Type)
  /-- go on with these units; `convert` = the second operand is rescaled from `u1` to `u0` -/
  | pass (u0 u1 : UnitR K) (convert : Bool)
  /-- `==`/`!=` between incommensurable operands: all-False (`false`) / all-True (`true`) -/
  | early (allTrue : Bool)
  /-- `raise UnitOperationError(ufunc, u0, u1)` -/
  | refuse
deriving Repr

/-- the coerced operand has no `units` attribute: a number, a bare array, a sequence of numbers -/
def Operand.hasNoUnits {K : Type} : Operand K → Bool
  | .bare _ => true
  | _ => false

/-- the zero exception: an operand *without units* that is all zeros adopts the unit of its
    partner (`u0 = u1` for the first operand, else `u1 = u0` for the second) -/
def adoptZero (i0 i1 : Operand K) (u0 u1 : UnitR K) : UnitR K × UnitR K :=
  if i0.hasNoUnits && i0.data.allZero then (u1, u1)
  else if i1.hasNoUnits && i1.data.allZero then (u0, u0)
  else (u0, u1)

/-- array.py:1903-1954 -/
def commensurate (C : Ctx K) (rule : Rule) (f : String) (i0 i1 : Operand K) (u0 u1 : UnitR K) : Check K :=
  if C.ueq u0.v u1.v then .pass u0 u1 false
  else
    let a := adoptZero i0 i1 u0 u1
    let u0 := a.1
    let u1 := a.2
    if u0.v.dim != u1.v.dim then
      if rule == .comparison then
        if u0.v.isDimensionless then .pass u1 u1 true
        else if u1.v.isDimensionless then .pass u0 u0 true
        else if f == C.T.equalName then .early false
        else if f == C.T.notEqualName then .early true
        else .refuse
      else .refuse
    else .pass u0 u1 true

/-! ## §6 `out=` handling -/

/-- `_float_out_view`: an integer `out` is turned into a float array immediately before the kernel
    writes into it — after every unit check -/
def prepOut (T : Tables) (f : String) : OutSpec → List (Effect K)
  | .one o => if (T.multiOut.any (·.1 == f)) then [] else if o.intDtype then [.retypeOut] else []
  | _ => []

/-- which outputs the kernel writes -/
def kernelWrites : OutSpec → List (Effect K)
  | .none => []
  | .one _ => [.writeOut 0]
  | .many os => (List.range os.length).filterMap fun i =>
      match os[i]? with | some (some _) => some (.writeOut i) | _ => none

/-- array.py:2030-2045: `multiply(out, mul, out=out)` and the unit labels of the outputs -/
def finishOut (mulIsOne : Bool) (unit : Option (UnitV K)) : OutSpec → List (Effect K) × Option Err
  | .none => ([], none)
  | .one o =>
    let e1 : List (Effect K) := if mulIsOne then [] else [.scaleOut]
    if o.isUnyt then
      (e1 ++ [.setOutUnits 0 (match unit with | some u => u | none => (UnitR.null : UnitR K).v)], none)
    else (e1, none)
  | .many os =>
    let e1 : List (Effect K) := if mulIsOne then [] else [.scaleOut]
    let rec go (i : Nat) : List (Option OutArr) → List (Effect K) × Option Err
      | [] => ([], none)
      | none :: rest => go (i + 1) rest
      | some o :: rest =>
        match unit with
        | none => ([], some .Other)           -- ndarray result has no `.units`
        | some u =>
          if o.isUnyt then
            let r := go (i + 1) rest
            (.setOutUnits i u :: r.1, r.2)
          else ([], some .Other)              -- a plain ndarray takes no `.units` attribute
    let r := go 0 os
    (e1 ++ r.1, r.2)

/-! ## §7 the paths of `__array_ufunc__` -/

def ratOfInt (n : Int) : Rat := n

/-- `_apply_power_mapping`: a reduction of multiply/divide is a power of the unit -/
def powerMapUnit (T : Tables) (f : String) (u : UnitV K) (n : Nat) : Except Err (UnitV K) :=
  match T.powerMap.find? (·.1 == f) with
  | none => .error .KeyError
  | some (_, f0, f1) => u.pow (ratOfInt (f0 + (f1 - f0) * (n : Int)))

/-- array.py:2014-2029: the result is wrapped in `ret_class`; when neither input is a
    `unyt_array` (`_get_binary_op_return_class` then answers `list`, `float`, `ndarray`, …) that
    constructor call fails — after the kernel has run -/
def wrapClassFails (_T : Tables) (c : Call K) (retPlain : Bool) (unit : Option (UnitV K)) : Bool :=
  -- `_wrap_ufunc_output`: 0-d and size-1 results never reach `ret_class(...)`, also for modf/divmod
  retPlain && unit.isSome && (c.kernelShape != [] && c.kernelShape.foldl (· * ·) 1 != 1)

/-- wrap-up shared by all paths: wrap the result, label the outputs, return -/
def wrapUp (T : Tables) (eff : List (Effect K)) (c : Call K) (retPlain : Bool) (mul : K)
    (unit : Option (UnitV K)) (factor : Option K) (fsz : Option Nat) : Run K :=
  if wrapClassFails T c retPlain unit then ⟨eff, .error .TypeError⟩
  else
    let fin := finishOut (mul == 1) unit c.out
    match fin.2 with
    | some e => ⟨eff ++ fin.1, .error e⟩
    | none => ⟨eff ++ fin.1, .ok { unit := unit, factor := factor, factorItemsize := fsz, mul := mul }⟩

/-- array.py:1824-1840 -/
def unaryPath (C : Ctx K) (c : Call K) (inp : Operand K) (eff0 : List (Effect K)) : Run K :=
  match inp with
  | .bare _ | .seq _ _ => ⟨eff0, .error .Other⟩          -- `None.dimensions`: AttributeError
  | .unyt _ u d =>
    -- trigonometric functions of angles: the operand is converted to radian first
    let trig : Except Err (Option K) :=
      if isAngle u.v && C.T.trig.contains c.ufunc then
        match tableUnit C.lut "rad" with
        | none => .error .UnitParseError
        | some rad =>
          match getConversionFactor C.pre C.lut u.v rad with
          | .error e => .error e
          | .ok fo => .ok (some fo.1)
      else .ok none
    -- `initial=` carrying units is expressed in the operand's units first (checked rules only)
    let ini : Except Err (Option K) :=
      match c.initial with
      | some (.unyt _ ui _) =>
        if (match C.T.ruleOf c.ufunc with | some r => r.checked | none => false) then
          match getConversionFactor C.pre C.lut ui.v u.v with
          | .error e => .error e
          | .ok fo => .ok (some fo.1)
        else .ok none
      | _ => .ok none
    match ini with
    | .error e => ⟨eff0, .error e⟩
    | .ok finit =>
    match trig with
    | .error e => ⟨eff0, .error e⟩
    | .ok factor =>
      -- the kernel runs before the unit rule is consulted; an integer `out` is made float for it
      let effR := eff0 ++ prepOut C.T c.ufunc c.out
      match c.kernelErr with
      | some e => ⟨effR, .error e⟩
      | none =>
        let eff1 := effR ++ kernelWrites c.out
        let ru : Except Err (K × Option (UnitV K)) :=
          if (c.ufunc == C.T.multiplyName || c.ufunc == C.T.divideName) && c.method == .reduce then
            (powerMapUnit C.T c.ufunc u.v (match c.axisLen with | some n => n | none => d.size)).map
              fun x => (1, some x)
          else
            match C.T.ruleOf c.ufunc with
            | none => .error .KeyError
            | some r => applyRule1 C r u
        match ru with
        | .error e => ⟨eff1, .error e⟩
        | .ok (mul, unit) =>
          let r := wrapUp C.T eff1 c false mul unit factor none
          ⟨r.effects, r.result.map fun o => { o with factorInitial := finit }⟩

/-- which operand the `u0 != u1` branch rescales -/
inductive Rescale (K : Type)
  /-- `inp1 = np.asarray(inp1, dtype=<f|c><itemsize>) * conv` -/
  | second (factor : K) (itemsize : Nat)
  /-- `inp0 = np.asarray(inp0) * (u0.base_value / u1.base_value)` -/
  | first (factor : K)

/-- array.py:1983-2008: rescaling of the second operand (or, for a temperature difference plus a
    temperature point under `_preserve_units`, of the first) -/
def convertSecond (C : Ctx K) (rule : Rule) (u0 u1 : UnitR K) (d1 : Data) : Except Err (Rescale K) :=
  match getConversionFactor C.pre C.lut u1.v u0.v with
  | .error e => .error e
  | .ok fo =>
    -- np.dtype("f1") / np.dtype("c4") do not exist
    let sizes : List Nat := if d1.kind == .c then [8, 16, 32] else [2, 4, 8, 16]
    if !(sizes.contains d1.itemsize) then .error .TypeError
    else if fo.2.isSome && u1.v.offset != 0 && !(startsDelta u0.repr) then .error .InvalidUnitOperation
    else if rule == .preserve && isTemperature u0.v && u0.v.offset == 0 && u1.v.offset != 0 then
      .ok (.first (u0.v.scale / u1.v.scale))
    else .ok (.second fo.1 d1.itemsize)

/-- array.py:1975-1992: after the kernel of a multiply/divide rule -/
def mulDivPost (rule : Rule) (u0 u1 : UnitR K) (mul : K) (unit : Option (UnitV K)) :
    Except Err (K × Option (UnitV K)) :=
  if rule == .multiply || rule == .divide then
    let r : K × Option (UnitV K) :=
      match unit with
      | some un =>
        if un.isDimensionless && un.scale != 1 && !(u0.v.isDimensionless) && u0.v.dim == u1.v.dim then
          (mul * un.scale, some (UnitR.null : UnitR K).v)
        else (mul, unit)
      | none => (mul, unit)
    if (u0.v.offset != 0 && isTemperature u0.v) || (u1.v.offset != 0 && isTemperature u1.v) then
      .error .InvalidUnitOperation
    else .ok r
  else .ok (mul, unit)

/-- array.py:1859-1862 unit defaulting, 1893-1901 K/R refusal, 1903-1992 for every ufunc but `power` -/
def stdBinary (C : Ctx K) (c : Call K) (rule : Rule) (i0 i1 : Operand K)
    (u0r u1r : Option (UnitR K)) (eff0 : List (Effect K)) : Run K :=
  let u0 : UnitR K := defaultUnit u0r
  let u1 : UnitR K := defaultUnit u1r
  -- K/R plus an offset unit
  if rule == .preserve && isTemperature u0.v && u1.v.offset != 0 && u0.v.offset == 0
      && (u0.repr == "K" || u0.repr == "R") then ⟨eff0, .error .UnitOperationError⟩
  else
    -- floor division of operands of different dimensions: the plain quotient rule
    let rule : Rule := if rule == .floorDivide && u0.v.dim != u1.v.dim then .divide else rule
    let chk : Check K := if rule.rescales then commensurate C rule c.ufunc i0 i1 u0 u1 else .pass u0 u1 false
    match chk with
    | .refuse => ⟨eff0, .error .UnitOperationError⟩
    | .early b =>
      -- `out[:] = ret[:]`, `out.units = Unit("")`, return
      let eff : List (Effect K) := match c.out with
        | .none => []
        | .one o => .writeOut 0 :: (if o.isUnyt then [.setOutUnits 0 (UnitR.null : UnitR K).v] else [])
        | .many _ => []
      -- `ret = func(np.asarray(inp1), dtype=bool)` has the shape of the *second* operand
      match c.out with
      | .many _ => ⟨eff0, .error .TypeError⟩      -- tuple has no slice assignment
      | .one _ =>
        if i1.data.shape == [] then ⟨eff0, .error .Other⟩   -- `ret[:]` on a 0-d array: IndexError
        else ⟨eff0 ++ eff, .ok { unit := none, mul := 1, early := some b }⟩
      | .none => ⟨eff0, .ok { unit := none, mul := 1, early := some b }⟩
    | .pass u0 u1 conv =>
      let cv : Except Err (Option (Rescale K)) :=
        if conv then (convertSecond C rule u0 u1 i1.data).map some else .ok none
      match cv with
      | .error e => ⟨eff0, .error e⟩
      | .ok cvo =>
        match applyRule2 C rule u0 u1 with
        | .error e => ⟨eff0, .error e⟩
        | .ok (mul, unit) =>
          let effR := eff0 ++ prepOut C.T c.ufunc c.out
          match c.kernelErr with
          | some e => ⟨effR, .error e⟩
          | none =>
            let eff1 := effR ++ kernelWrites c.out
            match mulDivPost rule u0 u1 mul unit with
            | .error e => ⟨eff1, .error e⟩
            | .ok (mul, unit) =>
              let f2 : Option K := match cvo with | some (.second f _) => some f | _ => none
              let fz : Option Nat := match cvo with | some (.second _ z) => some z | _ => none
              let f1 : Option K := match cvo with | some (.first f) => some f | _ => none
              let r := wrapUp C.T eff1 c (!(i0.isUnyt) && !(i1.isUnyt)) mul unit f2 fz
              ⟨r.effects, r.result.map fun o => { o with factorFirst := f1 }⟩

/-- array.py:1863-1890: `power` reads its exponent from the second operand -/
def powerPath (C : Ctx K) (c : Call K) (i0 i1 : Operand K) (u0r c1 : Option (UnitR K))
    (eff0 : List (Effect K)) : Run K :=
  let u0 : UnitR K := defaultUnit u0r
  -- `isinstance(u1, unyt_array) and not u1.units.is_dimensionless` on the coerced second operand
  let expHasDims : Bool := match c1 with | some u => !(u.v.isDimensionless) | none => false
  let d0 := i0.data
  let d1 := i1.data
  let ex : Except Err Rat :=
    if d0.shape == [] || d1.shape == [] then
      if expHasDims then .error .UnitOperationError
      else if d1.shape == [] then .ok d1.first else .ok 1
    else if d0.shape == d1.shape then
      if expHasDims then .error .UnitOperationError
      else if !(u0.v.isDimensionless) && !d1.constant then .error .UnitOperationError
      else .ok d1.first
    else .error .UnitOperationError
  match ex with
  | .error e => ⟨eff0, .error e⟩
  | .ok p =>
    match C.T.ruleOf c.ufunc with
    | none => ⟨eff0, .error .KeyError⟩
    | some rule =>
      let ru : Except Err (K × Option (UnitV K)) :=
        if rule == .power then (u0.v.pow p).map fun x => (1, some x) else .error .TypeError
      match ru with
      | .error e => ⟨eff0, .error e⟩
      | .ok (mul, unit) =>
        let effR := eff0 ++ prepOut C.T c.ufunc c.out
        match c.kernelErr with
        | some e => ⟨effR, .error e⟩
        | none => wrapUp C.T (effR ++ kernelWrites c.out) c (!(i0.isUnyt) && !(i1.isUnyt)) mul unit none none

/-- array.py:1841-1992 -/
def binaryPath (C : Ctx K) (c : Call K) (i0 i1 : Operand K) (eff0 : List (Effect K)) : Run K :=
  match coerce C.ueq i0 with
  | .error e => ⟨eff0, .error e⟩
  | .ok c0 =>
    match coerce C.ueq i1 with
    | .error e => ⟨eff0, .error e⟩
    | .ok c1 =>
      let u0r := unitsOf i0 c0
      let u1r := unitsOf i1 c1
      if c.ufunc == C.T.powerName then powerPath C c i0 i1 u0r c1 eff0
      else
        match C.T.ruleOf c.ufunc with
        | none => ⟨eff0, .error .KeyError⟩
        | some rule => stdBinary C c rule i0 i1 u0r u1r eff0

/-- array.py:1994-2008 (reached only if the `clip` unyt imported were the ufunc) -/
def clipPath (C : Ctx K) (c : Call K) (eff0 : List (Effect K)) : Run K :=
  match c.inputs.head? with
  | some (.unyt _ u0 _) =>
    let bad := c.inputs.any fun i => match i with
      | .unyt _ u _ => (getConversionFactor C.pre C.lut u.v u0.v).toOption.isNone
      | _ => false
    if bad then ⟨eff0, .error .UnitConversionError⟩
    else match c.kernelErr with
      | some e => ⟨eff0, .error e⟩
      | none => wrapUp C.T (eff0 ++ kernelWrites c.out) c false 1 (some u0.v) none none
  | _ => ⟨eff0, .error .Other⟩

/-- `unyt_array.__array_ufunc__` -/
def dispatch (C : Ctx K) (c : Call K) : Run K :=
  let eff0 : List (Effect K) := []
  match c.inputs with
  | [inp] => unaryPath C c inp eff0
  | [i0, i1] => binaryPath C c i0 i1 eff0
  | _ =>
    if C.T.clipIsUfunc && c.ufunc == C.T.clipName then clipPath C c eff0
    else ⟨eff0, .error .RuntimeError⟩

/-- `unyt_array.__eq__` / `__ne__` (array.py:1782-1792): the operator forms turn
    `IterableUnitCoercionError` and `UnitOperationError` of the ufunc into all-False / all-True -/
def eqNeOperator (isNe : Bool) (r : Run K) : Run K :=
  match r.result with
  | .error .IterableUnitCoercionError => ⟨r.effects, .ok { unit := none, mul := 1, early := some isNe }⟩
  | .error .UnitOperationError => ⟨r.effects, .ok { unit := none, mul := 1, early := some isNe }⟩
  | _ => r

end

/-- the driver's context: generated tables, default unit table, `math.isclose` equality,
    no simplification coefficient -/
def Ctx.float (pre : Prefixes Float) (lut : Lut Float) : Ctx Float :=
  { T := Tables.generated, pre := pre, lut := lut, ueq := UnitV.eqFloat,
    simp := fun u => (1, u) }

end Unyt.Ufunc
