/-
  UnytModel.NameTree — a search tree for `inv_name_alternatives` keyed by code points.

  The shared `canonName` (UnytModel/Tables.lean) searches the 3 872-entry list linearly with
  `String` equality, which costs the kernel ≈ 0.3 s per look-up.  The C20 translator plugin
  (`tools/extract.d/c20_parsing.py`) therefore also emits the table as a balanced search tree
  over code-point lists (`Generated.ParseNames.nameTree`); `UnytProofs/C20Names*.lean` proves
  that the tree answers every key of the shared table like the shared table.
-/
namespace Unyt

inductive NameTree
  | leaf
  /-- key (code points), value, value's code points -/
  | node (l : NameTree) (k : List Nat) (v : String) (vc : List Nat) (r : NameTree)

/-- lexicographic comparison of code-point lists (Python's `str` order) -/
def cmpCodes : List Nat → List Nat → Ordering
  | [], [] => .eq
  | [], _ :: _ => .lt
  | _ :: _, [] => .gt
  | a :: x, b :: y => if a < b then .lt else if b < a then .gt else cmpCodes x y

/-- the entry of key `q`: (value, value's code points) -/
def NameTree.findEntry? : NameTree → List Nat → Option (String × List Nat)
  | .leaf, _ => none
  | .node l k v vc r, q =>
    match cmpCodes q k with
    | .lt => l.findEntry? q
    | .gt => r.findEntry? q
    | .eq => some (v, vc)

def NameTree.find? (t : NameTree) (q : List Nat) : Option String := (t.findEntry? q).map (·.1)

/-- a predicate holds at every entry -/
def NameTree.all (p : List Nat → String → List Nat → Bool) : NameTree → Bool
  | .leaf => true
  | .node l k v vc r => l.all p && p k v vc && r.all p

def NameTree.size : NameTree → Nat
  | .leaf => 0
  | .node l _ _ _ r => l.size + 1 + r.size

def codesOf (s : String) : List Nat := s.toList.map Char.toNat

end Unyt
