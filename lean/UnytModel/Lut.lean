/-
  UnytModel.Lut — the unit symbol look-up table and prefix resolution.

  Models `unyt/unit_systems.py::_split_prefix` and
  `unyt/unit_registry.py::_lookup_unit_symbol` (including the write-back of the derived
  prefixed entry into the table it was handed, returned explicitly as the new table).
-/
import UnytModel.Dim

namespace Unyt

/-- the exceptions of `unyt/exceptions.py` (and the builtins that escape) as a small enum -/
inductive Err
  | UnitOperationError | UnitConversionError | UnitParseError | InvalidUnitOperation
  | UnitInconsistencyError | IterableUnitCoercionError | UnitsNotReducible
  | InvalidUnitEquivalence | SymbolNotFoundError | IllDefinedUnitSystem | MissingMKSCurrent
  | MKSCGSConversionError
  | TypeError | ValueError | RuntimeError | KeyError | Other
deriving DecidableEq, Repr, Inhabited

def Err.str : Err → String
  | .UnitOperationError => "UnitOperationError" | .UnitConversionError => "UnitConversionError"
  | .UnitParseError => "UnitParseError" | .InvalidUnitOperation => "InvalidUnitOperation"
  | .UnitInconsistencyError => "UnitInconsistencyError"
  | .IterableUnitCoercionError => "IterableUnitCoercionError"
  | .UnitsNotReducible => "UnitsNotReducible" | .InvalidUnitEquivalence => "InvalidUnitEquivalence"
  | .SymbolNotFoundError => "SymbolNotFoundError" | .IllDefinedUnitSystem => "IllDefinedUnitSystem"
  | .MissingMKSCurrent => "MissingMKSCurrent" | .MKSCGSConversionError => "MKSCGSConversionError"
  | .TypeError => "TypeError" | .ValueError => "ValueError" | .RuntimeError => "RuntimeError"
  | .KeyError => "KeyError" | .Other => "Other"

/-- one row of a unit table: `(base_value, dimensions, base_offset, prefixable)`;
    the LaTeX column is not modelled -/
structure Entry (K : Type) where
  scale : K
  dim : Dim
  offset : K
  prefixable : Bool
deriving Repr

abbrev Lut (K : Type) := List (String × Entry K)
abbrev Prefixes (K : Type) := List (String × K)

namespace Lut
variable {K : Type}

def find? (t : Lut K) (k : String) : Option (Entry K) :=
  match t with
  | [] => none
  | (k', e) :: r => if k' = k then some e else find? r k

def contains (t : Lut K) (k : String) : Bool := (t.find? k).isSome

/-- `lut[k] = e` -/
def set (t : Lut K) (k : String) (e : Entry K) : Lut K := (k, e) :: t.filter (fun p => p.1 ≠ k)

/-- `del lut[k]` -/
def erase (t : Lut K) (k : String) : Lut K := t.filter (fun p => p.1 ≠ k)

end Lut

def Prefixes.find? {K : Type} (p : Prefixes K) (k : String) : Option K :=
  match p with
  | [] => none
  | (k', v) :: r => if k' = k then some v else Prefixes.find? r k

/-- the string part of `_split_prefix`: the only candidate split — `da` + rest when the string
    starts with `da`, else first character + rest.  (The real code indexes `symbol_str[0]` and so
    raises `IndexError` on the empty string; the model has no candidate there and the callers
    never pass it: the parser maps "" to 1.) -/
def splitCandidate (s : String) : Option (String × String) :=
  let cs := s.toList
  match cs with
  | [] => none
  | c :: rest =>
    if cs.take 2 == ['d', 'a'] then some ("da", String.ofList (cs.drop 2))
    else some (String.ofList [c], String.ofList rest)

/-- `_split_prefix(symbol_str, unit_symbol_lut)`: a single attempt — the candidate prefix must
    be a prefix key and the rest a *prefixable* table symbol -/
def splitPrefix {K : Type} (pre : Prefixes K) (t : Lut K) (s : String) : String × String :=
  match splitCandidate s with
  | none => ("", s)
  | some (p, wo) =>
    match pre.find? p with
    | none => ("", s)
    | some _ =>
      match t.find? wo with
      | some e => if e.prefixable then (p, wo) else ("", s)
      | none => ("", s)

/-- `_lookup_unit_symbol(symbol_str, unit_symbol_lut)`: returns the entry and the table
    after the write-back of a derived prefixed entry. -/
def lookupUnitSymbol {K : Type} [Mul K] (pre : Prefixes K) (t : Lut K) (s : String) :
    Except Err (Entry K × Lut K) :=
  match t.find? s with
  | some e => .ok (e, t)
  | none =>
    let sp := splitPrefix pre t s
    if sp.1 = "" then .error .UnitParseError else
    match t.find? sp.2, pre.find? sp.1 with
    | some e, some pv =>
      let d : Entry K := { scale := e.scale * pv, dim := e.dim, offset := e.offset, prefixable := false }
      .ok (d, t.set s d)
    | _, _ => .error .UnitParseError

/-- pure resolution (no write-back) — what a look-up answers -/
def resolve {K : Type} [Mul K] (pre : Prefixes K) (t : Lut K) (s : String) : Option (Entry K) :=
  match lookupUnitSymbol pre t s with
  | .ok (e, _) => some e
  | .error _ => none

end Unyt
