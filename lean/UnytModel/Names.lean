/-
  UnytModel.Names — how a unit *name* reaches a unit (C14).

  The string route  `Unit("name")`:
    `unyt/_parsing.py::parse_unyt_expr`        the `%`→`percent`, `°`→`deg` rewrites, "" → 1
    `unyt/_parsing.py::_auto_positive_symbol`  NAME token → `inv_name_alternatives[name]`, else the
                                               name itself; names of the parser's `global_dict`
                                               are passed through (they are not units)
    `unyt/unit_registry.py::_lookup_unit_symbol`, `unyt/unit_systems.py::_split_prefix`
                                               table key first, else one prefix-split attempt
                                               (`da` special case), prefix × prefixable base
  The attribute routes:
    `unyt/unit_symbols.py`                     `namespace[alt] = Unit(canonical)` for every
                                               `(canonical, alts)` of `name_alternatives`
    `unyt/__init__.py::import_units`           physical constants first, then unit symbols,
                                               `key not in namespace`
    `unyt/unit_systems.py::add_symbols`        `Unit(unit.expr, registry)` for every public
                                               attribute of `unit_symbols`, then `Unit(key,
                                               registry)` for every registry key not yet bound

  Names are codes (`UnytModel/NameCode.lean`).  Everything is total and runs at `Float` in the
  driver (`Ops/C14.lean`) and at `Rat` in the kernel-decided obligations.
-/
import UnytModel.Lut
import UnytModel.NameCode

namespace Unyt.Names
open Unyt

/-- the tables a look-up consults: `unit_symbol_lut`, `unit_prefixes` (symbol ↦ value) -/
abbrev LutN (K : Type) := Dict (Entry K)
abbrev PrefixesN (K : Type) := Dict K

/-- code points of `%` and `°`, and the replacement texts `percent`, `deg` -/
def cpPercent : Nat := 37
def cpDegree : Nat := 176
def percentChars : List Nat := [112, 101, 114, 99, 101, 110, 116]
def degChars : List Nat := [100, 101, 103]
/-- `Δ` (U+0394) and the replacement text `delta_deg` -/
def cpDelta : Nat := 916
def deltaDegChars : List Nat := [100, 101, 108, 116, 97, 95, 100, 101, 103]

/-- does the string contain `%` or `°` (digits of the code are code point + 1) -/
def hasSpecialAux : Nat → Name → Bool
  | 0, _ => false
  | f + 1, n =>
    if Nat.beq n 0 then false
    else Name.force (n % Name.B) fun d =>
      if Nat.beq d (cpPercent + 1) || Nat.beq d (cpDegree + 1) then true
      else Name.force (n / Name.B) fun q => hasSpecialAux f q

def hasSpecial (s : Name) : Bool := hasSpecialAux (Name.len s) s

/-- the replacements themselves -/
def rewriteOne (c : Nat) : List Nat :=
  if Nat.beq c cpPercent then percentChars else if Nat.beq c cpDegree then degChars else [c]

def rewriteChars : List Nat → List Nat
  | [] => []
  | [c] => rewriteOne c
  | c :: d :: r =>
    if Nat.beq c cpDelta && Nat.beq d cpDegree then deltaDegChars ++ rewriteChars r
    else rewriteOne c ++ rewriteChars (d :: r)

/-- `parse_unyt_expr`: `unit_expr.replace("%", "percent").replace("Δ°", "delta_deg").replace("°", "deg")`
    (one pass: no replacement text contains `%`, `°` or `Δ`; a string with neither `%` nor `°` is
    returned as it is) -/
def parserRewrite (s : Name) : Name :=
  if hasSpecial s then Name.ofChars (rewriteChars (Name.chars s)) else s

/-- `_auto_positive_symbol` on a single NAME token: `none` when the parser passes the name through
    to one of its own globals (`Symbol`, `Integer`, `Float`, `Rational`, `sqrt`) — it is then not a
    unit — else `inv_name_alternatives[name]`; on `KeyError`
    `_rewritten_name_alternatives.get(name, name)`: the documented names that contain `°`, under the
    spelling the `°`→`deg` rewrite gives them, and finally the name itself -/
def nameToSymbol (globals : List Name) (inv : NameTree) (rewritten : Dict Name) (name : Name) : Option Name :=
  if memN name globals then none
  else match inv.get? name with
    | some (okey, _) => some okey
    | none =>
      match rewritten.get? name with
      | some okey => some okey
      | none => some name

/-- `"da"` -/
def daCode : Name := Name.cons 100 (Name.cons 97 Name.nil)

/-- the string part of `_split_prefix`: the only candidate split — `da` + rest when the string
    starts with `da`, else first character + rest -/
def splitCandidate (s : Name) : Option (Name × Name) :=
  if Nat.beq s 0 then none
  else if Nat.beq (Name.take 2 s) daCode then Name.force (Name.drop 2 s) fun r => some (daCode, r)
  else Name.force (Name.take 1 s) fun p => Name.force (Name.drop 1 s) fun r => some (p, r)

/-- `_split_prefix(symbol_str, unit_symbol_lut)`: a single attempt — the candidate prefix must be
    a prefix key and the rest a *prefixable* table symbol; `("", s)` otherwise -/
def splitPrefix {K : Type} (pre : PrefixesN K) (t : LutN K) (s : Name) : Name × Name :=
  match splitCandidate s with
  | none => (Name.nil, s)
  | some (p, wo) =>
    match pre.get? p with
    | none => (Name.nil, s)
    | some _ =>
      match t.get? wo with
      | some e => if e.prefixable then (p, wo) else (Name.nil, s)
      | none => (Name.nil, s)

/-- which rows a symbol is resolved from: `("", s)` for a table key, `(prefix, base)` for an
    admissible split, `none` when `_lookup_unit_symbol` raises `UnitParseError` -/
def lookupSplit {K : Type} (pre : PrefixesN K) (t : LutN K) (s : Name) : Option (Name × Name) :=
  match t.get? s with
  | some _ => some (Name.nil, s)
  | none =>
    let sp := splitPrefix pre t s
    if Nat.beq sp.1 0 then none else some sp

/-- `_lookup_unit_symbol(symbol_str, unit_symbol_lut)` (the answer; the write-back of the derived
    entry into the table is modelled in `UnytModel/Lut.lean` and proved transparent in C02) -/
def lookupUnitSymbol {K : Type} [Mul K] (pre : PrefixesN K) (t : LutN K) (s : Name) : Option (Entry K) :=
  match t.get? s with
  | some e => some e
  | none =>
    let sp := splitPrefix pre t s
    if Nat.beq sp.1 0 then none else
    match t.get? sp.2, pre.get? sp.1 with
    | some e, some pv => some { scale := e.scale * pv, dim := e.dim, offset := e.offset, prefixable := false }
    | _, _ => none

/-- what a unit string denotes, symbolically -/
inductive Reading
  /-- the empty string: `parse_unyt_expr` substitutes `"1"` — the dimensionless unit, no symbol -/
  | one
  /-- the symbol `sym` the name is mapped to, read as `pfx` × `base` (`pfx = ""`: a table key) -/
  | sym (sym pfx base : Name)
deriving DecidableEq, Repr

/-- everything the string route consults -/
structure Ctx (K : Type) where
  globals : List Name
  inv : NameTree
  /-- `_parsing._rewritten_name_alternatives` -/
  rewritten : Dict Name
  pre : PrefixesN K
  lut : LutN K

/-- change of numeric carrier (bit patterns → `Float` / `Rat`) -/
def mapEntry {K K' : Type} (f : K → K') (e : Entry K) : Entry K' :=
  { scale := f e.scale, dim := e.dim, offset := f e.offset, prefixable := e.prefixable }

def Ctx.mapK {K K' : Type} (f : K → K') (c : Ctx K) : Ctx K' :=
  { globals := c.globals, inv := c.inv, rewritten := c.rewritten,
    pre := c.pre.map f,
    lut := c.lut.map (mapEntry f) }

/-- `Unit(name)` for a string that is a single name, symbolically (`none` = `UnitParseError`) -/
def stringReading {K : Type} (c : Ctx K) (name : Name) : Option Reading :=
  if Nat.beq name 0 then some .one else
  Name.force (parserRewrite name) fun nm =>
  match nameToSymbol c.globals c.inv c.rewritten nm with
  | none => none
  | some s =>
    match lookupSplit c.pre c.lut s with
    | some (p, b) => some (.sym s p b)
    | none => none

/-- the entry of the dimensionless unit `Unit("")` -/
def oneEntry {K : Type} [OfNat K 0] [OfNat K 1] : Entry K :=
  { scale := 1, dim := Dim.one, offset := 0, prefixable := false }

/-- `Unit(name)`: (base_value, dimensions, base_offset) -/
def stringEntry {K : Type} [Mul K] [OfNat K 0] [OfNat K 1] (c : Ctx K) (name : Name) : Option (Entry K) :=
  if Nat.beq name 0 then some oneEntry else
  Name.force (parserRewrite name) fun nm =>
  match nameToSymbol c.globals c.inv c.rewritten nm with
  | none => none
  | some s => lookupUnitSymbol c.pre c.lut s

/-- the expression symbol of `Unit(name)` (`none`: parse error; `some 1`-code is never produced) -/
def stringSymbol {K : Type} (c : Ctx K) (name : Name) : Option Name :=
  match stringReading c name with
  | some (.sym s _ _) => some s
  | _ => none

/-! ### attribute routes -/

/-- `unyt/unit_symbols.py`: the attribute `name` is `Unit(canonical)` where `canonical` is the key
    of `name_alternatives` that lists `name`; `none` = no such attribute -/
def unitSymbolsAttr {K : Type} (c : Ctx K) (name : Name) : Option Reading :=
  match c.inv.get? name with
  | none => none
  | some (_, nkey) => stringReading c nkey

/-- `unyt/__init__.py::import_units(unit_symbols, globals())`: `key not in namespace` — a name
    already bound (a physical constant, a function, a sub-module) keeps its earlier value -/
def topLevelAttr {K : Type} (c : Ctx K) (taken : List Name) (name : Name) : Option Reading :=
  if memN name taken then none else unitSymbolsAttr c name

/-- `"_"` -/
def cpUnderscore : Nat := 95

/-- `unit_systems.add_symbols(namespace, registry)` for one name: first loop — every attribute of
    `unit_symbols` whose name does not start with `_` is rebuilt from its *expression* against the
    registry (so it keeps its symbol and is looked up in the registry's table); second loop — a
    registry key not yet bound is parsed as a string against the registry.
    `c` is the context of the custom registry (its own table). -/
def addSymbolsAttr {K : Type} (c : Ctx K) (name : Name) : Option Reading :=
  let viaSymbols : Option Reading :=
    if Nat.beq name 0 then unitSymbolsAttr c name
    else if Nat.beq (Name.head name) cpUnderscore then none
    else unitSymbolsAttr c name
  match viaSymbols with
  | some r => some r
  | none => if c.lut.contains name then stringReading c name else none

end Unyt.Names
