/-
  UnytModel.RegistryC12AliasMacro — the reading edits (`define_unit`, `modify(sym, quantity)`) made THROUGH a
  registry object of a family over shared containers: the primitive calls of `RegistryC12Macro.mexpand`, one after
  the other, through that object (`RegistryC12Alias.astep`).
-/
import UnytModel.RegistryC12Alias
import UnytModel.RegistryC12Macro

namespace Unyt.RegC12
open Unyt

/-- a call (primitive or reading edit) on a registry object, or `copy.copy(registry)` -/
inductive AMOp (K : Type) where
  | call (h : Nat) (m : MOp K)
  | copy (h : Nat)

def AMOp.erase {K : Type} : AMOp K → Option (MOp K)
  | .call _ m => some m
  | .copy _ => none

def eraseAM {K : Type} (h : List (AMOp K)) : List (MOp K) := h.filterMap AMOp.erase

section
variable {K : Type} [Mul K] [OfNat K 1] [OfNat K 0] [RPow K]
variable (acfg : ACfg) (cfg : Cfg) (pre : Prefixes K) (parse : String → Except Err (PExpr K))

/-- one call `m` through registry object `i` -/
def amstep (st : AState K) (i : Nat) (m : MOp K) : AState K × Out K :=
  let v := st.view (st.handle i)
  (arun acfg cfg pre parse st ((mexpand cfg pre parse v m).map (AOp.call i)), mout cfg pre parse v m)

def amstepOp (st : AState K) : AMOp K → AState K
  | .call i m => (amstep acfg cfg pre parse st i m).1
  | .copy i => acopy st i

def amrun (st : AState K) (h : List (AMOp K)) : AState K := h.foldl (amstepOp acfg cfg pre parse) st

end

end Unyt.RegC12
