/-
  UnytModel.DtypeFactor — the *Python type of the conversion factor* and what it does to the
  dtype and value path of a conversion (extension of `UnytModel.Dtype`, used by C17 only).

  `UnytModel.Dtype` models the copy route as if the factor were always a Python `float` (a NEP-50
  "weak" scalar that adopts the array's dtype: `mulPyFloat`).  It is not: the factor is

      unit_object.py:_get_conversion_factor     ratio = old_basevalue / new_basevalue

  and the base values of the unit table are Python floats, one Python int (`Wh`) and NumPy
  `np.float64` scalars (the Planck units, computed with `np.sqrt`, and the bel family,
  `np.log(10) / 2`).  An `np.float64` is a *strong* scalar: `float32_array * np.float64(x)` is
  float64, `complex64_array * np.float64(x)` is complex128.  What keeps float32/float16/complex64
  data in their width on the copying routes is the explicit cast of the product,

      array.py:unyt_array.in_units   ret = np.asarray(self.ndview * conversion_factor, dtype=new_dtype)
      array.py:unyt_array.in_base    ret = np.asarray(self.v * conv, dtype=new_dtype)

  and on the in-place route the in-place multiply (`values *= conv_factor`, `same_kind` cast back
  into the buffer).  This file models
    * `BaseKind`, `FactorKind`, `ratioKind`     — Python/NumPy typing of `old / new`
    * `FactorFacts`                             — NumPy facts: dtype of `array * factor`,
                                                  permission of `array *= factor`, per factor kind
    * `FactorRules`                             — for which dtype kinds the product is cast to
                                                  `new_dtype` (read from the source by `ast`)
    * `copyDtypeStaged`, `inBaseDtypeStaged`, `convertToUnitsDtypeF`, `routeDtypeF`
                                                — the routes as product-then-cast, per factor kind
    * `copyValueF`, `inplaceValueF`, …          — the value path with the product evaluated in the
                                                  promoted dtype (float32 data × np.float64 factor:
                                                  multiply in binary64, round to binary64, then to
                                                  binary32 — double rounding, bit-exact vs NumPy)
  No Mathlib; total; kernel-reducible.
-/
import UnytModel.Dtype

namespace Unyt

/-- Python type of a unit's `base_value` in the unit table -/
inductive BaseKind
  | pyfloat | pyint | npfloat (size : Nat)
deriving DecidableEq, Repr, Inhabited

/-- Python type of the conversion factor `old.base_value / new.base_value`: a Python float (weak
    scalar) or a NumPy floating scalar of the given item size (strong scalar) -/
inductive FactorKind
  | pyfloat | npfloat (size : Nat)
deriving DecidableEq, Repr, Inhabited

/-- `old_basevalue / new_basevalue` (`unit_object.py:_get_conversion_factor`): true division of two
    Python numbers is a Python float; as soon as a NumPy floating scalar takes part the result is a
    NumPy scalar (of the wider item size when both are) -/
def ratioKind : BaseKind → BaseKind → FactorKind
  | .npfloat s, .npfloat t => .npfloat (max s t)
  | .npfloat s, _ => .npfloat s
  | _, .npfloat t => .npfloat t
  | _, _ => .pyfloat

def BaseKind.str : BaseKind → String
  | .pyfloat => "pyfloat" | .pyint => "pyint" | .npfloat s => s!"npfloat{s}"
def FactorKind.str : FactorKind → String
  | .pyfloat => "pyfloat" | .npfloat s => s!"npfloat{s}"

def BaseKind.parse (s : String) : Option BaseKind :=
  if s == "pyfloat" then some .pyfloat else if s == "pyint" then some .pyint
  else if s == "npfloat2" then some (.npfloat 2) else if s == "npfloat4" then some (.npfloat 4)
  else if s == "npfloat8" then some (.npfloat 8) else if s == "npfloat16" then some (.npfloat 16) else none
def FactorKind.parse (s : String) : Option FactorKind :=
  if s == "pyfloat" then some .pyfloat
  else if s == "npfloat2" then some (.npfloat 2) else if s == "npfloat4" then some (.npfloat 4)
  else if s == "npfloat8" then some (.npfloat 8) else if s == "npfloat16" then some (.npfloat 16) else none

/-- NumPy facts per factor kind (platform data, probed from the live NumPy) and the base-value
    types met in the live unit table -/
structure FactorFacts where
  /-- the distinct `type(base_value)` of the live unit table -/
  baseKinds : List BaseKind
  /-- dtype of `array * factor` -/
  mulFactor : List ((FactorKind × Dtype) × Dtype)
  /-- `array *= factor` is allowed (`same_kind` cast of the product back into the buffer) -/
  imulFactorOk : List (FactorKind × Dtype)
deriving Repr

/-- for which `self.dtype.kind` the product `data * factor` is cast to `new_dtype` on the copying
    routes (`np.asarray(…, dtype=new_dtype)` unconditionally = every kind) -/
structure FactorRules where
  copyCastKinds : List DKind
  inBaseCastKinds : List DKind
deriving Repr

/-- every factor kind that a conversion between two units of the table can meet -/
def factorKindsOf (bs : List BaseKind) : List FactorKind :=
  (bs.flatMap fun a => bs.map fun b => ratioKind a b).eraseDups

def lookupFD {β : Type} (t : List ((FactorKind × Dtype) × β)) (fk : FactorKind) (d : Dtype) : Option β :=
  match t with
  | [] => none
  | ((k1, k2), v) :: r => if k1 = fk ∧ k2 = d then some v else lookupFD r fk d

section logic
variable (N : NumpyFacts) (P : DtypeRules) (F : FactorFacts)

/-- dtype of `self.ndview * conversion_factor` (NumPy promotion; `Other` outside the universe) -/
def mulFactorDtype (fk : FactorKind) (d : Dtype) : Except Err Dtype :=
  match lookupFD F.mulFactor fk d with
  | some r => .ok r
  | none => .error .Other

/-- the copy route in two stages: the product (NumPy promotion with the factor), then — for the
    dtype kinds `castProduct` says — the cast to the dtype `in_units` selects; otherwise the product
    is returned as it is -/
def copyDtypeStaged (castProduct : DKind → Bool) (fk : FactorKind) (d : Dtype) : Except Err Dtype :=
  match mulFactorDtype F fk d with
  | .error e => .error e
  | .ok m => if castProduct d.kind then inUnitsDtype N P d else .ok m

/-- `in_base`: the same two stages when it carries the dtype block, else the bare product -/
def inBaseDtypeStaged (castProduct : DKind → Bool) (fk : FactorKind) (d : Dtype) : Except Err Dtype :=
  if P.inBaseItemSize then copyDtypeStaged N P F castProduct fk d else mulFactorDtype F fk d

/-- `convert_to_units`: integer buffers are relabelled before the multiply (the factor never sees
    them as integers); everything else is `values *= conv_factor`, allowed iff NumPy can cast the
    product back -/
def convertToUnitsDtypeF (fk : FactorKind) (d : Dtype) : Except Err Dtype :=
  if P.inplaceIntKinds.contains d.kind then
    if d.size = P.inplaceRefuseSize then .error .ValueError
    else
      match npDtype N P.inplaceKind d.size with
      | .error e => .error e
      | .ok new => if F.imulFactorOk.contains (fk, new) then .ok new else .error .TypeError
  else if F.imulFactorOk.contains (fk, d) then .ok d
  else .error .TypeError

/-- `to_value` on top of a copy-route dtype (see `toValueOut`) -/
def toValueOutOf (r : Except Err Dtype) (isQuantity : Bool) : Except Err ValueOut :=
  match r with
  | .error e => .error e
  | .ok r =>
    if isQuantity then
      if P.toValueComplex && r.kind == .c then .ok .pycomplex else
      match lookupD N.floatOf0d r with
      | some .typeError => .error .TypeError
      | some _ => .ok .pyfloat
      | none => .error .Other
    else .ok (.ndarray r)

end logic

/-- the six same-dimension routes, per factor kind (the equivalence routes do not take a
    conversion factor from the unit table before their formula: `routeDtype`) -/
def Route.sameDim : List Route := [.to, .inUnits, .toValue, .inBase, .convertToUnits, .convertToBase]

def routeDtypeF (N : NumpyFacts) (P : DtypeRules) (F : FactorFacts) (R : FactorRules)
    (fk : FactorKind) (r : Route) (d : Dtype) (isQuantity : Bool) : Except Err Dtype :=
  match r with
  | .to | .inUnits => copyDtypeStaged N P F R.copyCastKinds.contains fk d
  | .toValue =>
    match toValueOutOf N P (copyDtypeStaged N P F R.copyCastKinds.contains fk d) isQuantity with
    | .error e => .error e
    | .ok (.ndarray x) => .ok x
    | .ok .pyfloat => .ok float64
    | .ok .pycomplex => .ok ⟨.c, 16⟩
  | .inBase => inBaseDtypeStaged N P F R.inBaseCastKinds.contains fk d
  | .convertToUnits | .convertToBase => convertToUnitsDtypeF N P F fk d
  | .toEquivalent | .convertToEquivalent => routeDtype N P r d isQuantity

/-! ### values -/

section values
variable {K : Type} [Mul K] [Sub K] [BEq K] [OfNat K 0] (A : NumOps K)

/-- copy route with a factor of any kind: the product is evaluated in the promoted dtype `m`
    (data and factor both cast to `m`), then — when the code casts — rounded to `new`; the offset is
    subtracted in the dtype the data then has -/
def copyValueF (cast : Bool) (m new : Dtype) (e : Elem K) (f : K) (o : Option K) : Elem K :=
  let res := if cast then new else m
  let ret := if cast then castElem A new (mulIn A m e f) else mulIn A m e f
  match offsetTruthy o with
  | some v => subIn A res ret v
  | none => ret

/-- in-place route with a factor of any kind: integer data are cast to `new` first; `values *= f`
    runs the loop of the promoted dtype `m` (= `result_type(new, factor)`) and casts the product
    back into the buffer (`same_kind`) -/
def inplaceValueF (m new : Dtype) (e : Elem K) (f : K) (o : Option K) : Elem K :=
  let v := castElem A new (mulIn A m (castElem A new e) f)
  match offsetTruthy o with
  | some w => subIn A new v w
  | none => v

end values

/-- the whole copy route on one element, per factor kind -/
def inUnitsElemF {K : Type} [Mul K] [Sub K] [BEq K] [OfNat K 0] (N : NumpyFacts) (P : DtypeRules)
    (F : FactorFacts) (castKinds : List DKind) (A : NumOps K) (fk : FactorKind) (d : Dtype)
    (e : Elem K) (f : K) (o : Option K) : Except Err (Dtype × Elem K) :=
  match copyDtypeStaged N P F castKinds.contains fk d, mulFactorDtype F fk d, inUnitsDtype N P d with
  | .ok res, .ok m, .ok new => .ok (res, copyValueF A (castKinds.contains d.kind) m new e f o)
  | .error e, _, _ => .error e
  | _, .error e, _ => .error e
  | _, _, .error e => .error e

/-- the whole in-place route on one element, per factor kind -/
def convertToUnitsElemF {K : Type} [Mul K] [Sub K] [BEq K] [OfNat K 0] (N : NumpyFacts) (P : DtypeRules)
    (F : FactorFacts) (A : NumOps K) (fk : FactorKind) (d : Dtype)
    (e : Elem K) (f : K) (o : Option K) : Except Err (Dtype × Elem K) :=
  match convertToUnitsDtypeF N P F fk d with
  | .error e => .error e
  | .ok new =>
    match mulFactorDtype F fk new with
    | .error e => .error e
    | .ok m => .ok (new, inplaceValueF A m new e f o)

/-! ### the offset step (`if offset:` — temperatures, lat/lon) per factor kind -/

/-- Python type of `ratio * old_baseoffset - new_baseoffset` (`_get_conversion_factor`): the base
    offsets of the unit table are Python numbers, so the offset has the type of the ratio -/
def offsetKind (fk : FactorKind) : FactorKind := fk

/-- how a route subtracts a truthy offset:
    `np.subtract(ret, offset, ret)` (in_units, convert_to_units: the result is written back into the
    buffer, which keeps its dtype) or `ret = ret - offset` (in_base: a new array of NumPy's promoted
    dtype) -/
inductive OffsetStep
  | outBuffer | rebind
deriving DecidableEq, Repr, Inhabited

/-- the form of the offset step in `in_units`, `in_base`, `convert_to_units` (ast) -/
structure OffsetRules where
  copyStep : OffsetStep
  inBaseStep : OffsetStep
  inplaceStep : OffsetStep
deriving Repr

/-- dtype after the offset step applied to data of dtype `res` with an offset of kind `ok`
    (promotion of `array - scalar` = promotion of `array * scalar`, checked by the translator) -/
def offsetStageDtype (N : NumpyFacts) (F : FactorFacts) (step : OffsetStep) (ok : FactorKind)
    (res : Dtype) : Except Err Dtype :=
  match mulFactorDtype F ok res with
  | .error e => .error e
  | .ok mo =>
    match step with
    | .rebind => .ok mo
    | .outBuffer => if N.canCastSameKind.contains (mo, res) then .ok res else .error .TypeError

/-- a route followed by the offset step (`hasOffset` = the offset is truthy) -/
def withOffset (N : NumpyFacts) (F : FactorFacts) (step : OffsetStep) (fk : FactorKind) (hasOffset : Bool)
    (r : Except Err Dtype) : Except Err Dtype :=
  match r with
  | .error e => .error e
  | .ok res => if hasOffset then offsetStageDtype N F step (offsetKind fk) res else .ok res

/-- the six same-dimension routes for a conversion with a truthy offset (`hasOffset`), per factor kind -/
def routeDtypeO (N : NumpyFacts) (P : DtypeRules) (F : FactorFacts) (R : FactorRules) (O : OffsetRules)
    (fk : FactorKind) (hasOffset : Bool) (r : Route) (d : Dtype) (isQuantity : Bool) : Except Err Dtype :=
  match r with
  | .to | .inUnits => withOffset N F O.copyStep fk hasOffset (copyDtypeStaged N P F R.copyCastKinds.contains fk d)
  | .toValue =>
    match toValueOutOf N P (withOffset N F O.copyStep fk hasOffset (copyDtypeStaged N P F R.copyCastKinds.contains fk d)) isQuantity with
    | .error e => .error e
    | .ok (.ndarray x) => .ok x
    | .ok .pyfloat => .ok float64
    | .ok .pycomplex => .ok ⟨.c, 16⟩
  | .inBase => withOffset N F O.inBaseStep fk hasOffset (inBaseDtypeStaged N P F R.inBaseCastKinds.contains fk d)
  | .convertToUnits | .convertToBase => withOffset N F O.inplaceStep fk hasOffset (convertToUnitsDtypeF N P F fk d)
  | .toEquivalent | .convertToEquivalent => routeDtype N P r d isQuantity

section offsetvalues
variable {K : Type} [Mul K] [Sub K] [BEq K] [OfNat K 0] (A : NumOps K)

/-- the offset step on one element: the subtraction runs in the promoted dtype `mo`; with an out
    buffer the difference is rounded back to the buffer's dtype `res` -/
def offsetStageValue (step : OffsetStep) (mo res : Dtype) (ret : Elem K) (o : Option K) : Elem K :=
  match offsetTruthy o with
  | none => ret
  | some v =>
    match step with
    | .rebind => subIn A mo ret v
    | .outBuffer => castElem A res (subIn A mo ret v)

end offsetvalues

/-- copy route / `in_base` on one element with factor and offset of kind `fk` -/
def inUnitsElemO {K : Type} [Mul K] [Sub K] [BEq K] [OfNat K 0] (N : NumpyFacts) (P : DtypeRules)
    (F : FactorFacts) (castKinds : List DKind) (step : OffsetStep) (A : NumOps K) (fk : FactorKind) (d : Dtype)
    (e : Elem K) (f : K) (o : Option K) : Except Err (Dtype × Elem K) :=
  match copyDtypeStaged N P F castKinds.contains fk d, mulFactorDtype F fk d, inUnitsDtype N P d with
  | .ok res, .ok m, .ok new =>
    let prod := if castKinds.contains d.kind then castElem A new (mulIn A m e f) else mulIn A m e f
    match withOffset N F step fk (offsetTruthy o).isSome (.ok res), mulFactorDtype F (offsetKind fk) res with
    | .ok out, .ok mo => .ok (out, offsetStageValue A step mo res prod o)
    | .error e, _ => .error e
    | _, .error e => .error e
  | .error e, _, _ => .error e
  | _, .error e, _ => .error e
  | _, _, .error e => .error e

/-- in-place route on one element with factor and offset of kind `fk` -/
def convertToUnitsElemO {K : Type} [Mul K] [Sub K] [BEq K] [OfNat K 0] (N : NumpyFacts) (P : DtypeRules)
    (F : FactorFacts) (step : OffsetStep) (A : NumOps K) (fk : FactorKind) (d : Dtype)
    (e : Elem K) (f : K) (o : Option K) : Except Err (Dtype × Elem K) :=
  match convertToUnitsDtypeF N P F fk d with
  | .error e => .error e
  | .ok new =>
    match mulFactorDtype F fk new, mulFactorDtype F (offsetKind fk) new,
          withOffset N F step fk (offsetTruthy o).isSome (.ok new) with
    | .ok m, .ok mo, .ok out =>
      .ok (out, offsetStageValue A step mo new (castElem A new (mulIn A m (castElem A new e) f)) o)
    | .error e, _, _ => .error e
    | _, .error e, _ => .error e
    | _, _, .error e => .error e

/-! ### which base value a `Unit` object carries -/

/-- A `Unit` object as the conversion code sees its base value: a bare symbol of the unit table
    (`_get_unit_data_from_expr`, Symbol branch: the table entry is handed on as it is), or anything
    else — a parsed compound expression (Number / Pow / Mul branches: `float(...)`) or a unit built
    by arithmetic (`__mul__`, `__truediv__`, `__pow__` hand `Unit.__new__` a base value, which it
    passes through `float(...)`).  `Unit.copy()` of a bare symbol is again a bare symbol (it keeps the
    table entry — observed, the correspondence covers it). -/
inductive UnitShape
  | symbol (s : String)
  | other
deriving DecidableEq, Repr

/-- `type(unit.base_value)` -/
def shapeBaseKind (t : List (String × BaseKind)) : UnitShape → Option BaseKind
  | .symbol s => t.lookup s
  | .other => some .pyfloat

/-- `type(old.get_conversion_factor(new)[0])` for two units -/
def shapeFactorKind (t : List (String × BaseKind)) (a b : UnitShape) : Option FactorKind :=
  match shapeBaseKind t a, shapeBaseKind t b with
  | some x, some y => some (ratioKind x y)
  | _, _ => none

end Unyt
