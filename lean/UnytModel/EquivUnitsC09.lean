/-
  UnytModel.EquivUnitsC09 — the *unit-carrying* reading of a recorded `_convert` chain: what
  `unyt_array.__array_ufunc__` (unyt/array.py) does, call by call, to the data **and** the unit of
  the arrays a chain of `unyt/equivalencies.py` passes around, when the input is expressed in an
  arbitrary (zero-offset) unit of its dimension.

  A value is `(data, scale, dim)`: the buffer contents, the `base_value` of its unit and the
  unit's dimensions; its SI magnitude is `data * scale`.

  * `multiply` / `divide` (`_multiply_units` / `_divide_units`): data and units are combined
    separately; when the operands have equal, non-trivial dimensions the quotient's unit is a
    scaled dimensionless one and `__array_ufunc__` folds its `base_value` into the data
    (`out_arr = np.multiply(out_arr, unit.base_value)`; `unit = Unit()`): `rescaleQuotient`.
    When the first operand is a bare number (`1.0 / x`) nothing is folded: the unit `1/%`
    stays on the result.
  * `subtract` / `add` (`_preserve_units`/`_difference_units`): dimensions must agree
    (`UnitOperationError` otherwise); the second operand is converted to the unit of the first
    (`inp1 * conv`), the result is labelled with the first unit.  A bare number is
    `Unit()` (dimensionless, scale 1).
  * `sqrt`, `power`: on the data, and on the unit.
  Constants (`physical_constants`, keyword parameters, literals) are values of scale 1.

  `Trace.runU` runs a chain with this semantics (same aliasing discipline as `Trace.run`).
  `UnytProofs/C09Units.lean` proves that its SI magnitude is the chain's formula applied to the
  SI magnitude of the input — i.e. what `convertState` *assumes* when it evaluates the formula on
  `xv * u.scale`.  No Mathlib import.
-/
import UnytModel.Equivalencies

namespace Unyt.Equiv
open Unyt

/-- an array with a zero-offset unit: buffer contents, `units.base_value`, `units.dimensions` -/
structure UVal (K : Type) where
  data : K
  scale : K
  dim : Dim

section
variable {K : Type} [Add K] [Sub K] [Mul K] [Div K] [OfNat K 1] [BEq K] [RPow K] [HasSqrt K] [OfRat K]

/-- magnitude in the coherent SI unit of the dimension -/
def UVal.si (v : UVal K) : K := v.data * v.scale

/-- array.py `__array_ufunc__`, after the kernel ran, for `_multiply_units`/`_divide_units`:
    `if unit.is_dimensionless and unit.base_value != 1.0: if not u0.is_dimensionless:
     if u0.dimensions == u1.dimensions:` fold the scale into the data -/
def rescaleQuotient (a b r : UVal K) : UVal K :=
  if r.dim == Dim.one && r.scale != 1 && a.dim != Dim.one && a.dim == b.dim then
    ⟨r.data * r.scale, 1, r.dim⟩
  else r

/-- one unit-aware ufunc call; `none` = refused (`UnitOperationError`: different dimensions in
    `subtract`/`add`) or malformed -/
def UFn.applyU : UFn → List (UVal K) → Option (UVal K)
  | .mul, [a, b] => some (rescaleQuotient a b ⟨a.data * b.data, a.scale * b.scale, a.dim * b.dim⟩)
  | .div, [a, b] => some (rescaleQuotient a b ⟨a.data / b.data, a.scale / b.scale, a.dim / b.dim⟩)
  | .sub, [a, b] =>
    if a.dim == b.dim then some ⟨a.data - b.data * (b.scale / a.scale), a.scale, a.dim⟩ else none
  | .add, [a, b] =>
    if a.dim == b.dim then some ⟨a.data + b.data * (b.scale / a.scale), a.scale, a.dim⟩ else none
  | .sqrt, [a] => some ⟨HasSqrt.sqrt a.data, HasSqrt.sqrt a.scale, a.dim.pow (1 / 2)⟩
  | .pow q, [a] => some ⟨RPow.rpow a.data q, RPow.rpow a.scale q, a.dim.pow q⟩
  | _, _ => none

/-- the input buffer and every returned object so far (and whether it was made with `out=x`) -/
structure UState (K : Type) where
  buf : UVal K
  tmps : List (UVal K × Bool)

/-- `cd`: dimension of the atoms of a constant expression; `ρ`: their SI values -/
def resolveArgU (cd : String → Option Dim) (ρ : String → K) (alias : Bool) (s : UState K) :
    Arg → Option (UVal K)
  | .buf => some s.buf
  | .tmp i =>
    match s.tmps[i]? with
    | some (v, al) => if alias && al then some s.buf else some v
    | none => none
  | .c f =>
    match f.dimOf cd with
    | some d => some ⟨f.eval ρ, 1, d⟩
    | none => none

def resolveArgsU (cd : String → Option Dim) (ρ : String → K) (alias : Bool) (s : UState K) :
    List Arg → Option (List (UVal K))
  | [] => some []
  | a :: rest =>
    match resolveArgU cd ρ alias s a, resolveArgsU cd ρ alias s rest with
    | some v, some vs => some (v :: vs)
    | _, _ => none

def stepOpU (cd : String → Option Dim) (ρ : String → K) (alias : Bool) (s : UState K) (op : Op) :
    Option (UState K) :=
  match resolveArgsU cd ρ alias s op.args with
  | none => none
  | some args =>
    match op.fn.applyU args with
    | none => none
    | some r => some { buf := if op.outBuf then r else s.buf, tmps := s.tmps ++ [(r, op.outBuf)] }

def runOpsU (cd : String → Option Dim) (ρ : String → K) (alias : Bool) :
    UState K → List Op → Option (UState K)
  | s, [] => some s
  | s, op :: rest =>
    match stepOpU cd ρ alias s op with
    | none => none
    | some s' => runOpsU cd ρ alias s' rest

/-- run a chain on an input given in a unit of scale `x.scale`:
    (what is left in the caller's array, returned array) -/
def Trace.runU (cd : String → Option Dim) (ρ : String → K) (alias : Bool) (t : Trace) (x : UVal K) :
    Option (UVal K × Option (UVal K)) :=
  match runOpsU cd ρ alias ⟨x, []⟩ t.ops with
  | none => none
  | some s =>
    match t.ret with
    | none => some (s.buf, none)
    | some a =>
      match resolveArgU cd ρ alias s a with
      | some r => some (s.buf, some r)
      | none => none

/-- what `_convert` hands back (copy mode) / leaves in the caller's array (in-place mode, arrays:
    a returned `out=x` object is a view) for an input of `x.data` in a unit of scale `x.scale` -/
def Branch.unitResult (cd : String → Option Dim) (ρ : String → K) (m : Mode) (b : Branch) (x : UVal K) :
    Option (UVal K) :=
  match m with
  | .copy =>
    match b.copy with
    | some t => match t.runU cd ρ false x with
      | some (_, some r) => some r
      | _ => none
    | none => none
  | .inplace =>
    match b.inplace with
    | some t => match t.runU cd ρ true x with
      | some (buf, _) => some buf
      | none => none
    | none => none

end

/-- no call of the chain is `power` (Lorentz, spectral, … : everything except the Stefan-Boltzmann
    chains) -/
def Trace.noPow (t : Trace) : Bool :=
  t.ops.all (fun op => match op.fn with | .pow _ => false | _ => true)

/-- a constant operand has a monomial normal form (hence is positive for positive constants) -/
def Arg.monoOk : Arg → Bool
  | .c g => (normRaw g).isSome
  | _ => true

/-- a monomial chain: no `subtract`/`add`, constant operands are monomials -/
def Trace.monomial (t : Trace) : Bool :=
  t.ops.all (fun op => (op.fn != .sub && op.fn != .add) && op.args.all Arg.monoOk)
  && (match t.ret with | some a => a.monoOk | none => true)

/-- the chain is in one of the two classes the simulation theorem covers -/
def Trace.unitSafe (t : Trace) : Bool := t.noPow || t.monomial

def Branch.unitSafe (b : Branch) : Bool :=
  (match b.copy with | some t => t.unitSafe | none => false)
  && (match b.inplace with | some t => t.unitSafe | none => false)

/-! ### integer inputs: which calls of a chain see an integer array

  NumPy result kinds along a chain when the caller's array has an integer dtype (`true` = integer):
  `multiply`/`subtract`/`add` of two integer operands stay integer (exact), anything with a float
  operand, `true_divide` and `sqrt` are float; `power`/`square` with a whole non-negative exponent
  keep an integer integer (exact), with a fractional exponent give a float; a **negative whole
  exponent on an integer operand** is either `np.reciprocal` (truncates: `1/3 → 0`) or `np.power`
  (`ValueError`) — the one place where the integer run leaves the real-number formula.  Whole-valued
  literals are taken as Python ints (the conservative reading); physical constants and keyword
  parameters are floats.  An `out=x` write re-types the buffer (array.py `_float_out_view`). -/

def constIsInt : Formula → Bool
  | .lit q => q.den == 1
  | _ => false

structure KState where
  buf : Bool
  tmps : List (Bool × Bool)

def kindArg (alias : Bool) (s : KState) : Arg → Option Bool
  | .buf => some s.buf
  | .tmp i =>
    match s.tmps[i]? with
    | some (k, al) => if alias && al then some s.buf else some k
    | none => none
  | .c f => some (constIsInt f)

/-- (result is integer, the call is exact on its operands) -/
def UFn.kind : UFn → List Bool → Option (Bool × Bool)
  | .mul, [a, b] | .sub, [a, b] | .add, [a, b] => some (a && b, true)
  | .div, [_, _] => some (false, true)
  | .sqrt, [_] => some (false, true)
  | .pow q, [a] =>
    if !a then some (false, true)
    else if q.den != 1 then some (false, true)
    else if 0 ≤ q then some (true, true)
    else some (true, false)
  | _, _ => none

def kindOps (alias : Bool) : KState → List Op → Bool
  | _, [] => true
  | s, op :: rest =>
    match op.args.mapM (kindArg alias s) with
    | none => false
    | some ks =>
      match op.fn.kind ks with
      | none => false
      | some (k, safe) =>
        safe && kindOps alias { buf := if op.outBuf then k else s.buf, tmps := s.tmps ++ [(k, op.outBuf)] } rest

/-- no call of the chain truncates (or refuses) when the caller's array is an integer array -/
def Trace.intSafe (alias : Bool) (t : Trace) : Bool := kindOps alias ⟨true, []⟩ t.ops

def Branch.intSafe (b : Branch) : Bool :=
  (match b.copy with | some t => t.intSafe false | none => false)
  && (match b.inplace with | some t => t.intSafe true && t.intSafe false | none => false)

end Unyt.Equiv
