/-
  UnytModel.UfuncValueCheck — executable Boolean checks of the regenerated ufunc tables
  (`Generated.C04Ufuncs`) against the hand-written reference (`Ref.C04Classes`) and against the
  model's own rule functions evaluated at `Rat`; decided by the kernel in `UnytProofs/C04.lean`.
-/
import UnytModel.UfuncValue
import UnytModel.Ref.C04Classes
import UnytModel.Tables

namespace Unyt.UV
open Unyt Unyt.Ref.C04

/-- every rule function named by the regenerated table is one the model knows -/
def rulesKnown : Bool := Generated.C04.ufuncRules.all fun p => (Rule.ofName p.2).isSome

/-- whether the regenerated rule of `ufunc` is the one its reference class licenses; a ufunc
    without a reference class fails (a new table entry must be classified) -/
def ruleLicensed (ufunc : String) : Bool :=
  match classOf ufunc, ruleOf ufunc with
  | some c, some r => licensed c r
  | _, _ => false

/-- each ufunc's regenerated rule is the one licensed by its homogeneity class, outside `excl` -/
def ruleMatchesClass (excl : List String) : Bool :=
  Generated.C04.ufuncRules.all fun p => excl.contains p.1 || ruleLicensed p.1

/-- the excluded ufuncs are in the table and really carry an unlicensed rule -/
def exclusionsFail : Bool :=
  exclC04.all fun f => (ruleOf f).isSome && !ruleLicensed f

/-- the tuples the dispatcher branches on are the reference ones -/
def tuplesOk : Bool :=
  Generated.C04.convRules == convRulesRef.map Rule.pyName
  && Generated.C04.postMulRules == postMulRulesRef.map Rule.pyName
  && Generated.C04.reducePowerUfuncs == ["multiply", "divide"]
  && Generated.C04.trigOperators == ["sin", "cos", "tan"]
  && Generated.C04.eqNeUfuncs == ["equal", "not_equal"]
  && Generated.C04.multipleOutput == [("modf", 2), ("frexp", 2), ("divmod", 2)]
  && Generated.C04.ruleSwaps == ruleSwapsRef.map fun p => (p.1.pyName, p.2.pyName)

/-- `POWER_MAPPING` is `n ↦ n` for multiply and `n ↦ 2 − n` for divide on every sample, and the
    model's affine fit reproduces every sample -/
def powerMapOk : Bool :=
  Generated.C04.powerMapping.all (fun p =>
    match powerMapRef.lookup p.1 with
    | some g => p.2.all (fun s => g s.1 == s.2 && powerMap p.1 s.1.toNat == some s.2) && p.2.length ≥ 2
    | none => false)
  && powerMapRef.all fun p => (Generated.C04.powerMapping.lookup p.1).isSome

/-- the live `_apply_power_mapping` counts what the model's `reduceCount` counts (and every
    shape has been probed without an axis keyword) -/
def reduceProbesOk : Bool :=
  Generated.C04.reduceCountProbes.all (fun p =>
    let kw : AxisKw := if p.2.1 == -2 then .absent else if p.2.1 == -1 then .none else .idx p.2.1.toNat
    (reduceCount p.1 kw : Int) == p.2.2)
  && Generated.C04.reduceCountProbes.any (fun p => p.2.1 == -2 && p.1.length ≥ 2)

/-! ### the rule functions of the model, evaluated at `Rat` on the translator's probe units -/

def probeLut : Lut Rat := [
  ("foo", ⟨64, Dim.dLength, 0, false⟩), ("bar", ⟨(1 : Rat) / 4, Dim.dLength, 0, false⟩),
  ("baz", ⟨8, Dim.dTime, 0, false⟩)]

def probeUnit (s : String) : UnitV Rat :=
  match probeLut.find? s with
  | some e => ⟨UExpr.sym s, e.scale, e.offset, e.dim, true⟩
  | none => UnitV.dimensionless

def absQ (q : Rat) : Rat := if q < 0 then -q else q

/-- relative closeness 2⁻⁴⁰ (the probe scales are doubles; `64 ** (1/3)` is not exactly 4) -/
def closeQ (a b : Rat) : Bool := decide (absQ (a - b) * 1099511627776 ≤ absQ b)

def probeAgrees (got : Except Err (Rat × Option (UnitV Rat))) (want : Generated.C04.Probe) : Bool :=
  match got, want with
  | .error e, .raises x => e.str == x
  | .ok (m, none), .bare m' => m == m'
  | .ok (m, some u), .unit m' s d c f =>
    m == m' && closeQ u.scale s && u.dim == d && u.offset == 0 && u.expr.coeff == c
      && UExpr.normF u.expr.factors == f
  | _, _ => false

/-- the model's rule function `r` on the probe `which` -/
def modelProbe (r : Rule) (which : String) : Except Err (Rat × Option (UnitV Rat)) :=
  let foo := probeUnit "foo"
  if which == "u" then
    if r == .power then (foo.pow 3).map fun u => (1, some u)
    else unaryRule UnitV.eqv [] probeLut r foo
  else if which == "same" then binaryRule UnitV.eqv [] probeLut r foo (probeUnit "bar")
  else binaryRule UnitV.eqv [] probeLut r foo (probeUnit "baz")

/-- every regenerated probe of every rule function agrees with the model's rule function -/
def probesOk : Bool :=
  Generated.C04.ruleProbes.all fun p =>
    match Rule.ofName p.1 with
    | some r => probeAgrees (modelProbe r p.2.1) p.2.2
    | none => false

/-- every rule of the model that occurs in the table has been probed in all three ways -/
def probesCover : Bool :=
  Generated.C04.ufuncRules.all fun p =>
    ["u", "same", "diff"].all fun w =>
      p.2 == "_power_unit" && w != "u" || (Generated.C04.ruleProbes.any fun q => q.1 == p.2 && q.2.1 == w)

/-- the radian of the regenerated default table is the SI unit of angle -/
def radianOk : Bool :=
  match (defaultLut Rat).find? "rad" with
  | some e => e.scale == 1 && e.offset == 0 && e.dim == Dim.dAngle
  | none => false

/-! ### evaluation helpers for counterexample theorems -/

/-- SI magnitude of a binary outcome for a kernel, `none` on refusal -/
def siOf (r : Except Err (Out Rat)) (F : Rat → Rat → Rat) (x0 x1 : Rat) : Option Rat :=
  match r with
  | .ok o => some (o.si (o.value F x0 x1))
  | .error _ => none

/-- `(dimension, scale)` of the unit label of an outcome -/
def labelOf (r : Except Err (Out Rat)) : Option (Option (Dim × Rat)) :=
  match r with
  | .ok o => some (o.unit.map fun u => (u.dim, u.scale))
  | .error _ => none

/-- a two-row table: metre and kilometre -/
def kmLut : Lut Rat := [("m", ⟨1, Dim.dLength, 0, true⟩), ("km", ⟨1000, Dim.dLength, 0, false⟩)]
def uM : UnitV Rat := ⟨UExpr.sym "m", 1, 0, Dim.dLength, true⟩
def uKm : UnitV Rat := ⟨UExpr.sym "km", 1000, 0, Dim.dLength, true⟩

/-- the real kernels, at `Rat` -/
def floorDivQ (a b : Rat) : Rat := ((a / b).floor : Int)
def heavisideQ (a h : Rat) : Rat := if a < 0 then 0 else if a = 0 then h else 1

end Unyt.UV
