/-
  C16 — `unyt/array.py:_coerce_iterable_units`, the branch taken for a list/tuple that contains unyt
  objects, as a PROGRAM: a tiny statement language for the body of the per-element loop

      for datum in input_object:
          try:
              ret.append(datum.in_units(ff.units))
          except UnitConversionError:
              raise IterableUnitCoercionError(str(input_object))

  plus three facts about the code around it (which element gives `ff`, what the "no unit differs"
  branch stores).  The program is REGENERATED from the live source by
  `tools/extract.d/c16_coerce.py` (`ast` pass → `UnytModel/Generated/C16Coerce.lean`), executed by
  the interpreter below (`coerceProg`, opcode `c16.coerceprog` of `drv_c16`), and related to the
  hand-written model `coerceList` (ResultClass.lean) by the refinement theorem
  `UnytProofs/C16.lean:coerceProg_refines` whose hypothesis `progOk` is kernel-decided for the
  regenerated program (`C16_coerce_prog`).  No Mathlib import.
-/
import UnytModel.ResultClass

namespace Unyt
namespace CoProg

/-- `datum.dtype.kind` -/
inductive DKind | f | i | u | c | b | other
deriving DecidableEq, Repr, Inhabited

def DKind.parse : String → DKind
  | "f" => .f | "i" => .i | "u" => .u | "c" => .c | "b" => .b | _ => .other

/-- what the loop body can find out about one element `datum` relative to the first unit `ff` -/
structure ElemAbs where
  kind : DKind
  /-- `datum.units.same_dimensions_as(ff)` -/
  sameDim : Bool
  /-- `datum.units == ff` -/
  unitEq : Bool
deriving DecidableEq, Repr

/-- tests the translator recognises (`unknown`: anything else — evaluating it is an error) -/
inductive Cond
  | kindIs (k : DKind)
  | sameDim
  | unitEq
  | const (b : Bool)
  | not (c : Cond)
  | and (a b : Cond)
  | or (a b : Cond)
  | unknown
deriving DecidableEq, Repr

/-- expressions the translator recognises as the argument of `ret.append(…)` -/
inductive Val
  /-- `datum.in_units(ff.units)` / `datum.in_units(ff)` / `datum.to(ff…)` -/
  | inUnits
  /-- `datum.d * (du.base_value / ff.base_value)` and its spellings: the scale ratio only -/
  | rescale
  /-- `datum`, `datum.d`, `datum.v`, … : the reading as it is -/
  | raw
  | unknown
deriving DecidableEq, Repr

/-- statements of the loop body -/
inductive Stmt
  | skip
  | seq (a b : Stmt)
  /-- `ret.append(v)`; `guarded` = inside `try: … except UnitConversionError: raise IterableUnitCoercionError(…)` -/
  | append (v : Val) (guarded : Bool)
  | ite (c : Cond) (t e : Stmt)
  | continue_
  /-- `raise IterableUnitCoercionError(…)` -/
  | raiseCoercion
  | unknown
deriving DecidableEq, Repr

structure Prog where
  /-- `ff = getattr(input_object[0], "units", NULL_UNIT)`: index 0 -/
  ffFromFirst : Bool
  /-- the "units are mixed" test is `any(ff != getattr(_, "units", NULL_UNIT) for _ in input_object)`:
      it looks at EVERY element (anything else: the interpreter refuses to guess) -/
  mixedTestAll : Bool
  /-- the result is built as `unyt_array(np.array(ret), ff, …)` in the mixed branch -/
  labelIsFf : Bool
  /-- what the branch "no unit differs" stores per element (`np.array(input_object)` → raw) -/
  elseVal : Val
  body : Stmt
deriving DecidableEq, Repr

def Cond.eval (a : ElemAbs) : Cond → Option Bool
  | .kindIs k => some (a.kind == k)
  | .sameDim => some a.sameDim
  | .unitEq => some a.unitEq
  | .const b => some b
  | .not c => (c.eval a).map (!·)
  | .and x y => match x.eval a with          -- Python's short circuit
    | some false => some false
    | some true => y.eval a
    | none => none
  | .or x y => match x.eval a with
    | some true => some true
    | some false => y.eval a
    | none => none
  | .unknown => none

inductive Flow | next | cont | raised | bad
deriving DecidableEq, Repr

/-- one execution of the loop body on an element with abstract facts `a`; the accumulator is what
    was appended to `ret` -/
def Stmt.exec (a : ElemAbs) : Stmt → List (Val × Bool) → Flow × List (Val × Bool)
  | .skip, acc => (.next, acc)
  | .seq s t, acc =>
    match s.exec a acc with
    | (.next, acc') => t.exec a acc'
    | r => r
  | .append v g, acc => (.next, acc ++ [(v, g)])
  | .ite c t e, acc =>
    match c.eval a with
    | some true => t.exec a acc
    | some false => e.exec a acc
    | none => (.bad, acc)
  | .continue_, acc => (.cont, acc)
  | .raiseCoercion, acc => (.raised, acc)
  | .unknown, acc => (.bad, acc)

/-- net effect of one iteration -/
inductive Action
  /-- exactly one value was appended -/
  | emit (v : Val) (guarded : Bool)
  | raiseCoercion
  /-- none or several values appended, or an unrecognised statement / test was reached -/
  | bad
deriving DecidableEq, Repr

def bodyAction (body : Stmt) (a : ElemAbs) : Action :=
  match body.exec a [] with
  | (.next, [(v, g)]) => .emit v g
  | (.cont, [(v, g)]) => .emit v g
  | (.raised, _) => .raiseCoercion
  | _ => .bad

def allKinds : List DKind := [.f, .i, .u, .c, .b, .other]

/-- every abstract element state -/
def allAbs : List ElemAbs :=
  allKinds.flatMap (fun k => [⟨k, true, true⟩, ⟨k, true, false⟩, ⟨k, false, true⟩, ⟨k, false, false⟩])

/-- the decidable obligation on a regenerated program: `ff` is the first element's unit and labels
    the result, the mixed-units test looks at every element, the uniform branch keeps the readings, and the loop body converts EVERY element —
    whatever its dtype kind, whether or not its unit equals / is commensurable with `ff` — with
    `in_units(ff)` under the `UnitConversionError → IterableUnitCoercionError` guard -/
def progOk (P : Prog) : Bool :=
  P.ffFromFirst && P.mixedTestAll && P.labelIsFf && P.elseVal == .raw &&
    allAbs.all (fun a => bodyAction P.body a == .emit .inUnits true)

section sem
variable {K : Type} [Add K] [Sub K] [Mul K] [Div K]

/-- one list element with the dtype kind of its data -/
structure CoElem (K : Type) where
  item : CoItem K
  kind : DKind

def absOf (unitNe : CoItem K → CoItem K → Bool) (ff : CoItem K) (it : CoElem K) : ElemAbs :=
  ⟨it.kind, it.item.dim == ff.dim, !unitNe ff it.item⟩

/-- concrete meaning of an appended expression (`ff` first element's unit, `it` the element).
    An unguarded `UnitConversionError` is reported as `InvalidUnitOperation`. -/
def Val.apply (ff it : CoItem K) (guarded : Bool) : Val → Except SErr K
  | .inUnits =>
    if it.dim == ff.dim then .ok (applyConv (convFactor it.scale it.offset ff.scale ff.offset) it.value)
    else .error (if guarded then .IterableUnitCoercionError else .InvalidUnitOperation)
  | .rescale => .ok (it.value * (it.scale / ff.scale))
  | .raw => .ok it.value
  | .unknown => .error .RuntimeError

/-- `for x in l: out.append(f x)` with the first exception escaping -/
def mapE {α β ε : Type} (f : α → Except ε β) : List α → Except ε (List β)
  | [] => .ok []
  | x :: xs =>
    match f x with
    | .error e => .error e
    | .ok y =>
      match mapE f xs with
      | .error e => .error e
      | .ok ys => .ok (y :: ys)

/-- array.py:`_coerce_iterable_units` (list of unyt objects) driven by the regenerated program -/
def coerceProg (P : Prog) (unitNe : CoItem K → CoItem K → Bool) (items : List (CoElem K)) :
    Except SErr (List K × Option (CoItem K)) :=
  match (if P.ffFromFirst then items.head? else items.getLast?) with
  | none => .ok ([], none)
  | some ffe =>
    let ff := ffe.item
    let label := if P.labelIsFf then some ff else none
    if !P.mixedTestAll then .error .RuntimeError else
    if items.any (fun it => unitNe ff it.item) then
      match mapE (fun it => match bodyAction P.body (absOf unitNe ff it) with
          | .emit v g => v.apply ff it.item g
          | .raiseCoercion => .error .IterableUnitCoercionError
          | .bad => .error .RuntimeError) items with
      | .ok vs => .ok (vs, label)
      | .error e => .error e
    else
      match mapE (fun it => P.elseVal.apply ff it.item false) items with
      | .ok vs => .ok (vs, some ff)
      | .error e => .error e

end sem

/-- the program as it stands in unyt today (reference for the examples; the driver runs the
    REGENERATED `Generated.c16CoerceProg`) -/
def refProg : Prog := ⟨true, true, true, .raw, .append .inUnits true⟩

/-- the shape of a "fast path" body: `if kind == 'f' and same_dimensions: append(rescale); continue` -/
def fastPathProg : Prog :=
  ⟨true, true, true, .raw,
   .seq (.ite (.and (.kindIs .f) .sameDim) (.seq (.append .rescale false) .continue_) .skip)
        (.append .inUnits true)⟩

end CoProg
end Unyt
