/-
  UnytModel.NamesHistoryC14 — how a unit *name* is read by a registry WITH A HISTORY (C14).

  `UnytModel/Names.lean` reads a name against a fixed table.  A real `UnitRegistry` is edited
  (`add` / `remove` / `modify`), saved and loaded (`to_json` → `from_json`, pickling of a quantity),
  and every look-up of a prefixed symbol WRITES the derived entry back into the table and records
  its name in `_derived_symbols` (`unyt/unit_registry.py::_lookup_unit_symbol`).  Whether a name
  that is both a table symbol and a prefix+unit split is read as the table symbol therefore depends
  on the bookkeeping of the written-back entries:

    `UnitRegistry._forget_derived_symbols`   drop every written-back entry, empty the set
    `UnitRegistry.add/remove/modify`         forget first, then edit the table
    `UnitRegistry.to_json`                   leaves out every name of `_derived_symbols`
    `unyt_array.__setstate__` / `from_json`  the loaded registry holds what was dumped plus every default
                                             symbol that was missing (`_correct_old_unit_registry`), no derived names

  WHEN an edit forgets is a configuration `Cfg` that the translator plugin
  `tools/extract.d/c14_registry.py` regenerates from the live code (`Generated/C14RegCfg.lean`): for
  `add`, one Boolean per (new entry prefixable?, kind of entry being replaced) — so the model
  follows a code in which the forgetting has become conditional, and `Cfg.sound` (every edit
  forgets, the dump skips the derived names) is what the theorems of `UnytProofs/C14History.lean` need.

  The specification is `contents`: the table the USER built, computed from the history by the
  obvious `add/remove/modify` semantics, never read back from the concrete table.
-/
import UnytModel.Names

namespace Unyt.NamesHist
open Unyt Unyt.Names

variable {K : Type}

/-! ### the look-up over an arbitrary table `get : Name → Option (Entry K)` -/

/-- the entry `_lookup_unit_symbol` derives for a string that is not a key: the single candidate
    split of `_split_prefix`, prefix known, base a *prefixable* key; value = base × prefix -/
def derivedF [Mul K] (pre : PrefixesN K) (get : Name → Option (Entry K)) (s : Name) : Option (Entry K) :=
  match Names.splitCandidate s with
  | none => none
  | some (p, wo) =>
    if Nat.beq p 0 then none else
    match pre.get? p, get wo with
    | some pv, some e =>
      if e.prefixable then some { scale := e.scale * pv, dim := e.dim, offset := e.offset, prefixable := false }
      else none
    | _, _ => none

/-- `_lookup_unit_symbol` (the answer): key first, else the derived entry -/
def lookupF [Mul K] (pre : PrefixesN K) (get : Name → Option (Entry K)) (s : Name) : Option (Entry K) :=
  match get s with
  | some e => some e
  | none => derivedF pre get s

/-! ### a mutable table: the (immutable) tree the registry started from + the edits -/

inductive Tab (K : Type)
  | base (d : Dict (Entry K))
  /-- `lut[s] = e` -/
  | set (t : Tab K) (s : Name) (e : Entry K)
  /-- `del lut[s]` / `lut.pop(s, None)` -/
  | erase (t : Tab K) (s : Name)
  /-- `for k in d: if k not in lut: lut[k] = d[k]` (the tail of `_correct_old_unit_registry`) -/
  | fill (t : Tab K) (d : Dict (Entry K))

namespace Tab

def get? : Tab K → Name → Option (Entry K)
  | base d, k => d.get? k
  | set t s e, k => if Nat.beq s k then some e else get? t k
  | erase t s, k => if Nat.beq s k then none else get? t k
  | fill t d, k =>
    match get? t k with
    | some e => some e
    | none => d.get? k

def eraseAll (t : Tab K) : List Name → Tab K
  | [] => t
  | d :: ds => (eraseAll t ds).erase d

end Tab

/-! ### configuration regenerated from the live code -/

/-- what `add(symbol, …)` is about to replace -/
inductive Repl
  | absent
  /-- an entry the user put there (or a default row), with its prefixable flag -/
  | user (prefixable : Bool)
  /-- an entry written back by a look-up -/
  | derived
deriving DecidableEq, Repr

def Repl.idx : Repl → Nat
  | .absent => 0 | .user false => 1 | .user true => 2 | .derived => 3

structure Cfg where
  /-- `add`: does it forget the derived entries — index `4·[new entry prefixable] + Repl.idx` -/
  addTbl : List Bool
  removeForgets : Bool
  modifyForgets : Bool
  /-- `to_json` / `__reduce__` leave out the derived names -/
  dumpSkipsDerived : Bool
  /-- `copy.deepcopy(reg)` hands the copy the set `_derived_symbols` together with the table -/
  copyKeepsFlags : Bool
  /-- source inspection (`ast`): in `add`, `remove` and `modify` the call `self._forget_derived_symbols()`
      is an unconditional top-level statement that precedes every mention of `self.lut` (no step reads
      this flag; `sound` requires it, so that a guard the probes do not exercise is still refused) -/
  forgetUnconditional : Bool
deriving DecidableEq, Repr

def Cfg.addForgets (c : Cfg) (newPrefixable : Bool) (r : Repl) : Bool :=
  c.addTbl.getD ((if newPrefixable then 4 else 0) + r.idx) false

/-- every edit forgets, unconditionally; a dump never contains a derived name -/
def Cfg.sound (c : Cfg) : Bool :=
  c.addForgets false .absent && c.addForgets false (.user false) && c.addForgets false (.user true)
    && c.addForgets false .derived && c.addForgets true .absent && c.addForgets true (.user false)
    && c.addForgets true (.user true) && c.addForgets true .derived
    && c.removeForgets && c.modifyForgets && c.dumpSkipsDerived && c.forgetUnconditional && c.copyKeepsFlags

/-! ### the registry as a state machine -/

structure Reg (K : Type) where
  /-- `UnitRegistry.lut` -/
  tab : Tab K
  /-- `UnitRegistry._derived_symbols` -/
  derived : List Name

inductive Op (K : Type)
  /-- `_lookup_unit_symbol(s, reg.lut, reg._derived_symbols)`: what `Unit(str, registry=reg)`,
      `reg[s]`, `s in reg`, `add_symbols(ns, reg)` and conversions end in -/
  | look (s : Name)
  | add (s : Name) (e : Entry K)
  | remove (s : Name)
  | modify (s : Name) (v : K)
  /-- `UnitRegistry.from_json(reg.to_json())`, `pickle.loads(pickle.dumps(quantity))` -/
  | reload
  /-- `copy.deepcopy(reg)` (`UnitRegistry.__deepcopy__`): the copy is used from here on -/
  | copy

inductive Out (K : Type)
  /-- the entry found (`none`: `UnitParseError`) -/
  | entry (e : Option (Entry K))
  | done
  /-- `SymbolNotFoundError` -/
  | missing

/-- `_forget_derived_symbols` -/
def forget (r : Reg K) : Reg K := { tab := r.tab.eraseAll r.derived, derived := [] }

def replKind (r : Reg K) (s : Name) : Repl :=
  match r.tab.get? s with
  | none => .absent
  | some x => if memN s r.derived then .derived else .user x.prefixable

/-- what a load makes of a dumped table: `UnitRegistry.from_json` and `unyt_array.__setstate__` go
    through `_correct_old_unit_registry`, which puts every default symbol that is missing back -/
def loaded (dflt : Dict (Entry K)) (t : Tab K) : Tab K := t.fill dflt

def step [Mul K] (cfg : Cfg) (pre : PrefixesN K) (dflt : Dict (Entry K)) (r : Reg K) : Op K → Reg K × Out K
  | .look s =>
    match r.tab.get? s with
    | some e => (r, .entry (some e))
    | none =>
      match derivedF pre r.tab.get? s with
      | some d => ({ tab := r.tab.set s d, derived := s :: r.derived }, .entry (some d))
      | none => (r, .entry none)
  | .add s e =>
    let r1 := if cfg.addForgets e.prefixable (replKind r s) then forget r else r
    ({ r1 with tab := r1.tab.set s e }, .done)
  | .remove s =>
    let r1 := if cfg.removeForgets then forget r else r
    match r1.tab.get? s with
    | none => (r1, .missing)
    | some _ => ({ r1 with tab := r1.tab.erase s }, .done)
  | .modify s v =>
    let r1 := if cfg.modifyForgets then forget r else r
    match r1.tab.get? s with
    | none => (r1, .missing)
    | some e => ({ r1 with tab := r1.tab.set s { e with scale := v } }, .done)
  | .reload =>
    let r1 := if cfg.dumpSkipsDerived then forget r else { r with derived := [] }
    ({ r1 with tab := loaded dflt r1.tab }, .done)
  | .copy =>
    -- the table is copied as it is, written-back entries included; without their flags they
    -- would pass for user entries in the copy
    (if cfg.copyKeepsFlags then r else { r with derived := [] }, .done)

/-- run a history; the outputs in order -/
def run [Mul K] (cfg : Cfg) (pre : PrefixesN K) (dflt : Dict (Entry K)) (r : Reg K) : List (Op K) → Reg K × List (Out K)
  | [] => (r, [])
  | op :: ops =>
    let (r1, o) := step cfg pre dflt r op
    let (r2, os) := run cfg pre dflt r1 ops
    (r2, o :: os)

/-! ### specification: the table the user built -/

abbrev Contents (K : Type) := Name → Option (Entry K)

def update (c : Contents K) (s : Name) (v : Option (Entry K)) : Contents K :=
  fun k => if k = s then v else c k

/-- the user's table after a save/load: what the user put there stays; a default symbol the user
    removed (or never had) is put back by the loader -/
def fillC (dflt : Dict (Entry K)) (c : Contents K) : Contents K :=
  fun k => match c k with | some e => some e | none => dflt.get? k

def absStep (dflt : Dict (Entry K)) (c : Contents K) : Op K → Contents K
  | .look _ => c
  | .add s e => update c s (some e)
  | .remove s => update c s none
  | .modify s v =>
    match c s with
    | none => c
    | some e => update c s (some { e with scale := v })
  | .reload => fillC dflt c
  | .copy => c

/-- what a FRESH registry holding exactly the user's table answers -/
def absOut [Mul K] (pre : PrefixesN K) (c : Contents K) : Op K → Out K
  | .look s => .entry (lookupF pre c s)
  | .add _ _ => .done
  | .remove s => match c s with | none => .missing | some _ => .done
  | .modify s _ => match c s with | none => .missing | some _ => .done
  | .reload => .done
  | .copy => .done

def absRun [Mul K] (pre : PrefixesN K) (dflt : Dict (Entry K)) (c : Contents K) : List (Op K) → Contents K × List (Out K)
  | [] => (c, [])
  | op :: ops =>
    let (c2, os) := absRun pre dflt (absStep dflt c op) ops
    (c2, absOut pre c op :: os)

/-- a new registry over the table `t` -/
def fresh (t : Dict (Entry K)) : Reg K := { tab := .base t, derived := [] }

/-! ### the string route in front of the look-up: `Unit(str, registry=reg)` with `_unit_object_cache`

  `unyt/unit_object.py::Unit.__new__`: a string that is a key of `registry._unit_object_cache` is
  answered with the cached object WITHOUT parsing or looking anything up; otherwise the string is
  parsed (`parse_unyt_expr`: rewrites, alias table), the symbol is looked up (write-back included),
  and the new object is stored under the RAW string.  `add` / `remove` / `modify` end — when they
  succeed — with `_unit_object_cache.clear()`; a loaded registry starts with an empty cache.
  Whether they do is the regenerated `CacheCfg`. -/

/-- what a `Unit` built from a single-name string holds -/
inductive UnitR (K : Type)
  /-- `Unit("")`: the dimensionless unit, no symbol -/
  | one
  /-- expression symbol `s`, data of the entry `e` -/
  | sym (s : Name) (e : Entry K)

structure CacheCfg where
  addClears : Bool
  removeClears : Bool
  modifyClears : Bool
  /-- a registry made by `from_json` / unpickling starts with an empty string cache -/
  reloadEmpty : Bool
  /-- so does a deep copy -/
  copyEmpty : Bool
deriving DecidableEq, Repr

def CacheCfg.sound (c : CacheCfg) : Bool :=
  c.addClears && c.removeClears && c.modifyClears && c.reloadEmpty && c.copyEmpty

structure RegS (K : Type) where
  reg : Reg K
  /-- `UnitRegistry._unit_object_cache`: raw string ↦ the object, latest first -/
  cache : List (Name × UnitR K)

inductive OpS (K : Type)
  /-- `Unit(name, registry=reg)` for a string that is a single name -/
  | unit (name : Name)
  | op (o : Op K)

inductive OutS (K : Type)
  /-- the unit (`none`: the construction raised) -/
  | unit (u : Option (UnitR K))
  | out (o : Out K)

/-- the static part of the string route: parser globals, alias tables, prefixes -/
structure Route (K : Type) where
  globals : List Name
  inv : NameTree
  rewritten : Dict Name
  pre : PrefixesN K

/-- the symbol a non-empty string is parsed to (`none`: a parser global, not a unit) -/
def Route.symbolOf (rt : Route K) (name : Name) : Option Name :=
  nameToSymbol rt.globals rt.inv rt.rewritten (parserRewrite name)

def stepS [Mul K] (cfg : Cfg) (cc : CacheCfg) (rt : Route K) (dflt : Dict (Entry K)) (r : RegS K) :
    OpS K → RegS K × OutS K
  | .unit name =>
    match findN name r.cache with
    | some u => (r, .unit (some u))
    | none =>
      if name = 0 then ({ r with cache := (name, .one) :: r.cache }, .unit (some .one))
      else match rt.symbolOf name with
        | none => (r, .unit none)
        | some s =>
          match step cfg rt.pre dflt r.reg (.look s) with
          | (reg1, .entry (some e)) => ({ reg := reg1, cache := (name, .sym s e) :: r.cache }, .unit (some (.sym s e)))
          | (reg1, _) => ({ r with reg := reg1 }, .unit none)
  | .op o =>
    match step cfg rt.pre dflt r.reg o with
    | (reg1, out) =>
      let clears : Bool :=
        match o, out with
        | .add _ _, _ => cc.addClears
        | .remove _, .done => cc.removeClears
        | .modify _ _, .done => cc.modifyClears
        | .reload, _ => cc.reloadEmpty
        | .copy, _ => cc.copyEmpty
        | _, _ => false
      ({ reg := reg1, cache := if clears then [] else r.cache }, .out out)

def runS [Mul K] (cfg : Cfg) (cc : CacheCfg) (rt : Route K) (dflt : Dict (Entry K)) (r : RegS K) :
    List (OpS K) → RegS K × List (OutS K)
  | [] => (r, [])
  | op :: ops =>
    let (r1, o) := stepS cfg cc rt dflt r op
    let (r2, os) := runS cfg cc rt dflt r1 ops
    (r2, o :: os)

/-- `Unit(name, registry=fresh registry holding exactly the table c)` -/
def freshUnit [Mul K] (rt : Route K) (c : Contents K) (name : Name) : Option (UnitR K) :=
  if name = 0 then some .one
  else match rt.symbolOf name with
    | none => none
    | some s =>
      match lookupF rt.pre c s with
      | some e => some (.sym s e)
      | none => none

def absStepS (dflt : Dict (Entry K)) (c : Contents K) : OpS K → Contents K
  | .unit _ => c
  | .op o => absStep dflt c o

def absOutS [Mul K] (rt : Route K) (c : Contents K) : OpS K → OutS K
  | .unit name => .unit (freshUnit rt c name)
  | .op o => .out (absOut rt.pre c o)

def absRunS [Mul K] (rt : Route K) (dflt : Dict (Entry K)) (c : Contents K) :
    List (OpS K) → Contents K × List (OutS K)
  | [] => (c, [])
  | op :: ops =>
    let (c2, os) := absRunS rt dflt (absStepS dflt c op) ops
    (c2, absOutS rt c op :: os)

def freshS (t : Dict (Entry K)) : RegS K := { reg := fresh t, cache := [] }

end Unyt.NamesHist
