/-
  UnytModel.Reparse — executable Boolean checks "the printed form of this unit parses back to
  it", decided by the kernel over the whole regenerated unit table in `UnytProofs/C20Tab*.lean`
  and answered by the driver (`c20.row`).
-/
import UnytModel.Print
import UnytModel.Ref.C20Spellings

namespace Unyt
namespace Reparse
open Parse Print

/-- the atomic unit with symbol `s` -/
def symE (s : String) : UExpr Rat := ⟨1, [(s, 1)]⟩

def isSym (r : Except PErr (UExpr Rat)) (s : String) : Bool :=
  match r with
  | .ok e => e.coeff == 1 && e.factors == [(s, 1)]
  | .error _ => false

/-- `Unit(str(u))` is `u` again, for the atomic unit `s` -/
def strReparses (s : String) : Bool := isSym (parseUnit (unitStr (symE s))) s
/-- `Unit(repr(u))` is `u` again -/
def reprReparses (s : String) : Bool := isSym (parseUnit (unitRepr (symE s))) s

/-- one table row: `repr` parses back, and `str` does too unless the symbol is in `excl`
    (when `str` and `repr` are the same text it is parsed once) -/
def rowOk (excl : List String) (s : String) : Bool :=
  reprReparses s &&
    (excl.contains s || unitStr (symE s) == unitRepr (symE s) || strReparses s)

/-- the symbols of the regenerated `default_unit_symbol_lut` -/
def lutKeys : List String := Generated.rawLut.map (·.1)

def chunkSize : Nat := 50
def chunk (i : Nat) : List String := (lutKeys.drop (i * chunkSize)).take chunkSize
/-- everything from chunk `i` on (the last obligation takes the open end of the table) -/
def tail (i : Nat) : List String := lutKeys.drop (i * chunkSize)

def same (a b : Except PErr (UExpr Rat)) : Bool :=
  match a, b with
  | .ok x, .ok y => x.coeff == y.coeff && UExpr.normF x.factors == UExpr.normF y.factors
  | _, _ => false

/-- both texts are accepted and denote the same expression -/
def spelledAlike (p : String × String) : Bool := same (parseUnit p.1) (parseUnit p.2)

end Reparse
end Unyt

namespace Unyt
namespace Reparse

/-- the symbol an entry of the name table yields is a fixed point of the name table
    (`inv[inv[k]] == inv[k]`), or it is listed in `excl` -/
def entryCanonical (excl : List String) (_k : List Nat) (v : String) (vc : List Nat) : Bool :=
  (match Generated.nameTree.findEntry? vc with
   | some (_, vc') => vc' == vc
   | none => false)
  || excl.contains v

/-- every excluded symbol really is a non-fixed point (no exclusion outlives its finding) -/
def exclusionNeeded (vc : List Nat) : Bool :=
  match Generated.nameTree.findEntry? vc with
  | some (_, vc') => vc' != vc
  | none => true

end Reparse
end Unyt
