/-
  UnytModel.SystemTables — the regenerated unit systems and EM table instantiated at a carrier
  `K`, and the executable Boolean checks over them that `UnytProofs/C10*.lean` decides in the
  kernel (C10 table obligations).
-/
import UnytModel.Generated.Systems
import UnytModel.Generated.EmTable
import UnytModel.UnitSystem
import UnytModel.Ref.C10Exclusions

namespace Unyt

section inst
variable (K : Type) [OfBits K]

def exprOfRaw (r : Generated.RawExpr) : UExpr K := ⟨OfBits.ofBits r.coeff, r.factors⟩

def sysOfRaw (r : Generated.RawSystem) : USys K :=
  { name := r.name,
    um := r.entries.map fun (d, e, _) => (d, e.map (exprOfRaw K)),
    base := r.base.map fun (d, e) => (d, e.map (exprOfRaw K)) }

/-- `unit_system_registry` as regenerated -/
def builtinSystems : List (USys K) := Generated.rawSystems.map (sysOfRaw K)

def findSystem (name : String) : Option (USys K) := (builtinSystems K).find? (·.name == name)

/-- `em_conversions` as regenerated -/
def defaultEm : EmTable K :=
  Generated.rawEm.map fun (n, d, td, p, f, syms) => ⟨n, d, td, p, OfBits.ofBits f, syms⟩

end inst

/-- the `units_map` entries of a regenerated system of one kind
    (0 = base, 1 = declared override, 2 = memoised) -/
def rawEntriesOfKind (r : Generated.RawSystem) (k : Nat) : List (Dim × Option Generated.RawExpr) :=
  (r.entries.filter (·.2.2 == k)).map fun (d, e, _) => (d, e)

/-- the symbols a system owns: atoms of its base units and of the units it declares -/
def rawOwnedAtoms (r : Generated.RawSystem) : List String :=
  (r.entries.filter (·.2.2 != 2)).flatMap fun (_, e, _) =>
    match e with
    | some x => (UExpr.normF x.factors).map (·.1)
    | none => []

/-! ### a stand-in power operation on ℚ for kernel-decided table obligations

  The table obligations concern *which unit* a conversion yields (expression, dimension, atoms),
  never its scale; they are decided at `K := Rat`, where rational powers are not available.  The
  stand-in below is exact for integer exponents and for the base 1 (every coefficient in the
  built-in systems is 1) and returns 0 otherwise; nothing an obligation inspects depends on it. -/
@[instance_reducible] def ratPowStub : RPow Rat := ⟨fun x q => if q.den = 1 then zpowK x q.num else if x = 1 then 1 else 0⟩

section checks
attribute [local instance] ratPowStub

def c10Pre : Prefixes Rat := defaultPrefixes Rat
def c10Lut : Lut Rat := defaultLut Rat
def c10Em : EmTable Rat := defaultEm Rat

def allPrefixKeys : List String := Generated.rawPrefixes.map (·.1)

/-- is `(d, d')` a documented CGS/SI electromagnetic pair of dimensions -/
def emCounterpart (d d' : Dim) : Bool := Generated.rawEm.any fun (_, a, b, _, _, _) => a == d && b == d'

/-- outcome classes of one row of the closure obligation -/
inductive RowVerdict
  | notReducible      -- `UnitsNotReducible`
  | closed            -- inside the system, same (or EM-counterpart) dimension, fixed point
  | outside           -- a result atom is neither a base unit nor a declared unit of the system
  | wrongDim          -- the result has an unrelated dimension
  | notFixed          -- converting the result again changes the unit
  | otherError        -- any other exception
deriving DecidableEq, Repr

def RowVerdict.str : RowVerdict → String
  | .notReducible => "notReducible" | .closed => "closed" | .outside => "outside"
  | .wrongDim => "wrongDim" | .notFixed => "notFixed" | .otherError => "otherError"

/-- `Unit(name).in_base(system)` of the model, classified -/
def rowVerdict (r : Generated.RawSystem) (name : String) : RowVerdict :=
  let S := sysOfRaw Rat r
  match mkUnit c10Pre c10Lut (UExpr.sym name) with
  | .error _ => .otherError
  | .ok u =>
    match inBase c10Pre c10Lut c10Em S u 1 with
    | .error .UnitsNotReducible => .notReducible
    | .error _ => .otherError
    | .ok (_, v) =>
      if !(v.expr.atoms.all (rawOwnedAtoms r).contains) then .outside
      else if !(v.dim == u.dim || emCounterpart u.dim v.dim) then .wrongDim
      else
        match inBase c10Pre c10Lut c10Em S v 1 with
        | .ok (_, w) => if exprEq w.expr v.expr then .closed else .notFixed
        | .error _ => .notFixed

def rowOkC10 (r : Generated.RawSystem) (name : String) : Bool :=
  match rowVerdict r name with
  | .notReducible | .closed => true
  | _ => false

/-- the atomic units of the regenerated unit table -/
def atomicNames : List String := Generated.rawLut.map (·.1)

/-- the prefixed spellings of the prefixable rows, for the given prefixes -/
def prefixedNames (ps : List String) : List (String × String × String) :=
  (Generated.rawLut.filter (·.2.prefixable)).flatMap fun (k, _) => ps.map fun p => (p, k, p ++ k)

def rawSystem? (name : String) : Option Generated.RawSystem :=
  Generated.rawSystems.find? (·.name == name)

/-- closure of one built-in system over all atomic units, outside the literal exclusion list -/
def systemClosedAtomic (sys : String) (excl : List (String × String)) : Bool :=
  match rawSystem? sys with
  | none => false
  | some r => atomicNames.all fun k => excl.contains (sys, k) || rowOkC10 r k

/-- closure of one built-in system over the prefixed spellings of prefixable units (prefixes
    `ps`), outside the exclusion list of `(system, unprefixed symbol)` classes -/
def systemClosedPrefixed (sys : String) (ps : List String) (excl : List (String × String)) (ok : List (String × String)) : Bool :=
  match rawSystem? sys with
  | none => false
  | some r => (prefixedNames ps).all fun (_, k, n) =>
      (excl.contains (sys, k) && !ok.contains (sys, n)) || rowOkC10 r n


/-- one third of the atomic rows (chunked so that each kernel obligation stays small) -/
def atomicChunk (i : Nat) : List String :=
  match i with
  | 0 => atomicNames.take 50
  | 1 => (atomicNames.drop 50).take 50
  | _ => atomicNames.drop 100

def systemClosedAtomicChunk (sys : String) (excl : List (String × String)) (i : Nat) : Bool :=
  match rawSystem? sys with
  | none => false
  | some r => (atomicChunk i).all fun k => excl.contains (sys, k) || rowOkC10 r k

/-- the prefixable rows whose dimension is one of `em_conversion_dims` — the only rows on which a
    prefix changes the route `in_base` takes -/
def emPrefixable : List String :=
  (Generated.rawLut.filter fun (_, e) => e.prefixable && Generated.rawEmDims.contains e.dim).map (·.1)

def systemClosedPrefixedEm (sys : String) (ps : List String) (excl : List (String × String)) (ok : List (String × String)) : Bool :=
  match rawSystem? sys with
  | none => false
  | some r => emPrefixable.all fun k => ps.all fun p =>
      (excl.contains (sys, k) && !ok.contains (sys, p ++ k)) || rowOkC10 r (p ++ k)

/-- the prefixes of the kernel-decided prefixed obligation: ordinary one-letter prefixes, the
    two-letter `da`, and `μ` (which a built-in system declares a unit with; the spellings `u` and
    `µ` are mapped to `μ` by the parser and never occur in a symbol).  All other prefixes take
    the same route through the code; they are covered exhaustively by the compiled model and the
    direct oracle in the thorough tier.  (String comparison in the kernel costs ≈0.4 ms, a
    prefixed EM row ≈1.4 s.) -/
def prefixHalf (i : Nat) : List String :=
  (match i with
   | 0 => ["m", "k", "da"]
   | _ => ["μ", "M", "n"]).filter allPrefixKeys.contains

/-- every excluded bare row really fails (an exclusion cannot outlive its finding) -/
def exclusionsFailAtomic (excl : List (String × String)) : Bool :=
  excl.all fun (sys, k) =>
    match rawSystem? sys with
    | none => false
    | some r => !rowOkC10 r k

/-- every excluded prefixed class has a failing member among the prefixes `ps` -/
def exclusionsFailPrefixed (ps : List String) (excl : List (String × String)) : Bool :=
  excl.all fun (sys, k) =>
    match rawSystem? sys with
    | none => false
    | some r => ps.any fun p => !rowOkC10 r (p ++ k)

/-- every memoised entry of a regenerated `units_map` is what `__getitem__` would synthesise
    from the base units now, and every base entry is still the `base_units` copy -/
def memoEntriesOk (r : Generated.RawSystem) : Bool :=
  let S := sysOfRaw Rat r
  (rawEntriesOfKind r 2).all (fun (d, e) =>
    match e with
    | some x => exprEq (exprOfRaw Rat x) (synth S.base d)
    | none => false)
  && (rawEntriesOfKind r 0).all (fun (d, e) =>
    match S.base.find? d, e with
    | some (some b), some x => exprEq (exprOfRaw Rat x) b
    | some none, none => true
    | _, _ => false)

/-- every base and declared entry of a regenerated system is a unit of the dimension it is
    filed under (resolved against the regenerated unit table); `None` only for `current_mks` -/
def entriesDimOk (r : Generated.RawSystem) : Bool :=
  r.entries.all fun (d, e, _) =>
    match e with
    | none => d == Dim.dCurrent
    | some x =>
      match mkUnit c10Pre c10Lut (exprOfRaw Rat x) with
      | .ok u => u.dim == d
      | .error _ => false

/-- the eight base keys are present, in the constructor's order -/
def baseKeysOk (r : Generated.RawSystem) : Bool :=
  (r.base.map (·.1)) == baseDimsInit && (r.entries.take 8).map (·.1) == baseDimsInit

/-- the regenerated EM table pairs up: the partner row exists, points back, carries the
    partner's dimension, and both names are rows of the unit table with those dimensions -/
def emTableOk : Bool :=
  c10Em.all (fun r =>
    (c10Em.any fun r' => r'.name == r.partnerSym "" && r'.dim == r.toDim && r'.toDim == r.dim && r'.partnerSym "" == r.name)
    && (match c10Lut.find? r.name with | some e => e.dim == r.dim && e.prefixable | none => false)
    && (match c10Lut.find? (r.partnerSym "") with | some e => e.dim == r.toDim && e.prefixable | none => false)
    -- every prefixed partner spelling resolves to a unit of the partner dimension
    && allPrefixKeys.all (fun p =>
        match resolve c10Pre c10Lut (r.partnerSym p) with
        | some e => e.dim == r.toDim
        | none => false))
  && Generated.rawEmDims == Generated.rawEm.map (fun (_, d, _, _, _, _) => d)

/-! ### numbers on the electromagnetic route (atomic units: every scale is an exact table cell or
    a product with a prefix, and integer powers of base units — the stand-in power is exact there) -/

def absQ (q : Rat) : Rat := if q < 0 then -q else q

/-- the factor of every EM row times the factor of its partner row is 1 within 2⁻⁵⁰ (the two
    are independent floating-point literals in `em_conversions`) -/
def emFactorsInverseOk : Bool :=
  c10Em.all fun r =>
    c10Em.any fun r' => r'.name == r.partnerSym "" && r'.dim == r.toDim
      && decide (absQ (r.factor * r'.factor - 1) ≤ 1 / 2 ^ 50)

/-- the prefixes that are their own parse (`u`, `µ` are re-spelled `μ` by the parser) -/
def canonicalPrefixes : List String :=
  allPrefixKeys.filter fun p => c10Em.all fun r => r.partnerSym p == p ++ r.partnerSym ""

/-- the crossing branch of `_em_conversion` for the unit `p ++ name`: the numeric factor is exactly
    the table's factor (no offset), the target is `p ++ partner`, and the prefix multiplies both
    units by the same number — so `x [p·unit] = x·factor [p·partner]` is the same quantity as
    `x·prefix [unit] = x·prefix·factor [partner]` -/
def emCrossRowOk (r : EmRow Rat) (p : String) : Bool :=
  match mkUnit c10Pre c10Lut (UExpr.sym (r.partnerSym p)) with
  | .error _ => false
  | .ok emUnit =>
    (match emConversion c10Pre c10Lut ⟨none, emUnit, r.factor⟩ with
     | .ok (to, (f, o)) => f == r.factor && o.isNone && exprEq to.expr emUnit.expr
     | .error _ => false)
    && (match resolve c10Pre c10Lut (p ++ r.name), resolve c10Pre c10Lut r.name,
          resolve c10Pre c10Lut (r.partnerSym p), resolve c10Pre c10Lut (r.partnerSym "") with
        | some a, some a0, some b, some b0 => a.scale * b0.scale == a0.scale * b.scale && a.scale != 0 && b.scale != 0
        | _, _, _, _ => false)

def emCrossOk (ps : List String) : Bool := c10Em.all fun r => ps.all fun p => emCrossRowOk r p

/-- the whole route on a built-in system for an EM-table unit `p ++ name` and reading 1: where the dimension
    is kept the SI magnitude is kept (`y · scale(v) = scale(u)`), where it crosses the number is
    the table's factor; and whenever the resulting unit is a fixed point of `in_base`, so is the number -/
def emRouteNumbersOk (r : Generated.RawSystem) (p name : String) : Bool :=
  let S := sysOfRaw Rat r
  match mkUnit c10Pre c10Lut (UExpr.sym (p ++ name)) with
  | .error _ => false
  | .ok u =>
    match inBase c10Pre c10Lut c10Em S u 1 with
    | .error .UnitsNotReducible => true
    | .error _ => false
    | .ok (y, v) =>
      (if v.dim == u.dim then y * v.scale == u.scale
       else match c10Em.find? name u.dim with
         | some row => y == row.factor
         | none => false)
      && (match inBase c10Pre c10Lut c10Em S v y with
          | .ok (y', w) => !(exprEq w.expr v.expr) || y' == y
          | .error _ => true)

/-- the canonical prefixes in four chunks (kernel obligations stay small) -/
def canonicalPrefixChunk (i : Nat) : List String := (canonicalPrefixes.drop (5 * i)).take (if i ≥ 3 then canonicalPrefixes.length else 5)

def emNames : List String := c10Em.map (·.name)

def emRouteNumbersSys (sys : String) (ps : List String) : Bool :=
  match rawSystem? sys with
  | none => false
  | some r => emNames.all fun n => ps.all fun p => emRouteNumbersOk r p n

/-- no key of the regenerated unit table reads as SI prefix + prefixable unit -/
def keysUnsplitOk : Bool := c10Lut.all fun (k, _) => splitPrefix c10Pre c10Lut k == ("", k)

/-- `inv_name_alternatives` maps the table keys (one quarter of them) to themselves -/
def invIdOnKeysChunk (i : Nat) : Bool :=
  ((c10Lut.drop (40 * i)).take (if i ≥ 3 then c10Lut.length else 40)).all fun (k, _) =>
    invLookup Generated.invNames k == some k

end checks
end Unyt
