/-
  UnytModel.LabelMemo — HISTORY of the unit label a NumPy-function handler attaches (C07).

  Models `unyt/_array_functions.py`: a handler computes the unit of its result from the units of its operands
  (`a.units**2`, `a.units ** (a.size // res.size)`, `au * bu`, …: `UR.Leaf`, UnytModel/UnitRules.lean).  That
  computation may be memoised (module-level dict, `functools.lru_cache`, the registry's `_unit_object_cache`,
  `unyt.array._unit_rule_cache`): then the answer of a call is a function of the PROCESS HISTORY, not only of
  the operands.  What a memo can see of an operand's unit:

    * `reg`    identity of the registry OBJECT (`id(units.registry)`),
    * `expr`   the expression (`units.expr`),
    * `scale`  log2 of `units.base_value`, the scale the `Unit` snapshotted when it was created
               (power-of-two scales: the "exactly-representable rescalings in a custom registry" of the property).

  A `Unit` is NOT determined by (reg, expr): `UnitRegistry.modify` (and `remove` + `add`) re-scales a symbol in
  place — same registry object, same expression, new scale (`World.modify` below).  A memo is described by the
  components its key contains (`KeyCfg`, regenerated per handler from history probes of the live code:
  `Generated/C07Memo.lean`); the exponents of the label are always part of the key (`expos`).
  `answers` is what the driver runs (`c07.history`) against the real handler under the same history.
-/
namespace Unyt.LabelMemo

/-- what a handler (and a memo inside it) can observe of the unit of one operand -/
structure UObs where
  reg : Nat
  expr : Nat
  scale : Int
deriving DecidableEq, Repr

/-- one call: the observed units of the unit-carrying operand groups and the exponent the label gives each
    (from the regenerated rule row, evaluated for the shapes of the call) -/
structure Call where
  ops : List UObs
  expos : List Rat
deriving DecidableEq, Repr

/-- which components of the operand units the memo key contains (`memo = false`: nothing is remembered) -/
structure KeyCfg where
  memo : Bool
  byReg : Bool
  byExpr : Bool
  byScale : Bool
deriving DecidableEq, Repr

/-- the key can tell apart any two calls whose labels differ -/
def KeyCfg.adequate (k : KeyCfg) : Bool := !k.memo || (k.byExpr && k.byScale)

abbrev Key := List (Option Nat × Option Nat × Option Int) × List Rat

def keyOf (k : KeyCfg) (c : Call) : Key :=
  (c.ops.map fun u => (if k.byReg then some u.reg else none, if k.byExpr then some u.expr else none,
                        if k.byScale then some u.scale else none), c.expos)

/-- a label: the expression it prints as (operand expressions to their powers) and log2 of its `base_value` -/
structure Label where
  name : List (Nat × Rat)
  scale : Rat
deriving DecidableEq, Repr

def dot : List UObs → List Rat → Rat
  | u :: us, e :: es => (u.scale : Rat) * e + dot us es
  | _, _ => 0

/-- the label the handler computes from the operands of THIS call (`Unit.__pow__/__mul__` on scales:
    log2 of `Π base_value_g ^ e_g`) -/
def label (c : Call) : Label := ⟨(c.ops.map (·.expr)).zip c.expos, dot c.ops c.expos⟩

abbrev Cache := List (Key × Label)

def find (c : Cache) (k : Key) : Option Label :=
  match c with
  | [] => none
  | (k', r) :: rest => if k' = k then some r else find rest k

/-- one call of the handler: a hit answers from the memo, a miss computes and stores -/
def call (k : KeyCfg) (c : Cache) (a : Call) : Cache × Label :=
  if k.memo then
    match find c (keyOf k a) with
    | some r => (c, r)
    | none => ((keyOf k a, label a) :: c, label a)
  else (c, label a)

/-- the labels a history of calls gets, starting from memo `c` -/
def answers (k : KeyCfg) : Cache → List Call → List Label
  | _, [] => []
  | c, a :: rest =>
    let r := call k c a
    r.2 :: answers k r.1 rest

/-! ### registries that are edited in place -/

/-- log2 of the scale of symbol `sym` in registry object `reg` -/
abbrev World := Nat → Nat → Int

/-- `UnitRegistry.modify(sym, 2^s)` (or `remove` + `add`) on registry object `reg` -/
def World.modify (w : World) (reg sym : Nat) (s : Int) : World :=
  fun r x => if r = reg ∧ x = sym then s else w r x

/-- `Unit(sym, registry=reg)` built NOW: snapshots the current scale -/
def World.unit (w : World) (reg sym : Nat) : UObs := ⟨reg, sym, w reg sym⟩

inductive Ev where
  | modify (reg sym : Nat) (s : Int)
  /-- the handler is called on operands whose units are freshly built from (registry, symbol) pairs -/
  | call (ops : List (Nat × Nat)) (expos : List Rat)
deriving DecidableEq, Repr

def Ev.callOf (w : World) (ops : List (Nat × Nat)) (expos : List Rat) : Call :=
  ⟨ops.map fun (r, x) => w.unit r x, expos⟩

/-- the calls the handler sees in a history of registry edits and calls -/
def observed : World → List Ev → List Call
  | _, [] => []
  | w, .modify r x s :: rest => observed (w.modify r x s) rest
  | w, .call ops es :: rest => Ev.callOf w ops es :: observed w rest

/-- what the handler answers in a history of registry edits and calls (driver opcode `c07.history`) -/
def run (k : KeyCfg) (w : World) (c : Cache) (h : List Ev) : List Label := answers k c (observed w h)

/-- what every call must answer: the label of its own operands in the world as it is at that moment -/
def spec (w : World) (h : List Ev) : List Label := (observed w h).map label

/-- the memo after a history of calls -/
def finalCache (k : KeyCfg) : Cache → List Call → Cache
  | c, [] => c
  | c, a :: rest => finalCache k (call k c a).1 rest

/-- number of cache misses of a history from process start (every miss stores exactly one entry; compared with
    `cache_info().misses` of the live `lru_cache` of a memoised unit rule) -/
def missesOf (k : KeyCfg) (w : World) (h : List Ev) : Nat := (finalCache k [] (observed w h)).length

/-- one regenerated row: the memo configuration the history probes of the live handler reveal -/
structure MemoRow where
  func : String
  variant : String
  cfg : KeyCfg
deriving DecidableEq, Repr

end Unyt.LabelMemo
