/-
  UnytModel.Ref.C19Source — what the body of `unyt.array.allclose_units` has to look like for the
  hand-written model `UnytModel/Testing.lean: allcloseQ true` to be a transcription of it.

  Written by hand, next to the model: every row names the model definition it corresponds to.
  The translator (`tools/extract.d/c19_flags.py: ast_shape`) executes the live function body
  symbolically (locals substituted by their definitions, so a renamed or inlined local changes
  nothing) and emits the same kind of rows as `Generated.allcloseSource`; the kernel compares the
  two lists in `UnytProofs/C19.lean: allclose_source_shape`.  A re-ordering of the guards, a
  conversion to another unit, another error handler, another reading of `rtol`/bare `atol`, or a
  different argument order of the final call makes a row differ and the obligation fail.

  What this does NOT establish: that the model functions compute what these expressions mean
  (`in_units`, `to_value`, `unyt_quantity`, `numpy.allclose` are interpreted by the correspondence
  run, not by a theorem).
-/

namespace Unyt.Ref

def allcloseSourceExpected : List (String × String) := [
  ("params", "actual desired rtol atol"),
  -- `allcloseQ`: `match inUnits des0.unit act.unit des0.vals with | .error _ => .ok false`
  ("try", "(try (des := (in_units (unyt_array desired) (units (unyt_array actual)))) (except UnitConversionError UnitOperationError) (return False))"),
  -- `allcloseQ`: `if rtolDim rtol != Dim.one then .error .RuntimeError`, after the first guard
  ("if", "(if (not (is_dimensionless (units (unyt_array rtol)))) (raise RuntimeError))"),
  -- `atolInActualUnit true`: bare → `x * (convVal des0 act 1 - convVal des0 act 0)` labelled with
  -- `actual`'s unit; quantity → itself
  ("branch", "(at := (ite (not (isinstance atol unyt_array)) (unyt_quantity (* atol (- (value (in_units (unyt_quantity 1.0 (units (unyt_array desired))) (units (unyt_array actual)))) (value (in_units (unyt_quantity 0.0 (units (unyt_array desired))) (units (unyt_array actual)))))) (units (unyt_array actual))) atol))"),
  -- `atolInActualUnit`: `.qty x u => if u.dim != act.dim then none else some (convVal u act x)`,
  -- `allcloseQ`: `| none => .ok false` — after the `rtol` guard
  ("try", "(try (at := (in_units <at> (units (unyt_array actual)))) (except UnitConversionError UnitOperationError) (return False))"),
  -- `allcloseQ`: `npAllclose (rtolNumber rtol) av act.vals des` — i.e. `numpy.allclose(a, b, rtol, atol)`
  -- with `a` = stripped `actual`, `b` = `desired` in `actual`'s unit, `rtolNumber` = `to_value("dimensionless")`
  ("return", "(np.allclose (value (unyt_array actual)) (value (in_units (unyt_array desired) (units (unyt_array actual)))) (to_value (unyt_array rtol) 'dimensionless') (value (in_units <at> (units (unyt_array actual)))) **kwargs)")
]

end Unyt.Ref
