/-
  UnytModel.Ref.C14 — the independent reference reader of unit names (hand-written).

  What a documented unit name *should* denote, written from the contract and not from unyt's
  look-up code: a name is
    (1) a table symbol or one of the alternative spellings the input table lists for it,
    (2) a title-cased form of (1)  ("Meter", "Degree_Celsius"),
    (3) an SI prefix — symbol (`k`), word (`kilo`) or title-cased word (`Kilo…`) — attached to a
        symbol or listed spelling of a *prefixable* unit,
    (4) failing all of these, another capitalisation of a spelling or of prefix word + spelling,
  and it denotes  10^k × that unit.  The reader tries *every* prefix spelling at *every* position and *every* spelling of every unit;
  it knows nothing of `_split_prefix`'s single attempt, of the `da` special case, of the order in
  which the generator emits names, or of its length/case heuristics.  Precedence is what the
  property states: a symbol or listed spelling wins over a prefix split; within one class all
  readings must agree, otherwise the name is ambiguous.

  The SI prefixes are from the SI brochure (9th ed., table 7; the 2022 additions ronna/quetta/
  ronto/quecto are not in unyt), with the three spellings of the micro sign that unyt documents
  (`u`, U+00B5 MICRO SIGN, U+03BC GREEK SMALL LETTER MU).  Names are codes (`NameCode.lean`); the
  readable string tables below are kernel-checked equal to the code tables (`ref_codes_ok`).
-/
import UnytModel.NameCode

namespace Unyt.Ref.C14
open Unyt

/-- SI prefix symbols ↦ power of ten -/
def prefixSymbolsS : List (String × Int) := [
  ("Y", 24), ("Z", 21), ("E", 18), ("P", 15), ("T", 12), ("G", 9), ("M", 6), ("k", 3), ("h", 2),
  ("da", 1), ("d", -1), ("c", -2), ("m", -3), ("µ", -6), ("μ", -6), ("u", -6), ("n", -9),
  ("p", -12), ("f", -15), ("a", -18), ("z", -21), ("y", -24)]

/-- SI prefix names ↦ power of ten -/
def prefixWordsS : List (String × Int) := [
  ("yotta", 24), ("zetta", 21), ("exa", 18), ("peta", 15), ("tera", 12), ("giga", 9), ("mega", 6),
  ("kilo", 3), ("hecto", 2), ("deca", 1), ("deci", -1), ("centi", -2), ("milli", -3),
  ("micro", -6), ("nano", -9), ("pico", -12), ("femto", -15), ("atto", -18), ("zepto", -21),
  ("yocto", -24)]

def prefixSymbols : List (Name × Int) := [
  (90, 24), (91, 21), (70, 18), (81, 15), (85, 12), (72, 9), (78, 6), (108, 3), (105, 2),
  (205520997, 1), (101, -1), (100, -2), (110, -3), (182, -6), (957, -6), (118, -6), (111, -9),
  (113, -12), (103, -15), (98, -18), (123, -21), (122, -24)]

def prefixWords : List (Name × Int) := [
  (1895596764290781429624733818, 24), (1895596764290781429603762299, 21), (431008811843686, 18),
  (903890974183423737969, 15), (903890965387330715765, 12), (903890917008827482216, 9),
  (903890917008819093614, 6), (1033018147515026899052, 3), (2166396147884383597947256937, 2),
  (903890899416633049189, 1), (977677875711471255653, -1), (2050339269201427575687086180, -2),
  (2050339195414442484764246126, -3), (2166396129437639524246093934, -6),
  (1033018156311103144047, -9), (1033018107932608299121, -12), (2166396147884427578412367975, -15),
  (1033018182699422056546, -18), (2166396147884440772551901307, -21),
  (2166396147884383597968228474, -24)]

/-- `10^k` -/
def pow10 (k : Int) : Rat :=
  match k with
  | .ofNat n => ((10 ^ n : Nat) : Rat)
  | .negSucc n => 1 / ((10 ^ (n + 1) : Nat) : Rat)

/-- a reading: power of ten (0 = no prefix) and the table key of the unit -/
abbrev RReading := Int × Name

/-- the spellings of the units — every table key and every alternative of the documented input
    table — keyed by lower-cased spelling (`BaseTree`, laid out by the translator from the flat rows
    `baseRowsC`; `base_tree_is_rows` states that the two agree) -/
abbrev Spellings := BaseTree

/-- class (1): rows of the bucket spelled exactly `b` (of a prefixable unit when `needP`) -/
def exactIn (b : Name) (needP : Bool) (k : Int) : List (Name × Name × Bool) → List RReading
  | [] => []
  | (w, c, p) :: r =>
    if Nat.beq w b && (p || !needP) then (k, c) :: exactIn b needP k r else exactIn b needP k r

/-- class (2): rows of the bucket whose title-cased spelling is `s` (and which are not `s`) -/
def titleIn (ct : CaseTable) (s : Name) : List (Name × Name × Bool) → List RReading
  | [] => []
  | (w, c, _) :: r =>
    if !(Nat.beq w s) && Nat.beq (Name.title ct w) s then (0, c) :: titleIn ct s r else titleIn ct s r

/-- class (3c): title-cased (prefix word `pw` + spelling) = `s`, prefixable units only -/
def titlePrefixedIn (ct : CaseTable) (pw s : Name) (k : Int) : List (Name × Name × Bool) → List RReading
  | [] => []
  | (w, c, p) :: r =>
    if p && (Name.force (Name.append pw w) fun full => !(Nat.beq full s) && Nat.beq (Name.title ct full) s)
    then (k, c) :: titlePrefixedIn ct pw s k r
    else titlePrefixedIn ct pw s k r

/-- lengths of the prefix symbols / prefix words of the tables above (`ref_codes_ok` checks that no
    symbol or word has another length) -/
def symbolLens : List Nat := [1, 2]
def wordLens : List Nat := [3, 4, 5]

/-- class (3a/3b): for each length `n`, the first `n` characters of `s` as a prefix of `table`,
    attached to the exact spelling of a prefixable unit -/
def prefixedExact (sp : Spellings) (table : List (Name × Int)) (s sl : Name) : List Nat → List RReading
  | [] => []
  | n :: r =>
    (if Nat.blt n (Name.len s) then
      Name.force (Name.take n s) fun p =>
        match findN p table with
        | some k =>
          Name.force (Name.drop n s) fun b =>
          Name.force (Name.drop n sl) fun bl => exactIn b true k ((sp.get? bl).getD [])
        | none => []
     else []) ++ prefixedExact sp table s sl r

/-- class (3c): for each length `n`, the first `n` characters of the lower-cased `s` as a prefix
    word, title-cased together with a spelling -/
def prefixedTitle (ct : CaseTable) (sp : Spellings) (s sl : Name) : List Nat → List RReading
  | [] => []
  | n :: r =>
    (if Nat.blt n (Name.len s) then
      Name.force (Name.take n sl) fun pw =>
        match findN pw prefixWords with
        | some k =>
          Name.force (Name.drop n sl) fun bl => titlePrefixedIn ct pw s k ((sp.get? bl).getD [])
        | none => []
     else []) ++ prefixedTitle ct sp s sl r

/-- class (3): every prefix symbol, every prefix word, every title-cased prefix word, at whatever
    position it ends -/
def level3 (ct : CaseTable) (sp : Spellings) (s sl : Name) : List RReading :=
  prefixedExact sp prefixSymbols s sl symbolLens ++ prefixedExact sp prefixWords s sl wordLens
    ++ prefixedTitle ct sp s sl wordLens

/-- class (4): rows of the bucket in whatever capitalisation (the bucket is keyed by the
    lower-cased spelling) -/
def anyCaseIn (needP : Bool) (k : Int) : List (Name × Name × Bool) → List RReading
  | [] => []
  | (_, c, p) :: r => if p || !needP then (k, c) :: anyCaseIn needP k r else anyCaseIn needP k r

/-- class (4b): prefix word + spelling of a prefixable unit, in whatever capitalisation -/
def prefixedAnyCase (sp : Spellings) (sl : Name) : List Nat → List RReading
  | [] => []
  | n :: r =>
    (if Nat.blt n (Name.len sl) then
      Name.force (Name.take n sl) fun pw =>
        match findN pw prefixWords with
        | some k => Name.force (Name.drop n sl) fun bl => anyCaseIn true k ((sp.get? bl).getD [])
        | none => []
     else []) ++ prefixedAnyCase sp sl r

/-- class (4): another capitalisation of a spelling or of prefix word + spelling (only consulted
    when no reading of classes (1)–(3) exists; symbols with prefix symbols stay case-sensitive) -/
def level4 (sp : Spellings) (sl : Name) : List RReading :=
  anyCaseIn false 0 ((sp.get? sl).getD []) ++ prefixedAnyCase sp sl wordLens

inductive Verdict
  | unknown
  | unique (k : Int) (c : Name)
  | ambiguous
deriving DecidableEq, Repr

def agree : List RReading → Verdict
  | [] => .unknown
  | (k, c) :: r => if r.all (fun x => x.1 == k && Nat.beq x.2 c) then .unique k c else .ambiguous

/-- what the name `s` should denote -/
def verdict (ct : CaseTable) (sp : Spellings) (s : Name) : Verdict :=
  Name.force (Name.lower ct s) fun sl =>
  let bucket := (sp.get? sl).getD []
  match exactIn s false 0 bucket with
  | x :: r => agree (x :: r)
  | [] =>
    match titleIn ct s bucket with
    | x :: r => agree (x :: r)
    | [] =>
      match level3 ct sp s sl with
      | x :: r => agree (x :: r)
      | [] => agree (level4 sp sl)

/-- all readings of all classes (for the report of a second reading) -/
def allReadings (ct : CaseTable) (sp : Spellings) (s : Name) : List RReading :=
  Name.force (Name.lower ct s) fun sl =>
  let bucket := (sp.get? sl).getD []
  exactIn s false 0 bucket ++ titleIn ct s bucket ++ level3 ct sp s sl ++ level4 sp sl

/-- The names under which `unyt.physical_constants` documents a constant that are ALSO unit names
    (the gravitational constant `G` / the gauss, the speed of light `c`, ħ, the electron and proton
    masses, the solar / Jupiter / Earth masses with their spellings, the six Planck quantities).
    The top-level namespace imports the constants first, so for these names — and only these —
    `unyt.<name>` may be the constant (a quantity) rather than the unit.  Written from the documented
    table of constants; `shadowing_is_documented` pins the regenerated list of shadowed names to it,
    so a unit attribute that vanishes from the top level, or is rebound to something that is not a
    unit, fails `attributes_agree`. -/
def shadowedByConstantsS : List String := [
  "G", "hbar", "c", "Msun", "msun", "m_sun", "M_Sun", "M_sun", "m_Sun", "solar_mass",
  "mass_sun", "Mjup", "jupiter_mass", "Mearth", "earth_mass", "me", "electron_mass", "mp",
  "proton_mass", "m_pl", "planck_mass", "l_pl", "planck_length", "t_pl", "planck_time", "T_pl",
  "planck_temperature", "q_pl", "planck_charge", "E_pl", "planck_energy"]

def shadowedByConstants : List Name := [
  72, 1060688215247064924265, 100, 1023794815060611694670, 1023794815060611694702,
  2147053343993991936738328686, 2147053343993851199249973326, 2147053343993991936738328654,
  2147053343993851199249973358, 91018018563876977047705422606229595450125966921648390013044,
  19803071774629723038253348312040756877874692206, 1042241559134302371918,
  400301478992458243468531120062069963085578120688641875559305538602795115,
  4259308279877045795829984891240526,
  91018018563876977047705422606229402022170072676068927471718, 213909614,
  839493047271991790206516975500409433601850679814659077984840107235038101241958, 236978286,
  190878619667271730169549522429499446298416542025686026064595255409, 1005348048996627644526,
  190878619667271730169549522429499324603726806302957179785751560305, 1005348048996627644525,
  759885989372219952276222384222356851128797685482768352358132885069015428366449,
  1005348048996627644533, 167841551156951537195971476417148546170682095278213041945028067441,
  1005348048996627644501,
  29943934028539584514477557228202455570051406377950131018013790268373118077663643415560839428538075180229984369,
  1005348048996627644530,
  738174927778890012035568450276206763841898242444158540615967349706094802894961,
  1005348048996627644486,
  882915039325535256318170734649626860792593676838643246497043588003514713899121]

/-- `"°C"` -/
def degreeSignC : Name := 142606513

end Unyt.Ref.C14
