/-
  UnytModel.Ref.C17 — hand-written reference for C17 (independent of unyt's code):
  what the result dtype of a conversion *should* be, when an integer is too large for a binary
  float, and the documented LARGE_INPUT thresholds.

  Written from the property text ("floating-point data of the same item size (at least 16 bits)
  … or raises when no such float type exists; float32 and float16 stay in their width, complex
  stay complex"), IEEE-754 (significand widths 11 / 24 / 53 / 64 bits) and docs/usage.rst
  ("large integers (16777217 for 32 bit and 9007199254740993 for 64 bit) will lose precision …
  a warning message will be printed").
-/
import UnytModel.Dtype

namespace Unyt.Ref.C17
open Unyt

/-- the dtype a conversion of data of dtype `d` should produce -/
def expectedDtype (d : Dtype) : Dtype :=
  match d.kind with
  | .i | .u => ⟨.f, max 2 d.size⟩
  | _ => d

/-- raising instead of returning is acceptable only where no float of the same item size exists:
    1-byte integers -/
def mayRaise (d : Dtype) : Bool := d.isInt && d.size == 1

/-- verdict on the dtype outcome of a conversion of `d`-typed data -/
def acceptable (d : Dtype) (out : Except Err Dtype) : Bool :=
  match out with
  | .ok r => r == expectedDtype d
  | .error _ => mayRaise d

/-- significand width (bits, hidden bit included) of the IEEE binary float with this item size
    (x86 extended for 16 bytes) -/
def precision (floatSize : Nat) : Nat :=
  if floatSize = 2 then 11 else if floatSize = 4 then 24 else if floatSize = 8 then 53 else 64

/-- the natural number `n` is exactly representable with a `p`-bit significand (exponent range
    aside: no 16/32/64-bit integer overflows binary32/64, and every 16-bit integer above the
    binary16 maximum 65504 is inexact already) -/
def exactIn (p n : Nat) : Bool := n % 2 ^ (n.log2 + 1 - p) == 0

/-- an integer is too large for the float it is converted to: it is not representable, the
    conversion loses precision -/
def tooLarge (floatSize : Nat) (v : Int) : Bool := !exactIn (precision floatSize) v.natAbs

/-- the documented thresholds: the first integer that does not fit -/
def documentedLargeInput : List (Nat × Nat) := [(4, 2 ^ 24 + 1), (8, 2 ^ 53 + 1)]

/-- the region where unyt violates the dtype statement of C17 — the literal exclusion list of
    `route_dtype_partial`, in one-to-one correspondence with the `known` `dtype|…` entries of
    `known_findings.d/C17.json`:
    * `to_equivalent` across dimensions widens every narrow dtype to 64-bit components;
    * `to_value` on a long-double / complex256 `unyt_quantity` hands back a Python scalar
      (53-bit components).
    (`in_base` on narrow integers and `to_value` on complex quantities were here until the
    `fix:` patches C17-02 / C17-04.) -/
def knownExcluded (r : Route) (d : Dtype) (q : Bool) : Bool :=
  (r == .toEquivalent && ((d.isInt && d.size != 8) || d == ⟨.f, 2⟩ || d == ⟨.f, 4⟩ || d == ⟨.c, 8⟩))
  || (r == .toValue && q && (d == ⟨.c, 32⟩ || d == ⟨.f, 16⟩))

/-- equivalence branches that do integer arithmetic on the raw (integer) input on the copying routes
    — `(equivalence, from-dimension, to-dimension, ufunc)`, the literal exclusion list of
    `no_integer_arithmetic_on_input_partial`, one-to-one with the `known`
    `value|to_equivalent|…|integer-arithmetic` findings: `x * x` in the sound-speed and Lorentz
    formulas and `x ** 4` in the Stefan–Boltzmann law are evaluated in the integer type and wrap
    around (int16 300 m/s squared is not 90000) -/
def knownIntegerSteps : List (String × String × String × String) := [
  ("sound_speed", "(length)/(time)", "(temperature)", "multiply"),
  ("sound_speed", "(length)/(time)", "(length)**2*(mass)/(time)**2", "multiply"),
  ("lorentz", "1", "(length)/(time)", "multiply"),
  ("effective_temperature", "(temperature)", "(mass)/(time)**3", "power")]

end Unyt.Ref.C17
