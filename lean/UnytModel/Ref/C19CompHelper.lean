/-
  UnytModel.Ref.C19CompHelper — what `_array_comp_helper` and the four comparison handlers of
  `unyt/_array_functions.py` have to look like for the hand-written model
  (`UnytModel/Testing.lean: arrayCompHelper, iscloseHandler, allcloseHandler, arrayEqualHandler,
  arrayEquivHandler`) to be a transcription of them.  Written by hand next to the model.
-/
import UnytModel.CompHelper

namespace Unyt.Ref
open Unyt.Testing

/-- `arrayCompHelper`, arm by arm:
    `if !(eq bu au) && !(eq au null) && !(eq bu null)` → `inUnits bu au (rawVals b)`;
    `else if eq bu null` → `b` adopts `au`; `else if eq au null` → `a` adopts `bu`; else nothing -/
def compHelperExpected : CompProg :=
  ⟨[ ⟨[⟨.bu, .au, false⟩, ⟨.au, .null, false⟩, ⟨.bu, .null, false⟩], [.bInUnitsOfA]⟩,
     ⟨[⟨.bu, .null, true⟩], [.bAdopts .au]⟩,
     ⟨[⟨.au, .null, true⟩], [.aAdopts .bu]⟩ ],
   ["a", "b"]⟩

/-- the handler bodies: the helper (or the `u2 != u1 → False` guard), then NumPy's own
    implementation on the stripped numbers, first operand first, remaining arguments passed on -/
def handlerSourceExpected : List (String × String) := [
  ("isclose:signature", "p0, p1, *args, **kwargs"),
  ("isclose:decorators", "implements(np.isclose)"),
  -- `iscloseHandler`: `match arrayCompHelper a b with … | .ok (x, y, _) => npIsclose rt atl x y`
  ("isclose", "p0, p1 = _array_comp_helper(p0, p1)"),
  ("isclose", "return np.isclose._implementation(np.asarray(p0), np.asarray(p1), *args, **kwargs)"),
  ("allclose:signature", "p0, p1, *args, **kwargs"),
  ("allclose:decorators", "implements(np.allclose)"),
  -- `allcloseHandler`
  ("allclose", "p0, p1 = _array_comp_helper(p0, p1)"),
  ("allclose", "return np.allclose._implementation(np.asarray(p0), np.asarray(p1), *args, **kwargs)"),
  ("array_equal:signature", "p0, p1, *args, **kwargs"),
  ("array_equal:decorators", "implements(np.array_equal)"),
  -- `arrayEqualHandler`: `if !(TUnit.eq (unitsAttr b) (unitsAttr a)) then false else npArrayEqual …`
  ("array_equal", "u1 = getattr(p0, 'units', NULL_UNIT)"),
  ("array_equal", "u2 = getattr(p1, 'units', NULL_UNIT)"),
  ("array_equal", "if u2 != u1: ;     return False"),
  ("array_equal", "return np.array_equal._implementation(np.asarray(p0), np.asarray(p1), *args, **kwargs)"),
  ("array_equiv:signature", "p0, p1, *args, **kwargs"),
  ("array_equiv:decorators", "implements(np.array_equiv)"),
  -- `arrayEquivHandler`
  ("array_equiv", "u1 = getattr(p0, 'units', NULL_UNIT)"),
  ("array_equiv", "u2 = getattr(p1, 'units', NULL_UNIT)"),
  ("array_equiv", "if u2 != u1: ;     return False"),
  ("array_equiv", "return np.array_equiv._implementation(np.asarray(p0), np.asarray(p1), *args, **kwargs)")
]

end Unyt.Ref
