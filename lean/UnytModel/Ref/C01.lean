/-
  UnytModel.Ref.C01 — hand-written reference data for C01, independent of unyt's tables.

  Written from what the operations *mean*: an operation is listed when its result is only
  defined for operands of one physical dimension.  NumPy's public names are used throughout.
-/
namespace Unyt.Ref.C01

/-- ufuncs (NumPy public names) whose two operands must be commensurable:
    sums and differences, order comparisons and equality tests, extrema, the Euclidean norm of
    two lengths, remainders (also the remainder half of `divmod`), the angle of a 2-vector, the
    neighbouring float in the direction of a second value. -/
def commensurabilityRequiring : List String :=
  [ "add", "subtract",
    "greater", "greater_equal", "less", "less_equal", "equal", "not_equal",
    "maximum", "minimum", "fmax", "fmin",
    "hypot",
    "remainder", "mod", "fmod", "divmod",
    "arctan2",
    "nextafter" ]

/-- rule functions (by their names in unyt/array.py) under which the dispatcher performs the
    dimension check -/
def checkedRuleNames : List String :=
  ["_preserve_units", "_difference_units", "_comparison_unit", "_arctan2_unit"]

/-- NumPy array functions that put values taken from several arguments into one array, or
    compare them: (function, the argument names whose values meet).  Argument names are those of
    NumPy's documented signatures. -/
def mergingFunctions : List (String × List String) :=
  [ ("concatenate", ["arrays"]),
    ("stack", ["arrays"]),
    ("vstack", ["tup"]),
    ("hstack", ["tup"]),
    ("dstack", ["tup"]),
    ("column_stack", ["tup"]),
    ("block", ["arrays"]),
    ("where", ["x", "y"]),
    ("choose", ["choices"]),
    ("select", ["choicelist", "default"]),
    ("insert", ["arr", "values"]),
    ("union1d", ["ar1", "ar2"]),
    ("intersect1d", ["ar1", "ar2"]),
    ("setdiff1d", ["ar1", "ar2"]),
    ("isin", ["element", "test_elements"]),
    ("searchsorted", ["a", "v"]),
    ("clip", ["a", "a_min", "a_max"]),
    ("fill_diagonal", ["a", "val"]),
    ("place", ["arr", "vals"]),
    ("put", ["a", "v"]),
    ("putmask", ["a", "values"]),
    ("put_along_axis", ["arr", "values"]),
    ("copyto", ["dst", "src"]),
    ("linspace", ["start", "stop"]),
    ("geomspace", ["start", "stop"]),
    ("interp", ["x", "xp"]),
    ("interp", ["fp", "left"]),
    ("interp", ["fp", "right"]),
    ("histogram", ["a", "range"]),
    ("histogram", ["a", "bins"]),
    ("histogram2d", ["x", "y", "range"]),
    ("histogram2d", ["x", "y", "bins"]),
    ("histogramdd", ["sample", "range"]),
    ("histogramdd", ["sample", "bins"]),
    ("histogram_bin_edges", ["a", "range"]),
    ("histogram_bin_edges", ["a", "bins"]),
    ("diff", ["a", "prepend"]),
    ("diff", ["a", "append"]),
    ("ediff1d", ["ary", "to_begin"]),
    ("ediff1d", ["ary", "to_end"]),
    ("pad", ["array", "constant_values"]),
    ("pad", ["array", "end_values"]),
    ("isclose", ["a", "b"]),
    ("allclose", ["a", "b"]) ]

/-- check kinds that refuse unit-carrying operands of different dimension: the three modelled
    validators (`validateConsistency`, `validateV2`) and `_sanitize_range` (`.to_value`, not modelled:
    direct oracle) -/
def mergeKinds : List String := ["validate", "validate_v2", "validate_side", "sanitize_range"]

/-- comparison rows may also rest on `_array_comp_helper` (it adopts the unit for a unit-less side —
    the documented dimensionless-comparison exception — and refuses two different dimensions) -/
def comparisonRows : List (String × List String) := [("isclose", ["a", "b"]), ("allclose", ["a", "b"])]

def kindsFor (row : String × List String) : List String :=
  if comparisonRows.contains row then "comp_helper" :: mergeKinds else mergeKinds

/-- the names under which `__array_ufunc__` holds its input operands: nothing may be written
    through them -/
def dispatcherInputNames : List String := ["inputs", "i0", "i1", "inp0", "inp1", "inp", "i"]

/-- the only objects the dispatcher may write through: the `out=` arrays and views of them, and its
    own keyword dictionary -/
def dispatcherWritable : List String := ["out", "out_func", "_out", "o", "kwargs"]

/-- rows of `mergingFunctions` for which unyt's handler performs no covering check on the
    unchanged tree; each is a listed finding of C01 (`arrayfunc|<function>|<argument>`) and has a
    counterexample theorem in `UnytProofs/C01.lean` -/
def uncheckedRows : List (String × List String) :=
  [ ("copyto", ["dst", "src"]),
    ("histogram", ["a", "bins"]),
    ("histogram2d", ["x", "y", "bins"]),
    ("histogramdd", ["sample", "bins"]),
    ("histogram_bin_edges", ["a", "range"]),
    ("histogram_bin_edges", ["a", "bins"]) ]


/-- ufuncs of `commensurabilityRequiring` that unyt's table maps to an unchecked rule on the
    unchanged tree (finding `table|divmod`) -/
def uncheckedUfuncs : List String := ["divmod"]

end Unyt.Ref.C01
