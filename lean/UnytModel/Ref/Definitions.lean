/-
  UnytModel.Ref.Definitions — the independent reference for the unit table (C02).

  Hand-written from the SI brochure (9th ed.), NIST SP 811 (exact legal definitions of
  customary units), CODATA, and IAU 2012/2015 resolutions (nominal solar/planetary values).
  Never generated, never read from /repo.  Each row: the SI value the symbol should denote,
  a tolerance class, the expected dimension and offset.

  Classes (relative tolerance against the reference value):
    exact   2⁻⁴⁵   exactly defined in terms of SI units (incl. irrational factors π, ln 10, √10
                   represented by 40-digit rationals)
    conv    10⁻⁸   exactly defined today but historically measured (AU, pc)
    codata  10⁻⁶   CODATA-measured constants (any adjustment since 2006 is within this)
    derived 10⁻⁴   combinations of measured constants (Planck / geometrized units)
    astro   10⁻³   nominal solar and planetary values, conventions that vary in the literature
-/
import UnytModel.Dim

namespace Unyt.Ref

inductive Cls | exact | conv | codata | derived | astro
deriving DecidableEq, Repr

def Cls.tol : Cls → Rat
  | .exact => 1 / (2 : Rat) ^ (45 : Nat)
  | .conv => 1 / 100000000
  | .codata => 1 / 1000000
  | .derived => 1 / 10000
  | .astro => 1 / 1000

/-- reference value: a rational, or "the positive number whose square is q" -/
inductive RefVal
  | val (q : Rat)
  | sqrtOf (q : Rat)
deriving Repr

structure Row where
  name : String
  v : RefVal
  cls : Cls
  dim : Dim
  offset : Rat := 0
  prefixable : Option Bool := none
deriving Repr

def piQ : Rat := 3141592653589793238462643383279502884197 / 1000000000000000000000000000000000000000
def ln10Q : Rat := 2302585092994045684017991454684364207601 / 1000000000000000000000000000000000000000

-- dimensions, written out (mass, length, time, temperature, angle, current, luminous, logarithmic)
def dm : Dim := ⟨1, 0, 0, 0, 0, 0, 0, 0⟩
def dL : Dim := ⟨0, 1, 0, 0, 0, 0, 0, 0⟩
def dT : Dim := ⟨0, 0, 1, 0, 0, 0, 0, 0⟩
def dK : Dim := ⟨0, 0, 0, 1, 0, 0, 0, 0⟩
def dAng : Dim := ⟨0, 0, 0, 0, 1, 0, 0, 0⟩
def dI : Dim := ⟨0, 0, 0, 0, 0, 1, 0, 0⟩
def dCd : Dim := ⟨0, 0, 0, 0, 0, 0, 1, 0⟩
def dLog : Dim := ⟨0, 0, 0, 0, 0, 0, 0, 1⟩
def dArea : Dim := ⟨0, 2, 0, 0, 0, 0, 0, 0⟩
def dVol : Dim := ⟨0, 3, 0, 0, 0, 0, 0, 0⟩
def dVel : Dim := ⟨0, 1, -1, 0, 0, 0, 0, 0⟩
def dForce : Dim := ⟨1, 1, -2, 0, 0, 0, 0, 0⟩
def dEnergy : Dim := ⟨1, 2, -2, 0, 0, 0, 0, 0⟩
def dPower : Dim := ⟨1, 2, -3, 0, 0, 0, 0, 0⟩
def dPressure : Dim := ⟨1, -1, -2, 0, 0, 0, 0, 0⟩
def dTension : Dim := ⟨1, 0, -2, 0, 0, 0, 0, 0⟩
def dFreq : Dim := ⟨0, 0, -1, 0, 0, 0, 0, 0⟩
def dCharge : Dim := ⟨0, 0, 1, 0, 0, 1, 0, 0⟩
def dChargeCgs : Dim := ⟨1/2, 3/2, -1, 0, 0, 0, 0, 0⟩
def dCurrentCgs : Dim := ⟨1/2, 3/2, -2, 0, 0, 0, 0, 0⟩
def dBCgs : Dim := ⟨1/2, -1/2, -1, 0, 0, 0, 0, 0⟩
def dPotCgs : Dim := ⟨1/2, 1/2, -1, 0, 0, 0, 0, 0⟩
def dResCgs : Dim := ⟨0, -1, 1, 0, 0, 0, 0, 0⟩
def dBmks : Dim := ⟨1, 0, -2, 0, 0, -1, 0, 0⟩
def dVolt : Dim := ⟨1, 2, -3, 0, 0, -1, 0, 0⟩
def dFarad : Dim := ⟨-1, -2, 4, 0, 0, 2, 0, 0⟩
def dHenry : Dim := ⟨1, 2, -2, 0, 0, -2, 0, 0⟩
def dOhm : Dim := ⟨1, 2, -3, 0, 0, -2, 0, 0⟩
def dWeber : Dim := ⟨1, 2, -2, 0, 0, -1, 0, 0⟩
def dSolid : Dim := ⟨0, 0, 0, 0, 2, 0, 0, 0⟩
def dLm : Dim := ⟨0, 0, 0, 0, 2, 0, 1, 0⟩
def dLx : Dim := ⟨0, -2, 0, 0, 2, 0, 1, 0⟩
def dLuminance : Dim := ⟨0, -2, 0, 0, 0, 0, 1, 0⟩
def d1 : Dim := ⟨0, 0, 0, 0, 0, 0, 0, 0⟩

private def inch : Rat := 127 / 5000
private def foot : Rat := 3048 / 10000
private def mileQ : Rat := 1609344 / 1000
private def lbQ : Rat := 45359237 / 100000000
private def g0 : Rat := 980665 / 100000
private def lbfQ : Rat := lbQ * g0
private def cQ : Rat := 299792458
private def usgal : Rat := 231 * inch * inch * inch
private def ukgal : Rat := 454609 / 100000000
private def btu : Rat := 10550559 / 10000     -- unyt's choice (ISO 31-4: 1055.056 J; IT: 1055.05585 J)

def rows : List Row := [
  -- SI base and coherent derived units
  ⟨"m", .val 1, .exact, dL, 0, some true⟩, ⟨"g", .val (1/1000), .exact, dm, 0, some true⟩,
  ⟨"s", .val 1, .exact, dT, 0, some true⟩, ⟨"K", .val 1, .exact, dK, 0, some true⟩,
  ⟨"rad", .val 1, .exact, dAng, 0, some true⟩, ⟨"A", .val 1, .exact, dI, 0, some true⟩,
  ⟨"cd", .val 1, .exact, dCd, 0, some true⟩,
  ⟨"mol", .val 602214076000000000000000, .codata, d1, 0, none⟩,
  ⟨"J", .val 1, .exact, dEnergy, 0, some true⟩, ⟨"W", .val 1, .exact, dPower, 0, some true⟩,
  ⟨"Hz", .val 1, .exact, dFreq, 0, some true⟩, ⟨"N", .val 1, .exact, dForce, 0, some true⟩,
  ⟨"C", .val 1, .exact, dCharge, 0, some true⟩, ⟨"T", .val 1, .exact, dBmks, 0, some true⟩,
  ⟨"Pa", .val 1, .exact, dPressure, 0, some true⟩, ⟨"bar", .val 100000, .exact, dPressure, 0, none⟩,
  ⟨"V", .val 1, .exact, dVolt, 0, some true⟩, ⟨"F", .val 1, .exact, dFarad, 0, some true⟩,
  ⟨"H", .val 1, .exact, dHenry, 0, some true⟩, ⟨"Ω", .val 1, .exact, dOhm, 0, some true⟩,
  ⟨"Wb", .val 1, .exact, dWeber, 0, some true⟩, ⟨"lm", .val 1, .exact, dLm, 0, none⟩,
  ⟨"lx", .val 1, .exact, dLx, 0, none⟩, ⟨"Sv", .val 1, .exact, ⟨0, 2, -2, 0, 0, 0, 0, 0⟩, 0, none⟩,
  ⟨"nt", .val 1, .exact, dLuminance, 0, none⟩, ⟨"sr", .val 1, .exact, dSolid, 0, none⟩,
  ⟨"L", .val (1/1000), .exact, dVol, 0, none⟩, ⟨"ha", .val 10000, .exact, dArea, 0, none⟩,
  ⟨"t", .val 1000, .exact, dm, 0, none⟩, ⟨"Å", .val (1/10000000000), .exact, dL, 0, none⟩,
  -- temperature scales
  ⟨"degC", .val 1, .exact, dK, -27315/100, none⟩, ⟨"delta_degC", .val 1, .exact, dK, 0, none⟩,
  ⟨"degF", .val (5/9), .exact, dK, -45967/100, some false⟩, ⟨"delta_degF", .val (5/9), .exact, dK, 0, some false⟩,
  ⟨"R", .val (5/9), .exact, dK, 0, none⟩,
  -- CGS (Gaussian, expressed in the kg-m-s base: 1 statC = √(1 dyn)·cm = √(10⁻⁹) …)
  ⟨"dyn", .val (1/100000), .exact, dForce, 0, none⟩, ⟨"erg", .val (1/10000000), .exact, dEnergy, 0, none⟩,
  ⟨"Ba", .val (1/10), .exact, dPressure, 0, none⟩,
  ⟨"G", .sqrtOf (1/10), .exact, dBCgs, 0, none⟩,
  ⟨"statC", .sqrtOf (1/1000000000), .exact, dChargeCgs, 0, none⟩,
  ⟨"statA", .sqrtOf (1/1000000000), .exact, dCurrentCgs, 0, none⟩,
  ⟨"statV", .sqrtOf (1/100000), .exact, dPotCgs, 0, none⟩,
  ⟨"statohm", .val 100, .exact, dResCgs, 0, none⟩,
  ⟨"Mx", .sqrtOf (1/1000000000), .exact, dChargeCgs, 0, none⟩,
  -- customary units with exact legal definitions (NIST SP 811, App. B)
  ⟨"mil", .val (inch / 1000), .exact, dL, 0, none⟩, ⟨"inch", .val inch, .exact, dL, 0, none⟩,
  ⟨"ft", .val foot, .exact, dL, 0, none⟩, ⟨"yd", .val (3 * foot), .exact, dL, 0, none⟩,
  ⟨"mile", .val mileQ, .exact, dL, 0, none⟩, ⟨"nmi", .val 1852, .exact, dL, 0, none⟩,
  ⟨"mph", .val (mileQ / 3600), .exact, dVel, 0, none⟩, ⟨"kt", .val (1852 / 3600), .exact, dVel, 0, none⟩,
  ⟨"acre", .val (43560 * foot * foot), .exact, dArea, 0, none⟩, ⟨"furlong", .val (660 * foot), .exact, dL, 0, none⟩,
  ⟨"lbf", .val lbfQ, .exact, dForce, 0, none⟩, ⟨"kip", .val (1000 * lbfQ), .exact, dForce, 0, none⟩,
  ⟨"lb", .val lbQ, .exact, dm, 0, none⟩, ⟨"atm", .val 101325, .exact, dPressure, 0, none⟩,
  ⟨"hp", .val (550 * foot * lbfQ), .exact, dPower, 0, none⟩, ⟨"oz", .val (lbQ / 16), .exact, dm, 0, none⟩,
  ⟨"ton", .val (2000 * lbQ), .exact, dm, 0, none⟩, ⟨"ton_UK", .val (2240 * lbQ), .exact, dm, 0, none⟩,
  ⟨"slug", .val (lbfQ / foot), .exact, dm, 0, none⟩,
  ⟨"fl_oz_US", .val (usgal / 128), .exact, dVol, 0, none⟩, ⟨"fl_oz_UK", .val (ukgal / 160), .exact, dVol, 0, none⟩,
  ⟨"pt_US", .val (usgal / 8), .exact, dVol, 0, none⟩, ⟨"pt_UK", .val (ukgal / 8), .exact, dVol, 0, none⟩,
  ⟨"qt_US", .val (usgal / 4), .exact, dVol, 0, none⟩, ⟨"qt_UK", .val (ukgal / 4), .exact, dVol, 0, none⟩,
  ⟨"gal_US", .val usgal, .exact, dVol, 0, none⟩, ⟨"gal_UK", .val ukgal, .exact, dVol, 0, none⟩,
  ⟨"cal", .val (4184 / 1000), .exact, dEnergy, 0, none⟩,
  ⟨"BTU", .val btu, .codata, dEnergy, 0, none⟩, ⟨"MMBTU", .val (1000000 * btu), .codata, dEnergy, 0, none⟩,
  ⟨"therm", .val (100000 * btu), .codata, dEnergy, 0, none⟩,
  ⟨"quad", .val (1000000000000000 * btu), .codata, dEnergy, 0, none⟩,
  ⟨"Wh", .val 3600, .exact, dEnergy, 0, none⟩,
  ⟨"pli", .val (lbfQ / inch), .exact, dTension, 0, none⟩, ⟨"plf", .val (lbfQ / foot), .exact, dTension, 0, none⟩,
  ⟨"psi", .val (lbfQ / (inch * inch)), .exact, dPressure, 0, none⟩, ⟨"psf", .val (lbfQ / (foot * foot)), .exact, dPressure, 0, none⟩,
  ⟨"kli", .val (1000 * lbfQ / inch), .exact, dTension, 0, none⟩, ⟨"klf", .val (1000 * lbfQ / foot), .exact, dTension, 0, none⟩,
  ⟨"ksi", .val (1000 * lbfQ / (inch * inch)), .exact, dPressure, 0, none⟩,
  ⟨"ksf", .val (1000 * lbfQ / (foot * foot)), .exact, dPressure, 0, none⟩,
  ⟨"smoot", .val (17018 / 10000), .exact, dL, 0, none⟩,
  -- dimensionless and time
  ⟨"dimensionless", .val 1, .exact, d1, 0, none⟩, ⟨"%", .val (1/100), .exact, d1, 0, none⟩,
  ⟨"counts", .val 1, .exact, d1, 0, none⟩, ⟨"photons", .val 1, .exact, d1, 0, none⟩,
  ⟨"min", .val 60, .exact, dT, 0, none⟩, ⟨"hr", .val 3600, .exact, dT, 0, none⟩,
  ⟨"day", .val 86400, .exact, dT, 0, none⟩, ⟨"week", .val 604800, .exact, dT, 0, none⟩,
  ⟨"fortnight", .val 1209600, .exact, dT, 0, none⟩, ⟨"yr", .val 31557600, .exact, dT, 0, none⟩,
  ⟨"c", .val cQ, .exact, dVel, 0, none⟩,
  -- solar / planetary nominal values (IAU 2015 B3; volumetric mean radii for planets)
  ⟨"Msun", .val 1988410000000000000000000000000, .astro, dm, 0, none⟩,
  ⟨"Rsun", .val 695700000, .astro, dL, 0, none⟩,
  ⟨"Lsun", .val 382800000000000000000000000, .astro, dPower, 0, none⟩,
  ⟨"Tsun", .val 5772, .astro, dK, 0, none⟩,
  ⟨"Zsun", .val (1295 / 100000), .astro, d1, 0, none⟩,
  ⟨"Zsun_angr", .val (1937 / 100000), .astro, d1, 0, none⟩, ⟨"Zsun_aspl", .val (1337 / 100000), .astro, d1, 0, none⟩,
  ⟨"Zsun_feld", .val (1909 / 100000), .astro, d1, 0, none⟩, ⟨"Zsun_lodd", .val (1321 / 100000), .astro, d1, 0, none⟩,
  ⟨"Mjup", .val 1898130000000000000000000000, .astro, dm, 0, none⟩,
  ⟨"Mearth", .val 5972200000000000000000000, .astro, dm, 0, none⟩,
  ⟨"Rjup", .val 69911000, .astro, dL, 0, none⟩, ⟨"Rearth", .val 6371008, .astro, dL, 0, none⟩,
  ⟨"AU", .val 149597870700, .conv, dL, 0, none⟩,
  ⟨"ly", .val (cQ * 31557600), .astro, dL, 0, none⟩,
  ⟨"pc", .val (149597870700 * 648000 / piQ), .conv, dL, 0, none⟩,
  -- angles
  ⟨"degree", .val (piQ / 180), .exact, dAng, 0, none⟩, ⟨"arcmin", .val (piQ / 10800), .exact, dAng, 0, none⟩,
  ⟨"arcsec", .val (piQ / 648000), .exact, dAng, 0, none⟩, ⟨"mas", .val (piQ / 648000000), .exact, dAng, 0, none⟩,
  ⟨"hourangle", .val (piQ / 12), .exact, dAng, 0, none⟩,
  ⟨"lat", .val (-piQ / 180), .exact, dAng, 90, none⟩, ⟨"lon", .val (piQ / 180), .exact, dAng, -180, none⟩,
  ⟨"rpm", .val (2 * piQ / 60), .exact, ⟨0, 0, -1, 0, 1, 0, 0, 0⟩, 0, none⟩,
  ⟨"rev", .val (2 * piQ), .exact, dAng, 0, none⟩, ⟨"spat", .val (4 * piQ), .exact, dSolid, 0, none⟩,
  ⟨"gradian", .val (piQ / 200), .exact, dAng, 0, none⟩,
  -- atomic and misc
  ⟨"eV", .val (1602176634 / 10000000000000000000000000000), .codata, dEnergy, 0, none⟩,
  ⟨"foe", .val 100000000000000000000000000000000000000000000, .exact, dEnergy, 0, none⟩,
  ⟨"bethe", .val 100000000000000000000000000000000000000000000, .exact, dEnergy, 0, none⟩,
  ⟨"amu", .val (166053906660 / 100000000000000000000000000000000000000), .codata, dm, 0, none⟩,
  ⟨"Jy", .val (1 / 100000000000000000000000000), .exact, dTension, 0, none⟩,
  ⟨"me", .val (91093837015 / 100000000000000000000000000000000000000000), .codata, dm, 0, none⟩,
  ⟨"mp", .val (167262192369 / 100000000000000000000000000000000000000), .codata, dm, 0, none⟩,
  ⟨"Ry", .val (21798723611035 / 10000000000000000000000000000000), .codata, dEnergy, 0, none⟩,
  ⟨"rayleigh", .val (10000000000 / (4 * piQ)), .exact, ⟨0, -2, -1, 0, -2, 0, 0, 0⟩, 0, none⟩,
  ⟨"lambert", .val (10000 / piQ), .exact, dLuminance, 0, none⟩,
  -- Planck and geometrized units (CODATA 2018 derived values; G M_sun / c^2 etc.)
  ⟨"m_pl", .val (2176434 / 100000000000000), .derived, dm, 0, none⟩,
  ⟨"l_pl", .val (1616255 / 100000000000000000000000000000000000000000), .derived, dL, 0, none⟩,
  ⟨"t_pl", .val (5391247 / 100000000000000000000000000000000000000000000000000), .derived, dT, 0, none⟩,
  ⟨"T_pl", .val 141678400000000000000000000000000, .derived, dK, 0, none⟩,
  ⟨"q_pl", .val (1875546 / 1000000000000000000000000), .derived, dCharge, 0, none⟩,
  ⟨"E_pl", .val 1956100000, .derived, dEnergy, 0, none⟩,
  ⟨"m_geom", .val 1988410000000000000000000000000, .astro, dm, 0, none⟩,
  ⟨"l_geom", .val (14766250 / 10000), .derived, dL, 0, none⟩,
  ⟨"t_geom", .val (4925491 / 1000000000000), .derived, dT, 0, none⟩,
  -- logarithmic
  ⟨"B", .val (ln10Q / 2), .exact, dLog, 0, none⟩, ⟨"Np", .val 1, .exact, dLog, 0, none⟩
]

def find? (name : String) : Option Row := rows.find? (·.name == name)

/-- SI prefixes (BIPM): symbol ↦ power of ten; `u`, `µ` (U+00B5) and `μ` (U+03BC) all mean micro -/
def siPrefixes : List (String × Int) := [
  ("Y", 24), ("Z", 21), ("E", 18), ("P", 15), ("T", 12), ("G", 9), ("M", 6), ("k", 3), ("h", 2), ("da", 1),
  ("d", -1), ("c", -2), ("m", -3), ("µ", -6), ("u", -6), ("μ", -6), ("n", -9), ("p", -12), ("f", -15),
  ("a", -18), ("z", -21), ("y", -24)]

def pow10 (e : Int) : Rat :=
  if e ≥ 0 then ((10 ^ e.toNat : Nat) : Int) else 1 / (((10 ^ (-e).toNat : Nat) : Int) : Rat)

end Unyt.Ref
