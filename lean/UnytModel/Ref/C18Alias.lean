/-
  UnytModel.Ref.C18Alias — HAND-REVIEWED reference: which parameters of which routines of unyt/_array_functions.py may
  have their buffer written, and through which in-place statements (names as the inliner qualifies them).
  Written from NumPy's documented contract (what a function is documented to modify), not from unyt's code:

    * `out` / `out=` travelling in `*args` / `**kwargs`  — the declared output buffer (target by NumPy's contract);
    * `args` / `kwargs` of a routine that hands its own `*args` / `**kwargs` on to NumPy's implementation: an `out`
      travelling in them is written by NumPy (rows whose written name is `args` / `kwargs` itself); operands passed
      inside them are therefore outside the theorem and rest on the snapshot oracle;
    * `a` of percentile / quantile / nanpercentile / nanquantile: `overwrite_input=True` (travelling in `**kwargs`) is
      NumPy's documented permission to modify the input (the harness treats what bare NumPy modifies as a target);
    * `dst` of copyto, `a` / `arr` of put, place, putmask, fill_diagonal, put_along_axis — in-place by NumPy's contract;
    * REVIEWED EXCEPTION `_sanitize_range`: `imin *= units[0]` / `imax *= units[0]` are augmented assignments on the
      two ELEMENTS unpacked from `range`; the branch runs only when an element has no `units` attribute, i.e. it is a
      Python / NumPy scalar (immutable: the statement rebinds) or a bare ndarray (then `ndarray.__imul__(Unit)` defers
      to `Unit.__rmul__`, which builds a new quantity).  The direct oracle exercises the histogram family with limits
      given as quantities, bare numbers and ONE array (fused call form).  Any OTHER in-place statement reaching `range`
      (e.g. `ilim.convert_to_units(..)` on `unyt_array(ilim)`, which is a VIEW) changes the list below.

  Everything not listed here is an INPUT of a call "documented to return a new object": the verdict must be `false`.
-/
namespace Unyt.Ref.C18Alias

def reviewed : List (String × List (String × List String)) := [
  ("array2string", [("args", ["args"]), ("kwargs", ["kwargs"])]),
  ("product_helper", [("out", ["out", "out"])]),
  ("dot", [("out", ["product_helper@1/out", "product_helper@1/out"])]),
  ("outer", [("out", ["product_helper@1/out", "product_helper@1/out"])]),
  ("linalg_inv", [("args", ["args"]), ("kwargs", ["kwargs"])]),
  ("linalg_tensorinv", [("args", ["args"]), ("kwargs", ["kwargs"])]),
  ("linalg_pinv", [("args", ["args"]), ("kwargs", ["kwargs"])]),
  ("linalg_svd", [("args", ["args"]), ("kwargs", ["kwargs"])]),
  ("_sanitize_range", [("_range", ["imin", "imax"])]),
  ("_histogram", [("range", ["_sanitize_range@1/imin", "_sanitize_range@1/imax"])]),
  ("histogram", [("range", ["_histogram@1/_sanitize_range@1/imin", "_histogram@1/_sanitize_range@1/imax"])]),
  ("_histogram2d", [("range", ["_sanitize_range@1/imin", "_sanitize_range@1/imax"])]),
  ("histogram2d", [("range", ["_histogram2d@1/_sanitize_range@1/imin", "_histogram2d@1/_sanitize_range@1/imax"])]),
  ("_histogramdd", [("range", ["_sanitize_range@1/imin", "_sanitize_range@1/imax"])]),
  ("histogramdd", [("range", ["_histogramdd@1/_sanitize_range@1/imin", "_histogramdd@1/_sanitize_range@1/imax"])]),
  ("histogram_bin_edges", [("args", ["args"]), ("kwargs", ["kwargs"])]),
  ("concatenate", [("out", ["out"]), ("args", ["args"]), ("kwargs", ["kwargs"])]),
  ("cross", [("args", ["args"]), ("kwargs", ["kwargs"])]),
  ("norm", [("args", ["args"]), ("kwargs", ["kwargs"])]),
  ("vstack", [("kwargs", ["kwargs"])]),
  ("hstack", [("kwargs", ["kwargs"])]),
  ("stack", [("out", ["out", "out"]), ("kwargs", ["kwargs", "kwargs"])]),
  ("around", [("out", ["out", "out"])]),
  ("fft_fft", [("args", ["args"]), ("kwargs", ["kwargs"])]),
  ("fft_fft2", [("args", ["args"]), ("kwargs", ["kwargs"])]),
  ("fft_fftn", [("args", ["args"]), ("kwargs", ["kwargs"])]),
  ("fft_hfft", [("args", ["args"]), ("kwargs", ["kwargs"])]),
  ("fft_rfft", [("args", ["args"]), ("kwargs", ["kwargs"])]),
  ("fft_rfft2", [("args", ["args"]), ("kwargs", ["kwargs"])]),
  ("fft_rfftn", [("args", ["args"]), ("kwargs", ["kwargs"])]),
  ("fft_ifft", [("args", ["args"]), ("kwargs", ["kwargs"])]),
  ("fft_ifft2", [("args", ["args"]), ("kwargs", ["kwargs"])]),
  ("fft_ifftn", [("args", ["args"]), ("kwargs", ["kwargs"])]),
  ("fft_ihfft", [("args", ["args"]), ("kwargs", ["kwargs"])]),
  ("fft_irfft", [("args", ["args"]), ("kwargs", ["kwargs"])]),
  ("fft_irfft2", [("args", ["args"]), ("kwargs", ["kwargs"])]),
  ("fft_irfftn", [("args", ["args"]), ("kwargs", ["kwargs"])]),
  ("fft_fftshift", [("args", ["args"]), ("kwargs", ["kwargs"])]),
  ("fft_ifftshift", [("args", ["args"]), ("kwargs", ["kwargs"])]),
  ("isclose", [("args", ["args"]), ("kwargs", ["kwargs"])]),
  ("allclose", [("args", ["args"]), ("kwargs", ["kwargs"])]),
  ("array_equal", [("args", ["args"]), ("kwargs", ["kwargs"])]),
  ("array_equiv", [("args", ["args"]), ("kwargs", ["kwargs"])]),
  ("geomspace", [("args", ["args"]), ("kwargs", ["kwargs"])]),
  ("copyto", [("dst", ["dst", "dst"]), ("args", ["args"]), ("kwargs", ["kwargs"])]),
  ("prod", [("args", ["args"]), ("kwargs", ["kwargs"])]),
  ("var", [("out", ["out"]), ("args", ["args", "args"]), ("kwargs", ["kwargs", "kwargs"])]),
  ("trace", [("args", ["args"]), ("kwargs", ["kwargs"])]),
  ("_quantile_helper", [("a", ["a", "a"]),
 ("args", ["args", "kwargs", "args", "kwargs", "out"]),
 ("kwargs", ["args", "kwargs", "args", "kwargs", "out"])]),
  ("percentile", [("a", ["_quantile_helper@1/a", "_quantile_helper@1/a"]),
 ("args",
  ["_quantile_helper@1/args", "_quantile_helper@1/kwargs", "_quantile_helper@1/args", "_quantile_helper@1/kwargs",
   "_quantile_helper@1/out"]),
 ("kwargs",
  ["_quantile_helper@1/args", "_quantile_helper@1/kwargs", "_quantile_helper@1/args", "_quantile_helper@1/kwargs",
   "_quantile_helper@1/out"])]),
  ("quantile", [("a", ["_quantile_helper@1/a", "_quantile_helper@1/a"]),
 ("args",
  ["_quantile_helper@1/args", "_quantile_helper@1/kwargs", "_quantile_helper@1/args", "_quantile_helper@1/kwargs",
   "_quantile_helper@1/out"]),
 ("kwargs",
  ["_quantile_helper@1/args", "_quantile_helper@1/kwargs", "_quantile_helper@1/args", "_quantile_helper@1/kwargs",
   "_quantile_helper@1/out"])]),
  ("nanpercentile", [("a", ["_quantile_helper@1/a", "_quantile_helper@1/a"]),
 ("args",
  ["_quantile_helper@1/args", "_quantile_helper@1/kwargs", "_quantile_helper@1/args", "_quantile_helper@1/kwargs",
   "_quantile_helper@1/out"]),
 ("kwargs",
  ["_quantile_helper@1/args", "_quantile_helper@1/kwargs", "_quantile_helper@1/args", "_quantile_helper@1/kwargs",
   "_quantile_helper@1/out"])]),
  ("nanquantile", [("a", ["_quantile_helper@1/a", "_quantile_helper@1/a"]),
 ("args",
  ["_quantile_helper@1/args", "_quantile_helper@1/kwargs", "_quantile_helper@1/args", "_quantile_helper@1/kwargs",
   "_quantile_helper@1/out"]),
 ("kwargs",
  ["_quantile_helper@1/args", "_quantile_helper@1/kwargs", "_quantile_helper@1/args", "_quantile_helper@1/kwargs",
   "_quantile_helper@1/out"])]),
  ("linalg_det", [("args", ["args"]), ("kwargs", ["kwargs"])]),
  ("linalg_lstsq", [("args", ["args"]), ("kwargs", ["kwargs"])]),
  ("linalg_solve", [("args", ["args"]), ("kwargs", ["kwargs"])]),
  ("linalg_tensorsolve", [("args", ["args"]), ("kwargs", ["kwargs"])]),
  ("linalg_eig", [("args", ["args"]), ("kwargs", ["kwargs"])]),
  ("linalg_eigh", [("args", ["args"]), ("kwargs", ["kwargs"])]),
  ("linalg_eigvals", [("args", ["args"]), ("kwargs", ["kwargs"])]),
  ("linalg_eigvalsh", [("args", ["args"]), ("kwargs", ["kwargs"])]),
  ("savetxt", [("args", ["args"]), ("kwargs", ["kwargs"])]),
  ("diff_helper", [("args", ["args"]), ("kwargs", ["kwargs"])]),
  ("diff", [("args", ["diff_helper@2/args"]), ("kwargs", ["diff_helper@2/kwargs"])]),
  ("ediff1d", [("args", ["diff_helper@2/args"]), ("kwargs", ["diff_helper@2/kwargs"])]),
  ("ptp", [("args", ["diff_helper@1/args"]), ("kwargs", ["diff_helper@1/kwargs"])]),
  ("pad", [("args", ["args"]), ("kwargs", ["kwargs"])]),
  ("choose", [("out", ["out", "out"]), ("args", ["args", "args"]), ("kwargs", ["kwargs", "kwargs"])]),
  ("fill_diagonal", [("a", ["a"]), ("args", ["args"]), ("kwargs", ["kwargs"])]),
  ("insert", [("args", ["args"]), ("kwargs", ["kwargs"])]),
  ("isin", [("args", ["args"]), ("kwargs", ["kwargs"])]),
  ("place", [("arr", ["arr"]), ("args", ["args"]), ("kwargs", ["kwargs"])]),
  ("put", [("a", ["a"]), ("args", ["args"]), ("kwargs", ["kwargs"])]),
  ("put_along_axis", [("arr", ["arr"]), ("args", ["args"]), ("kwargs", ["kwargs"])]),
  ("putmask", [("a", ["a"]), ("args", ["args"]), ("kwargs", ["kwargs"])]),
  ("searchsorted", [("args", ["args"]), ("kwargs", ["kwargs"])]),
  ("setdiff1d", [("args", ["args"]), ("kwargs", ["kwargs"])]),
  ("sinc", [("args", ["args"]), ("kwargs", ["kwargs"])]),
  ("clip_impl", [("out", ["out", "out"]), ("args", ["args", "args"]), ("kwargs", ["kwargs", "kwargs"])]),
  ("clip", [("out", ["clip_impl@1/out", "clip_impl@1/out"]),
 ("args", ["clip_impl@1/args", "clip_impl@1/args"]),
 ("kwargs", ["clip_impl@1/kwargs", "clip_impl@1/kwargs"])]),
  ("where", [("args", ["args"]), ("kwargs", ["kwargs", "kwargs"])]),
  ("triu", [("args", ["args"]), ("kwargs", ["kwargs"])]),
  ("tril", [("args", ["args"]), ("kwargs", ["kwargs"])]),
  ("einsum", [("operands", ["operands"]), ("out", ["out_view", "out"]), ("kwargs", ["kwargs"])]),
  ("convolve", [("args", ["args"]), ("kwargs", ["kwargs"])]),
  ("correlate", [("args", ["args"]), ("kwargs", ["kwargs"])]),
  ("tensordot", [("args", ["args"]), ("kwargs", ["kwargs"])]),
  ("unwrap", [("args", ["args"]), ("kwargs", ["kwargs"])]),
  ("interp", [("args", ["args"]), ("kwargs", ["kwargs"])]),
  ("array_repr", [("args", ["args"]), ("kwargs", ["kwargs"])]),
  ("trapezoid", [("args", ["args"]), ("kwargs", ["kwargs"])]),
  ("in1d", [("args", ["args"]), ("kwargs", ["kwargs"])]),
  ("take", [("out", ["out_view", "out"])])
]

/-- (routine, parameter) pairs that may be written -/
def targets : List (String × String) :=
  reviewed.flatMap fun (n, ws) => ws.map fun (p, _) => (n, p)

/-- unyt/array.py (module-level functions, methods of unyt_array / unyt_quantity as `Class.method` with `self` first).
    Reviewed: `self` is written ONLY by the documented in-place routines (convert_to_units / _base / _cgs / _mks /
    _equivalent, __setstate__, __array_finalize__ (attribute initialisation of the object being created), __new__ (the
    object under construction, which may view `input_array` — documented: "input_array ... is viewed, not copied")),
    `out` by dot / take / _float_out_view, `kwargs` where a routine hands its `**kwargs` on (equivalence keywords,
    ufunc keywords: an `out=` inside is the declared target), `inputs` / `args` of the two NumPy protocol hooks (they
    carry `out` too), `header` of savetxt (a str, rebound by `+=`), `v` of _validate_numpy_wrapper_units (a list it
    builds).  NO documented-copying method has `self` here (`copying_methods_never_target_self`). -/
def reviewedArray : List (String × List (String × List String)) := [
  ("_validate_numpy_wrapper_units", [("v", ["v"])]),
  ("_float_out_view", [("out", ["out", "out"])]),
  ("savetxt", [("header", ["header", "header"])]),
  ("allclose_units", [("kwargs", ["kwargs"])]),
  ("unyt_array.__new__", [("cls", ["obj", "obj", "ret", "ret", "ret", "ret", "ret", "obj", "obj"]),
 ("input_array", ["obj", "obj", "ret", "ret", "ret", "ret", "ret", "obj", "obj"]),
 ("dtype", ["obj", "obj", "obj", "obj"])]),
  ("unyt_array.convert_to_units", [("self", ["values", "self", "values", "values", "values", "self", "unyt_array.convert_to_equivalent@2/self"]),
 ("kwargs", ["unyt_array.convert_to_equivalent@2/kwargs"])]),
  ("unyt_array.convert_to_base", [("self",
  ["unyt_array.convert_to_units@1/values", "unyt_array.convert_to_units@1/self", "unyt_array.convert_to_units@1/values",
   "unyt_array.convert_to_units@1/values", "unyt_array.convert_to_units@1/values", "unyt_array.convert_to_units@1/self",
   "unyt_array.convert_to_units@1/unyt_array.convert_to_equivalent@2/self"]),
 ("kwargs", ["unyt_array.convert_to_units@1/unyt_array.convert_to_equivalent@2/kwargs"])]),
  ("unyt_array.convert_to_cgs", [("self",
  ["unyt_array.convert_to_units@1/values", "unyt_array.convert_to_units@1/self", "unyt_array.convert_to_units@1/values",
   "unyt_array.convert_to_units@1/values", "unyt_array.convert_to_units@1/values", "unyt_array.convert_to_units@1/self",
   "unyt_array.convert_to_units@1/unyt_array.convert_to_equivalent@2/self"]),
 ("kwargs", ["unyt_array.convert_to_units@1/unyt_array.convert_to_equivalent@2/kwargs"])]),
  ("unyt_array.convert_to_mks", [("self",
  ["unyt_array.convert_to_units@1/values", "unyt_array.convert_to_units@1/self", "unyt_array.convert_to_units@1/values",
   "unyt_array.convert_to_units@1/values", "unyt_array.convert_to_units@1/values", "unyt_array.convert_to_units@1/self",
   "unyt_array.convert_to_units@1/unyt_array.convert_to_equivalent@2/self"]),
 ("kwargs", ["unyt_array.convert_to_units@1/unyt_array.convert_to_equivalent@2/kwargs"])]),
  ("unyt_array.in_units", [("kwargs", ["unyt_array.to_equivalent@2/kwargs"])]),
  ("unyt_array.to", [("kwargs", ["unyt_array.in_units@1/unyt_array.to_equivalent@2/kwargs"])]),
  ("unyt_array.to_value", [("kwargs", ["unyt_array.in_units@1/unyt_array.to_equivalent@2/kwargs"])]),
  ("unyt_array.convert_to_equivalent", [("self",
  ["unyt_array.convert_to_units@1/values", "unyt_array.convert_to_units@1/self", "unyt_array.convert_to_units@1/values",
   "unyt_array.convert_to_units@1/values", "unyt_array.convert_to_units@1/values", "unyt_array.convert_to_units@1/self",
   "unyt_array.convert_to_units@3/values", "unyt_array.convert_to_units@3/self", "unyt_array.convert_to_units@3/values",
   "unyt_array.convert_to_units@3/values", "unyt_array.convert_to_units@3/values", "unyt_array.convert_to_units@3/self",
   "self"]),
 ("kwargs", ["kwargs"])]),
  ("unyt_array.to_equivalent", [("kwargs", ["kwargs"])]),
  ("unyt_array.to_astropy", [("kwargs", ["kwargs"])]),
  ("unyt_array.__array_ufunc__", [("inputs", ["inputs"]), ("kwargs", ["kwargs", "kwargs", "kwargs"])]),
  ("unyt_array.__array_function__", [("args", ["args"])]),
  ("unyt_array.__array_finalize__", [("self", ["self", "self"])]),
  ("unyt_array.dot", [("out", ["out", "out"])]),
  ("unyt_array.take", [("out", ["out"])]),
  ("unyt_array.__setstate__", [("self", ["self"])])
]

def targetsArray : List (String × String) :=
  reviewedArray.flatMap fun (n, ws) => ws.map fun (p, _) => (n, p)

end Unyt.Ref.C18Alias
