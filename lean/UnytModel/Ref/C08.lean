/-
  UnytModel.Ref.C08 — the independent reference for temperature scales (C08).

  Hand-written from the definitions of the scales (SI brochure 9th ed. §2.3.1 and table 4;
  NIST SP 811 App. B.8/B.9), never read from /repo:
    t/°C = T/K − 273.15                      (Celsius: same size of degree as the kelvin)
    T/°R = 9/5 · T/K                         (Rankine: absolute scale, degree = 5/9 K)
    t/°F = T/°R − 459.67 = 9/5·t/°C + 32     (Fahrenheit)
  degC and degF readings are *points* of the affine temperature line; K, R, delta_degC,
  delta_degF readings (and their SI-prefixed forms) are *differences* (vectors) — and, when a
  reading is converted, positions on the absolute scale with zero at 0 K.
  An SI-prefixed unit `p·u` reads `x` where the unprefixed unit reads `x · p`.
-/
import UnytModel.Temp

namespace Unyt.Temp.Ref

inductive Kind | point | diff
deriving DecidableEq, Repr

/-- degC / degF readings are points; everything else is a difference -/
def kind : TBase → Kind
  | .degC | .degF => .point
  | _ => .diff

/-- which symbols accept SI prefixes: the SI units kelvin and degree Celsius (and the Celsius
    difference); Rankine and Fahrenheit are not SI units -/
def prefixable : TBase → Bool
  | .K | .degC | .dC => true
  | _ => false

/-- SI prefixes (SI brochure table 7): symbol code points and power of ten; `u`, `µ` (U+00B5) and
    `μ` (U+03BC) all stand for micro -/
def siPrefixes : List (Name × Int) :=
  [([89], 24), ([90], 21), ([69], 18), ([80], 15), ([84], 12), ([71], 9), ([77], 6), ([107], 3),
   ([104], 2), ([100, 97], 1), ([100], -1), ([99], -2), ([109], -3), ([181], -6), ([117], -6),
   ([956], -6), ([110], -9), ([112], -12), ([102], -15), ([97], -18), ([122], -21), ([121], -24)]

section
variable {K : Type} [Add K] [Sub K] [Mul K] [Div K] [Neg K]
  [OfNat K 0] [OfNat K 1] [OfNat K 5] [OfNat K 9] [OfNat K 100] [OfNat K 27315] [OfNat K 45967]

/-- size of one degree of the scale in kelvin -/
def slope : TBase → K
  | .K | .degC | .dC => 1
  | .R | .degF | .dF => (5 : K) / 9

/-- reading of the scale at absolute zero: −273.15 °C, −459.67 °F, 0 otherwise -/
def zero : TBase → K
  | .degC => -((27315 : K) / 100)
  | .degF => -((45967 : K) / 100)
  | _ => 0

/-- the exact table rows `(scale, offset, prefixable)` the library should hold -/
def exactTab : TTable K := fun b => ⟨slope b, zero b, prefixable b⟩

/-- the reading the unprefixed scale shows where the (possibly prefixed) unit shows `x` -/
def unprefixed (u : TU K) (x : K) : K :=
  match u.pre with
  | none => x
  | some p => x * p.val

/-- absolute temperature in kelvin of the reading `x` taken as a position on the scale `u`.
    For K, R, delta_degC, delta_degF (`zero = 0`) the scale is read as an absolute one with its zero at
    0 K — this is how the library converts (`(20 degC).to('delta_degC')` is 293.15), and it is the
    sense of "exact affine maps between those scales" in `temp_conversions_affine`. -/
def absK (u : TU K) (x : K) : K := slope u.base * (unprefixed u x - zero u.base)

/-- size in kelvin of the reading `x` taken as a temperature difference in the unit `u` -/
def difK (u : TU K) (x : K) : K := slope u.base * unprefixed u x

/-- kelvin denotation of a labelled reading of the given kind -/
def den (k : Kind) (u : TU K) (x : K) : K :=
  match k with
  | .point => absK u x
  | .diff => difK u x

/-- what affine arithmetic requires of `(u0,x0) + (u1,x1) = (u,v)`: the label has the right kind
    and the labelled reading denotes the sum; point + point is outside the claim -/
def addSpec (u0 : TU K) (x0 : K) (u1 : TU K) (x1 : K) (r : TU K × K) : Prop :=
  match kind u0.base, kind u1.base with
  | .point, .diff => kind r.1.base = .point ∧ absK r.1 r.2 = absK u0 x0 + difK u1 x1
  | .diff, .point => kind r.1.base = .point ∧ absK r.1 r.2 = difK u0 x0 + absK u1 x1
  | .diff, .diff => kind r.1.base = .diff ∧ difK r.1 r.2 = difK u0 x0 + difK u1 x1
  | .point, .point => True

/-- `(u0,x0) − (u1,x1) = (u,v)`: point − difference is a point, point − point and
    difference − difference are differences; difference − point is outside the claim -/
def subSpec (u0 : TU K) (x0 : K) (u1 : TU K) (x1 : K) (r : TU K × K) : Prop :=
  match kind u0.base, kind u1.base with
  | .point, .diff => kind r.1.base = .point ∧ absK r.1 r.2 = absK u0 x0 - difK u1 x1
  | .point, .point => kind r.1.base = .diff ∧ difK r.1 r.2 = absK u0 x0 - absK u1 x1
  | .diff, .diff => kind r.1.base = .diff ∧ difK r.1 r.2 = difK u0 x0 - difK u1 x1
  | .diff, .point => True

end

/-- two units are *different offset scales*: both are points and their scales differ in the size
    of the degree or in the position of the zero -/
def differentOffsetScales {K : Type} [Add K] [Sub K] [Mul K] [Div K] [Neg K] [BEq K]
    [OfNat K 0] [OfNat K 1] [OfNat K 5] [OfNat K 9] [OfNat K 100] [OfNat K 27315] [OfNat K 45967]
    (u0 u1 : TU K) : Bool :=
  kind u0.base == .point && kind u1.base == .point &&
    !(absK u0 0 == absK u1 0 && absK u0 1 == absK u1 1)

/-- an operand of `*`, `/`, `**`, `sqrt` … that sits on an offset scale -/
def onOffsetScale {K : Type} (u : TU K) : Bool := kind u.base == .point

/-- an operand of `*` / `/` that is a temperature quantity on an offset scale -/
def opndOnOffsetScale {K : Type} : Opnd K → Bool
  | .temp u => onOffsetScale u
  | _ => false

/-- the unit rule each ufunc must be registered with for the temperature semantics to apply -/
def ruleClass : List (String × String) :=
  [("add", "_preserve_units"), ("subtract", "_difference_units"),
   ("multiply", "_multiply_units"), ("divide", "_divide_units"), ("floor_divide", "_floor_divide_units"),
   ("power", "_power_unit"), ("sqrt", "_sqrt_unit"), ("cbrt", "_cbrt_unit"), ("square", "_square_unit"),
   ("reciprocal", "_reciprocal_unit"),
   ("less", "_comparison_unit"), ("less_equal", "_comparison_unit"), ("greater", "_comparison_unit"),
   ("greater_equal", "_comparison_unit"), ("equal", "_comparison_unit"), ("not_equal", "_comparison_unit")]

end Unyt.Temp.Ref
