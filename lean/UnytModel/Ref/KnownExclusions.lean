/-
  Literal exclusion lists for `…_partial` table obligations.  Each entry corresponds one-to-one
  to a `known` entry of /verif/known_findings.json (the runner checks the correspondence) and
  has a counterexample theorem showing that the excluded row really fails the full obligation,
  so an exclusion can neither be added silently nor outlive its finding.
-/
namespace Unyt.Ref

/-- C02: rows of the unit table whose value is outside its reference class -/
def exclC02 : List String := ["Tsun", "Mearth", "mp"]

end Unyt.Ref
