/-
  UnytModel.Ref.C17Factor — hand-written reference data for the factor-kind extension of C17.

  The region where unyt violates the dtype statement when the conversion has a truthy offset
  (temperatures, lat/lon) whose Python type is a NumPy scalar: `in_base` subtracts the offset with
  `ret = ret - offset`, NumPy promotes narrow data with the strong scalar (degC data of dtype
  float32 `.in_base("planck")` is float64, `convert_to_base("planck")` is float32).  One-to-one
  with the `known` findings `dtype|in_base|…|offset`.
-/
import UnytModel.DtypeFactor
import UnytModel.Ref.C17

namespace Unyt.Ref.C17
open Unyt

/-- `in_base` with an offset that is a NumPy scalar wider than the data's required components -/
def knownOffsetExcluded (r : Route) (fk : FactorKind) (d : Dtype) : Bool :=
  r == .inBase &&
    match fk with
    | .npfloat s => decide ((expectedDtype d).compSize < s)
    | .pyfloat => false

end Unyt.Ref.C17
