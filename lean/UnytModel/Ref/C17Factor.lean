/-
  UnytModel.Ref.C17Factor — hand-written reference data for the factor-kind extension of C17.

  The region where unyt violates the dtype statement when the conversion has a truthy offset
  (temperatures, lat/lon).  EMPTY since fix C17-05: until then `in_base` subtracted the offset with
  `ret = ret - offset`, and NumPy promoted narrow data with a strong (`np.float64`) offset — degC data
  of dtype float32 `.in_base("planck")` came back float64 while `convert_to_base("planck")` kept
  float32 (keys `dtype|in_base|…|offset=npfloat8`, `agree|copy-inplace|…|offset=npfloat8`, now
  `status: fixed`).  The guard is kept as a definition (constantly `false`) so that the statements
  of `UnytProofs/C17Offset.lean` keep their shape.
-/
import UnytModel.DtypeFactor
import UnytModel.Ref.C17

namespace Unyt.Ref.C17
open Unyt

/-- no cell is excluded: with `np.subtract(ret, offset, ret)` in `in_base` (fix C17-05) every
    same-dimension route keeps the required dtype whatever the Python type of the offset -/
def knownOffsetExcluded (_r : Route) (_fk : FactorKind) (_d : Dtype) : Bool := false

end Unyt.Ref.C17
