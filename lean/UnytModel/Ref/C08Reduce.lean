/-
  UnytModel.Ref.C08Reduce — what affine arithmetic requires of a reduction with a start value
  (hand-written from the point / difference semantics of `UnytModel.Ref.C08`; never read from /repo).

  `np.add.reduce(a, initial=q)` is `q + a[0] + a[1] + …`, `np.subtract.reduce(a, initial=q)` is
  `q − a[0] − a[1] − …`, each step being one of the operations the property speaks about.
-/
import UnytModel.Ref.C08

namespace Unyt.Temp.Ref

section
variable {K : Type} [Add K] [Sub K] [Mul K] [Div K] [Neg K]
  [OfNat K 0] [OfNat K 1] [OfNat K 5] [OfNat K 9] [OfNat K 100] [OfNat K 27315] [OfNat K 45967]

/-- total size in kelvin of the readings `xs` taken as differences in the unit `u` -/
def sumDif (u : TU K) : List K → K
  | [] => 0
  | x :: xs => difK u x + sumDif u xs

/-- `q + a[0] + a[1] + …` with data `(u, xs)` and start value `(ui, xi)`:
    differences onto a difference give a difference; differences onto a point give a point;
    one point plus a difference start value gives a point; sums of several points, and point + point,
    are outside the claim -/
def reduceInitAddSpec (u : TU K) (xs : List K) (ui : TU K) (xi : K) (r : TU K × K) : Prop :=
  match kind u.base, kind ui.base, xs with
  | .diff, .diff, _ => kind r.1.base = .diff ∧ difK r.1 r.2 = difK ui xi + sumDif u xs
  | .diff, .point, _ => kind r.1.base = .point ∧ absK r.1 r.2 = absK ui xi + sumDif u xs
  | .point, .diff, [x] => kind r.1.base = .point ∧ absK r.1 r.2 = absK u x + difK ui xi
  | _, _, _ => True

/-- `q − a[0] − a[1] − …`: a point minus differences is a point; a point minus one point is a
    difference; a difference minus differences is a difference; a difference minus points is outside
    the claim -/
def reduceInitSubSpec (u : TU K) (xs : List K) (ui : TU K) (xi : K) (r : TU K × K) : Prop :=
  match kind ui.base, kind u.base, xs with
  | .diff, .diff, _ => kind r.1.base = .diff ∧ difK r.1 r.2 = difK ui xi - sumDif u xs
  | .point, .diff, _ => kind r.1.base = .point ∧ absK r.1 r.2 = absK ui xi - sumDif u xs
  | .point, .point, [x] => kind r.1.base = .diff ∧ difK r.1 r.2 = absK ui xi - absK u x
  | _, _, _ => True

end
end Unyt.Temp.Ref
