/-
  UnytModel.Ref.C04Classes — hand-written reference for C04: the homogeneity class of every
  NumPy ufunc (how the mathematical function behaves when its arguments are rescaled by
  positive factors), what each class *means* (as a predicate on a kernel), and which unit rule
  each class licenses.  Written from the definitions of the functions (NumPy reference manual),
  not from unyt's table.
-/
import UnytModel.UfuncValue
import UnytModel.Shape

namespace Unyt.Ref.C04
open Unyt.UV

/-! ### what the classes mean (predicates on a kernel; `P` is the positive part of `K`) -/
section meaning
variable {K : Type} [Mul K] [Div K]

/-- jointly positively homogeneous of degree 1: `F(λa, λb) = λ·F(a, b)` for `λ > 0` -/
def Hom1On (P : K → Prop) (F : K → K → K) : Prop := ∀ c, P c → ∀ a b, F (c * a) (c * b) = c * F a b

/-- bilinear in the scaling sense: `F(λa, μb) = λμ·F(a, b)` -/
def BiHom (F : K → K → K) : Prop := ∀ c d a b, F (c * a) (d * b) = c * d * F a b

/-- degree (1, −1): `F(λa, μb) = (λ/μ)·F(a, b)` for `μ ≠ 0` -/
def RatioHomOn (P : K → Prop) (F : K → K → K) : Prop := ∀ c d, P d → ∀ a b, F (c * a) (d * b) = c / d * F a b

/-- jointly of degree 0 (comparisons, `arctan2`, floor-division): `F(λa, λb) = F(a, b)` -/
def Deg0On {β : Type} (P : K → Prop) (F : K → K → β) : Prop := ∀ c, P c → ∀ a b, F (c * a) (c * b) = F a b

/-- degree 1 in the first argument, 0 in the second (`copysign`) -/
def Hom1FirstOn (P : K → Prop) (F : K → K → K) : Prop :=
  ∀ c d, P c → P d → ∀ a b, F (c * a) (d * b) = c * F a b

/-- unary, positively homogeneous of degree 1 (`negative`, `absolute`, …) -/
def Hom1UnaryOn (P : K → Prop) (F : K → K) : Prop := ∀ c, P c → ∀ a, F (c * a) = c * F a

/-- unary of degree 0 (`sign`, `isnan`, …) -/
def Deg0UnaryOn {β : Type} (P : K → Prop) (F : K → β) : Prop := ∀ c, P c → ∀ a, F (c * a) = F a

/-- unary of rational degree `q` (`sqrt`: 1/2, `cbrt`: 1/3, `reciprocal`: −1, `x ↦ x**p`: p) -/
def DegreeOn [RPow K] (P : K → Prop) (q : Rat) (F : K → K) : Prop :=
  ∀ c, P c → ∀ a, F (c * a) = RPow.rpow c q * F a

/-- unary of degree 2 written with a product (`square`) -/
def SquareHom (F : K → K) : Prop := ∀ c a, F (c * a) = c * c * F a

end meaning

/-! ### the class of every ufunc -/

inductive HClass
  | hom1            -- add subtract maximum minimum fmax fmin hypot remainder fmod nextafter
  | hom1Unary       -- negative absolute fabs conjugate positive
  | hom1First       -- copysign
  | bilinear        -- multiply matmul vecdot
  | ratio           -- divide
  | floorRatio      -- floor_divide: jointly of degree 0 and integer-valued, *not* of degree (1,−1)
  | divmod          -- (floor_divide, remainder)
  | power           -- power: degree p in the base for exponent p
  | degree (q : Rat)  -- sqrt cbrt square reciprocal
  | deg0            -- comparisons, arctan2
  | deg0Unary       -- sign signbit isnan isinf isfinite isreal iscomplex logical_not isnat
  | truth           -- logical_and/or/xor: each argument separately of degree 0
  | step            -- heaviside(x, h0): degree 0 in x, the value is 0, h0 or 1
  | trig            -- sin cos tan: 2π-periodic in an angle, so angles must reach it in radian
  | ignoresUnits    -- exp log … hyperbolic, inverse trig, logaddexp, deg2rad/rad2deg: outside the claim
  | notCovariant    -- rounding family, frexp/modf/spacing: outside the claim
  | bitwise         -- integer bit operations and ldexp: no meaning for quantities
deriving DecidableEq, Repr

def classTable : List (String × HClass) := [
  ("add", .hom1), ("subtract", .hom1), ("maximum", .hom1), ("minimum", .hom1), ("fmax", .hom1),
  ("fmin", .hom1), ("hypot", .hom1), ("remainder", .hom1), ("fmod", .hom1), ("nextafter", .hom1),
  ("negative", .hom1Unary), ("absolute", .hom1Unary), ("fabs", .hom1Unary),
  ("conjugate", .hom1Unary), ("positive", .hom1Unary),
  -- `np.clip` is not a ufunc; the three-input branch of the dispatcher is unreachable for it
  ("clip", .hom1Unary),
  ("copysign", .hom1First),
  ("multiply", .bilinear), ("matmul", .bilinear), ("vecdot", .bilinear),
  ("divide", .ratio),
  ("floor_divide", .floorRatio),
  ("divmod", .divmod),
  ("power", .power),
  ("sqrt", .degree (1 / 2)), ("cbrt", .degree (1 / 3)), ("square", .degree 2), ("reciprocal", .degree (-1)),
  ("greater", .deg0), ("greater_equal", .deg0), ("less", .deg0), ("less_equal", .deg0),
  ("equal", .deg0), ("not_equal", .deg0), ("arctan2", .deg0),
  ("sign", .deg0Unary), ("signbit", .deg0Unary), ("isnan", .deg0Unary), ("isinf", .deg0Unary),
  ("isfinite", .deg0Unary), ("isreal", .deg0Unary), ("iscomplex", .deg0Unary),
  ("logical_not", .deg0Unary), ("isnat", .deg0Unary),
  ("logical_and", .truth), ("logical_or", .truth), ("logical_xor", .truth),
  ("heaviside", .step),
  ("sin", .trig), ("cos", .trig), ("tan", .trig),
  ("exp", .ignoresUnits), ("exp2", .ignoresUnits), ("expm1", .ignoresUnits), ("log", .ignoresUnits),
  ("log2", .ignoresUnits), ("log10", .ignoresUnits), ("log1p", .ignoresUnits),
  ("logaddexp", .ignoresUnits), ("logaddexp2", .ignoresUnits),
  ("sinh", .ignoresUnits), ("cosh", .ignoresUnits), ("tanh", .ignoresUnits),
  ("arcsin", .ignoresUnits), ("arccos", .ignoresUnits), ("arctan", .ignoresUnits),
  ("arcsinh", .ignoresUnits), ("arccosh", .ignoresUnits), ("arctanh", .ignoresUnits),
  ("deg2rad", .ignoresUnits), ("rad2deg", .ignoresUnits),
  ("rint", .notCovariant), ("floor", .notCovariant), ("ceil", .notCovariant), ("trunc", .notCovariant),
  ("modf", .notCovariant), ("frexp", .notCovariant), ("spacing", .notCovariant),
  ("bitwise_and", .bitwise), ("bitwise_or", .bitwise), ("bitwise_xor", .bitwise), ("invert", .bitwise),
  ("left_shift", .bitwise), ("right_shift", .bitwise), ("ldexp", .bitwise)
]

def classOf (ufunc : String) : Option HClass := classTable.lookup ufunc

/-- the degree a unary power-type rule gives the unit -/
def ruleDegree : Rule → Option Rat
  | .sqrt => some (1 / 2) | .cbrt => some (1 / 3) | .square => some 2 | .reciprocal => some (-1)
  | _ => none

/-- which unit rule keeps a kernel of the class covariant.  A refusing rule (`bitop`, `invert`)
    returns nothing and so is compatible with every class; classes outside the claim accept
    every rule. -/
def licensed (c : HClass) (r : Rule) : Bool :=
  r == .bitop || r == .invert ||
  match c with
  | .hom1 => r == .preserve || r == .difference
  | .hom1Unary | .hom1First => r == .passthrough
  | .bilinear => r == .multiply
  | .ratio => r == .divide
  -- convert the divisor to the dividend's unit, return a pure number
  | .floorRatio => r == .comparison || r == .arctan2 || r == .floorDivide
  | .divmod => false
  | .power => r == .power
  | .degree q => ruleDegree r == some q
  | .deg0 => r == .comparison || r == .arctan2
  | .deg0Unary => r == .withoutUnit
  | .truth => r == .comparison || r == .withoutUnit
  | .step => r == .comparison || r == .withoutUnit
  | .trig => r == .withoutUnit
  | .ignoresUnits | .notCovariant => true
  | .bitwise => false

/-- ufuncs whose regenerated rule is *not* the one their class licenses: each is a recorded
    finding (`known_findings.d/C04.json`) with a counterexample theorem in `UnytProofs/C04.lean` -/
def exclC04 : List String := ["divmod", "heaviside"]

/-- the tuples `__array_ufunc__` branches on, as the documented behaviour requires them -/
def convRulesRef : List Rule := [.preserve, .comparison, .arctan2, .difference, .floorDivide]
def postMulRulesRef : List Rule := [.multiply, .divide]

/-- `reduce` of a product of `n` equal-unit numbers has the unit to the power `n`; of a
    left-to-right quotient `a₀/a₁/…/aₙ₋₁` the power `1 − (n − 1) = 2 − n` -/
def powerMapRef : List (String × (Int → Int)) := [("multiply", fun n => n), ("divide", fun n => 2 - n)]

/-- the shape of `ufunc.reduce(x, axis=…)` (NumPy reference, `ufunc.reduce`: "axis: … The default
    (axis = 0) is perform a reduction over the first dimension of the input array"; the reduced
    dimension is removed; `axis=None` reduces over all the axes and gives a 0-d result) -/
def reduceResultShape (shape : Shape) (axisKw : AxisKw) : Shape :=
  match axisKw with
  | .absent => shape.eraseIdx 0
  | .idx a => shape.eraseIdx a
  | .none => []

/-- how many numbers are combined into *each* element of the result: the elements of the input
    shared out evenly over the elements of the result (`Shape.size`, the shape algebra of C16) -/
def reduceCountRef (shape : Shape) (axisKw : AxisKw) : Nat :=
  Shape.size shape / Shape.size (reduceResultShape shape axisKw)

/-- the one rule swap the dispatcher makes: floor-division without a common unit is a quotient -/
def ruleSwapsRef : List (Rule × Rule) := [(.floorDivide, .divide)]

end Unyt.Ref.C04
