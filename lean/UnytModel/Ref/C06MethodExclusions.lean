/-
  C06, ndarray-method overrides: hand-written reference lists (independent of unyt's source).

  `methodEquivC06`: delegations NumPy itself documents as equivalent to the method —
     ndarray.copy  ↔ numpy.copy   ("numpy.copy : Similar function with different default behavior")
     ndarray.take  ↔ numpy.take   ("Refer to numpy.take for full documentation … equivalent function")
  `exclC06Methods`: (method, defect) pairs that fail on the unchanged tree — one-to-one with the
     `method-forwarding` entries of known_findings.d/C06.json (checked by harness/c06.py on every run).
-/
namespace Unyt.Ref

def methodEquivC06 : List (String × String) := [
  ("ndarray.copy", "calls:numpy.copy"),
  ("ndarray.take", "calls:numpy.take")
]

-- ("ndarray.copy", "dropped:order") was listed here until the fix: commit "unyt_array.copy ignored order=":
-- copy now calls ndarray.copy(order) on the bare view, so the row is defect-free and the list is empty.
def exclC06Methods : List (String × String) := []

end Unyt.Ref
