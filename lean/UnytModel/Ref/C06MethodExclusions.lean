/-
  C06, ndarray-method overrides: hand-written reference lists (independent of unyt's source).

  `methodEquivC06`: delegations NumPy itself documents as equivalent to the method —
     ndarray.copy  ↔ numpy.copy   ("numpy.copy : Similar function with different default behavior")
     ndarray.take  ↔ numpy.take   ("Refer to numpy.take for full documentation … equivalent function")
  `exclC06Methods`: (method, defect) pairs that fail on the unchanged tree — one-to-one with the
     `method-forwarding` entries of known_findings.d/C06.json (checked by harness/c06.py on every run).
-/
namespace Unyt.Ref

def methodEquivC06 : List (String × String) := [
  ("ndarray.copy", "calls:numpy.copy"),
  ("ndarray.take", "calls:numpy.take")
]

def exclC06Methods : List (String × String) := [
  -- unyt_array.copy(order=…) accepts `order` and never passes it on: np.copy's default 'K' is used
  -- whatever the caller asks for (ndarray.copy defaults to 'C'); an invalid order is not rejected
  ("ndarray.copy", "dropped:order")
]

end Unyt.Ref
