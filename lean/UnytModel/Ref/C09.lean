/-
  UnytModel.Ref.C09 — hand-written reference for the nine built-in equivalences.

  Written from the physics (and the contract documented in the class docstrings), not from the
  code: which dimensions each equivalence relates, the defining formula for every ordered pair,
  the documented keyword defaults, and what each physical constant the formulas mention is
  (dimension and CODATA value, to 10⁻³).  Atoms: `x` = the input, `c.<name>` = the attribute
  `<name>` of `unyt.physical_constants`, `p.<name>` = keyword parameter.
-/
import UnytModel.Equivalencies

namespace Unyt.Ref.C09
open Unyt Unyt.Equiv

/-! dimensions (mass, length, time, temperature, angle, current, luminous, logarithmic) -/
def dMass : Dim := { mass := 1 }
def dLength : Dim := { length := 1 }
def dTemperature : Dim := { temperature := 1 }
def dEnergy : Dim := { mass := 1, length := 2, time := -2 }
def dRate : Dim := { time := -1 }
def dWavenumber : Dim := { length := -1 }
def dVelocity : Dim := { length := 1, time := -1 }
def dNone : Dim := {}
def dDensity : Dim := { mass := 1, length := -3 }
def dNumberDensity : Dim := { length := -3 }
/-- energy per area per time -/
def dFlux : Dim := { mass := 1, time := -3 }

/-! the physical constants: (row of the library's `physical_constants` table, dimension, value in SI) -/
def constants : List (String × Dim × Rat) := [
  -- Boltzmann constant, J/K
  ("kb", { mass := 1, length := 2, time := -2, temperature := -1 }, 1380649 / 10^29),
  -- speed of light, m/s (exact)
  ("c", { length := 1, time := -1 }, 299792458),
  -- Planck constant, J s
  ("h", { mass := 1, length := 2, time := -1 }, 662607015 / 10^42),
  -- Newtonian constant of gravitation, m³/(kg s²)
  ("G", { mass := -1, length := 3, time := -2 }, 66743 / 10^15),
  -- mass of the hydrogen atom, kg
  ("mh", { mass := 1 }, 16735 / 10^31),
  -- Stefan–Boltzmann constant, W/(m² K⁴)
  ("σ", { mass := 1, time := -3, temperature := -4 }, 5670374 / 10^14)
]

private def x : Formula := .atom "x"
private def kB : Formula := .atom "c.kb"
private def c : Formula := .atom "c.c"
private def h : Formula := .atom "c.h"
private def G : Formula := .atom "c.G"
private def mH : Formula := .atom "c.mh"
private def σ : Formula := .atom "c.σ"
private def μ : Formula := .atom "p.mu"
private def γ : Formula := .atom "p.gamma"
private def one : Formula := .lit 1
private def two : Formula := .lit 2

/-- one reference row: equivalence, from, to, defining formula -/
structure Row where
  equiv : String
  src : Dim
  dst : Dim
  formula : Formula

/-- the defining formula of every ordered pair -/
def formulas : List Row := [
  -- thermal: E = k_B T
  ⟨"thermal", dTemperature, dEnergy, .mul kB x⟩,
  ⟨"thermal", dEnergy, dTemperature, .div x kB⟩,
  -- mass_energy: E = m c²
  ⟨"mass_energy", dMass, dEnergy, .mul x (.pow c 2)⟩,
  ⟨"mass_energy", dEnergy, dMass, .div x (.pow c 2)⟩,
  -- spectral: E = h ν = h c / λ = h c ν̄
  ⟨"spectral", dLength, dRate, .div c x⟩,
  ⟨"spectral", dLength, dEnergy, .div (.mul h c) x⟩,
  ⟨"spectral", dLength, dWavenumber, .div one x⟩,
  ⟨"spectral", dRate, dLength, .div c x⟩,
  ⟨"spectral", dRate, dEnergy, .mul h x⟩,
  ⟨"spectral", dRate, dWavenumber, .div x c⟩,
  ⟨"spectral", dEnergy, dLength, .div (.mul h c) x⟩,
  ⟨"spectral", dEnergy, dRate, .div x h⟩,
  ⟨"spectral", dEnergy, dWavenumber, .div x (.mul h c)⟩,
  ⟨"spectral", dWavenumber, dLength, .div one x⟩,
  ⟨"spectral", dWavenumber, dRate, .mul c x⟩,
  ⟨"spectral", dWavenumber, dEnergy, .mul (.mul h c) x⟩,
  -- number_density: ρ = μ m_H n
  ⟨"number_density", dDensity, dNumberDensity, .div x (.mul μ mH)⟩,
  ⟨"number_density", dNumberDensity, dDensity, .mul (.mul μ mH) x⟩,
  -- sound_speed: c_s = sqrt(γ k_B T / (μ m_H)),  E = k_B T
  ⟨"sound_speed", dTemperature, dVelocity, .sqrt (.div (.mul (.mul γ kB) x) (.mul μ mH))⟩,
  ⟨"sound_speed", dEnergy, dVelocity, .sqrt (.div (.mul γ x) (.mul μ mH))⟩,
  ⟨"sound_speed", dVelocity, dTemperature, .div (.mul (.mul μ mH) (.pow x 2)) (.mul γ kB)⟩,
  ⟨"sound_speed", dVelocity, dEnergy, .div (.mul (.mul μ mH) (.pow x 2)) γ⟩,
  ⟨"sound_speed", dTemperature, dEnergy, .mul kB x⟩,
  ⟨"sound_speed", dEnergy, dTemperature, .div x kB⟩,
  -- schwarzschild: R = 2 G M / c²
  ⟨"schwarzschild", dMass, dLength, .div (.mul (.mul two G) x) (.pow c 2)⟩,
  ⟨"schwarzschild", dLength, dMass, .div (.mul x (.pow c 2)) (.mul two G)⟩,
  -- compton: λ = h / (m c)
  ⟨"compton", dMass, dLength, .div h (.mul x c)⟩,
  ⟨"compton", dLength, dMass, .div h (.mul x c)⟩,
  -- effective_temperature: F = σ T⁴
  ⟨"effective_temperature", dTemperature, dFlux, .mul σ (.pow x 4)⟩,
  ⟨"effective_temperature", dFlux, dTemperature, .pow (.div x σ) (1 / 4)⟩
]

/-- the nine built-in equivalences and the dimensions each relates (lorentz: see below) -/
def registry : List (String × List Dim) := [
  ("thermal", [dTemperature, dEnergy]),
  ("spectral", [dLength, dRate, dEnergy, dWavenumber]),
  ("mass_energy", [dMass, dEnergy]),
  ("lorentz", [dNone, dVelocity]),
  ("schwarzschild", [dMass, dLength]),
  ("compton", [dMass, dLength]),
  ("number_density", [dDensity, dNumberDensity]),
  ("sound_speed", [dVelocity, dTemperature, dEnergy]),
  ("effective_temperature", [dFlux, dTemperature])
]

/-- documented keyword defaults: μ = 0.6 (fully ionised primordial gas), γ = 5/3 (monatomic) -/
def paramDefaults : List (String × Rat) := [("mu", 3 / 5), ("gamma", 5 / 3)]

def lookup (equiv : String) (a b : Dim) : Option Formula :=
  (formulas.find? (fun r => r.equiv == equiv && r.src == a && r.dst == b)).map (·.formula)

/-! ### Lorentz: γ = 1/√(1 − v²/c²),  v = c √(1 − 1/γ²) — the one non-monomial equivalence.
    The reference is a *shape*: the outer skeleton literally, the monomial parts up to normal
    form (so `(x/c)·(x/c)` and `x²/c²` are the same). -/

def lorentzBeta2 : Mono := ⟨1, [("c.c", -2), ("x", 2)]⟩
def lorentzInvGamma2 : Mono := ⟨1, [("x", -2)]⟩
def lorentzC : Mono := ⟨1, [("c.c", 1)]⟩

/-- `1 / sqrt(1 − B)` with `B ≡ x²/c²` -/
def gammaShape : Formula → Bool
  | .div (.lit a) (.sqrt (.sub (.lit b) B)) => a == 1 && b == 1 && norm B == some lorentzBeta2
  | _ => false

/-- `A · sqrt(1 − B)` (either order) with `A ≡ c`, `B ≡ 1/x²` -/
def velShape : Formula → Bool
  | .mul (.sqrt (.sub (.lit b) B)) A => b == 1 && norm A == some lorentzC && norm B == some lorentzInvGamma2
  | .mul A (.sqrt (.sub (.lit b) B)) => b == 1 && norm A == some lorentzC && norm B == some lorentzInvGamma2
  | _ => false

/-- the `B` of a γ-shaped formula vanishes at `x = 0` (so that γ(0) = 1) -/
def gammaShapeZero : Formula → Bool
  | .div (.lit _) (.sqrt (.sub (.lit _) B)) => B.vanishesAtZero
  | _ => false

/-! ### whole-table checks against this reference -/

def sameDims (a b : List Dim) : Bool := a.all (b.contains ·) && b.all (a.contains ·) && a.length == b.length

/-- every reference equivalence is registered under its name with exactly its dimensions -/
def registryOk (gen : List EquivRec) : Bool :=
  registry.all (fun r => match findEquiv gen r.1 with
    | some e => sameDims e.dims r.2
    | none => false)

/-- every reference row's branch exists and has the reference's normal form -/
def formulasOk (gen : List EquivRec) : Bool :=
  formulas.all (fun r => match findEquiv gen r.equiv with
    | some e => match e.formula r.src r.dst with
      | some f => sameMono f r.formula
      | none => false
    | none => false)

/-- every ordered pair of every reference equivalence has a reference row (or is Lorentz) -/
def referenceComplete : Bool :=
  registry.all (fun r => r.1 == "lorentz" ||
    (orderedPairs r.2).all (fun p => (lookup r.1 p.1 p.2).isSome))

def lorentzOk (gen : List EquivRec) : Bool :=
  match findEquiv gen "lorentz" with
  | some e =>
    (match e.formula dVelocity dNone with | some f => gammaShape f && gammaShapeZero f | none => false) &&
    (match e.formula dNone dVelocity with | some g => velShape g | none => false)
  | none => false

/-- regenerated constants: each is in the reference with the same dimension and a value within
    10⁻³ of the reference value -/
def constantsOk (gen : List (String × Nat × Dim)) : Bool :=
  gen.all (fun g => match constants.find? (fun r => r.1 == g.1) with
    | some r =>
      let v := ratOfBits g.2.1
      r.2.1 == g.2.2 && decide (0 < v) &&
        decide ((v - r.2.2) * 1000 ≤ r.2.2) && decide ((r.2.2 - v) * 1000 ≤ r.2.2)
    | none => false)

/-- regenerated keyword defaults are the documented ones (to 2⁻⁵⁰) -/
def defaultsOk (gen : List EquivRec) : Bool :=
  gen.all (fun e => e.params.all (fun p => match paramDefaults.find? (fun r => r.1 == p.1) with
    | some r =>
      let v := ratOfBits p.2
      decide ((v - r.2) * 2^50 ≤ r.2) && decide ((r.2 - v) * 2^50 ≤ r.2)
    | none => false))

end Unyt.Ref.C09
