/-
  C07: literal exclusion list of the table obligation `unit_rule_is_degree` — (function, defect) pairs
  that fail on the unchanged tree (the defect string names leaf, operand group, the handler's exponent
  and the reference degree, so a DIFFERENT wrong exponent of the same function is not excluded).
  Each entry is witnessed by a regenerated row (`exclusions_are_real`) and belongs to a finding of
  known_findings.d/C07.json (field `excl`; checked by harness/c07.py on every run), so an exclusion can
  neither be added silently nor outlive its finding.

  When a fix is applied upstream: delete the pairs here and the `excl` items of the finding.
-/
namespace Unyt.Ref

def exclC07 : List (String × String) := [
  -- np.linalg.lstsq labels the residuals Σ|b − A x|² with b/a instead of b²
  ("numpy.linalg.lstsq", "degree:1:0:c:-1/c:0"),
  ("numpy.linalg.lstsq", "degree:1:1:c:1/c:2"),
  -- np.histogram2d(density=True, weights=w) multiplies the (weight-normalised) density by w.units
  ("numpy.histogram2d", "degree:0:2:c:1/c:0"),
  -- … and so does np.histogram (same code)
  ("numpy.histogram", "degree:0:1:c:1/c:0"),
  -- np.prod: an `initial` that carries units is one more factor; a masked product has no single degree
  ("numpy.prod", "degree:0:0:r:a/k:a+1"),
  ("numpy.prod", "refuse"),
  -- np.logspace(base=<quantity>): base**y labelled with base.units
  ("numpy.logspace", "refuse"),
  -- np.sinc of a dimensional argument silently returns bare numbers
  ("numpy.sinc", "refuse")
]

/-- handled dimension-preserving functions with a row whose first leaf does not carry the input's unit -/
def exclC07DimPreserving : List String := []

end Unyt.Ref
