/-
  UnytModel.Ref.C16 — hand-written reference for property C16 (never generated, never copied
  from unyt's code): which accessors / calls must share memory with their parent and which must
  return independent data, written from the property text, the docstrings of `unyt_array`
  ("Returns a view into the array…", "Creates a copy of this array…") and NumPy's documented
  view semantics; and which NumPy functions can never return a 0-d result.
-/
import UnytModel.ResultClass

namespace Unyt.Ref

/-- (accessor, required relation to the parent's buffer) -/
def c16Accessors : List (String × MemRel) := [
  -- "`.d`/`.ndview`/`ndarray_view()` share memory with the parent"
  ("d", .view), ("ndview", .view), ("ndarray_view()", .view),
  -- "`.v`/`.value`/`to_ndarray()`/`to_value()`/`copy()` … return independent data"
  ("v", .copy), ("value", .copy), ("to_ndarray()", .copy),
  ("to_value()", .copy), ("to_value(same)", .copy), ("to_value(other)", .copy),
  -- NumPy: asarray of an ndarray subclass is a base-class view, array() copies
  ("np.asarray(x)", .view), ("np.array(x)", .copy),
  -- "… and every converting call return independent data"
  ("copy()", .copy),
  ("to(same)", .copy), ("to(other)", .copy),
  ("in_units(same)", .copy), ("in_units(other)", .copy),
  ("in_base()", .copy), ("in_cgs()", .copy), ("in_mks()", .copy),
  ("to_equivalent(spectral)", .copy),
  ("unit_array", .copy),
  -- "slices, reshapes, transposes … share memory with the parent"
  ("x[1:]", .view), ("x[::2]", .view), ("x[...]", .view), ("x[None]", .view), ("x[...,0:1]", .view),
  ("reshape(-1)", .view), ("reshape(shape+(1,))", .view), ("np.reshape(x,-1)", .view),
  ("T", .view), ("transpose()", .view), ("np.transpose(x)", .view), ("swapaxes(0,-1)", .view),
  ("ravel()", .view), ("squeeze()", .view), ("view()", .view),
  -- "building an array … with the constructor is a view"
  ("unyt_array(x)", .view),
  -- NumPy: flatten and advanced indexing copy
  ("flatten()", .copy), ("x[[0]]", .copy), ("x[mask]", .copy),
  -- "multiplying by a unit is a copy"
  ("x*unit", .copy), ("unit*x", .copy),
  -- "building an array from a NumPy array with the constructor is a view, multiplying by a
  --  unit is a copy"
  ("unyt_array(ndarray,unit)", .view), ("unyt_array(ndarray)", .view),
  ("unyt_array(ndarray,unit,name)", .view), ("unyt_array(ndarray,bypass)", .view),
  ("ndarray*unit", .copy), ("unit*ndarray", .copy), ("ndarray/unit", .copy),
  -- a list has no buffer to share
  ("unyt_array(list)", .copy)
]

/-- NumPy functions whose result always has at least one dimension (NumPy reference:
    "zero-dimensional arrays cannot be concatenated"; `stack` adds an axis; `block` of a list is
    at least 1-d; `outer` is always 2-d) -/
def c16NeverZeroD : List String := ["concatenate", "stack", "block", "outer", "linalg.outer"]

/-- handlers allowed a return that hands back what `np.X._implementation` produced without
    building a unyt object (`HRule.npImpl`): by NumPy's documentation (part of) their result is not
    a unit-carrying array — booleans, strings, `None`, index arrays, counts, unit vectors, ranks -/
def c16BareResultHandlers : List String := [
  "allclose", "isclose", "isin", "array_equal", "array_equiv",   -- booleans
  "array2string",                                                  -- str
  "savetxt",                                                       -- None
  "searchsorted",                                                  -- indices
  "sinc",                                                          -- dimensionless sin(x)/x as bare ndarray
  "histogram", "histogram2d", "histogramdd",                       -- the counts
  "intersect1d",                                                   -- the index arrays of return_indices=True
  "linalg.eig", "linalg.eigh", "linalg.svd",                       -- eigenvectors / unitary factors
  "linalg.lstsq",                                                  -- rank
  "where"                                                          -- one-argument form: index arrays
]

/-- handlers allowed to delegate to a public NumPy function / a caller-supplied function
    (`HRule.redispatch`): the class is decided by that callee -/
def c16DelegatedHandlers : List String := ["apply_over_axes"]

/-- handlers whose return the translator cannot classify (`HRule.unknown`), listed one by one:
    `array_repr` builds a string from `arr.__class__.__name__` -/
def c16UnclassifiedHandlers : List String := ["array_repr"]

end Unyt.Ref
