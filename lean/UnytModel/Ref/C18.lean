/-
  UnytModel.Ref.C18 — hand-written reference for C18 (never generated).

  * which public methods are DOCUMENTED to return a new object ("copying") and which are documented
    to work in place — written from the docstrings / the user guide ("Creates a copy of this array
    …", "Convert the array … in-place", "Return a new equivalent unit object …");
  * the ORDER of the write / fallible / in-place-call events of every in-place routine as the
    step model of `UnytModel/Effects.lean` assumes it (read off the source by hand; the
    translator regenerates the same lists from the live source and the kernel compares them).
-/
namespace Unyt.Ref.C18

/-- documented to return a new object and leave `self` alone -/
def copyingMethods : List String := [
  "unyt_array.to", "unyt_array.in_units", "unyt_array.in_base", "unyt_array.in_cgs",
  "unyt_array.in_mks", "unyt_array.to_value", "unyt_array.to_equivalent", "unyt_array.copy",
  "unyt_array.__deepcopy__", "unyt_array.to_ndarray", "unyt_array.to_string", "unyt_array.argsort",
  "unyt_array.dot", "unyt_array.take", "unyt_array.__getitem__", "unyt_array.__pow__",
  "unyt_array.__pos__", "unyt_array.__eq__", "unyt_array.__ne__", "unyt_array.has_equivalent",
  "unyt_array.list_equivalencies", "unyt_array.value", "unyt_array.v", "unyt_array.unit_quantity",
  "unyt_array.uq", "unyt_array.unit_array", "unyt_array.ua", "unyt_array.to_astropy",
  "unyt_array.to_pint", "unyt_array.__reduce__", "unyt_array.__repr__", "unyt_array.__str__",
  "unyt_array.__format__",
  "unyt_quantity.reshape", "unyt_quantity.__round__",
  "Unit.__mul__", "Unit.__rmul__", "Unit.__truediv__", "Unit.__rtruediv__", "Unit.__pow__",
  "Unit.__eq__", "Unit.copy", "Unit.__deepcopy__", "Unit.same_dimensions_as",
  "Unit.get_base_equivalent", "Unit.get_cgs_equivalent", "Unit.get_mks_equivalent",
  "Unit.get_conversion_factor", "Unit.as_coeff_unit", "Unit.simplify", "Unit.has_equivalent",
  "Unit.list_equivalencies", "Unit.latex_representation", "Unit.__hash__", "Unit.__repr__",
  "Unit.__str__", "Unit.is_dimensionless", "Unit.is_code_unit"]

/-- documented to modify `self` -/
def inplaceMethods : List String := [
  "unyt_array.convert_to_units", "unyt_array.convert_to_base", "unyt_array.convert_to_cgs",
  "unyt_array.convert_to_mks", "unyt_array.convert_to_equivalent", "unyt_array.__setitem__"]

/-- copying methods that nevertheless write to `self` (the literal exclusion list of the table
    obligation; in one-to-one correspondence with the `known` `documented-copying|…|mutates-self` entries
    of `known_findings.d/C18.json`).  Empty since fix C18-02 (`Unit.simplify` builds a new unit). -/
def knownMutatingCopies : List String := []

namespace Order

/-- with fixes C18-01 (the unit is assigned LAST) and C18-03 (a second refusal — read-only integer
    buffer — before the re-typing) -/
def convertToUnits : List String :=
  ["F:_sanitize_units_convert", "F:_check_em_conversion", "F:_em_conversion", "F:get_conversion_factor",
   "F:raise:ValueError", "F:raise:ValueError", "F:astype", "W:values.dtype", "W:self.dtype",
   "W:copyto(values)", "W:values*=", "W:np.subtract(out=values)", "W:self.units",
   "C:self.convert_to_equivalent"]

def convertToBase : List String := ["F:get_base_equivalent", "C:self.convert_to_units"]
def convertToCgs : List String := ["F:get_cgs_equivalent", "C:self.convert_to_units"]
def convertToMks : List String := ["F:get_mks_equivalent", "C:self.convert_to_units"]

def convertToEquivalent : List String :=
  ["F:Unit", "C:self.convert_to_units", "F:equivalence_registry[]", "F:Equivalence(inplace)",
   "F:has_equivalent", "C:this_equiv.convert", "C:self.convert_to_units", "W:self.name",
   "F:raise:InvalidUnitEquivalence"]

def toEquivalent : List String :=
  ["F:Unit", "F:in_units", "F:equivalence_registry[]", "F:Equivalence(copy)", "F:has_equivalent",
   "C:this_equiv.convert", "F:in_units", "F:raise:InvalidUnitEquivalence"]

def inUnits : List String :=
  ["F:_sanitize_units_convert", "F:_check_em_conversion", "F:_em_conversion", "F:get_conversion_factor",
   "F:dtype"]

def inBase : List String :=
  ["F:_sanitize_unit_system", "F:_check_em_conversion", "F:raise:UnitsNotReducible", "F:_em_conversion",
   "F:get_base_equivalent", "F:get_conversion_factor", "F:dtype"]

def setitem : List String := ["F:to", "W:super().__setitem__"]

/-- with fix C18-02: no write to `self` -/
def unitSimplify : List String := ["F:_cancel_mul", "F:Unit"]

/-- `__array_ufunc__` seen from `out=`, with the module-level helper `_float_out_view(out)` inlined (read-only
    refusal — fix C18-03 —, `astype`, re-labelling, cast copy): since fix C01-04 it is called immediately before
    each kernel call, AFTER the unit checks (unary path: after `initial=` and the trig conversion; binary path:
    after the unit rule).  Formerly:
    unary path: kernel, then the unit rule; binary path: coercion, the `power` refusals, the K/R
    refusal, the `==`/`!=` early return (which writes `out`), the dimension refusals, the
    second-operand conversion, the unit rule, the kernel, the dimensionless rescale, the
    offset-temperature refusal (AFTER the kernel); `clip`; the result wrap-up (in the helper
    `_wrap_ufunc_output` since fix 4368a3d); the post-multiplication of the raw buffer
    `multiply(out_func, mul, out=out_func)` (since fix db741b8; before: `multiply(out, mul, out=out)`,
    a nested `__array_ufunc__` call); the unit label -/
def arrayUfunc : List String :=
  ["F:to_value", "F:in_units",
   "F:raise:ValueError", "F:astype", "W:out.dtype", "W:copyto(out)",
   "W:func(out=out_func)", "F:_apply_power_mapping", "F:_ufunc_registry[]",
   "F:_coerce_iterable_units", "F:_coerce_iterable_units", "F:_get_binary_op_return_class",
   "F:Unit", "F:Unit",
   "F:raise:UnitOperationError", "F:raise:UnitOperationError", "F:raise:UnitOperationError",
   "F:raise:UnitOperationError", "F:_ufunc_registry[]", "F:raise:UnitOperationError",
   "F:func", "W:out[]", "F:Unit", "W:out.units",
   "F:raise:UnitOperationError", "F:raise:UnitOperationError",
   "F:get_conversion_factor", "F:dtype", "F:raise:InvalidUnitOperation",
   "F:unit_operator",
   "F:raise:ValueError", "F:astype", "W:out.dtype", "W:copyto(out)",
   "W:func(out=out_func)", "W:np.multiply(out=out_func)", "F:Unit",
   "F:raise:InvalidUnitOperation",
   "F:to", "W:ufunc(out=_out)", "F:raise:RuntimeError",
   "W:multiply(out=out_func)", "W:out.units", "F:Unit", "W:out.units"]

end Order

/-- the post-multiplication works on the raw buffer: it does not re-enter `__array_ufunc__` -/
def fixupReenters : Bool := false
/-- fixes C18-01 / C18-03 / C18-02 are in the source -/
def ctuUnitsLast : Bool := true
def ctuReadonlyGuard : Bool := true
def outReadonlyGuard : Bool := true
def simplifyCopies : Bool := true
/-- fix C01-04 is in the source: an integer `out=` is re-typed only after the unit checks -/
def promoteAfterChecks : Bool := true

/-- the CONDITION under which each `raise` of the in-place routines fires (hand-written from the
    contract: 1-byte integers cannot be made float in place; a read-only integer buffer is refused
    before it is re-typed; an equivalence the unit does not have).  The translator regenerates the text
    of the enclosing `if` tests; an inverted or additionally guarded refusal changes it. -/
def raiseGuards : List (String × String × String) := [
  ("convertToUnits", "ValueError", "equivalence is None && self.dtype.kind in ('u', 'i') && dsize == 1"),
  ("convertToUnits", "ValueError", "equivalence is None && self.dtype.kind in ('u', 'i') && not values.flags.writeable"),
  ("convertToEquivalent", "InvalidUnitEquivalence", "not (self.has_equivalent(equivalence))"),
  ("floatOutView", "ValueError", "out.dtype.kind in ('u', 'i') && not out.flags.writeable")]

/-- every `out=` of an equivalence's `_convert` goes through `_get_out`, … -/
def equivalenceOutExpr : String := "self._get_out(x)"
/-- … whose body hands the input back only for `in_place=True` -/
def getOutBody : String := "if self.in_place:     return x ; return None"

end Unyt.Ref.C18
