/-
  C06: literal exclusion list of the table obligations `handlers_forward_faithfully` /
  `handlers_static_faithful` — (function, defect) pairs that fail on the unchanged tree.
  One-to-one with the `forwarding` entries of known_findings.d/C06.json (key `<function>|<defect>`;
  checked by harness/c06.py on every run); each is witnessed by `exclusions_are_real`, so an
  exclusion can neither be added silently nor outlive its finding.

  When a fix is applied upstream: delete the pair here and the finding in known_findings.d/C06.json.
-/
namespace Unyt.Ref

def exclC06 : List (String × String) := [
  -- np.apply_over_axes is re-implemented by hand (no expand_dims of reduced results, no kernel call)
  ("numpy.apply_over_axes", "nocall"),
  ("numpy.apply_over_axes", "changed:a"),
  ("numpy.apply_over_axes", "changed:axes"),
  -- np.histogramdd(sample) with an (N, D) array: iterated row-wise into a list of N "coordinates"
  ("numpy.histogramdd", "changed:sample")
]

/- Repaired upstream by `fix:` commits (fixes/C06-0*.patch) and therefore no longer excluded — a
   re-introduction breaks `handlers_forward_faithfully` / `handlers_static_faithful`:
   hstack → vstack's implementation; put dropping mode; stack dropping dtype/casting without out=;
   einsum dropping dtype/casting/order/optimize. -/

end Unyt.Ref
