/-
  C06: literal exclusion list of the table obligations `handlers_forward_faithfully` /
  `handlers_static_faithful` — (function, defect) pairs that fail on the unchanged tree.
  One-to-one with the `forwarding` entries of known_findings.d/C06.json (key `<function>|<defect>`;
  checked by harness/c06.py on every run); each is witnessed by `exclusions_are_real`, so an
  exclusion can neither be added silently nor outlive its finding.

  When a fix is applied upstream: delete the pair here and the finding in known_findings.d/C06.json.
-/
namespace Unyt.Ref

def exclC06 : List (String × String) := [
  -- np.hstack's handler calls np.vstack._implementation
  ("numpy.hstack", "calls:numpy.vstack"),
  -- np.put(..., mode=) : *args/**kwargs are accepted and never forwarded
  ("numpy.put", "dropped:mode"),
  -- np.stack(..., dtype=, casting=) without out=: **kwargs only forwarded on the out= branch
  ("numpy.stack", "dropped:dtype"),
  ("numpy.stack", "dropped:casting"),
  -- np.einsum(..., dtype=, casting=, order=, optimize=): **kwargs never forwarded
  ("numpy.einsum", "dropped:**dtype"),
  ("numpy.einsum", "dropped:**casting"),
  ("numpy.einsum", "dropped:**order"),
  ("numpy.einsum", "dropped:optimize"),
  ("numpy.einsum", "dropped:**kwargs"),
  -- np.apply_over_axes is re-implemented by hand (no expand_dims of reduced results, no kernel call)
  ("numpy.apply_over_axes", "nocall"),
  ("numpy.apply_over_axes", "changed:a"),
  ("numpy.apply_over_axes", "changed:axes"),
  -- np.histogramdd(sample) with an (N, D) array: iterated row-wise into a list of N "coordinates"
  ("numpy.histogramdd", "changed:sample")
]

end Unyt.Ref
