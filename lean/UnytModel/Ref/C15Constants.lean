/-
  UnytModel.Ref.C15Constants — the independent reference for the physical constants (C15).

  Hand-written from CODATA 2018 (NIST SP 961, "Fundamental Physical Constants"), the SI brochure
  (9th ed. and, for μ₀ / ε₀, the pre-2019 definition the library implements), IAU 2015
  Resolution B3 (nominal solar and planetary values), the NASA planetary fact sheets, IUPAC
  (standard atomic weight of hydrogen) and Fixsen (2009) for the CMB temperature.  Never
  generated, never read from /repo.

  Each value is the SI magnitude (value × SI scale of the unit) the constant should denote, with
  a tolerance class (see `Ref.Cls` in `Ref/Definitions.lean`) and the expected dimension.
  The defining relations are written over the *names of the constants table* (`unit:<symbol>` = a unit-table cell).
-/
import UnytModel.PhysicalConstants
import UnytModel.Ref.Definitions

namespace Unyt.Ref.C15

structure CRow where
  name : String
  v : Rat
  cls : Cls
  dim : Dim

def e10 (n : Nat) : Rat := ((10 ^ n : Nat) : Int)

-- dimensions (mass, length, time, temperature, angle, current, luminous, logarithmic)
def dAction : Dim := ⟨1, 2, -1, 0, 0, 0, 0, 0⟩
def dEntropy : Dim := ⟨1, 2, -2, -1, 0, 0, 0, 0⟩
def dNewtonG : Dim := ⟨-1, 3, -2, 0, 0, 0, 0, 0⟩
def dSigma : Dim := ⟨1, 0, -3, -4, 0, 0, 0, 0⟩
def dRadA : Dim := ⟨1, -1, -2, -4, 0, 0, 0, 0⟩
def dMu0 : Dim := ⟨1, 1, -2, 0, 0, -2, 0, 0⟩
def dEps0 : Dim := ⟨-1, -3, 4, 0, 0, 2, 0, 0⟩
def dWavenumber : Dim := ⟨0, -1, 0, 0, 0, 0, 0, 0⟩
def dAccel : Dim := ⟨0, 1, -2, 0, 0, 0, 0, 0⟩

/-- CODATA 2018 atomic mass constant, kg -/
def amuQ : Rat := 166053906660 / e10 38

/-- published values -/
def rows : List CRow := [
  ⟨"me", 91093837015 / e10 41, .codata, dm⟩,
  -- N_A × (1 mol): unyt's `mol` is the pure number N_A, so the SI magnitude of N_A in mol⁻¹ is 1
  ⟨"Na", 1, .codata, d1⟩,
  ⟨"mp", 167262192369 / e10 38, .codata, dm⟩,
  -- mass of a hydrogen atom of natural isotopic composition: A_r(H) = 1.00794(7) (IUPAC 2007)
  ⟨"mh", (100794 / 100000) * amuQ, .derived, dm⟩,
  ⟨"c", 299792458, .exact, dVel⟩,
  ⟨"σ_T", 66524587321 / e10 39, .codata, dArea⟩,
  ⟨"qp", 1602176634 / e10 28, .codata, dCharge⟩,
  ⟨"qe", -(1602176634 / e10 28), .codata, dCharge⟩,
  ⟨"kb", 1380649 / e10 29, .codata, dEntropy⟩,
  -- G is known to 2.2e-5 and has moved by more than that between adjustments
  ⟨"G", 667430 / e10 16, .derived, dNewtonG⟩,
  ⟨"h", 662607015 / e10 42, .codata, dAction⟩,
  ⟨"hbar", 1054571817 / e10 43, .codata, dAction⟩,
  ⟨"σ", 5670374419 / e10 17, .codata, dSigma⟩,
  ⟨"a", 7565733250 / e10 25, .codata, dRadA⟩,
  ⟨"Tcmb", 27255 / 10000, .astro, dK⟩,
  ⟨"Msun", 198841 * e10 25, .astro, dm⟩,
  ⟨"Mjup", 189813 * e10 22, .astro, dm⟩,
  ⟨"mercury_mass", 33011 * e10 19, .astro, dm⟩,
  ⟨"venus_mass", 48675 * e10 20, .astro, dm⟩,
  ⟨"Mearth", 59722 * e10 20, .astro, dm⟩,
  ⟨"mars_mass", 64171 * e10 19, .astro, dm⟩,
  ⟨"saturn_mass", 56834 * e10 22, .astro, dm⟩,
  ⟨"uranus_mass", 86813 * e10 21, .astro, dm⟩,
  ⟨"neptune_mass", 102413 * e10 21, .astro, dm⟩,
  ⟨"m_pl", 2176434 / e10 14, .derived, dm⟩,
  ⟨"l_pl", 1616255 / e10 41, .derived, dL⟩,
  ⟨"t_pl", 5391247 / e10 50, .derived, dT⟩,
  ⟨"E_pl", 1956100000, .derived, dEnergy⟩,
  ⟨"q_pl", 1875546 / e10 24, .derived, dCharge⟩,
  ⟨"T_pl", 1416784 * e10 26, .derived, dK⟩,
  -- 4π·10⁻⁷ N/A² until 2019; CODATA 2018: 1.25663706212(19)e-6
  ⟨"mu_0", 125663706212 / e10 17, .conv, dMu0⟩,
  ⟨"eps_0", 88541878128 / e10 22, .conv, dEps0⟩,
  ⟨"R_inf", 10973731568160 / e10 6, .codata, dWavenumber⟩,
  ⟨"standard_gravity", 980665 / 100000, .exact, dAccel⟩
]

def find? (name : String) : Option CRow := rows.find? (·.name == name)

/-! ### defining relations (over the names of the constants table) -/

structure Relation where
  name : String
  lhs : CExpr
  rhs : CExpr

def cref (s : String) : CExpr := .ref s
def clit (q : Rat) : CExpr := .lit q
def csq (a : CExpr) : CExpr := .pow a 2
def hbarE : CExpr := .div (cref "h") (.mul (clit 2) .pi)

/-- relations the source is expected to satisfy *identically* in the measured base constants
    (checked on normal forms of the regenerated definitions) -/
def relations : List Relation := [
  ⟨"hbar", cref "hbar", hbarE⟩,
  ⟨"eps0_mu0_c2", .mul (.mul (cref "eps_0") (cref "mu_0")) (csq (cref "c")), clit 1⟩,
  ⟨"mu_0", cref "mu_0", .mul (.mul (clit 4) .pi) (clit (1 / 10000000))⟩,
  ⟨"stefan_boltzmann", cref "σ",
    .div (.mul (.mul (clit 2) (.pow .pi 5)) (.pow (cref "kb") 4)) (.mul (.mul (clit 15) (csq (cref "c"))) (.pow (cref "h") 3))⟩,
  ⟨"radiation_constant", cref "a", .div (.mul (clit 4) (cref "σ")) (cref "c")⟩,
  ⟨"rydberg", cref "R_inf",
    .div (.mul (cref "me") (.pow (cref "qp") 4))
         (.mul (.mul (.mul (clit 8) (csq (cref "eps_0"))) (.pow (cref "h") 3)) (cref "c"))⟩,
  ⟨"planck_mass", cref "m_pl", .sqrt (.div (.mul (cref "hbar") (cref "c")) (cref "G"))⟩,
  ⟨"planck_length", cref "l_pl", .sqrt (.div (.mul (cref "hbar") (cref "G")) (.pow (cref "c") 3))⟩,
  ⟨"planck_time", cref "t_pl", .sqrt (.div (.mul (cref "hbar") (cref "G")) (.pow (cref "c") 5))⟩,
  ⟨"planck_energy", cref "E_pl", .sqrt (.div (.mul (cref "hbar") (.pow (cref "c") 5)) (cref "G"))⟩,
  ⟨"planck_temperature", cref "T_pl", .div (.sqrt (.div (.mul (cref "hbar") (.pow (cref "c") 5)) (cref "G"))) (cref "kb")⟩,
  ⟨"planck_charge", cref "q_pl", .sqrt (.mul (.mul (.mul (.mul (clit 4) .pi) (cref "eps_0")) (cref "hbar")) (cref "c"))⟩,
  ⟨"electron_charge", cref "qe", .neg (cref "qp")⟩,
  -- the Rydberg *unit* of energy is h·c·R_∞
  ⟨"unit_Ry", cref "unit:Ry", .mul (.mul (cref "h") (cref "c")) (cref "R_inf")⟩
]

/-- relations between quantities the source fixes by *independent literals*: they can only hold
    numerically, within the class of the measured side -/
structure NumRelation where
  name : String
  lhs : CExpr
  rhs : CExpr
  cls : Cls

/-- Thomson cross-section σ_T = (8π/3)·r_e², r_e = e²/(4π ε₀ mₑ c²) -/
def numRelations : List NumRelation := [
  ⟨"thomson", cref "σ_T",
    .mul (.div (.mul (clit 8) .pi) (clit 3))
         (csq (.div (csq (cref "qp")) (.mul (.mul (.mul (.mul (clit 4) .pi) (cref "eps_0")) (cref "me")) (csq (cref "c"))))),
    .codata⟩,
  -- the electron-volt is e × 1 V: the unit table and the constants table carry separate literals
  ⟨"unit_eV", cref "unit:eV", cref "qp", .codata⟩
]

/-- rational enclosure of π (Mathlib: `Real.pi_gt_d20`, `Real.pi_lt_d20`) -/
def piLo : Rat := 314159265358979323846 / e10 20
def piHi : Rat := 314159265358979323847 / e10 20

/-! ### electromagnetic counterparts (Gaussian ↔ SI), squared ratio of the SI-base magnitudes

  q_G = q_SI / √(4π ε₀), with 1/(4π ε₀) = c²·10⁻⁷ exactly in the pre-2019 SI the library
  implements; B_G = B_SI·√(4π/μ₀) = B_SI·√(10⁷); potentials scale inversely to charges;
  resistance R_G = R_SI·4π ε₀. -/

private def cQ : Rat := 299792458
/-- (SI dimension, Gaussian dimension, (Gaussian magnitude / SI magnitude)²) -/
def emCounterparts : List (Dim × Dim × Rat) := [
  (dCharge, dChargeCgs, cQ * cQ / e10 7),
  (dI, dCurrentCgs, cQ * cQ / e10 7),
  (dBmks, dBCgs, e10 7),
  (dVolt, dPotCgs, e10 7 / (cQ * cQ)),
  (dOhm, dResCgs, (e10 7 / (cQ * cQ)) * (e10 7 / (cQ * cQ)))
]

/-- names that are deliberately both a unit symbol and a constant for *different* quantities:
    `G` (gauss / Newton's constant), `hbar` (hectobar / reduced Planck constant) -/
def homonyms : List String := ["G", "hbar"]

/-- tolerance for "the same quantity in another guise": 2⁻⁴⁵ relative -/
def guiseTol : Rat := 1 / (2 : Rat) ^ (45 : Nat)

/-- unit-table cells outside the multiplicative fragment (`B` = ln(10)/2 Np) -/
def nonMonomialUnitCells : List String := ["B"]

/-! ### literal exclusion lists (each entry is a recorded finding with a counterexample theorem) -/

/-- unit symbols whose table scale differs from the constant of the same name -/
def exclUnitVsConstant : List String := ["mp"]
/-- constants whose value is outside its class -/
def exclValue : List String := ["Mearth"]

end Unyt.Ref.C15
