/-
  UnytModel.Ref.C15Constants — the independent reference for the physical constants (C15).

  Hand-written from CODATA 2018 (NIST SP 961, "Fundamental Physical Constants"), the SI brochure
  (9th ed. and, for μ₀ / ε₀, the pre-2019 definition the library implements), IAU 2015
  Resolution B3 (nominal solar and planetary values), the NASA planetary fact sheets, IUPAC
  (standard atomic weight of hydrogen) and Fixsen (2009) for the CMB temperature.  Never
  generated, never read from /repo.

  Each value is the SI magnitude (value × SI scale of the unit) the constant should denote, with
  a tolerance class (see `Ref.Cls` in `Ref/Definitions.lean`) and the expected dimension.
  The defining relations are written over the *names of the constants table* (`unit:<symbol>` = a unit-table cell).
-/
import UnytModel.PhysicalConstants
import UnytModel.Ref.Definitions

namespace Unyt.Ref.C15

/-- a published value: SI magnitude, relative tolerance, dimension, and where the tolerance comes
    from (edition the library follows, its published relative standard uncertainty `u_r`, shift
    of the recommended value between that edition and CODATA 2018) -/
structure CRow where
  name : String
  v : Rat
  tol : Rat
  dim : Dim
  note : String := ""

def e10 (n : Nat) : Rat := ((10 ^ n : Nat) : Int)

/-- exactly defined: 2⁻⁴⁵ (rounding of the double only) -/
def tolExact : Rat := 1 / (2 : Rat) ^ (45 : Nat)

-- dimensions (mass, length, time, temperature, angle, current, luminous, logarithmic)
def dAction : Dim := ⟨1, 2, -1, 0, 0, 0, 0, 0⟩
def dEntropy : Dim := ⟨1, 2, -2, -1, 0, 0, 0, 0⟩
def dNewtonG : Dim := ⟨-1, 3, -2, 0, 0, 0, 0, 0⟩
def dSigma : Dim := ⟨1, 0, -3, -4, 0, 0, 0, 0⟩
def dRadA : Dim := ⟨1, -1, -2, -4, 0, 0, 0, 0⟩
def dMu0 : Dim := ⟨1, 1, -2, 0, 0, -2, 0, 0⟩
def dEps0 : Dim := ⟨-1, -3, 4, 0, 0, 2, 0, 0⟩
def dWavenumber : Dim := ⟨0, -1, 0, 0, 0, 0, 0, 0⟩
def dAccel : Dim := ⟨0, 1, -2, 0, 0, 0, 0, 0⟩

/-- CODATA 2018 atomic mass constant, kg -/
def amuQ : Rat := 166053906660 / e10 38

/-- published values (CODATA 2018 unless stated) and the tolerance each row is held to.

  unyt predates the 2019 SI: its `h`, `k_B`, `m_e`, `amu` are CODATA 2010, `e` and `G` are
  CODATA 2014, `m_p` is CODATA 1986, `c` and `g_n` are exact.  The tolerance of a measured row is
  a small multiple (≥ 2) of max(published `u_r` of the edition followed, shift of the recommended
  value between that edition and CODATA 2018): tight enough to catch a slipped digit at the
  precision the constant was ever known to, wide enough for any edition since 1986. -/
def rows : List CRow := [
  ⟨"me", 91093837015 / e10 41, 25 / e10 8, dm, "CODATA 2010 (u_r 4.4e-8); 2010→2018 shift 8.7e-8"⟩,
  -- N_A × (1 mol): unyt's `mol` is the pure number N_A, so the SI magnitude of N_A in mol⁻¹ is 1
  ⟨"Na", 1, 1 / e10 7, d1, "N_A·amu_grams = 1 (molar mass constant, exact before 2019); library: 1 + 2.0e-8"⟩,
  ⟨"mp", 167262192369 / e10 38, 1 / e10 6, dm, "CODATA 1986 (u_r 5.9e-7); 1986→2018 shift 7.1e-7"⟩,
  -- mass of a hydrogen atom of natural isotopic composition: A_r(H) = 1.00794(7) (IUPAC 2007)
  ⟨"mh", (100794 / 100000) * amuQ, 7 / e10 5, dm, "IUPAC A_r(H) = 1.00794(7): u_r 7e-5"⟩,
  ⟨"c", 299792458, tolExact, dVel, "exact (SI)"⟩,
  ⟨"σ_T", 66524587321 / e10 39, 1 / e10 7, dArea, "CODATA 2006-era value (u_r 4.1e-9); shift to 2018 2.8e-8"⟩,
  ⟨"qp", 1602176634 / e10 28, 25 / e10 9, dCharge, "CODATA 2014 (u_r 6.1e-9); 2014→exact shift 8.2e-9"⟩,
  ⟨"qe", -(1602176634 / e10 28), 25 / e10 9, dCharge, "= −qp"⟩,
  ⟨"kb", 1380649 / e10 29, 1 / e10 6, dEntropy, "CODATA 2010 (u_r 9.1e-7); 2010→exact shift 1.4e-7"⟩,
  ⟨"G", 667430 / e10 16, 1 / e10 4, dNewtonG, "CODATA 2014 (u_r 4.7e-5); 2014→2018 shift 3.3e-5; 2018 u_r 2.2e-5"⟩,
  ⟨"h", 662607015 / e10 42, 25 / e10 8, dAction, "CODATA 2010 (u_r 4.4e-8); 2010→exact shift 8.7e-8"⟩,
  ⟨"hbar", 1054571817 / e10 43, 25 / e10 8, dAction, "h/2π, as h"⟩,
  ⟨"σ", 5670374419 / e10 17, 1 / e10 6, dSigma, "∝ k⁴/h³: CODATA 2010 u_r 3.6e-6; shift 3.2e-7"⟩,
  ⟨"a", 7565733250 / e10 25, 1 / e10 6, dRadA, "4σ/c, as σ"⟩,
  ⟨"Tcmb", 27255 / 10000, 5 / e10 4, dK, "Fixsen 2009: 2.72548(57) K, u_r 2.1e-4; library 2.726 (Mather et al.)"⟩,
  ⟨"Msun", 198841 * e10 25, 1 / e10 4, dm, "IAU 2015 B3 GM_sun/G; limited by G (u_r 2.2e-5 … 4.7e-5)"⟩,
  -- planets: the library's values are system masses (planet + moons, Standish 1995); the reference is
  -- the planet alone (IAU 2015 / NASA fact sheets); moons contribute up to 2.5e-4 (Saturn)
  ⟨"Mjup", 189813 * e10 22, 5 / e10 4, dm, "planet alone; moons 2.1e-4"⟩,
  ⟨"mercury_mass", 33011 * e10 19, 5 / e10 4, dm, ""⟩,
  ⟨"venus_mass", 48675 * e10 20, 5 / e10 4, dm, ""⟩,
  ⟨"Mearth", 59722 * e10 20, 5 / e10 4, dm, "planet alone; the Moon is 1.23e-2"⟩,
  ⟨"mars_mass", 64171 * e10 19, 5 / e10 4, dm, ""⟩,
  ⟨"saturn_mass", 56834 * e10 22, 5 / e10 4, dm, "moons 2.5e-4"⟩,
  ⟨"uranus_mass", 86813 * e10 21, 5 / e10 4, dm, ""⟩,
  ⟨"neptune_mass", 102413 * e10 21, 5 / e10 4, dm, "Triton 2.1e-4"⟩,
  -- Planck units ∝ G^(±1/2): half of G's tolerance
  ⟨"m_pl", 2176434 / e10 14, 5 / e10 5, dm, "∝ G^(-1/2)"⟩,
  ⟨"l_pl", 1616255 / e10 41, 5 / e10 5, dL, "∝ G^(1/2)"⟩,
  ⟨"t_pl", 5391247 / e10 50, 5 / e10 5, dT, "∝ G^(1/2)"⟩,
  ⟨"E_pl", 1956100000, 5 / e10 5, dEnergy, "∝ G^(-1/2); reference given to 5 digits"⟩,
  ⟨"q_pl", 1875546 / e10 24, 1 / e10 6, dCharge, "e/√α; reference given to 7 digits"⟩,
  ⟨"T_pl", 1416784 * e10 26, 5 / e10 5, dK, "∝ G^(-1/2)"⟩,
  -- 4π·10⁻⁷ N/A² until 2019; CODATA 2018: 1.25663706212(19)e-6
  ⟨"mu_0", 125663706212 / e10 17, 2 / e10 9, dMu0, "pre-2019 exact 4π·10⁻⁷; differs from the 2018 measured value by 5.4e-10"⟩,
  ⟨"eps_0", 88541878128 / e10 22, 2 / e10 9, dEps0, "1/(μ₀c²), as μ₀"⟩,
  ⟨"R_inf", 10973731568160 / e10 6, 5 / e10 7, dWavenumber,
    "measured to u_r 1.9e-12, but the library derives it from mₑ, h (2010) and e (2014): 1.4e-7 off"⟩,
  ⟨"standard_gravity", 980665 / 100000, tolExact, dAccel, "exact (CGPM 1901)"⟩
]

/-- the constants the 2019 SI fixes exactly: the library's literal must be, digit for digit
    (2⁻⁴⁵), the recommended value of one of these editions — CODATA 2010, CODATA 2014 or the exact
    SI value (the only value a future update can move to) -/
def editions : List (String × List (String × Rat)) := [
  ("h", [("CODATA 2010", 662606957 / e10 42), ("CODATA 2014", 6626070040 / e10 43), ("SI 2019 exact", 662607015 / e10 42)]),
  ("qp", [("CODATA 2010", 1602176565 / e10 28), ("CODATA 2014", 16021766208 / e10 29), ("SI 2019 exact", 1602176634 / e10 28)]),
  ("kb", [("CODATA 2010", 13806488 / e10 30), ("CODATA 2014", 138064852 / e10 31), ("SI 2019 exact", 1380649 / e10 29)])
]

def find? (name : String) : Option CRow := rows.find? (·.name == name)

/-! ### defining relations (over the names of the constants table) -/

structure Relation where
  name : String
  lhs : CExpr
  rhs : CExpr

def cref (s : String) : CExpr := .ref s
def clit (q : Rat) : CExpr := .lit q
def csq (a : CExpr) : CExpr := .pow a 2
def hbarE : CExpr := .div (cref "h") (.mul (clit 2) .pi)

/-- relations the source is expected to satisfy *identically* in the measured base constants
    (checked on normal forms of the regenerated definitions) -/
def relations : List Relation := [
  ⟨"hbar", cref "hbar", hbarE⟩,
  ⟨"eps0_mu0_c2", .mul (.mul (cref "eps_0") (cref "mu_0")) (csq (cref "c")), clit 1⟩,
  ⟨"mu_0", cref "mu_0", .mul (.mul (clit 4) .pi) (clit (1 / 10000000))⟩,
  ⟨"stefan_boltzmann", cref "σ",
    .div (.mul (.mul (clit 2) (.pow .pi 5)) (.pow (cref "kb") 4)) (.mul (.mul (clit 15) (csq (cref "c"))) (.pow (cref "h") 3))⟩,
  ⟨"radiation_constant", cref "a", .div (.mul (clit 4) (cref "σ")) (cref "c")⟩,
  ⟨"rydberg", cref "R_inf",
    .div (.mul (cref "me") (.pow (cref "qp") 4))
         (.mul (.mul (.mul (clit 8) (csq (cref "eps_0"))) (.pow (cref "h") 3)) (cref "c"))⟩,
  ⟨"planck_mass", cref "m_pl", .sqrt (.div (.mul (cref "hbar") (cref "c")) (cref "G"))⟩,
  ⟨"planck_length", cref "l_pl", .sqrt (.div (.mul (cref "hbar") (cref "G")) (.pow (cref "c") 3))⟩,
  ⟨"planck_time", cref "t_pl", .sqrt (.div (.mul (cref "hbar") (cref "G")) (.pow (cref "c") 5))⟩,
  ⟨"planck_energy", cref "E_pl", .sqrt (.div (.mul (cref "hbar") (.pow (cref "c") 5)) (cref "G"))⟩,
  ⟨"planck_temperature", cref "T_pl", .div (.sqrt (.div (.mul (cref "hbar") (.pow (cref "c") 5)) (cref "G"))) (cref "kb")⟩,
  ⟨"planck_charge", cref "q_pl", .sqrt (.mul (.mul (.mul (.mul (clit 4) .pi) (cref "eps_0")) (cref "hbar")) (cref "c"))⟩,
  ⟨"electron_charge", cref "qe", .neg (cref "qp")⟩,
  -- the Rydberg *unit* of energy is h·c·R_∞
  ⟨"unit_Ry", cref "unit:Ry", .mul (.mul (cref "h") (cref "c")) (cref "R_inf")⟩
]

/-- relations between quantities the source fixes by *independent literals*: they can only hold
    numerically, within the class of the measured side -/
structure NumRelation where
  name : String
  lhs : CExpr
  rhs : CExpr
  /-- relative tolerance on `lhs/rhs − 1` -/
  tol : Rat

/-- Thomson cross-section σ_T = (8π/3)·r_e², r_e = e²/(4π ε₀ mₑ c²) -/
def numRelations : List NumRelation := [
  ⟨"thomson", cref "σ_T",
    .mul (.div (.mul (clit 8) .pi) (clit 3))
         (csq (.div (csq (cref "qp")) (.mul (.mul (.mul (.mul (clit 4) .pi) (cref "eps_0")) (cref "me")) (csq (cref "c"))))),
    -- library: −1.7e-7 (σ_T literal of the 2006 era against e (2014), mₑ (2010))
    5 / e10 7⟩,
  -- the electron-volt is e × 1 V: the unit table and the constants table carry separate literals
  -- library: −3.7e-8 (erg_per_eV 1.602176562e-12 against e (2014))
  ⟨"unit_eV", cref "unit:eV", cref "qp", 1 / e10 7⟩
]

/-- rational enclosure of π (Mathlib: `Real.pi_gt_d20`, `Real.pi_lt_d20`) -/
def piLo : Rat := 314159265358979323846 / e10 20
def piHi : Rat := 314159265358979323847 / e10 20

/-! ### electromagnetic counterparts (Gaussian ↔ SI), squared ratio of the SI-base magnitudes

  q_G = q_SI / √(4π ε₀), with 1/(4π ε₀) = c²·10⁻⁷ exactly in the pre-2019 SI the library
  implements; B_G = B_SI·√(4π/μ₀) = B_SI·√(10⁷); potentials scale inversely to charges;
  resistance R_G = R_SI·4π ε₀. -/

private def cQ : Rat := 299792458
/-- (SI dimension, Gaussian dimension, (Gaussian magnitude / SI magnitude)²) -/
def emCounterparts : List (Dim × Dim × Rat) := [
  (dCharge, dChargeCgs, cQ * cQ / e10 7),
  (dI, dCurrentCgs, cQ * cQ / e10 7),
  (dBmks, dBCgs, e10 7),
  (dVolt, dPotCgs, e10 7 / (cQ * cQ)),
  (dOhm, dResCgs, (e10 7 / (cQ * cQ)) * (e10 7 / (cQ * cQ)))
]

/-- names that are deliberately both a unit symbol and a constant for *different* quantities:
    `G` (gauss / Newton's constant), `hbar` (hectobar / reduced Planck constant) -/
def homonyms : List String := ["G", "hbar"]

/-- tolerance for "the same quantity in another guise": 2⁻⁴⁵ relative -/
def guiseTol : Rat := 1 / (2 : Rat) ^ (45 : Nat)

/-- unit-table cells outside the multiplicative fragment (`B` = ln(10)/2 Np) -/
def nonMonomialUnitCells : List String := ["B"]

/-! ### literal exclusion lists (each entry is a recorded finding with a counterexample theorem) -/

/-- unit symbols whose table scale differs from the constant of the same name -/
def exclUnitVsConstant : List String := ["mp"]
/-- constants whose value is outside its class -/
def exclValue : List String := ["Mearth"]

end Unyt.Ref.C15
