/-
  UnytModel.Ref.C15Constants — the independent reference for the physical constants (C15).

  Hand-written from CODATA 2018 (NIST SP 961, "Fundamental Physical Constants"), the SI brochure
  (9th ed. and, for μ₀ / ε₀, the pre-2019 definition the library implements), IAU 2015
  Resolution B3 (nominal solar and planetary values), the NASA planetary fact sheets, IUPAC
  (standard atomic weight of hydrogen) and Fixsen (2009) for the CMB temperature.  Never
  generated, never read from /repo.

  Each value is the SI magnitude (value × SI scale of the unit) the constant should denote, with
  a tolerance class (see `Ref.Cls` in `Ref/Definitions.lean`) and the expected dimension.
  The defining relations are written over the *names of the constants table* (`unit:<symbol>` = a unit-table cell).
-/
import UnytModel.PhysicalConstants
import UnytModel.Ref.Definitions

namespace Unyt.Ref.C15

structure CRow where
  name : String
  v : Rat
  cls : Cls
  dim : Dim

def e10 (n : Nat) : Rat := ((10 ^ n : Nat) : Int)

-- dimensions (mass, length, time, temperature, angle, current, luminous, logarithmic)
def dAction : Dim := ⟨1, 2, -1, 0, 0, 0, 0, 0⟩
def dEntropy : Dim := ⟨1, 2, -2, -1, 0, 0, 0, 0⟩
def dNewtonG : Dim := ⟨-1, 3, -2, 0, 0, 0, 0, 0⟩
def dSigma : Dim := ⟨1, 0, -3, -4, 0, 0, 0, 0⟩
def dRadA : Dim := ⟨1, -1, -2, -4, 0, 0, 0, 0⟩
def dMu0 : Dim := ⟨1, 1, -2, 0, 0, -2, 0, 0⟩
def dEps0 : Dim := ⟨-1, -3, 4, 0, 0, 2, 0, 0⟩
def dWavenumber : Dim := ⟨0, -1, 0, 0, 0, 0, 0, 0⟩
def dAccel : Dim := ⟨0, 1, -2, 0, 0, 0, 0, 0⟩

/-- CODATA 2018 atomic mass constant, kg -/
def amuQ : Rat := 166053906660 / e10 38

/-- published values -/
def rows : List CRow := [
  ⟨"me", 91093837015 / e10 41, .codata, dm⟩,
  -- N_A × (1 mol): unyt's `mol` is the pure number N_A, so the SI magnitude of N_A in mol⁻¹ is 1
  ⟨"Na", 1, .codata, d1⟩,
  ⟨"mp", 167262192369 / e10 38, .codata, dm⟩,
  -- mass of a hydrogen atom of natural isotopic composition: A_r(H) = 1.00794(7) (IUPAC 2007)
  ⟨"mh", (100794 / 100000) * amuQ, .derived, dm⟩,
  ⟨"c", 299792458, .exact, dVel⟩,
  ⟨"σ_T", 66524587321 / e10 39, .codata, dArea⟩,
  ⟨"qp", 1602176634 / e10 28, .codata, dCharge⟩,
  ⟨"qe", -(1602176634 / e10 28), .codata, dCharge⟩,
  ⟨"kb", 1380649 / e10 29, .codata, dEntropy⟩,
  -- G is known to 2.2e-5 and has moved by more than that between adjustments
  ⟨"G", 667430 / e10 16, .derived, dNewtonG⟩,
  ⟨"h", 662607015 / e10 42, .codata, dAction⟩,
  ⟨"hbar", 1054571817 / e10 43, .codata, dAction⟩,
  ⟨"σ", 5670374419 / e10 17, .codata, dSigma⟩,
  ⟨"a", 7565733250 / e10 25, .codata, dRadA⟩,
  ⟨"Tcmb", 27255 / 10000, .astro, dK⟩,
  ⟨"Msun", 198841 * e10 25, .astro, dm⟩,
  ⟨"Mjup", 189813 * e10 22, .astro, dm⟩,
  ⟨"mercury_mass", 33011 * e10 19, .astro, dm⟩,
  ⟨"venus_mass", 48675 * e10 20, .astro, dm⟩,
  ⟨"Mearth", 59722 * e10 20, .astro, dm⟩,
  ⟨"mars_mass", 64171 * e10 19, .astro, dm⟩,
  ⟨"saturn_mass", 56834 * e10 22, .astro, dm⟩,
  ⟨"uranus_mass", 86813 * e10 21, .astro, dm⟩,
  ⟨"neptune_mass", 102413 * e10 21, .astro, dm⟩,
  ⟨"m_pl", 2176434 / e10 14, .derived, dm⟩,
  ⟨"l_pl", 1616255 / e10 41, .derived, dL⟩,
  ⟨"t_pl", 5391247 / e10 50, .derived, dT⟩,
  ⟨"E_pl", 1956100000, .derived, dEnergy⟩,
  ⟨"q_pl", 1875546 / e10 24, .derived, dCharge⟩,
  ⟨"T_pl", 1416784 * e10 26, .derived, dK⟩,
  -- 4π·10⁻⁷ N/A² until 2019; CODATA 2018: 1.25663706212(19)e-6
  ⟨"mu_0", 125663706212 / e10 17, .conv, dMu0⟩,
  ⟨"eps_0", 88541878128 / e10 22, .conv, dEps0⟩,
  ⟨"R_inf", 10973731568160 / e10 6, .codata, dWavenumber⟩,
  ⟨"standard_gravity", 980665 / 100000, .exact, dAccel⟩
]

def find? (name : String) : Option CRow := rows.find? (·.name == name)

/-! ### defining relations (over the names of the constants table) -/

structure Relation where
  name : String
  lhs : CExpr
  rhs : CExpr

private def r (s : String) : CExpr := .ref s
private def n (q : Rat) : CExpr := .lit q
private def sq (a : CExpr) : CExpr := .pow a 2
private def hbarE : CExpr := .div (r "h") (.mul (n 2) .pi)

/-- relations the source is expected to satisfy *identically* in the measured base constants
    (checked on normal forms of the regenerated definitions) -/
def relations : List Relation := [
  ⟨"hbar", r "hbar", hbarE⟩,
  ⟨"eps0_mu0_c2", .mul (.mul (r "eps_0") (r "mu_0")) (sq (r "c")), n 1⟩,
  ⟨"mu_0", r "mu_0", .mul (.mul (n 4) .pi) (n (1 / 10000000))⟩,
  ⟨"stefan_boltzmann", r "σ",
    .div (.mul (.mul (n 2) (.pow .pi 5)) (.pow (r "kb") 4)) (.mul (.mul (n 15) (sq (r "c"))) (.pow (r "h") 3))⟩,
  ⟨"radiation_constant", r "a", .div (.mul (n 4) (r "σ")) (r "c")⟩,
  ⟨"rydberg", r "R_inf",
    .div (.mul (r "me") (.pow (r "qp") 4))
         (.mul (.mul (.mul (n 8) (sq (r "eps_0"))) (.pow (r "h") 3)) (r "c"))⟩,
  ⟨"planck_mass", r "m_pl", .sqrt (.div (.mul (r "hbar") (r "c")) (r "G"))⟩,
  ⟨"planck_length", r "l_pl", .sqrt (.div (.mul (r "hbar") (r "G")) (.pow (r "c") 3))⟩,
  ⟨"planck_time", r "t_pl", .sqrt (.div (.mul (r "hbar") (r "G")) (.pow (r "c") 5))⟩,
  ⟨"planck_energy", r "E_pl", .sqrt (.div (.mul (r "hbar") (.pow (r "c") 5)) (r "G"))⟩,
  ⟨"planck_temperature", r "T_pl", .div (.sqrt (.div (.mul (r "hbar") (.pow (r "c") 5)) (r "G"))) (r "kb")⟩,
  ⟨"planck_charge", r "q_pl", .sqrt (.mul (.mul (.mul (.mul (n 4) .pi) (r "eps_0")) (r "hbar")) (r "c"))⟩,
  ⟨"electron_charge", r "qe", .neg (r "qp")⟩,
  -- the Rydberg *unit* of energy is h·c·R_∞
  ⟨"unit_Ry", r "unit:Ry", .mul (.mul (r "h") (r "c")) (r "R_inf")⟩
]

/-- relations between quantities the source fixes by *independent literals*: they can only hold
    numerically, within the class of the measured side -/
structure NumRelation where
  name : String
  lhs : CExpr
  rhs : CExpr
  cls : Cls

/-- Thomson cross-section σ_T = (8π/3)·r_e², r_e = e²/(4π ε₀ mₑ c²) -/
def numRelations : List NumRelation := [
  ⟨"thomson", r "σ_T",
    .mul (.div (.mul (n 8) .pi) (n 3))
         (sq (.div (sq (r "qp")) (.mul (.mul (.mul (.mul (n 4) .pi) (r "eps_0")) (r "me")) (sq (r "c"))))),
    .codata⟩,
  -- the electron-volt is e × 1 V: the unit table and the constants table carry separate literals
  ⟨"unit_eV", r "unit:eV", r "qp", .codata⟩
]

/-- rational enclosure of π (Mathlib: `Real.pi_gt_d20`, `Real.pi_lt_d20`) -/
def piLo : Rat := 314159265358979323846 / e10 20
def piHi : Rat := 314159265358979323847 / e10 20

/-! ### electromagnetic counterparts (Gaussian ↔ SI), squared ratio of the SI-base magnitudes

  q_G = q_SI / √(4π ε₀), with 1/(4π ε₀) = c²·10⁻⁷ exactly in the pre-2019 SI the library
  implements; B_G = B_SI·√(4π/μ₀) = B_SI·√(10⁷); potentials scale inversely to charges;
  resistance R_G = R_SI·4π ε₀. -/

private def cQ : Rat := 299792458
/-- (SI dimension, Gaussian dimension, (Gaussian magnitude / SI magnitude)²) -/
def emCounterparts : List (Dim × Dim × Rat) := [
  (dCharge, dChargeCgs, cQ * cQ / e10 7),
  (dI, dCurrentCgs, cQ * cQ / e10 7),
  (dBmks, dBCgs, e10 7),
  (dVolt, dPotCgs, e10 7 / (cQ * cQ)),
  (dOhm, dResCgs, (e10 7 / (cQ * cQ)) * (e10 7 / (cQ * cQ)))
]

/-- names that are deliberately both a unit symbol and a constant for *different* quantities:
    `G` (gauss / Newton's constant), `hbar` (hectobar / reduced Planck constant) -/
def homonyms : List String := ["G", "hbar"]

/-- tolerance for "the same quantity in another guise": 2⁻⁴⁵ relative -/
def guiseTol : Rat := 1 / (2 : Rat) ^ (45 : Nat)

/-- unit-table cells outside the multiplicative fragment (`B` = ln(10)/2 Np) -/
def nonMonomialUnitCells : List String := ["B"]

/-! ### literal exclusion lists (each entry is a recorded finding with a counterexample theorem) -/

/-- unit symbols whose table scale differs from the constant of the same name -/
def exclUnitVsConstant : List String := ["mp"]
/-- constants whose value is outside its class -/
def exclValue : List String := ["Mearth"]

end Unyt.Ref.C15
