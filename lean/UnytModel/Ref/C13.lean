/-
  UnytModel.Ref.C13 — hand-written reference for C13, from the property text (never generated).

  The property quantifies over registries "created empty, with defaults, from lut=, from JSON, by
  unpickling, by deepcopy/Unit.copy, with non-default unit systems" and asks that they be isolated from
  each other and from the default registry.  The names are those of the routes the translator probes
  (`tools/extract.d/c13_routes.py`).
-/
namespace Unyt.Ref.C13

/-- routes that must hand back a registry sharing NO mutable container with the registry it was made
    from — nor, for the `sibling_*` rows, with the registry restored next to it in the same call -/
def independentRoutes : List String :=
  ["deepcopy_registry", "deepcopy_unit", "deepcopy_array", "deepcopy_quantity", "unit_copy_deep",
   "json", "pickle_registry", "pickle_unit", "pickle_array", "pickle_quantity",
   "sibling_pickle_arrays", "sibling_pickle_dict", "sibling_deepcopy_arrays",
   "sibling_deepcopy_registries", "sibling_json"]

/-- shallow copies: Python's `copy.copy` contract is to share the containers; `Unit.copy()` (default
    `deep=False`) is implemented with it.  Registries made this way are NOT "independently created" and
    the isolation clause does not speak about them; the check verifies that they share exactly what the
    model says (all three containers) and nothing else does. -/
def sharingByDesign : List String := ["copy_registry", "unit_copy"]

end Unyt.Ref.C13
