/-
  UnytModel.Ref.C20Spellings — hand-written reference data for C20 (never generated):
  pairs of texts that are, by the documented conventions of unit strings, spellings of one
  expression; and the symbols whose `str()` is known not to re-parse (one per listed finding).
-/
namespace Unyt.Ref.C20

/-- equivalent spellings, by family -/
def spacing : List (String × String) :=
  [("kg*m**2/s**2", " kg * m ** 2 / s ** 2 "), ("m/s", "m /\ts"), ("m**-1", "m ** -1"), ("sqrt(m)", "sqrt( m )"),
   ("kg*m", "(kg)*(m)"), ("m**(1/2)", "m**( 1 / 2 )"), ("m\n", "m")]

def inversePower : List (String × String) :=
  [("m**-1", "1/m"), ("kg*s**-1", "kg/s"), ("kg*m**-1*s**-2", "kg/(m*s**2)"), ("m**(-2)", "1/m**2"),
   ("s**-1*m**-1", "1/(m*s)"), ("m**-0.5", "1/sqrt(m)")]

def floatRationalExponent : List (String × String) :=
  [("m**0.5", "m**(1/2)"), ("m**1.5", "m**(3/2)"), ("m**-1.5", "m**(-3/2)"), ("m**0.25", "m**(1/4)"),
   ("m**2.0", "m**2"), ("m**0.5", "sqrt(m)"), ("m**1e0", "m"), ("m**5e-1", "m**.5")]

def unicodeAscii : List (String × String) :=
  [("µm", "um"), ("μm", "um"), ("µm", "μm"), ("µs", "us"), ("Ω", "ohm"), ("kΩ", "kohm"), ("Å", "angstrom"),
   ("°", "deg"), ("°", "degree"), ("°C", "degC"), ("°F", "degF"), ("%", "percent"), ("µm/Ω**2", "um/ohm**2"),
   ("Δ°C", "delta_degC"), ("Δ°F", "delta_degF"), ("Δ°C/°F", "delta_degC/degF")]

/-- symbols whose `str()` does not parse back: none since fix C20-01 (`Δ°C`, `Δ°F` are read back) -/
def strNotReparsed : List String := []

end Unyt.Ref.C20

namespace Unyt.Ref.C20

/-- symbols the name table produces although it maps them on to another symbol (finding
    `reparse|*|differs|non-canonical-symbol`): the micro-prefixed symbols spelled with the MICRO
    SIGN U+00B5 or with `u`, which the table itself canonicalises to GREEK MU U+03BC -/
def nonCanonicalSymbols : List String :=
  ["µA", "µB", "µBa", "µC", "µF", "µG", "µH", "µHz", "µJ", "µJy", "µK", "µL", "µMx", "µN", "µNp", "µPa", "µSv",
   "µT", "µV", "µW", "µWb", "µWh", "µcal", "µcd", "µdegC", "µdyn", "µeV", "µerg", "µg", "µlm", "µlx", "µm",
   "µmol", "µpc", "µrad", "µs", "µstatA", "µstatC", "µstatV", "µyr", "µΩ",
   "uA", "uB", "uL", "udegC", "ulx", "ustatC", "uΩ"]

end Unyt.Ref.C20
