/-
  C07 reference data, written by hand from the mathematics of each NumPy function (never copied from
  unyt): for every function unyt handles, the HOMOGENEITY DEGREE of each result component in each
  operand — i.e. the only exponents a unit label can have if the result is to be covariant under a
  change of units (`UnytProofs/C07.lean: degree_rule_covariant` and its converse).

  `expected c` looks at the call form only (function, flags, which operands carry units):
    * `leaves [...]`      one spec per result leaf: `unitless` (scale-invariant: indices, counts,
                          booleans, orthogonal factors) or `units [(role, degree)]`;
    * `headRest h r`      first leaf `h`, every further leaf `r` (histogramdd: one edge array per axis);
    * `allUnitless`       every leaf is scale-invariant / the function returns text or None;
    * `mustRefuse`        the function is not homogeneous in an operand that carries units (log, exp,
                          a masked product, a cumulative product): no unit label is right, the only
                          covariant behaviour is to raise;
    * `missing`           no reference entry (the obligation fails: a new handler needs a new entry).
  A role is the name of the NumPy parameter (`a`, `b`, `fp`, …); parameters that must be commensurable
  with another one are mapped onto its role by `roleOf` (clip's `a_min`/`a_max` → `a`, …).

  For functions that are dimension-preserving without being homogeneous (rounding, `unwrap`) the entry
  is the label the property's second sentence requires (the input's unit, degree 1).

  Also here: `dimensionPreserving` (the property's "selection, reshaping, sorting, rounding,
  interpolation, statistics of location and spread") and `unitlessResult` ("indices, counts, booleans,
  correlation coefficients") over the whole catalogue, used by the direct oracle of harness/c07.py.
-/
import UnytModel.UnitRules

namespace Unyt.Ref
open Unyt.UR

inductive LeafSpec where
  | unitless
  | units (e : List (String × Expo))
  deriving Repr, Inhabited

inductive Expect where
  | leaves (l : List LeafSpec)
  | headRest (h : LeafSpec) (r : LeafSpec)
  | allUnitless
  | mustRefuse
  | missing
  deriving Repr, Inhabited

/-- what the reference looks at -/
structure CallForm where
  func : String
  flags : List (String × String)
  /-- unit-carrying operands: (parameter path, group); "d"/"out" groups excluded -/
  operands : List (String × String)

/-- `arrays[0][1]` ↦ `arrays` -/
def paramBase (p : String) : String := String.ofList (p.toList.takeWhile (· != '['))

def CallForm.has (c : CallForm) (p : String) : Bool := c.operands.any fun (n, _) => paramBase n == p
def CallForm.flag (c : CallForm) (n : String) : Option String := (c.flags.find? (·.1 == n)).map (·.2)
def CallForm.flagIs (c : CallForm) (n v : String) : Bool := c.flag n == some v

private def c1 : Expo := .const 1
private def U1 (r : String) : LeafSpec := .units [(r, c1)]
private def one (r : String) : Expect := .leaves [U1 r]
private def bilinear (p q : String) : Expect := .leaves [.units [(p, c1), (q, c1)]]

/-- parameters that must be commensurable with another parameter take its role -/
def roleOf (func p : String) : String :=
  let b := paramBase p
  match func, b with
  | "numpy.clip", "a_min" | "numpy.clip", "a_max" | "numpy.clip", "min" | "numpy.clip", "max" => "a"
  | "numpy.histogram", "bins" | "numpy.histogram", "range" => "a"
  | "numpy.histogram_bin_edges", "bins" | "numpy.histogram_bin_edges", "range" => "a"
  | "numpy.intersect1d", "ar2" | "numpy.union1d", "ar2" | "numpy.setdiff1d", "ar2" => "ar1"
  | "numpy.linspace", "stop" | "numpy.geomspace", "stop" => "start"
  | "numpy.prod", "initial" => "a"
  | "numpy.var", "mean" => "a"
  | "numpy.diff", "prepend" | "numpy.diff", "append" => "a"
  | "numpy.ediff1d", "to_end" | "numpy.ediff1d", "to_begin" => "ary"
  | "numpy.pad", "**constant_values" | "numpy.pad", "**end_values" => "array"
  | "numpy.insert", "values" => "arr"
  | "numpy.select", "default" => "choicelist"
  | "numpy.where", "y" => "x"
  | "numpy.unwrap", "discont" | "numpy.unwrap", "period" => "p"
  | "numpy.interp", "xp" | "numpy.interp", "period" => "x"
  | "numpy.interp", "left" | "numpy.interp", "right" => "fp"
  | "numpy.isclose", "b" | "numpy.allclose", "b" => "a"
  | "numpy.array_equal", "a2" | "numpy.array_equiv", "a2" => "a1"
  | "numpy.isin", "test_elements" => "element"
  | "numpy.searchsorted", "v" => "a"
  | "numpy.copyto", "src" => "dst"
  | "numpy.fill_diagonal", "val" => "a"
  | "numpy.place", "vals" => "arr"
  | "numpy.put", "v" => "a"
  | "numpy.put_along_axis", "values" => "arr"
  | "numpy.putmask", "values" => "a"
  | "numpy.histogramdd", _ => p          -- every coordinate of `sample` is a role of its own
  | _, _ => b

/-- hand-written homogeneity degrees -/
def expected (c : CallForm) : Expect :=
  match c.func with
  -- text
  | "numpy.array2string" | "numpy.array_repr" => .allUnitless
  -- bilinear products: degree 1 in each factor
  | "numpy.dot" | "numpy.vdot" | "numpy.inner" | "numpy.outer" | "numpy.kron" | "numpy.cross"
  | "numpy.tensordot" => bilinear "a" "b"
  | "numpy.convolve" | "numpy.correlate" => bilinear "a" "v"
  | "numpy.linalg.outer" => bilinear "x1" "x2"
  -- multilinear contraction: one degree per operand
  | "numpy.einsum" => .leaves [.units [("*operands", .nops "*operands")]]
  -- inverses: degree −1
  | "numpy.linalg.inv" | "numpy.linalg.tensorinv" | "numpy.linalg.pinv" => .leaves [.units [("a", .const (-1))]]
  -- A x = b:  x has degree 1 in b and −1 in A
  | "numpy.linalg.solve" | "numpy.linalg.tensorsolve" => .leaves [.units [("b", c1), ("a", .const (-1))]]
  -- lstsq: (x, residuals = Σ|b − A x|², rank, singular values of A)
  | "numpy.linalg.lstsq" =>
    .leaves [.units [("b", c1), ("a", .const (-1))], .units [("b", .const 2)], .unitless, U1 "a"]
  -- determinant of an n×n matrix (the LAST two axes): degree n
  | "numpy.linalg.det" => .leaves [.units [("a", .dim "a" (-1))]]
  -- eigen-decompositions: eigenvalues degree 1, eigenvectors / singular vectors scale-invariant
  | "numpy.linalg.eig" | "numpy.linalg.eigh" => .leaves [U1 "a", .unitless]
  | "numpy.linalg.eigvals" | "numpy.linalg.eigvalsh" => one "a"
  | "numpy.linalg.svd" =>
    if c.flagIs "compute_uv" "False" then one "a" else .leaves [.unitless, U1 "a", .unitless]
  | "numpy.linalg.norm" => one "x"
  -- product of k elements: degree k; a masked product has a different k per element and an
  -- `initial` that carries units is one more factor
  | "numpy.prod" =>
    if !(c.flag "where" == none || c.flagIs "where" "NoValue" || c.flagIs "where" "True") then .mustRefuse
    else if c.has "initial" then .leaves [.units [("a", .plusConst (.reduced "a") 1)]]
    else .leaves [.units [("a", .reduced "a")]]
  | "numpy.cumprod" | "numpy.cumulative_prod" => .mustRefuse
  | "numpy.var" => .leaves [.units [("a", .const 2)]]
  -- linear maps, selections, statistics of location: degree 1
  | "numpy.trace" | "numpy.percentile" | "numpy.quantile" | "numpy.nanpercentile" | "numpy.nanquantile"
  | "numpy.ptp" | "numpy.diff" | "numpy.around" | "numpy.sort_complex" | "numpy.take"
  | "numpy.apply_over_axes" | "numpy.histogram_bin_edges"
  | "numpy.fft.fft" | "numpy.fft.ifft" | "numpy.fft.rfft" | "numpy.fft.irfft" | "numpy.fft.hfft" | "numpy.fft.ihfft"
  | "numpy.fft.fft2" | "numpy.fft.ifft2" | "numpy.fft.rfft2" | "numpy.fft.irfft2"
  | "numpy.fft.fftn" | "numpy.fft.ifftn" | "numpy.fft.rfftn" | "numpy.fft.irfftn" | "numpy.clip" => one "a"
  | "numpy.fft.fftshift" | "numpy.fft.ifftshift" => one "x"
  | "numpy.ediff1d" => one "ary"
  | "numpy.tril" | "numpy.triu" => one "m"
  | "numpy.unwrap" => one "p"
  | "numpy.pad" => one "array"
  | "numpy.insert" => one "arr"
  | "numpy.concatenate" | "numpy.stack" | "numpy.block" => one "arrays"
  | "numpy.vstack" | "numpy.hstack" | "numpy.dstack" | "numpy.column_stack" => one "tup"
  | "numpy.choose" => one "choices"
  | "numpy.select" => one "choicelist"
  | "numpy.union1d" | "numpy.setdiff1d" => one "ar1"
  | "numpy.intersect1d" =>
    if c.flagIs "return_indices" "True" then .leaves [U1 "ar1", .unitless, .unitless] else one "ar1"
  | "numpy.where" => if c.has "x" then one "x" else .allUnitless
  | "numpy.geomspace" => one "start"
  | "numpy.linspace" => if c.flagIs "retstep" "True" then .leaves [U1 "start", U1 "start"] else one "start"
  -- base ** linspace(start, stop): not homogeneous in `base`
  | "numpy.logspace" => if c.has "base" || c.has "start" || c.has "stop" then .mustRefuse else .allUnitless
  -- sin(πx)/(πx) of a dimensional x is not homogeneous
  | "numpy.sinc" => if c.has "x" then .mustRefuse else .allUnitless
  -- interpolation: linear in the ordinates, scale-invariant in the (jointly re-expressed) abscissae
  | "numpy.interp" => one "fp"
  -- ∫ y dx
  | "numpy.trapezoid" =>
    if c.has "x" then bilinear "y" "x" else if c.has "dx" then bilinear "y" "dx" else one "y"
  -- histograms: counts are scale-invariant, weighted counts linear in the weights, a density is
  -- normalised by (Σ weights)·(bin volume): degree −1 per coordinate and 0 in the weights
  | "numpy.histogram" =>
    let counts := if c.flagIs "density" "True" then LeafSpec.units [("a", .const (-1))]
                  else if c.has "weights" then U1 "weights" else .unitless
    .leaves [counts, U1 "a"]
  | "numpy.histogram2d" =>
    let counts := if c.flagIs "density" "True" then LeafSpec.units [("x", .const (-1)), ("y", .const (-1))]
                  else if c.has "weights" then U1 "weights" else .unitless
    .leaves [counts, U1 "x", U1 "y"]
  | "numpy.histogramdd" =>
    let coords := (c.operands.filter fun (n, _) => paramBase n == "sample").map (·.1)
    let counts := if c.flagIs "density" "True" then LeafSpec.units (coords.map fun n => (n, .const (-1)))
                  else if c.has "weights" then U1 "weights" else .unitless
    if coords == ["sample"] then .headRest counts (U1 "sample")
    else .leaves (counts :: coords.map U1)
  -- predicates, indices: scale-invariant
  | "numpy.isclose" | "numpy.allclose" | "numpy.array_equal" | "numpy.array_equiv" | "numpy.isin"
  | "numpy.searchsorted" => .allUnitless
  -- in-place / output functions return None
  | "numpy.copyto" | "numpy.fill_diagonal" | "numpy.place" | "numpy.put" | "numpy.put_along_axis"
  | "numpy.putmask" | "numpy.savetxt" => .allUnitless
  | _ => .missing

/-- functions whose result has the dimension of their (first unit-carrying) input: selection,
    reshaping, joining, sorting, rounding, interpolation, statistics of location and spread, sums -/
def dimensionPreserving : List String := [
  -- selection / indexing
  "numpy.take", "numpy.take_along_axis", "numpy.choose", "numpy.compress", "numpy.extract", "numpy.select",
  "numpy.diagonal", "numpy.diag", "numpy.tril", "numpy.triu", "numpy.trim_zeros", "numpy.delete", "numpy.insert",
  "numpy.append", "numpy.clip", "numpy.unique", "numpy.unique_values", "numpy.intersect1d", "numpy.union1d",
  "numpy.setdiff1d", "numpy.setxor1d", "numpy.linalg.diagonal",
  -- reshaping / joining / copying
  "numpy.reshape", "numpy.ravel", "numpy.squeeze", "numpy.transpose", "numpy.matrix_transpose",
  "numpy.linalg.matrix_transpose", "numpy.swapaxes", "numpy.moveaxis", "numpy.rollaxis", "numpy.expand_dims",
  "numpy.atleast_1d", "numpy.atleast_2d", "numpy.atleast_3d", "numpy.broadcast_to", "numpy.broadcast_arrays",
  "numpy.flip", "numpy.fliplr", "numpy.flipud", "numpy.roll", "numpy.rot90", "numpy.repeat", "numpy.tile", "numpy.resize",
  "numpy.pad", "numpy.concatenate", "numpy.stack", "numpy.vstack", "numpy.hstack", "numpy.dstack", "numpy.column_stack",
  "numpy.block", "numpy.split", "numpy.array_split", "numpy.hsplit", "numpy.vsplit", "numpy.dsplit", "numpy.unstack",
  "numpy.diagflat", "numpy.copy", "numpy.meshgrid", "numpy.fft.fftshift", "numpy.fft.ifftshift", "numpy.real", "numpy.imag",
  "numpy.nan_to_num", "numpy.real_if_close", "numpy.astype", "numpy.apply_along_axis", "numpy.apply_over_axes",
  -- sorting
  "numpy.sort", "numpy.sort_complex", "numpy.partition",
  -- rounding
  "numpy.around", "numpy.round", "numpy.fix",
  -- interpolation / spacing
  "numpy.interp", "numpy.linspace", "numpy.geomspace",
  -- statistics of location
  "numpy.mean", "numpy.median", "numpy.average", "numpy.nanmean", "numpy.nanmedian", "numpy.amax", "numpy.amin",
  "numpy.max", "numpy.min", "numpy.nanmax", "numpy.nanmin", "numpy.percentile", "numpy.quantile", "numpy.nanpercentile",
  "numpy.nanquantile",
  -- statistics of spread
  "numpy.std", "numpy.nanstd", "numpy.ptp",
  -- sums and differences
  "numpy.sum", "numpy.nansum", "numpy.cumsum", "numpy.nancumsum", "numpy.cumulative_sum", "numpy.trace", "numpy.linalg.trace",
  "numpy.diff", "numpy.ediff1d", "numpy.linalg.norm", "numpy.linalg.vector_norm", "numpy.linalg.matrix_norm",
  -- ndarray methods and attributes
  "ndarray.max", "ndarray.min", "ndarray.sum", "ndarray.mean", "ndarray.std", "ndarray.cumsum", "ndarray.conj",
  "ndarray.conjugate", "ndarray.copy", "ndarray.flatten", "ndarray.ravel", "ndarray.squeeze", "ndarray.transpose",
  "ndarray.round", "ndarray.clip", "ndarray.compress", "ndarray.diagonal", "ndarray.trace", "ndarray.repeat",
  "ndarray.reshape", "ndarray.swapaxes", "ndarray.take", "ndarray.astype", "ndarray.choose", "ndarray.T", "ndarray.mT",
  "ndarray.real", "ndarray.imag", "ndarray.__getitem__", "ndarray.__abs__", "ndarray.__neg__", "ndarray.__pos__",
  "ndarray.__copy__", "ndarray.__deepcopy__", "ndarray.__add__", "ndarray.__sub__", "ndarray.__mod__",
  "ndarray.__iadd__", "ndarray.__isub__"
]

/-- the operand whose dimension the result has, when it is not the first one -/
def dimOperand (func : String) : Option String :=
  match func with
  | "numpy.interp" => some "fp"
  | "numpy.choose" | "ndarray.choose" => some "choices"
  | "numpy.select" => some "choicelist"
  | "numpy.compress" | "numpy.extract" => some "a"
  | _ => none

/-- functions whose result is an index, a count, a boolean or a correlation coefficient -/
def unitlessResult : List String := [
  "numpy.argmax", "numpy.argmin", "numpy.argsort", "numpy.argpartition", "numpy.argwhere", "numpy.nonzero",
  "numpy.flatnonzero", "numpy.searchsorted", "numpy.digitize", "numpy.count_nonzero", "numpy.nanargmax",
  "numpy.nanargmin", "numpy.lexsort", "numpy.isclose", "numpy.allclose", "numpy.array_equal", "numpy.array_equiv",
  "numpy.isin", "numpy.all", "numpy.any", "numpy.iscomplex", "numpy.isreal", "numpy.isneginf", "numpy.isposinf",
  "numpy.iscomplexobj", "numpy.isrealobj", "numpy.corrcoef", "numpy.linalg.matrix_rank", "numpy.linalg.cond",
  "numpy.shape", "numpy.ndim", "numpy.size", "numpy.unique_counts", "numpy.may_share_memory", "numpy.shares_memory",
  "numpy.unravel_index", "numpy.ravel_multi_index", "numpy.diag_indices_from", "numpy.tril_indices_from",
  "numpy.triu_indices_from",
  "ndarray.argmax", "ndarray.argmin", "ndarray.argsort", "ndarray.argpartition", "ndarray.nonzero", "ndarray.all",
  "ndarray.any", "ndarray.searchsorted", "ndarray.__len__", "ndarray.__contains__", "ndarray.__bool__", "ndarray.__lt__",
  "ndarray.__ge__", "ndarray.__eq__", "ndarray.__ne__", "ndarray.shape", "ndarray.ndim", "ndarray.size",
  "ndarray.itemsize", "ndarray.nbytes", "ndarray.strides"
]

end Unyt.Ref
