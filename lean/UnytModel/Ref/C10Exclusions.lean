/-
  Literal exclusion lists of the C10 `…_partial` table obligations.  Every entry corresponds to a
  `known` finding of `known_findings.d/C10.json` (key `<system>|<unit>` resp.
  `<system>|<unit>|prefixed`) and is shown to fail by a counterexample theorem in
  `UnytProofs/C10.lean`, so an exclusion can neither be added silently nor outlive its finding.
-/
namespace Unyt.Ref

/-- `(system, atomic unit)`: `Unit(unit).in_base(system)` leaves the system (the EM route returns
    the CGS/SI partner unit whatever the target system is) and flips back when applied again -/
def exclC10 : List (String × String) := [
  ("cgs", "statV"), ("cgs", "statohm"), ("cgs", "V"), ("cgs", "Ω"),
  ("imperial", "G"), ("imperial", "statC"), ("imperial", "statV"), ("imperial", "statohm"),
  ("galactic", "G"), ("galactic", "statC"), ("galactic", "statV"), ("galactic", "statohm"),
  ("solar", "G"), ("solar", "statC"), ("solar", "statV"), ("solar", "statohm"),
  ("geometrized", "G"), ("geometrized", "statC"), ("geometrized", "statV"), ("geometrized", "statohm"),
  ("planck", "G"), ("planck", "statC"), ("planck", "statV"), ("planck", "statohm")]

/-- `(system, unprefixed symbol)`: the SI-prefixed spellings `p ++ unit` leave the system (the
    prefix is carried over to the partner unit, which the system does not declare) -/
def exclC10Prefixed : List (String × String) := [
  ("cgs", "A"), ("cgs", "G"), ("cgs", "statC"), ("cgs", "statA"), ("cgs", "statV"), ("cgs", "statohm"),
  ("cgs", "C"), ("cgs", "T"), ("cgs", "V"), ("cgs", "Ω"),
  ("mks", "G"), ("mks", "statC"), ("mks", "statA"), ("mks", "statV"), ("mks", "statohm"),
  ("imperial", "G"), ("imperial", "statC"), ("imperial", "statA"), ("imperial", "statV"), ("imperial", "statohm"),
  ("galactic", "G"), ("galactic", "statC"), ("galactic", "statA"), ("galactic", "statV"), ("galactic", "statohm"),
  ("solar", "G"), ("solar", "statC"), ("solar", "statA"), ("solar", "statV"), ("solar", "statohm"),
  ("geometrized", "G"), ("geometrized", "statC"), ("geometrized", "statA"), ("geometrized", "statV"), ("geometrized", "statohm"),
  ("planck", "G"), ("planck", "statC"), ("planck", "statA"), ("planck", "statV"), ("planck", "statohm")]

/-- prefixed spellings inside an excluded class that are nevertheless closed (the system declares
    exactly that prefixed unit): micro-gauss in `galactic` (the spellings `uG`, `µG` are mapped to
    the symbol `μG` by the parser) -/
def okC10Prefixed : List (String × String) := [("galactic", "μG")]

end Unyt.Ref
