/-
  UnytModel.Ref.C19 — hand-written reference for property C19: what the verdict of a
  tolerance comparison of two physical quantities *should* be, written from the documented
  contract (docstrings of `allclose_units` / `assert_allclose_units` and of `numpy.isclose`) on
  SI magnitudes.  Independent of the code: no conversion order, no intermediate unit.
-/
import UnytModel.Dim

namespace Unyt.Ref
section
variable {K : Type} [Add K] [Sub K] [Mul K] [Neg K] [OfNat K 0] [LE K] [DecidableLE K]

/-- absolute value -/
def absK (x : K) : K := if 0 ≤ x then x else -x

/-- two SI magnitudes `a` (obtained) and `d` (reference) agree within the tolerances:
    `|a − d| ≤ atol + rtol·|d|`, everything in SI -/
def closeSI (rtol atolSI a d : K) : Prop := absK (a - d) ≤ atolSI + rtol * absK d

/-- the verdict `allclose_units(actual, desired, rtol, atol)` should give, for the element pairs
    `pairs` (readings of `actual` and `desired`, paired by broadcasting):
    `actual`, `desired` and `atol` are commensurable, and every pair of SI magnitudes is close.
    `sa sd st` are the SI scales of the units of `actual`, `desired` and of the unit `atol` is to
    be read in — its own, or `desired`'s when it is a bare number (`atolReadIn`). -/
def allcloseSpec (dimA dimD dimT : Dim) (sa sd st : K) (rtol atolVal : K)
    (pairs : List (K × K)) : Prop :=
  dimA = dimD ∧ dimT = dimD ∧ ∀ p ∈ pairs, closeSI rtol (atolVal * st) (p.1 * sa) (p.2 * sd)

/-- the absolute SI magnitude a reading `x` denotes in a unit with SI scale `scale` whose zero lies
    at the reading `offset` of the SI zero (temperature scales: 0 K is −273.15 °C and −459.67 °F, so
    32 °F ↦ (32 + 459.67)·5/9 K = 273.15 K); for every other unit `offset = 0` and this is
    `x * scale`.  Written from the definition of the scales, not from any conversion routine. -/
def absSI (scale offset x : K) : K := (x - offset) * scale

/-- two absolute magnitudes agree within an absolute tolerance (all three in SI): `|a − d| ≤ atolSI`.
    This is `closeSI` with `rtol = 0` — the only tolerance comparison that does not depend on where a
    scale puts its zero -/
def closeAbs (atolSI a d : K) : Prop := absK (a - d) ≤ atolSI

/-- the unit `(dimension, scale)` an `atol` is to be read in: "If units are attached, they must
    be consistent with the units of actual and desired. If no units are attached, assumes the
    same units as desired." -/
def atolReadIn (own : Option (Dim × K)) (desired : Dim × K) : Dim × K := own.getD desired

end
end Unyt.Ref
