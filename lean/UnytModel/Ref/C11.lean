/-
  UnytModel.Ref.C11 — hand-written reference for the persistence routes (C11): what each route of
  unyt persists and rebuilds, written down from reading the source (array.py `__reduce__`,
  `__setstate__`, `copy`, `__deepcopy__`, `savetxt`, `loadtxt`; unit_object.py `Unit.copy`,
  `__deepcopy__`, `__slots__`; unit_registry.py `to_json`, `from_json`, `__deepcopy__`,
  `_correct_old_unit_registry`) — never generated.  `UnytProofs/C11.lean: active_routes_classified`
  (kernel-decided) ties the table regenerated from the live code to one of the two variants below.
-/
import UnytModel.PersistCfg

namespace Unyt.Ref
open Unyt.Persist

/-- the same `Unit` object, hence the same registry: nothing can change -/
def c11Shared : RouteCfg :=
  { keepsValues := true, keepsDtype := true, keepsClass := true,
    unitSame := true, unitByDisplayStr := false, unitDataCarried := true, unitCanon := .keep,
    regSame := true, keepsAdded := true, keepsModifiedDefault := true, keepsRemoved := true,
    userRowCanon := .keep, dfltRowCanon := .keep, keepsUnitSystem := true }

/-- the present code (pinned tree + the `fix:` commits up to 2f9afcb).  `unitByDisplayStr` is
    `false` on every route since acfd34f: the routes that send `str(units)` (pickle of an array,
    savetxt, `Unit(str(u))`) still do, but the parser now reads `Δ°C` / `Δ°F` back; the flag stands
    for "the string form cannot name delta_degC / delta_degF" and is probed with exactly that unit. -/
def c11AsIs : RouteTable := [
  -- `(str(self.units), self.units.registry.lut)` pickled; `_correct_old_unit_registry` re-adds the
  -- default symbols that are missing; a NEW `UnitRegistry(lut=…, add_default_symbols=False)` —
  -- `unit_system` not passed; `Unit(str, registry=…)` recomputes the unit from the unpickled table,
  -- whose sympy symbols are equal but not identical to the singletons
  (.pickleArray, { c11Shared with
      unitSame := false, unitDataCarried := false,
      unitCanon := .lose, regSame := false, keepsRemoved := false, userRowCanon := .lose, dfltRowCanon := .lose,
      keepsUnitSystem := false }),
  -- default slot pickling: every slot travels, the registry object included (its `__dict__`)
  (.pickleUnit, { c11Shared with
      unitSame := false, unitCanon := .lose, regSame := false,
      userRowCanon := .lose, dfltRowCanon := .lose }),
  (.arrayCopy, c11Shared),
  (.copyCopy, c11Shared),
  -- `Unit.copy(deep=True)`: data passed on, `deepcopy(dimensions)`; `UnitRegistry.__deepcopy__` is
  -- `type(self)(lut=deepcopy(lut))` — `add_default_symbols` stays True, so the default rows are
  -- written over the copy (a modified default symbol is reset, a removed one is back), no `unit_system`
  (.deepcopyArray, { c11Shared with
      unitSame := false, unitCanon := .lose, regSame := false,
      keepsModifiedDefault := false, keepsRemoved := false, userRowCanon := .lose, dfltRowCanon := .intern,
      keepsUnitSystem := false }),
  -- `Unit.copy()`: `copy.copy(registry)` shares `lut`; `deepcopy(dimensions)`
  (.unitCopy, { c11Shared with
      unitSame := false, unitCanon := .lose }),
  (.deepcopyUnit, { c11Shared with
      unitSame := false, unitCanon := .lose, regSame := false,
      keepsModifiedDefault := false, keepsRemoved := false, userRowCanon := .lose, dfltRowCanon := .intern,
      keepsUnitSystem := false }),
  -- `str(array.units)` in a header line, `%.18e` numbers; `loadtxt` builds float arrays in the
  -- default registry
  (.saveLoadTxt, { c11Shared with
      keepsDtype := false, keepsClass := false, unitSame := false,
      unitDataCarried := false, unitCanon := .intern, regSame := false,
      keepsAdded := false, keepsModifiedDefault := false, keepsRemoved := false,
      dfltRowCanon := .intern, keepsUnitSystem := false }),
  (.unitOfStr, { c11Shared with
      unitSame := false, unitDataCarried := false,
      unitCanon := .intern }),
  -- `to_json` writes `str(dimensions)`, `from_json` reads it back with
  -- `sympify(…, locals=vars(unyt.dimensions))`: the singletons; missing defaults re-added; no `unit_system`
  (.registryJson, { c11Shared with
      unitSame := false, unitDataCarried := false, unitCanon := .intern,
      regSame := false, keepsRemoved := false, userRowCanon := .intern, dfltRowCanon := .intern,
      keepsUnitSystem := false })
]

/-- `lose` becomes `intern` -/
def CanonEff.reinterned (e : CanonEff) : CanonEff := if e = .lose then .intern else e

/-- the code after the candidate fix (dimensions re-interned in `__setstate__`, `Unit.copy` /
    `__deepcopy__`, the `Unit` slot state and `UnitRegistry.__deepcopy__`): every `lose` is `intern`,
    nothing else changes -/
def c11Reinterned : RouteTable :=
  c11AsIs.map fun p =>
    (p.1, { p.2 with unitCanon := CanonEff.reinterned p.2.unitCanon,
                     userRowCanon := CanonEff.reinterned p.2.userRowCanon,
                     dfltRowCanon := CanonEff.reinterned p.2.dfltRowCanon })

end Unyt.Ref
