/-
  UnytModel.Ref.C11 — hand-written reference for the persistence routes (C11): what each route of
  unyt persists and rebuilds, written down from reading the source (array.py `__reduce__`,
  `__setstate__`, `copy`, `__deepcopy__`, `savetxt`, `loadtxt`; unit_object.py `Unit.copy`,
  `__deepcopy__`, `__slots__`; unit_registry.py `to_json`, `from_json`, `__deepcopy__`,
  `_correct_old_unit_registry`) — never generated.  `UnytProofs/C11.lean: active_routes_classified`
  (kernel-decided) ties the table regenerated from the live code to one of the two variants below.
-/
import UnytModel.PersistCfg

namespace Unyt.Ref
open Unyt.Persist

/-- the same `Unit` object, hence the same registry: nothing can change -/
def c11Shared : RouteCfg :=
  { keepsValues := true, keepsDtype := true, keepsClass := true,
    unitSame := true, unitByDisplayStr := false, unitDataCarried := true, unitCanon := .keep,
    regSame := true, keepsAdded := true, keepsModifiedDefault := true, keepsFlagOnlyDefault := true, keepsRemoved := true,
    userRowCanon := .keep, dfltRowCanon := .keep, keepsUnitSystem := true }

/-- the present code: pinned tree + the `fix:` commits, including the five C11 ones
    (fixes/C11-01…05): dimension symbols are re-interned on every restore route
    (`_intern_dimensions` in `Unit.copy`, `Unit.__setstate__`, `_correct_old_unit_registry`,
    `UnitRegistry.__deepcopy__` / `__setstate__`), a deep-copied registry keeps its table and its unit
    system, derived (written-back) rows are not persisted, a unit built with explicit data is not
    stored in the string cache.  `unitByDisplayStr` is `false` on every route since acfd34f: the
    routes that send `str(units)` still do, but the parser reads `Δ°C` / `Δ°F` back. -/
def c11AsIs : RouteTable := [
  -- `(str(self.units), lut without derived rows)` pickled; `_correct_old_unit_registry` re-interns
  -- every row and re-adds the default symbols that are missing; a NEW
  -- `UnitRegistry(lut=…, add_default_symbols=False)` — `unit_system` not passed;
  -- `Unit(str, registry=…)` recomputes the unit from that table
  (.pickleArray, { c11Shared with
      unitSame := false, unitDataCarried := false,
      unitCanon := .intern, regSame := false, keepsRemoved := false, userRowCanon := .intern, dfltRowCanon := .intern,
      keepsUnitSystem := false }),
  -- default slot pickling: every slot travels, the registry object included (its `__dict__`);
  -- `Unit.__setstate__` / `UnitRegistry.__setstate__` re-intern
  (.pickleUnit, { c11Shared with
      unitSame := false, unitCanon := .intern, regSame := false,
      userRowCanon := .intern, dfltRowCanon := .intern }),
  (.arrayCopy, c11Shared),
  (.copyCopy, c11Shared),
  -- `Unit.copy(deep=True)`: data passed on, dimensions re-interned; `UnitRegistry.__deepcopy__` is
  -- `type(self)(lut=<deep copy, re-interned>, add_default_symbols=False, unit_system=self.unit_system)`
  (.deepcopyArray, { c11Shared with
      unitSame := false, unitCanon := .intern, regSame := false,
      userRowCanon := .intern, dfltRowCanon := .intern }),
  -- `Unit.copy()`: `copy.copy(registry)` shares `lut` (whose rows `__setstate__` re-interns in place)
  (.unitCopy, { c11Shared with
      unitSame := false, unitCanon := .intern, userRowCanon := .intern, dfltRowCanon := .intern }),
  (.deepcopyUnit, { c11Shared with
      unitSame := false, unitCanon := .intern, regSame := false,
      userRowCanon := .intern, dfltRowCanon := .intern }),
  -- `str(array.units)` in a header line, `%.18e` numbers; `loadtxt` builds float arrays in the
  -- default registry
  (.saveLoadTxt, { c11Shared with
      keepsDtype := false, keepsClass := false, unitSame := false,
      unitDataCarried := false, unitCanon := .intern, regSame := false,
      keepsAdded := false, keepsModifiedDefault := false, keepsFlagOnlyDefault := false, keepsRemoved := false,
      dfltRowCanon := .intern, keepsUnitSystem := false }),
  (.unitOfStr, { c11Shared with
      unitSame := false, unitDataCarried := false,
      unitCanon := .intern }),
  -- `to_json` writes `str(dimensions)` (derived rows left out), `from_json` reads it back with
  -- `sympify(…, locals=vars(unyt.dimensions))`: the singletons; missing defaults re-added; no `unit_system`
  (.registryJson, { c11Shared with
      unitSame := false, unitDataCarried := false, unitCanon := .intern,
      regSame := false, keepsRemoved := false, userRowCanon := .intern, dfltRowCanon := .intern,
      keepsUnitSystem := false })
]

end Unyt.Ref
