/-
  UnytModel.Dtype — the dtype-selection logic of `unyt/array.py` and the value path of a
  conversion (which operations touch the numbers, in which precision, in which order).

  Models (file:function)
    array.py:unyt_array.in_units / to            (copy route, lines 895-933)
    array.py:unyt_array.to_value                 (lines 1015-1022)
    array.py:unyt_array.convert_to_units         (in-place route, lines 700-750)
    array.py:unyt_array.in_base / in_cgs / in_mks (lines 1042-1061)
    array.py:unyt_array.convert_to_base/cgs/mks  (= convert_to_units on the base equivalent)
    array.py:unyt_array.to_equivalent / convert_to_equivalent (lines 1121-1165)
    array.py:unyt_array.__array_ufunc__          (out= promotion 1817-1823, second-operand
                                                  conversion 1955-1968)
  What belongs to unyt is written out here; what belongs to NumPy (which dtype strings exist,
  what `int_array * python_float` is, which in-place casts are allowed, `result_type`) is a
  parameter `NumpyFacts`, instantiated from the live NumPy by the translator
  (`Generated/DtypeTables.lean`).  The constants that appear in unyt's code (`max(2, …)`,
  `("u", "i")`, `dsize == 1`, `"f" + str(…)`, `LARGE_INPUT`) are the parameter `DtypeRules`,
  regenerated from the source (`ast`) and the live `LARGE_INPUT` on every run.

  No Mathlib.  Everything is total and kernel-reducible (`decide` runs over the dtype universe).
-/
import UnytModel.Lut

namespace Unyt

/-- `dtype.kind` (the five kinds that reach the conversion code with numeric data) -/
inductive DKind
  | i | u | f | c | b
deriving DecidableEq, Repr, Inhabited

def DKind.char : DKind → String
  | .i => "i" | .u => "u" | .f => "f" | .c => "c" | .b => "b"

def DKind.parse (s : String) : Option DKind :=
  if s == "i" then some .i else if s == "u" then some .u else if s == "f" then some .f
  else if s == "c" then some .c else if s == "b" then some .b else none

/-- a NumPy dtype as the conversion code sees it: `(dtype.kind, dtype.itemsize)` -/
structure Dtype where
  kind : DKind
  size : Nat
deriving DecidableEq, Repr, Inhabited

namespace Dtype
def isInt (d : Dtype) : Bool := d.kind == .i || d.kind == .u
def str (d : Dtype) : String := d.kind.char ++ toString d.size
/-- item size of one real component (a complex number is two floats) -/
def compSize (d : Dtype) : Nat := if d.kind == .c then d.size / 2 else d.size
end Dtype

/-- outcome of `float(zero_dimensional_array)` -/
inductive PyFloatOutcome
  | ok | okComplexWarning | typeError
deriving DecidableEq, Repr, Inhabited

/-- The NumPy facts the conversion code relies on (platform data, not unyt logic). -/
structure NumpyFacts where
  /-- every `(kind, itemsize)` for which `np.dtype(kind + str(itemsize))` exists -/
  dtypes : List Dtype
  /-- dtype of `array * python_float` (NEP 50 weak scalar) -/
  mulPyFloat : List (Dtype × Dtype)
  /-- dtypes for which `array *= python_float` is allowed (`same_kind` casting of the result) -/
  imulPyFloatOk : List Dtype
  /-- dtype of `np.add(a0, a1)` (also subtract / maximum / minimum / fmax / fmin) -/
  resultType : List ((Dtype × Dtype) × Dtype)
  /-- `np.can_cast(from, to, "same_kind")` — what a ufunc needs to write into `out=` -/
  canCastSameKind : List (Dtype × Dtype)
  /-- `float(np.zeros((), dtype))` -/
  floatOf0d : List (Dtype × PyFloatOutcome)
deriving Repr

/-- The constants in unyt's own dtype code (regenerated from `/repo/unyt/array.py`). -/
structure DtypeRules where
  /-- `dsize = max(2, self.dtype.itemsize)` in `in_units` -/
  copyMinSize : Nat
  /-- `self.dtype.kind in ("u", "i")` guarding the LARGE_INPUT check of `in_units` -/
  copyIntKinds : List DKind
  /-- `"c" if self.dtype.kind == "c" else "f"` in `in_units`: (then, test, else) -/
  copyTestKind : DKind
  copyThenKind : DKind
  copyElseKind : DKind
  /-- `self.dtype.kind in ("u", "i")` in `convert_to_units` -/
  inplaceIntKinds : List DKind
  /-- `if dsize == 1: raise ValueError` -/
  inplaceRefuseSize : Nat
  /-- `new_dtype = "f" + str(dsize)` in `convert_to_units` -/
  inplaceKind : DKind
  /-- kind of the dtype the second operand of a mixed-unit binary ufunc is converted in
      (`__array_ufunc__`): `"c" if inp1.dtype.kind == "c" else "f"` as (test, then, else); the
      constant form `np.dtype("f" + str(itemsize))` is `then = else = f` -/
  binaryTestKind : DKind
  binaryThenKind : DKind
  binaryElseKind : DKind
  /-- the LARGE_INPUT comparison: `true` for `np.abs(v) > large`, `false` for `>=` -/
  largeStrict : Bool
  /-- `in_base` carries the dtype block of `in_units` (item-size rule and LARGE_INPUT test) instead
      of the bare `self.v * conv` -/
  inBaseItemSize : Bool
  /-- `to_value` on a quantity returns `complex(v)` for complex data instead of `float(v)` -/
  toValueComplex : Bool
  /-- `out.dtype.kind in ("u", "i")`, `"f" + str(out.dtype.itemsize)` in `__array_ufunc__` -/
  outIntKinds : List DKind
  outKind : DKind
  /-- `LARGE_INPUT` (itemsize ↦ threshold) -/
  largeInput : List (Nat × Nat)
deriving Repr

def lookupD {β : Type} (t : List (Dtype × β)) (d : Dtype) : Option β :=
  match t with
  | [] => none
  | (k, v) :: r => if k = d then some v else lookupD r d

def lookupDD {β : Type} (t : List ((Dtype × Dtype) × β)) (a b : Dtype) : Option β :=
  match t with
  | [] => none
  | ((k1, k2), v) :: r => if k1 = a ∧ k2 = b then some v else lookupDD r a b

section logic
variable (N : NumpyFacts) (P : DtypeRules)

/-- `np.dtype(kind + str(size))`: `TypeError: data type 'f1' not understood` when there is none -/
def npDtype (k : DKind) (size : Nat) : Except Err Dtype :=
  if N.dtypes.contains ⟨k, size⟩ then .ok ⟨k, size⟩ else .error .TypeError

/-- dtype of `arr * python_float`; `Other` if the dtype is outside the universe -/
def mulPyFloatDtype (d : Dtype) : Except Err Dtype :=
  match lookupD N.mulPyFloat d with
  | some r => .ok r
  | none => .error .Other

def resultTypeOf (a b : Dtype) : Except Err Dtype :=
  match lookupDD N.resultType a b with
  | some r => .ok r
  | none => .error .TypeError

/-- `unyt_array.in_units` / `.to` (also the EM branch: same dtype code):
    `dsize = max(2, itemsize); kind = "c" if kind == "c" else "f"; np.dtype(kind + str(dsize))` -/
def inUnitsDtype (d : Dtype) : Except Err Dtype :=
  let dsize := max P.copyMinSize d.size
  let k := if d.kind = P.copyTestKind then P.copyThenKind else P.copyElseKind
  npDtype N k dsize

/-- what `to_value` hands back -/
inductive ValueOut
  | ndarray (d : Dtype)
  | pyfloat
  | pycomplex
deriving DecidableEq, Repr

/-- `unyt_array.to_value(units)`: `.in_units(units).value`, and on a `unyt_quantity`
    `complex(v)` for complex data (when the code has that branch), `float(v)` otherwise -/
def toValueOut (d : Dtype) (isQuantity : Bool) : Except Err ValueOut :=
  match inUnitsDtype N P d with
  | .error e => .error e
  | .ok r =>
    if isQuantity then
      if P.toValueComplex && r.kind == .c then .ok .pycomplex else
      match lookupD N.floatOf0d r with
      | some .typeError => .error .TypeError
      | some _ => .ok .pyfloat
      | none => .error .Other
    else .ok (.ndarray r)

/-- `unyt_array.convert_to_units` (and `convert_to_base/cgs/mks`, which call it):
    integer buffers are relabelled `"f" + str(itemsize)` in place (refused for 1-byte items);
    everything else is multiplied in place, which NumPy refuses when the float result cannot
    be cast back (`UFuncTypeError`, a `TypeError`) -/
def convertToUnitsDtype (d : Dtype) : Except Err Dtype :=
  if P.inplaceIntKinds.contains d.kind then
    if d.size = P.inplaceRefuseSize then .error .ValueError
    else npDtype N P.inplaceKind d.size
  else if N.imulPyFloatOk.contains d then .ok d
  else .error .TypeError

/-- `unyt_array.in_base` (also `in_cgs`, `in_mks`): either the dtype block of `in_units`
    (`np.asarray(self.v * conv, dtype=new_dtype)`), or the bare `self.v * conv` — NumPy's promotion
    of the data with a Python float, no dtype code of unyt's own -/
def inBaseDtype (d : Dtype) : Except Err Dtype :=
  if P.inBaseItemSize then inUnitsDtype N P d else mulPyFloatDtype N d

/-- `out=` handling of `__array_ufunc__` (`_float_out_view`): an integer `out` buffer is relabelled to
    `"f" + str(itemsize)` (TypeError `'f1'` for 1-byte items) -/
def outPromote (o : Dtype) : Except Err Dtype :=
  if P.outIntKinds.contains o.kind then npDtype N P.outKind o.size else .ok o

/-- the dtype the second operand of a mixed-unit binary ufunc is converted to:
    `np.dtype(kind + str(inp1.dtype.itemsize))` with `kind = "c" if inp1.dtype.kind == "c" else "f"` -/
def binaryOperandDtype (d1 : Dtype) : Except Err Dtype :=
  npDtype N (if d1.kind = P.binaryTestKind then P.binaryThenKind else P.binaryElseKind) d1.size

def boolDtype : Dtype := ⟨.b, 1⟩
def float64 : Dtype := ⟨.f, 8⟩

/-- result dtype of `ufunc(x0, x1)` for the unit-preserving arithmetic ufuncs and the comparisons;
    `mixed` = the operands carry different (commensurable) units, i.e. the conversion branch runs -/
def binaryResultDtype (d0 d1 : Dtype) (mixed comparison : Bool) : Except Err Dtype :=
  match (if mixed then binaryOperandDtype N P d1 else .ok d1) with
  | .error e => .error e
  | .ok c =>
    match resultTypeOf N d0 c with
    | .error e => .error e
    | .ok r => if comparison then .ok boolDtype else .ok r

/-- `ufunc(x0, x1, out=o)`: the operand conversion comes first (with the unit checks), then the
    `out` promotion (`_float_out_view(out)`, called just before the kernel), then NumPy must find a
    loop and be able to write the result into the (promoted) buffer -/
def binaryOutDtype (d0 d1 o : Dtype) (mixed : Bool) : Except Err Dtype :=
  match (if mixed then binaryOperandDtype N P d1 else .ok d1) with
  | .error e => .error e
  | .ok c =>
    match outPromote N P o with
    | .error e => .error e
    | .ok o' =>
      match resultTypeOf N d0 c with
      | .error e => .error e
      | .ok r => if N.canCastSameKind.contains (r, o') then .ok o' else .error .TypeError

/-- `x.to_equivalent(unit, equiv)` across dimensions: the equivalence's formula runs ufuncs
    against float64 constants (NumPy promotion), then `in_units` -/
def equivCopyDtype (d : Dtype) : Except Err Dtype :=
  match resultTypeOf N d float64 with
  | .error e => .error e
  | .ok m => inUnitsDtype N P m

/-- `x.convert_to_equivalent(unit, equiv)` across dimensions: the formula runs with `out=x`
    (promotion of an integer buffer), then `convert_to_units` -/
def equivInplaceDtype (d : Dtype) : Except Err Dtype :=
  match outPromote N P d with
  | .error e => .error e
  | .ok o =>
    match resultTypeOf N o float64 with
    | .error e => .error e
    | .ok r =>
      if N.canCastSameKind.contains (r, o) then convertToUnitsDtype N P o else .error .TypeError

/-! ### the LARGE_INPUT warning -/

/-- `np.abs` on a signed integer array wraps at the most negative value -/
def npAbs (d : Dtype) (v : Int) : Int :=
  if d.kind = .i ∧ v = -((2 : Int) ^ (8 * d.size - 1)) then v else Int.ofNat v.natAbs

/-- `large = LARGE_INPUT.get(dsize, 0); large and np.any(np.abs(values) >= large)` (`>` when
    `largeStrict`) -/
def largeWarns (dsize : Nat) (d : Dtype) (vs : List Int) : Bool :=
  match P.largeInput.lookup dsize with
  | none => false
  | some large => large != 0 && vs.any (fun v =>
      if P.largeStrict then decide (npAbs d v > Int.ofNat large) else decide (npAbs d v ≥ Int.ofNat large))

/-- copy route: checked for integer kinds with `dsize = max(2, itemsize)` -/
def inUnitsWarns (d : Dtype) (vs : List Int) : Bool :=
  P.copyIntKinds.contains d.kind && largeWarns P (max P.copyMinSize d.size) d vs

/-- in-place route: checked for integer kinds with `dsize = itemsize` (after the 1-byte refusal) -/
def convertToUnitsWarns (d : Dtype) (vs : List Int) : Bool :=
  P.inplaceIntKinds.contains d.kind && d.size != P.inplaceRefuseSize && largeWarns P d.size d vs

end logic

/-! ### conversion routes as one function (what the driver and the theorems run) -/

inductive Route
  | to | inUnits | toValue | inBase | convertToUnits | convertToBase
  | toEquivalent | convertToEquivalent
deriving DecidableEq, Repr, Inhabited

def Route.all : List Route :=
  [.to, .inUnits, .toValue, .inBase, .convertToUnits, .convertToBase, .toEquivalent, .convertToEquivalent]

def Route.parse (s : String) : Option Route :=
  if s == "to" then some .to else if s == "in_units" then some .inUnits
  else if s == "to_value" then some .toValue else if s == "in_base" then some .inBase
  else if s == "convert_to_units" then some .convertToUnits
  else if s == "convert_to_base" then some .convertToBase
  else if s == "to_equivalent" then some .toEquivalent
  else if s == "convert_to_equivalent" then some .convertToEquivalent else none

/-- the route mutates the array it is called on -/
def Route.inPlace : Route → Bool
  | .convertToUnits | .convertToBase | .convertToEquivalent => true
  | _ => false

/-- dtype of the data a route produces (for `to_value` on a quantity the data is a Python float /
    complex, reported as float64 / complex128) -/
def routeDtype (N : NumpyFacts) (P : DtypeRules) (r : Route) (d : Dtype) (isQuantity : Bool) :
    Except Err Dtype :=
  match r with
  | .to | .inUnits => inUnitsDtype N P d
  | .toValue =>
    match toValueOut N P d isQuantity with
    | .error e => .error e
    | .ok (.ndarray x) => .ok x
    | .ok .pyfloat => .ok float64
    | .ok .pycomplex => .ok ⟨.c, 16⟩
  | .inBase => inBaseDtype N P d
  | .convertToUnits | .convertToBase => convertToUnitsDtype N P d
  | .toEquivalent => equivCopyDtype N P d
  | .convertToEquivalent => equivInplaceDtype N P d

/-- the LARGE_INPUT warning per route: does unyt's own code issue the "Overflow encountered while
    converting" RuntimeWarning?  `in_units` and `convert_to_units` contain the test,
    `in_base` only when it carries the dtype block of `in_units`; across dimensions the equivalence formulas turn
    integers into floats through NumPy promotion / `out=` promotion before any test sees them. -/
def routeWarns (P : DtypeRules) (r : Route) (d : Dtype) (vs : List Int) : Bool :=
  match r with
  | .to | .inUnits | .toValue => inUnitsWarns P d vs
  | .convertToUnits | .convertToBase => convertToUnitsWarns P d vs
  | .inBase => P.inBaseItemSize && inUnitsWarns P d vs
  | .toEquivalent | .convertToEquivalent => false

/-! ### values: which operations touch the numbers -/

/-- one element of the data -/
inductive Elem (K : Type)
  | int (n : Int)
  | real (x : K)
  | cplx (re im : K)
deriving Repr, DecidableEq

/-- the arithmetic of the carrier: the embedding of integers and the rounding ("cast") of a real
    component to a float/complex dtype.  At `K = Float` these are IEEE conversions, over an exact
    field `cast` is the identity. -/
structure NumOps (K : Type) where
  ofInt : Int → K
  cast : Dtype → K → K

section values
variable {K : Type} [Mul K] [Sub K] [BEq K] [OfNat K 0] (A : NumOps K)

/-- `np.asarray(e, dtype=d)` for a float or complex target `d` (complex → float discards the
    imaginary part, which is what NumPy does, with a ComplexWarning) -/
def castElem (d : Dtype) : Elem K → Elem K
  | .int n => if d.kind = .c then .cplx (A.cast d (A.ofInt n)) 0 else .real (A.cast d (A.ofInt n))
  | .real x => if d.kind = .c then .cplx (A.cast d x) 0 else .real (A.cast d x)
  | .cplx re im => if d.kind = .c then .cplx (A.cast d re) (A.cast d im) else .real (A.cast d re)

/-- `e * f` computed in dtype `d` with `f` a Python float (cast to `d` first: weak scalar) -/
def mulIn (d : Dtype) (e : Elem K) (f : K) : Elem K :=
  match castElem A d e with
  | .real x => .real (A.cast d (x * A.cast d f))
  | .cplx re im => .cplx (A.cast d (re * A.cast d f)) (A.cast d (im * A.cast d f))
  | .int n => .int n

/-- `e - o` computed in dtype `d` with `o` a Python float -/
def subIn (d : Dtype) (e : Elem K) (o : K) : Elem K :=
  match castElem A d e with
  | .real x => .real (A.cast d (x - A.cast d o))
  | .cplx re im => .cplx (A.cast d (re - A.cast d o)) im
  | .int n => .int n

/-- `if offset:` — `None` and `0.0` are both falsy -/
def offsetTruthy (o : Option K) : Option K :=
  match o with
  | some v => if v != 0 then some v else none
  | none => none

/-- copy route (`in_units`): `ret = np.asarray(self.ndview * factor, dtype=new)`;
    `if offset: np.subtract(ret, offset, ret)`.  `m` = dtype of the product (`mulPyFloat`),
    `new` = the selected result dtype. -/
def copyValue (m new : Dtype) (e : Elem K) (f : K) (o : Option K) : Elem K :=
  let ret := castElem A new (mulIn A m e f)
  match offsetTruthy o with
  | some v => subIn A new ret v
  | none => ret

/-- in-place route (`convert_to_units`): integer data are first cast to the new float dtype
    (`values.astype(new)` copied into the relabelled buffer), then `values *= factor`;
    `if offset: np.subtract(values, offset, values)` -/
def inplaceValue (new : Dtype) (e : Elem K) (f : K) (o : Option K) : Elem K :=
  let v := mulIn A new (castElem A new e) f
  match offsetTruthy o with
  | some w => subIn A new v w
  | none => v

/-- `in_base`: `ret = self.v * conv; if offset: ret = ret - offset`, all in dtype `m` -/
def inBaseValue (m : Dtype) (e : Elem K) (f : K) (o : Option K) : Elem K :=
  let v := mulIn A m e f
  match offsetTruthy o with
  | some w => subIn A m v w
  | none => v

/-- binary ufunc, second operand: `conv = new.type(conv); inp1 = np.asarray(inp1, dtype=new) * conv` -/
def binaryOperandValue (new : Dtype) (e : Elem K) (f : K) : Elem K :=
  mulIn A new (castElem A new e) f

end values

/-- the whole copy route on one element: dtype selection and value -/
def inUnitsElem {K : Type} [Mul K] [Sub K] [BEq K] [OfNat K 0] (N : NumpyFacts) (P : DtypeRules)
    (A : NumOps K) (d : Dtype) (e : Elem K) (f : K) (o : Option K) : Except Err (Dtype × Elem K) :=
  match inUnitsDtype N P d, mulPyFloatDtype N d with
  | .ok new, .ok m => .ok (new, copyValue A m new e f o)
  | .error e, _ => .error e
  | _, .error e => .error e

/-- the whole in-place route on one element -/
def convertToUnitsElem {K : Type} [Mul K] [Sub K] [BEq K] [OfNat K 0] (N : NumpyFacts) (P : DtypeRules)
    (A : NumOps K) (d : Dtype) (e : Elem K) (f : K) (o : Option K) : Except Err (Dtype × Elem K) :=
  match convertToUnitsDtype N P d with
  | .ok new => .ok (new, inplaceValue A new e f o)
  | .error e => .error e

/-- `in_base` on one element: with the dtype block it is the copy route
    (`np.asarray(self.v * conv, dtype=new)`, then `ret - offset` in `new`) -/
def inBaseElem {K : Type} [Mul K] [Sub K] [BEq K] [OfNat K 0] (N : NumpyFacts) (P : DtypeRules)
    (A : NumOps K) (d : Dtype) (e : Elem K) (f : K) (o : Option K) : Except Err (Dtype × Elem K) :=
  if P.inBaseItemSize then inUnitsElem N P A d e f o
  else
    match inBaseDtype N P d with
    | .ok m => .ok (m, inBaseValue A m e f o)
    | .error e => .error e

/-- second operand of a mixed-unit binary ufunc on one element -/
def binaryOperandElem {K : Type} [Mul K] [Sub K] [BEq K] [OfNat K 0] (N : NumpyFacts) (P : DtypeRules)
    (A : NumOps K) (d1 : Dtype) (e : Elem K) (f : K) : Except Err (Dtype × Elem K) :=
  match binaryOperandDtype N P d1 with
  | .ok new => .ok (new, binaryOperandValue A new e f)
  | .error e => .error e

/-! ### the IEEE instance (what the driver runs) -/

/-- round to nearest, ties to even, of a `Float` to an integer-valued `Float` -/
def rintEven (y : Float) : Float :=
  let fl := y.floor
  let d := y - fl
  if d < 0.5 then fl
  else if d > 0.5 then fl + 1
  else if (fl / 2).floor * 2 == fl then fl else fl + 1

/-- IEEE binary16 rounding of a double (subnormals and overflow included) -/
def roundF16 (x : Float) : Float :=
  if x.isNaN || x.isInf || x == 0 then x
  else
    let e := x.frExp.2
    let q : Int := if e - 11 < -24 then -24 else e - 11
    let r := rintEven (x.scaleB (-q))
    let z := r.scaleB q
    if z.abs > 65504 then (if x > 0 then (1.0 / 0.0) else (-1.0 / 0.0)) else z

/-- cast of a real component to the component type of `d` (binary16/32/64; wider types are not
    representable in the driver and are left unrounded — the harness does not compare them) -/
def castFloat (d : Dtype) (x : Float) : Float :=
  if d.kind == .f || d.kind == .c then
    if d.compSize == 2 then roundF16 x
    else if d.compSize == 4 then x.toFloat32.toFloat
    else x
  else x

def floatOps : NumOps Float := ⟨Float.ofInt, castFloat⟩

/-- exact arithmetic: casts are identities (used with `K = Rat` and in the general theorems) -/
def exactOps (K : Type) (ofInt : Int → K) : NumOps K := ⟨ofInt, fun _ x => x⟩

end Unyt
