/-
  UnytModel.UnitCache — the per-registry cache of unit objects in the string branch of
  `Unit.__new__` (`unyt/unit_object.py:206-221, 290-293`) as a state machine.

      if isinstance(unit_expr, bytes): unit_expr = unit_expr.decode("utf-8")      (UnitParseError if it fails)
      if registry and unit_expr in registry._unit_object_cache:                   -- HIT: nothing else runs
          return registry._unit_object_cache[unit_expr]
      unit_cache_key = unit_expr
      unit_expr = parse_unyt_expr(unit_expr)                                      (may raise: nothing is stored)
      …
      if base_value is not None: unit_cache_key = None                            -- data handed in (Unit.copy): not stored
      …
      if unit_cache_key is not None: registry._unit_object_cache[unit_cache_key] = obj

  and `UnitRegistry.add / remove / modify` (`unyt/unit_registry.py`) call `_unit_object_cache.clear()`.
  The key is the text as given (after decoding, before any rewriting).  The machine is generic in
  the parsers (`parse`: with the table look-up, `parseRaw`: without, for calls that hand unit data
  in) and the decoder (`decode`); the driver instantiates them with `Parse.parseChars`,
  `parseCharsRaw` and `decodeUtf8` (opcode `c20.history`).
-/
namespace Unyt.UnitCache

abbrev Text := List Char

/-- `registry._unit_object_cache`: most recent entry first -/
abbrev Cache (α : Type) := List (Text × α)

def lookup {α : Type} (t : Text) : Cache α → Option α
  | [] => none
  | (k, v) :: r => if k = t then some v else lookup t r

/-- one event on a registry -/
inductive Call where
  | str (t : Text)          -- `Unit(t, registry=reg)`
  | bytes (b : List Nat)    -- `Unit(b, registry=reg)`
  | withData (t : Text)     -- `Unit(t, base_value=…, dimensions=…, registry=reg)` (what `Unit.copy` does)
  | clear                   -- `reg.add(…)`, `reg.remove(…)`, `reg.modify(…)`
deriving Repr, DecidableEq

/-- what a call returns: a cached object, a newly built one, an error, or nothing (clear) -/
inductive Outcome (ε α : Type) where
  | hit (u : α)
  | built (u : α)
  | error (e : ε)
  | done
deriving Repr, DecidableEq

/-- the value a call hands back, forgetting whether it came from the cache -/
def Outcome.value {ε α : Type} : Outcome ε α → Option (Except ε α)
  | .hit u => some (.ok u)
  | .built u => some (.ok u)
  | .error e => some (.error e)
  | .done => none

section
variable {ε α : Type} (parse parseRaw : Text → Except ε α) (decode : List Nat → Option Text) (decodeErr : ε)

/-- the string branch on an already decoded text; `store`: no unit data were handed in.
    `parse` is the whole construction (text → expression → table look-up of every symbol);
    when unit data are handed in the look-up is skipped (`parseRaw`) -/
def callText (parse : Text → Except ε α) (store : Bool) (c : Cache α) (t : Text) : Outcome ε α × Cache α :=
  match lookup t c with
  | some u => (.hit u, c)
  | none =>
    match parse t with
    | .ok u => (.built u, if store then (t, u) :: c else c)
    | .error e => (.error e, c)

def call (c : Cache α) : Call → Outcome ε α × Cache α
  | .str t => callText parse true c t
  | .bytes b =>
    match decode b with
    | none => (.error decodeErr, c)
    | some t => callText parse true c t
  | .withData t => callText parseRaw false c t
  | .clear => (.done, [])

/-- a history of calls on a registry whose cache is `c`: outcomes in order, and the final cache -/
def history (c : Cache α) : List Call → List (Outcome ε α) × Cache α
  | [] => ([], c)
  | k :: r =>
    let (o, c') := call parse parseRaw decode decodeErr c k
    let (os, c'') := history c' r
    (o :: os, c'')

/-- what the same call returns on a registry that has never been used -/
def fresh (k : Call) : Outcome ε α := (call parse parseRaw decode decodeErr [] k).1

end
end Unyt.UnitCache
