/-
  UnytModel.Print — `str()` / `repr()` of a unit.

  Models  unyt/unit_object.py  Unit.__str__, Unit.__repr__ (the special cases) and, for the
  expressions a unit can carry (rational coefficient times symbols to rational powers),
  sympy 1.14's `StrPrinter` (`sympy/printing/str.py`: `_print_Mul`, `_print_Pow`,
  `_print_Rational`, `_print_Integer`, `_print_Symbol`):

  * factors in `as_ordered_factors()` order: the number first, then the symbols by name in
    code-point order (`normF` sorts that way);
  * a negative coefficient becomes a leading `-`; `|c| = p/q` contributes `p` to the numerator
    (if `p ≠ 1`) and `q` to the denominator (if `q ≠ 1`);
  * a factor with a negative exponent goes to the denominator with the exponent negated;
  * an empty numerator prints `1`; one denominator item prints `n/d`, several `n/(d₁*d₂)`;
  * `x**(1/2)` prints `sqrt(x)`; integer exponents print bare (`x**2`), negative or fractional
    ones in parentheses (`x**(-2)`, `x**(3/2)`);
  * a power standing alone (not in a product) keeps its negative exponent (`m**(-2)`), except
    `1/m` and `1/sqrt(m)`.

  `Ast` is that layout; `printAst` computes it, `evalAst` is its meaning, `render` its text and
  `renderTokens` its token sequence (what `Parse.tokenize` makes of the text).
-/
import UnytModel.Parse

namespace Unyt
namespace Print
open Parse

/-- one printed factor -/
inductive Item
  | lit (n : Nat)                 -- an integer of the coefficient
  | sym (s : String)              -- `s`
  | sqrt (s : String)             -- `sqrt(s)`
  | pow (s : String) (e : Rat)    -- `s**e`
deriving DecidableEq, Repr, Inhabited

inductive Ast
  | num (q : Rat)                          -- a number alone: `5`, `-5`, `1/2`, `-1/2`
  | lone (it : Item)                       -- a symbol or a power alone
  | frac (neg : Bool) (a b : List Item)    -- `[-] a₁*a₂*… / (b₁*b₂*…)`
deriving DecidableEq, Repr, Inhabited

/-- the printed form of `s**q` for `q > 0` inside a product, or of a lone power -/
def toItem (s : String) (q : Rat) : Item :=
  if q = 1 then .sym s else if q = (1 : Rat) / 2 then .sqrt s else .pow s q

def litIf (n : Nat) : List Item := if n = 1 then [] else [.lit n]

def posItems : Factors → List Item
  | [] => []
  | (s, q) :: r => if q > 0 then toItem s q :: posItems r else posItems r

def negItems : Factors → List Item
  | [] => []
  | (s, q) :: r => if q < 0 then toItem s (-q) :: negItems r else negItems r

def absQ (q : Rat) : Rat := if q < 0 then -q else q

/-- the layout sympy's printer chooses for an expression -/
def printAst (e : UExpr Rat) : Ast :=
  let nf := UExpr.normF e.factors
  match nf with
  | [] => .num e.coeff
  | [(s, q)] =>
    if e.coeff = 1 then
      if q = -1 then .frac false [] [.sym s]
      else if q = (-1 : Rat) / 2 then .frac false [] [.sqrt s]
      else .lone (toItem s q)
    else
      let c := absQ e.coeff
      .frac (e.coeff < 0) (litIf c.num.natAbs ++ posItems nf) (litIf c.den ++ negItems nf)
  | _ =>
    let c := absQ e.coeff
    .frac (e.coeff < 0) (litIf c.num.natAbs ++ posItems nf) (litIf c.den ++ negItems nf)

/-! ### meaning -/

def evalItem : Item → UExpr Rat
  | .lit n => ⟨((n : Nat) : Int), []⟩
  | .sym s => ⟨1, [(s, 1)]⟩
  | .sqrt s => ⟨1, [(s, (1 : Rat) / 2)]⟩
  | .pow s e => ⟨1, [(s, e)]⟩

def evalItems : List Item → UExpr Rat
  | [] => ⟨1, []⟩
  | it :: r => (evalItem it).mul (evalItems r)

def evalAst : Ast → UExpr Rat
  | .num q => ⟨q, []⟩
  | .lone it => evalItem it
  | .frac neg a b =>
    let n := evalItems a
    let d := evalItems b
    ⟨(if neg then -1 else 1) * (n.coeff / d.coeff), n.factors ++ UExpr.negF d.factors⟩

/-! ### text -/

def natStr (n : Nat) : String := toString n

def ratText (q : Rat) : String :=
  let n := q.num.natAbs
  (if q < 0 then "-" else "") ++ (if q.den = 1 then natStr n else natStr n ++ "/" ++ natStr q.den)

/-- an exponent as `_print_Pow` writes it: non-negative integers bare, everything else in parentheses -/
def expText (e : Rat) : String :=
  if e.den = 1 && e ≥ 0 then natStr e.num.natAbs else "(" ++ ratText e ++ ")"

def itemText : Item → String
  | .lit n => natStr n
  | .sym s => s
  | .sqrt s => "sqrt(" ++ s ++ ")"
  | .pow s e => s ++ "**" ++ expText e

def render : Ast → String
  | .num q => ratText q
  | .lone it => itemText it
  | .frac neg a b =>
    let n := if a.isEmpty then "1" else "*".intercalate (a.map itemText)
    let d := match b with
      | [] => ""
      | [x] => "/" ++ itemText x
      | _ => "/(" ++ "*".intercalate (b.map itemText) ++ ")"
    (if neg then "-" else "") ++ n ++ d

/-! ### tokens -/

def ratToks (q : Rat) : List Tok :=
  let n : Nat := q.num.natAbs
  (if q < 0 then [Tok.minus] else []) ++
    (if q.den = 1 then [Tok.num n 0] else [Tok.num n 0, .slash, .num q.den 0])

def expToks (e : Rat) : List Tok :=
  if e.den = 1 && e ≥ 0 then [Tok.num e.num.natAbs 0] else [Tok.lpar] ++ ratToks e ++ [Tok.rpar]

def itemToks : Item → List Tok
  | .lit n => [.num n 0]
  | .sym s => [.name s.toList]
  | .sqrt s => [.name "sqrt".toList, .lpar, .name s.toList, .rpar]
  | .pow s e => [.name s.toList, .dstar] ++ expToks e

def joinToks : List Item → List Tok
  | [] => []
  | [x] => itemToks x
  | x :: r => itemToks x ++ [Tok.star] ++ joinToks r

def renderTokens : Ast → List Tok
  | .num q => ratToks q
  | .lone it => itemToks it
  | .frac neg a b =>
    let n := if a.isEmpty then [Tok.num 1 0] else joinToks a
    let d := match b with
      | [] => []
      | [x] => [Tok.slash] ++ itemToks x
      | _ => [Tok.slash, .lpar] ++ joinToks b ++ [Tok.rpar]
    (if neg then [Tok.minus] else []) ++ n ++ d

/-! ### `Unit.__str__` / `Unit.__repr__` -/

def isOne (e : UExpr Rat) : Bool := e.coeff == 1 && (UExpr.normF e.factors).isEmpty

/-- `Unit.__repr__` -/
def unitRepr (e : UExpr Rat) : String :=
  if isOne e then Generated.reprOne else render (printAst e)

/-- `Unit.__str__` -/
def unitStr (e : UExpr Rat) : String :=
  if isOne e then Generated.strOne else
  let s := render (printAst e)
  match Generated.strSpecial.find? (fun p => p.1 == s) with
  | some (_, t) => t
  | none => s

end Print
end Unyt
