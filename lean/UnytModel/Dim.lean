/-
  UnytModel.Dim — physical dimensions as eight rational exponents.

  Models what sympy's canonical form of a product of the positive base-dimension symbols of
  `unyt/dimensions.py` denotes: (mass, length, time, temperature, angle, current_mks,
  luminous_intensity, logarithmic).
-/
import UnytModel.Num

namespace Unyt

structure Dim where
  mass : Rat := 0
  length : Rat := 0
  time : Rat := 0
  temperature : Rat := 0
  angle : Rat := 0
  current : Rat := 0
  luminous : Rat := 0
  logarithmic : Rat := 0
deriving DecidableEq, Repr, Inhabited

namespace Dim

def one : Dim := {}

def mul (a b : Dim) : Dim :=
  ⟨a.mass + b.mass, a.length + b.length, a.time + b.time, a.temperature + b.temperature,
   a.angle + b.angle, a.current + b.current, a.luminous + b.luminous, a.logarithmic + b.logarithmic⟩

def inv (a : Dim) : Dim :=
  ⟨-a.mass, -a.length, -a.time, -a.temperature, -a.angle, -a.current, -a.luminous, -a.logarithmic⟩

def div (a b : Dim) : Dim := mul a (inv b)

def pow (a : Dim) (q : Rat) : Dim :=
  ⟨a.mass * q, a.length * q, a.time * q, a.temperature * q,
   a.angle * q, a.current * q, a.luminous * q, a.logarithmic * q⟩

instance : Mul Dim := ⟨mul⟩
instance : Div Dim := ⟨div⟩
instance : OfNat Dim 1 := ⟨one⟩

def toList (a : Dim) : List Rat :=
  [a.mass, a.length, a.time, a.temperature, a.angle, a.current, a.luminous, a.logarithmic]

def ofList : List Rat → Option Dim
  | [a, b, c, d, e, f, g, h] => some ⟨a, b, c, d, e, f, g, h⟩
  | _ => none

def isOne (a : Dim) : Bool := a == one

/-- base dimensions -/
def dMass : Dim := { mass := 1 }
def dLength : Dim := { length := 1 }
def dTime : Dim := { time := 1 }
def dTemperature : Dim := { temperature := 1 }
def dAngle : Dim := { angle := 1 }
def dCurrent : Dim := { current := 1 }
def dLuminous : Dim := { luminous := 1 }
def dLogarithmic : Dim := { logarithmic := 1 }

def str (a : Dim) : String := ",".intercalate (a.toList.map ratStr)

def parse (s : String) : Option Dim := do
  let xs ← (s.splitOn ",").mapM parseRat
  ofList xs

/-- `current_mks in dims.atoms()` — whether the MKS current symbol occurs. -/
def hasCurrent (a : Dim) : Bool := a.current != 0

end Dim
end Unyt
