/-
  UnytModel.PersistChain — HISTORIES of persistence steps (C11): an object that came back from one
  route is edited (the user adds units of their own to its registry) and persisted again.

  What a route does may depend on WHICH registry object the unit hangs on — not on its contents but
  on what kind of object it is: unyt/unit_registry.py has two registry classes (`UnitRegistry` and
  `_NonModifiableUnitRegistry`, "the class of the default unit registry"), `UnitRegistry.__deepcopy__`
  builds the copy with `type(self)(…)`, `Unit` has no `__reduce__` (the registry object is pickled
  through its class's `__reduce_ex__` / `__getstate__` / `__setstate__`), `Unit.copy` goes through
  `copy.copy(registry)`, `unyt_array.__setstate__` and `from_json` build a plain `UnitRegistry`.
  So a deep copy of a default-registry quantity hangs on a SECOND instance of the default registry's
  class, and whatever that class does on pickling applies to it.

  The model: a registry object has an `Origin` — built by the user (`UnitRegistry(…)`), or obtained
  by a route from an object of the default registry.  The configuration of a route is looked up per
  (origin, route) in an `OriginTable` that is regenerated from the live code
  (`Generated/PersistOrigins.lean`: the probes of `PersistRoutes` repeated on registries of each
  origin).  `restoreChain` runs a list of steps (user edits, then a route) threading the origin.
-/
import UnytModel.Persist

namespace Unyt.Persist
open Unyt

/-- where a registry OBJECT comes from -/
inductive Origin
  /-- built by the user: `UnitRegistry(…)` (the rows of `Generated.persistRoutes`) -/
  | built
  /-- the registry of an object that was restored on this route from a default-registry object -/
  | via (r : Route)
  /-- made by a route from a registry that was itself made by a route: not probed (no rows) -/
  | unprobed
deriving DecidableEq, Repr, Inhabited

def Origin.name : Origin → String
  | .built => "built"
  | .via r => r.name
  | .unprobed => "unprobed"

/-- per (origin of the registry object, route): what travels and how it is rebuilt -/
abbrev OriginTable := List ((Origin × Route) × RouteCfg)

def OriginTable.get (T : OriginTable) (o : Origin) (r : Route) : Option RouteCfg :=
  (T.find? fun p => p.1.1 == o && p.1.2 == r).map (·.2)

/-- the base table as the rows of origin `built` -/
def OriginTable.ofRoutes (T : RouteTable) : OriginTable := T.map fun p => ((.built, p.1), p.2)

/-- the origin of the restored object's registry: the same registry table (or the same `Unit`) → the
    same origin; a user-built registry class stays one (`type(self)(…)`, `UnitRegistry(lut=…)`: these
    are the probed rows of `persistRoutes`); else a second-generation registry, which is not probed —
    the table has no row for it and `restoreChain` refuses to guess (`none`) -/
def Origin.next (o : Origin) (cfg : RouteCfg) : Origin :=
  if cfg.regSame || cfg.unitSame then o
  else match o with
    | .built => .built
    | _ => .unprobed

section
variable {K : Type}

/-- `reg.add(sym, …)`: the row is written over an existing one or appended -/
def PLut.insert (t : PLut K) (k : String) (row : PRow K) : PLut K :=
  if t.hasKey k then t.map fun p => if p.1 == k then (k, row) else p else t ++ [(k, row)]

/-- the user's edits before a step: rows added through `reg.add` -/
def PReg.addRows (R : PReg K) (adds : PLut K) : PReg K :=
  { R with rows := adds.foldl (fun t p => PLut.insert t p.1 p.2) R.rows }

def PObj.addRows (x : PObj K) (adds : PLut K) : PObj K := { x with reg := x.reg.addRows adds }

/-- one step of a history: the user adds rows to the object's registry, then persists on `route` -/
structure Step (K : Type) where
  adds : PLut K
  route : Route

/-- the history with the persistence steps left out: what the user did to the object -/
def applyEdits : List (Step K) → PObj K → PObj K
  | [], x => x
  | s :: rest, x => applyEdits rest (x.addRows s.adds)

end

section
variable {K : Type} [Add K] [Sub K] [Mul K] [Div K] [OfNat K 0] [OfNat K 1] [BEq K] [RPow K]

/-- one step: look the configuration up for the origin of the registry the object hangs on -/
def restoreAt (T : OriginTable) (pre : Prefixes K) (dflt : Lut K) (o : Origin) (r : Route)
    (x : PObj K) : Option (Except Err (PObj K)) :=
  (T.get o r).map fun cfg => restore cfg pre dflt x

def guardAt (E : EqTests K) (T : OriginTable) (pre : Prefixes K) (dflt : Lut K) (o : Origin) (r : Route)
    (x : PObj K) : Bool :=
  match T.get o r with
  | some cfg => restoreGuard E cfg pre dflt x
  | none => false

/-- a history: edit, persist, load; edit, persist, load; …  `none`: the table has no row for an
    (origin, route) the history reaches -/
def restoreChain (T : OriginTable) (pre : Prefixes K) (dflt : Lut K) :
    List (Step K) → Origin → PObj K → Option (Except Err (Origin × PObj K))
  | [], o, x => some (.ok (o, x))
  | s :: rest, o, x =>
    match T.get o s.route with
    | none => none
    | some cfg =>
      match restore cfg pre dflt (x.addRows s.adds) with
      | .error e => some (.error e)
      | .ok y => restoreChain T pre dflt rest (o.next cfg) y

/-- the origin a history ends on -/
def originAfter (T : OriginTable) : List (Step K) → Origin → Origin
  | [], o => o
  | s :: rest, o =>
    match T.get o s.route with
    | none => o
    | some cfg => originAfter T rest (o.next cfg)

/-- every step of the history is exact: the table has a row and `restoreGuard` holds of the object
    as it stands (edited) at that step -/
def chainGuard (E : EqTests K) (T : OriginTable) (pre : Prefixes K) (dflt : Lut K) :
    List (Step K) → Origin → PObj K → Bool
  | [], _, _ => true
  | s :: rest, o, x =>
    match T.get o s.route with
    | none => false
    | some cfg =>
      restoreGuard E cfg pre dflt (x.addRows s.adds) &&
        chainGuard E T pre dflt rest (o.next cfg) (x.addRows s.adds)

/-- the rows a user added (keys outside the default table) that the final registry still resolves -/
def addedKept (dflt : Lut K) (adds : PLut K) (y : PObj K) : Bool :=
  adds.all fun p => dflt.contains p.1 || y.reg.rows.hasKey p.1

end

/-! ## table predicates (decided on the regenerated tables) -/

/-- every probed (origin, route) row is the route's row in the base table: a route treats a registry
    the same whatever kind of object it is -/
def originsUniform (T : RouteTable) (O : OriginTable) : Bool :=
  O.all fun p => T.get p.1.2 == some p.2

/-- every (origin, route) pair over the given origins has a row -/
def originsComplete (O : OriginTable) (origins : List Route) : Bool :=
  origins.all fun r1 => Route.all.all fun r => (O.get (.via r1) r).isSome

/-- user-added rows survive on an (origin, route) exactly when they do on the route in the base table -/
def originsKeepAdded (T : RouteTable) (O : OriginTable) : Bool :=
  O.all fun p =>
    match T.get p.1.2 with
    | some c => (c.regSame || c.keepsAdded) == (p.2.regSame || p.2.keepsAdded)
    | none => false

end Unyt.Persist
