/-
  UnytModel.UfuncProgram — expression programs over quantities: the model's evaluator (every node
  goes through the dispatcher of `UfuncValue.lean`, exactly as `unyt_array.__array_ufunc__`
  would be entered for that node) and the reference interpreter the property speaks of (the
  same mathematics on the SI magnitudes, dimensions by dimensional analysis).
-/
import UnytModel.UfuncValue
import UnytModel.Ref.C04Classes

namespace Unyt.UV
open Unyt Unyt.Ref.C04

/-- an expression program: leaves are quantities of the environment; `bin f F` is the binary
    ufunc named `f` whose numeric kernel is `F`; `un f G` a unary ufunc; `pow p G` is `x ** p`
    with kernel `G` -/
inductive Prog (K : Type) where
  | leaf (i : Nat)
  | bin (f : String) (F : K → K → K) (a b : Prog K)
  | un (f : String) (G : K → K) (a : Prog K)
  | pow (p : Rat) (G : K → K) (a : Prog K)

section
variable {K : Type} [Add K] [Sub K] [Mul K] [Div K] [OfNat K 1] [OfNat K 0] [RPow K] [BEq K]

/-- the model: every node is dispatched like a NumPy call on `unyt_array`s; a quantity is
    `(unit, number)` -/
def Prog.evalModel (ueq : UnitV K → UnitV K → Bool) (pre : Prefixes K) (t : Lut K)
    (env : Nat → UnitV K × K) : Prog K → Except Err (UnitV K × K)
  | .leaf i => .ok (env i)
  | .bin f F a b =>
    match a.evalModel ueq pre t env with
    | .error e => .error e
    | .ok (ua, xa) =>
      match b.evalModel ueq pre t env with
      | .error e => .error e
      | .ok (ub, xb) =>
        match dispatchBinary ueq pre t f ⟨some ua, false⟩ ⟨some ub, false⟩ none with
        | .error e => .error e
        | .ok o =>
          match o.unit with
          | some u => .ok (u, o.value F xa xb)
          | none => .error .Other   -- a bare result is not a quantity: not continued
  | .un f G a =>
    match a.evalModel ueq pre t env with
    | .error e => .error e
    | .ok (ua, xa) =>
      match dispatchUnary ueq pre t f "__call__" ua 1 with
      | .error e => .error e
      | .ok o =>
        match o.unit with
        | some u => .ok (u, o.value G xa)
        | none => .error .Other
  | .pow p G a =>
    match a.evalModel ueq pre t env with
    | .error e => .error e
    | .ok (ua, xa) =>
      match dispatchBinary ueq pre t "power" ⟨some ua, false⟩ ⟨none, false⟩ (some p) with
      | .error e => .error e
      | .ok o =>
        match o.unit with
        | some u => .ok (u, o.value (fun x _ => G x) xa 0)
        | none => .error .Other

end

/-- the reference interpreter on SI magnitudes: the same mathematics on plain numbers -/
def Prog.evalRef {K : Type} (si : Nat → K) : Prog K → K
  | .leaf i => si i
  | .bin _ F a b => F (a.evalRef si) (b.evalRef si)
  | .un _ G a => G (a.evalRef si)
  | .pow _ G a => G (a.evalRef si)

/-- dimensional analysis, from the reference class of each ufunc -/
def Prog.dimRef {K : Type} (dim : Nat → Dim) : Prog K → Dim
  | .leaf i => dim i
  | .bin f _ a b =>
    match classOf f with
    | some .bilinear => a.dimRef dim * b.dimRef dim
    | some .ratio => a.dimRef dim / b.dimRef dim
    | _ => a.dimRef dim
  | .un _ _ a => a.dimRef dim
  | .pow p _ a => (a.dimRef dim).pow p

/-- well-formed for the claim: every node is a ufunc of a covered class, mapped by the
    regenerated table to the rule that class licenses, with a kernel of that class; the
    difference rule is used away from the temperature dimension (C08's subject) -/
def Prog.WF {K : Type} [Mul K] [Div K] [RPow K] (P : K → Prop) (dim : Nat → Dim) : Prog K → Prop
  | .leaf _ => True
  | .bin f F a b =>
    a.WF P dim ∧ b.WF P dim ∧
    ((classOf f = some .hom1 ∧ ruleOf f = some .preserve ∧ Hom1On P F)
     ∨ (classOf f = some .hom1 ∧ ruleOf f = some .difference ∧ Hom1On P F ∧ a.dimRef dim ≠ Dim.dTemperature)
     ∨ (classOf f = some .bilinear ∧ ruleOf f = some .multiply ∧ BiHom F)
     ∨ (classOf f = some .ratio ∧ ruleOf f = some .divide ∧ RatioHomOn P F))
  | .un f G a =>
    a.WF P dim ∧ classOf f = some .hom1Unary ∧ ruleOf f = some .passthrough ∧ Hom1UnaryOn P G
      ∧ Generated.C04.trigOperators.contains f = false ∧ Generated.C04.reducePowerUfuncs.contains f = false
  | .pow p G a => a.WF P dim ∧ DegreeOn P p G

end Unyt.UV
