/-
  UnytModel.EquivChain — the equivalence formulas of `unyt/equivalencies.py` as ufunc chains, seen
  from the data's dtype: which operand of each ufunc call is the raw input, something derived from
  it, a (float64) physical constant or a Python scalar, and what kind of arithmetic NumPy then does.

  On the copying routes (`to_equivalent`, `to(…, equivalence=)`) `_get_out` is `None`, so an
  integer input reaches the first ufunc of the branch as integers: a ufunc call all of whose
  operands are integers is *integer arithmetic* (`np.reciprocal` truncates, `x * x` and `x ** 4`
  wrap around) unless the ufunc itself is float-only (`np.true_divide`, `np.sqrt`).  On the
  in-place routes the buffer is promoted to float first (`outPromote`), so every step is float.

  The chains are recorded from the live code by tools/extract.d/c17_equiv_chains.py
  (`Generated/EquivChains.lean`).  No Mathlib.
-/
import UnytModel.Dtype

namespace Unyt

inductive OperandTag
  | raw | derived | const | pyint | pyfloat
deriving DecidableEq, Repr, Inhabited

structure ChainOperand where
  tag : OperandTag
  kind : DKind
deriving DecidableEq, Repr, Inhabited

structure ChainStep where
  ufunc : String
  operands : List ChainOperand
  /-- dtype kind of the result as observed on the live code -/
  resultKind : DKind
deriving DecidableEq, Repr, Inhabited

structure ChainBranch where
  equiv : String
  fromDim : String
  toDim : String
  steps : List ChainStep
deriving DecidableEq, Repr, Inhabited

/-- ufuncs whose loops are float-only: integer operands are converted to float first
    (`np.true_divide.__name__ == "divide"`) -/
def floatOnlyUfuncs : List String :=
  ["divide", "sqrt", "cbrt", "exp", "log", "hypot", "arctan2", "sin", "cos", "tan"]

def ChainOperand.isFloaty (o : ChainOperand) : Bool := o.kind == .f || o.kind == .c

/-- NumPy's choice of arithmetic for one ufunc call: integer arithmetic exactly when the ufunc
    has integer loops and no operand is a float / complex (array, constant or Python scalar) -/
def integerStep (s : ChainStep) : Bool :=
  !(floatOnlyUfuncs.contains s.ufunc) && !(s.operands.any ChainOperand.isFloaty)

def DKind.isIntegral (k : DKind) : Bool := k == .i || k == .u || k == .b

/-- the step works on the data (the raw input or something derived from it) -/
def ChainStep.touchesData (s : ChainStep) : Bool :=
  s.operands.any (fun o => o.tag == .raw || o.tag == .derived)

end Unyt
