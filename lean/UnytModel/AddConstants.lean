/-
  UnytModel.AddConstants — how `unyt/unit_systems.py::add_constants` materialises one row of the
  `physical_constants` table for a registry (C15).

      quan = unyt_quantity(value, unit_name, registry=registry)
      try:    namespace[name] = quan.in_base(unit_system=registry.unit_system)
      except UnitsNotReducible: namespace[name] = quan
      namespace[name + "_mks"] = unyt_quantity(value, unit_name, registry=registry)
      try:    namespace[name + "_cgs"] = quan.in_cgs()
      except UnitsNotReducible: pass

  `in_base` is the shared model `Unyt.inBase` (`UnytModel/UnitSystem.lean`, C10): the plain route
  (`get_base_equivalent` + `get_conversion_factor`), the short-cut (`u.expr == um[u.dimensions]`),
  and the electromagnetic route (`_check_em_conversion` / `_em_conversion`), which for a table row in
  `C` (qp, qe, q_pl) is taken in EVERY unit system: branch "SI unit, system with an MKS current"
  (`em_map = (unit_system[dims], unit, 1.0)`) or the Gaussian branch (`(None, em_unit, factor)`).
  The driver (`Ops/C15.lean`, opcode `c15.materialise`) runs exactly these definitions for every
  table row in every unit system the harness builds (built-in, custom, seeded); the theorems of
  `UnytProofs/C15AddConstants.lean` are about them, for every unit system / table / value.
-/
import UnytModel.UnitSystem

namespace Unyt
namespace AddConstants

section
variable {K : Type} [Add K] [Sub K] [Mul K] [Div K] [OfNat K 0] [OfNat K 1] [BEq K] [RPow K]

/-- `try: quan.in_base(unit_system) except UnitsNotReducible: quan` -/
def materialise (pre : Prefixes K) (t : Lut K) (T : EmTable K) (S : USys K) (u : UnitV K) (x : K) :
    Except Err (K × UnitV K) :=
  match inBase pre t T S u x with
  | .error .UnitsNotReducible => .ok (x, u)
  | .error e => .error e
  | .ok r => .ok r

/-- what one pass of the inner loop of `add_constants` writes for a name:
    `name`, `name_mks`, and `name_cgs` (`none` = not written) -/
structure Guises (K : Type) where
  plain : K × UnitV K
  mks : K × UnitV K
  cgs : Option (K × UnitV K)

/-- the body of the inner loop of `add_constants` for one name (`cgsS` = `unit_system_registry["cgs"]`) -/
def addConstantsRow (pre : Prefixes K) (t : Lut K) (T : EmTable K) (S cgsS : USys K) (u : UnitV K) (x : K) :
    Except Err (Guises K) :=
  match materialise pre t T S u x with
  | .error e => .error e
  | .ok p =>
    match inBase pre t T cgsS u x with
    | .error .UnitsNotReducible => .ok ⟨p, (x, u), none⟩
    | .error e => .error e
    | .ok c => .ok ⟨p, (x, u), some c⟩

/-- the SI magnitude of a reading (offset-free units) -/
def siMag (r : K × UnitV K) : K := r.1 * r.2.scale

/-- the route `in_base` takes for a unit in a system, as a label (reported by the driver and
    compared with the library's own `_check_em_conversion` answer by the harness) -/
def routeLabel (pre : Prefixes K) (t : Lut K) (T : EmTable K) (S : USys K) (u : UnitV K) : String :=
  match checkEm pre t T S u with
  | .error _ => "refused"
  | .ok none => if umMatches S u then "plain-shortcut" else "plain"
  | .ok (some m) =>
    if umMatches S u then "em-shortcut"
    else match m.conv with
      | some _ => "em-current"
      | none => "em-gaussian"

end

end AddConstants
end Unyt
