/-
  UnytModel.ConvHistory — conversion *histories* (C03).

  `unyt/array.py` has no state besides the array itself: every conversion route asks
  `Unit.get_conversion_factor` afresh.  A history is a sequence of conversion calls on one
  long-lived array (state = buffer value + unit label) interleaved with calls on short-lived
  temporaries (`unyt_quantity(x, "u").to_value("v")`: built, converted, dropped).  The model
  runs such a history; the theorems (`UnytProofs/C03History.lean`) say that every output depends
  only on (numbers, current unit, target) and never on what was converted before, and that a
  chain of in-place conversions collapses to the one-shot conversion.  The targeted calls model the
  non-EM branch (histories stay inside one dimension); the base-system calls are the full
  `inBase` / `convertToBase` of `UnytModel/UnitSystem.lean`.
-/
import UnytModel.Convert
import UnytModel.UnitSystem

namespace Unyt

/-- one call of a history -/
inductive HOp (K : Type) where
  /-- `obj.convert_to_units(target)` — in place, the object keeps the new buffer and label -/
  | convert (target : UnitV K)
  /-- `obj.in_units(target)` / `obj.to(target)` / `obj.to_value(target)` — copy, object untouched -/
  | peek (target : UnitV K)
  /-- `unyt_quantity(x, u).to_value(target)` on a temporary that is dropped at once -/
  | temp (x : K) (u target : UnitV K)
  /-- `t = unyt_array(x, u); t.convert_to_units(target); t.d` on a temporary -/
  | tempConvert (x : K) (u target : UnitV K)
  /-- `obj.in_base(S)` / `obj.in_cgs()` / `obj.in_mks()` — copy, object untouched -/
  | peekBase (S : USys K)
  /-- `unyt_quantity(x, u).in_base(S).value` on a temporary -/
  | tempBase (S : USys K) (x : K) (u : UnitV K)
  /-- `t = unyt_array(x, u); t.convert_to_base(S); t.d` on a temporary -/
  | tempConvertBase (S : USys K) (x : K) (u : UnitV K)

section
variable {K : Type} [Add K] [Sub K] [Mul K] [Div K] [OfNat K 0] [OfNat K 1] [BEq K] [RPow K]

/-- one call: new state of the long-lived object and what the call returns.
    A call that raises leaves the object as it was (the factor is computed before any write). -/
def stepHist (pre : Prefixes K) (t : Lut K) (T : EmTable K) (st : K × UnitV K) :
    HOp K → (K × UnitV K) × Except Err K
  | .convert tg =>
    match convertToUnits pre t st tg with
    | .ok st' => (st', .ok st'.1)
    | .error e => (st, .error e)
  | .peek tg => (st, toValue pre t st.2 st.1 tg)
  | .temp x u tg => (st, toValue pre t u x tg)
  | .tempConvert x u tg => (st, (convertToUnits pre t (x, u) tg).map (·.1))
  | .peekBase S => (st, (inBase pre t T S st.2 st.1).map (·.1))
  | .tempBase S x u => (st, (inBase pre t T S u x).map (·.1))
  | .tempConvertBase S x u => (st, (convertToBase pre t T S (x, u)).map (·.1))

/-- a whole history: final state of the object and the list of returned values -/
def runHist (pre : Prefixes K) (t : Lut K) (T : EmTable K) (st : K × UnitV K) :
    List (HOp K) → (K × UnitV K) × List (Except Err K)
  | [] => (st, [])
  | op :: ops =>
    let r := stepHist pre t T st op
    let rest := runHist pre t T r.1 ops
    (rest.1, r.2 :: rest.2)

/-- the targets of the in-place calls of a history -/
def convertTargets : List (HOp K) → List (UnitV K)
  | [] => []
  | .convert tg :: ops => tg :: convertTargets ops
  | _ :: ops => convertTargets ops

/-- whether the offset of `u` is divided by its scale before use (`_get_conversion_factor`:
    temperature unit spelled with an SI prefix) -/
def UnitV.prefOffset (pre : Prefixes K) (t : Lut K) (u : UnitV K) : Bool :=
  u.dim == Dim.dTemperature && u.spelledWithPrefix pre t

/-- the SI magnitude the object denotes: `scale * (x - effective offset)` -/
def siMagnitude (pre : Prefixes K) (t : Lut K) (st : K × UnitV K) : K :=
  toBase st.2.scale (effOffset (st.2.prefOffset pre t) st.2.scale st.2.offset) st.1

end
end Unyt
