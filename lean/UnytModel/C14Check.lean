/-
  UnytModel.C14Check — the regenerated name tables instantiated for the model, and the executable
  Boolean checks over them that the kernel decides in `UnytProofs/Lemmas/C14Chunk*.lean` /
  `UnytProofs/C14.lean`.

  The symbolic checks run on the tables exactly as the translator wrote them (`ctxBits`: numbers
  as bit patterns); which rows a name is read from does not depend on the numeric carrier
  (`UnytProofs/Lemmas/C14.lean: stringReading_mapK`), so they hold for the `Float` tables the
  driver executes and the `Rat` tables of the numeric obligations alike.
-/
import UnytModel.Names
import UnytModel.NameGen
import UnytModel.Ref.C14
import UnytModel.Generated.Tables
import UnytModel.Generated.C14Base
import UnytModel.Generated.C14Rows
import UnytModel.Generated.C14Tree
import UnytModel.Generated.C14Gen

namespace Unyt.C14
open Unyt Unyt.Names Unyt.Generated.C14

/-- code of "\x00": the translator's mark for "no such unit attribute" -/
def absent : Name := 1

/-- the default registry, numbers as the bit patterns of the doubles the code holds -/
def ctxBits : Ctx Nat :=
  { globals := parserGlobalsC, inv := invTree, rewritten := rewrittenT, pre := prefixesT, lut := lutT }

/-- the custom registry of the translator plugin (`make_custom_registry`): the rows it added or
    modified shadow the default rows -/
def customCtxBits : Ctx Nat :=
  { globals := parserGlobalsC, inv := invTree, rewritten := rewrittenT, pre := prefixesT, lut := customLutT }

/-- the default registry at a numeric carrier -/
def ctx (K : Type) [OfBits K] : Ctx K := ctxBits.mapK OfBits.ofBits

def customCtx (K : Type) [OfBits K] : Ctx K := customCtxBits.mapK OfBits.ofBits

def rowsChunk : Nat → List NameRow
  | 0 => rows0 | 1 => rows1 | 2 => rows2 | 3 => rows3 | 4 => rows4 | 5 => rows5 | 6 => rows6
  | 7 => rows7 | 8 => rows8 | 9 => rows9 | 10 => rows10 | 11 => rows11 | 12 => rows12
  | 13 => rows13 | 14 => rows14 | 15 => rows15 | _ => []

/-- every listed name, in `inv_name_alternatives` order -/
def allRows : List NameRow :=
  rows0 ++ (rows1 ++ (rows2 ++ (rows3 ++ (rows4 ++ (rows5 ++ (rows6 ++ (rows7 ++ (rows8 ++ (rows9
    ++ (rows10 ++ (rows11 ++ (rows12 ++ (rows13 ++ (rows14 ++ rows15))))))))))))))

/-! ### per-name checks -/

/-- power of ten of a prefix symbol according to the reference (`""` ↦ 0) -/
def prefixExp (p : Name) : Option Int :=
  if Nat.beq p 0 then some 0 else findN p Ref.C14.prefixSymbols

/-- the table row `c` is the identity unit (what `Unit("")` is): scale 1.0, offset 0.0, no dimension -/
def isIdentityRow (c : Name) : Bool :=
  match lutT.get? c with
  | some e => Nat.beq e.scale 4607182418800017408 && Nat.beq e.offset 0 && e.dim == Dim.one
  | none => false

/-- the model's reading is the reference's: same unit row, prefix of the same power of ten -/
def readingMatches (r : Option Reading) (k : Int) (c : Name) : Bool :=
  match r with
  | some (.sym _ p b) => Nat.beq b c && prefixExp p == some k
  | some .one => k == 0 && isIdentityRow c
  | none => false

def symOf : Option Reading → Name
  | some (.sym s _ _) => s
  | _ => absent

def refVerdict (s : Name) : Ref.C14.Verdict := Ref.C14.verdict charTable baseTreeC s

/-- the search tree holds exactly this row for the name -/
def treeOk (r : NameRow) : Bool :=
  match invTree.get? r.name with
  | some (o, n) => Nat.beq o r.okey && Nat.beq n r.nkey
  | none => false

/-- `add_symbols` skips attribute names that start with `_` -/
def underscored (n : Name) : Bool := !(Nat.beq n 0) && Nat.beq (Name.head n) cpUnderscore

/-- the string route reads the name as the reference does (one reading; a table symbol or listed
    spelling before any prefix split; the exact prefix) -/
def stringOk (r : NameRow) : Bool :=
  match refVerdict r.name with
  | .unique k c => readingMatches (stringReading ctxBits r.name) k c
  | _ => false

/-- `unyt.unit_symbols.<name>` is read as the reference reads the name, and the live object carries
    the symbol the model predicts -/
def usOk (r : NameRow) : Bool :=
  match refVerdict r.name with
  | .unique k c =>
    let u := unitSymbolsAttr ctxBits r.name
    readingMatches u k c && Nat.beq r.usSym (symOf u)
  | _ => false

/-- `unyt.<name>`: shadowed — allowed only for the names the reference documents as names of
    physical constants; it is then not a unit attribute (no claim) and the live attribute is indeed
    not a Unit — else the `unit_symbols` object, which must be there -/
def topOk (r : NameRow) : Bool :=
  if memN r.name shadowedC then Nat.beq r.topSym absent && memN r.name Ref.C14.shadowedByConstants
  else match refVerdict r.name with
    | .unique k c =>
      let u := topLevelAttr ctxBits shadowedC r.name
      readingMatches u k c && Nat.beq r.topSym (symOf u)
    | _ => false

/-- the `add_symbols` namespace of the custom registry -/
def customOk (r : NameRow) : Bool :=
  let u := addSymbolsAttr customCtxBits r.name
  Nat.beq r.customSym (symOf u) &&
  (underscored r.name ||
    match refVerdict r.name with
    | .unique k c => readingMatches u k c
    | _ => false)

/-- all of the above with the reference evaluated once (what the chunk obligations decide) -/
def nameCheck (r : NameRow) : Bool :=
  treeOk r &&
  match refVerdict r.name with
  | .unique k c =>
    readingMatches (stringReading ctxBits r.name) k c
    && (match unitSymbolsAttr ctxBits r.name with
        | u => readingMatches u k c && Nat.beq r.usSym (symOf u)
               && (if memN r.name shadowedC
                   then Nat.beq r.topSym absent && memN r.name Ref.C14.shadowedByConstants
                   else Nat.beq r.topSym (symOf u)))
    && (match addSymbolsAttr customCtxBits r.name with
        | u => Nat.beq r.customSym (symOf u) && (underscored r.name || readingMatches u k c))
  | _ => false

/-- the full per-name statement (no guard: the word-prefixed °C spellings parse since the `fix:`
    that looks documented names up under their rewritten spelling) -/
def nameOk (r : NameRow) : Bool := nameCheck r

/-- `j`-th slice of length `n` (the kernel's cost grows faster than linearly with the size of one
    obligation, so each chunk is decided in several slices) -/
def sliceOf {α : Type} (l : List α) (j n : Nat) : List α := (l.drop (j * n)).take n

def namesChunkOk (i : Nat) : Bool := (rowsChunk i).all nameOk

/-- slice `j` (of 4, 64 rows each) of chunk `i` -/
def namesSliceOk (i j : Nat) : Bool := (sliceOf (rowsChunk i) j 64).all nameOk

/-! ### prefixes on non-prefixable units -/

/-- `p + spelling` of every non-prefixable unit (symbol and listed spellings) is rejected by the
    string route unless the concatenation is itself a listed name -/
def rejectRow (p : Name) (row : Name × Name × Name × Bool) : Bool :=
  row.2.2.2 || (Name.force (Name.append p row.2.1) fun s =>
                 invTree.contains s || (stringReading ctxBits s).isNone)

def rejectsAll (p : Name) : Bool := baseRowsC.all (rejectRow p)

/-- the prefix spellings: symbols of the regenerated table, then their word forms -/
def prefixSpellings : List Name := prefixesC.map (fun (k, _) => k) ++ prefixWordsC.map (fun (_, w) => w)

/-- the spellings are dealt out three per chunk -/
def spellingsChunk (i : Nat) : List Name := (prefixSpellings.drop (3 * i)).take 3

def nonprefixableChunkOk (i : Nat) : Bool := (spellingsChunk i).all rejectsAll

/-- slice `j` (of 3, 110 spelling rows each) for the three prefix spellings of chunk `i` -/
def nonprefixableSliceOk (i j : Nat) : Bool :=
  (spellingsChunk i).all fun p => (sliceOf baseRowsC j 110).all (rejectRow p)

/-- the slices cover the rows -/
def slicesCover : Bool :=
  (List.range 16).all (fun i => (rowsChunk i).length ≤ 4 * 64) && baseRowsC.length ≤ 3 * 110

/-- … and the 16 chunks cover all of them -/
def spellingsCovered : Bool :=
  prefixSpellings.all fun p => (List.range 16).any fun i => memN p (spellingsChunk i)

/-! ### the list of documented names is complete for prefixes -/

/-- every prefix symbol attached to every prefixable table symbol is a listed name, and every
    prefix word attached to every listed spelling of a prefixable unit is a listed name -/
def prefixedFormsListed : Bool :=
  (lutC.all fun (k, e) => !e.prefixable ||
    prefixesC.all fun (p, _) => invTree.contains (Name.append p k))
  && (altsInC.all fun (k, alts) =>
        match findN k lutC with
        | some e => !e.prefixable ||
            alts.all fun a => prefixWordsC.all fun (_, w) => invTree.contains (Name.append w a)
        | none => false)

/-- every table symbol is a listed name -/
def tableSymbolsListed : Bool := lutC.all fun (k, _) => invTree.contains k

/-! ### integrity of the regenerated inputs -/

/-- the flat spelling rows are exactly the table keys and the input aliases, with Python's lower -/
def baseRowsExpected : List (Name × Name × Name × Bool) :=
  lutC.flatMap fun (k, e) =>
    (Name.lower charTable k, k, k, e.prefixable) ::
      (match findN k altsInC with
       | some alts => alts.map fun a => (Name.lower charTable a, a, k, e.prefixable)
       | none => [])

def baseRowsOk : Bool :=
  baseRowsC.length == baseRowsExpected.length
  && (baseRowsC.zip baseRowsExpected).all fun ((a, b, c, d), (a', b', c', d')) =>
       Nat.beq a a' && Nat.beq b b' && Nat.beq c c' && d == d'

/-- the spelling tree holds exactly the flat rows -/
def baseTreeOk : Bool :=
  (baseTreeC.toList.map fun (_, b) => b.length).sum == baseRowsC.length
  && baseRowsC.all fun (lw, w, c, p) =>
       ((baseTreeC.get? lw).getD []).any fun (w', c', p') => Nat.beq w w' && Nat.beq c c' && p == p'

def entryEq (a b : Entry Nat) : Bool :=
  Nat.beq a.scale b.scale && Nat.beq a.offset b.offset && a.dim == b.dim && a.prefixable == b.prefixable

/-- the dicts the look-ups walk hold exactly the dumped rows: unit table, prefix table, and the
    custom registry's table = its own rows over the default rows -/
def dictsOk : Bool :=
  lutT.size == lutC.length
  && (lutC.all fun (k, e) => match lutT.get? k with | some e' => entryEq e e' | none => false)
  && prefixesT.size == prefixesC.length
  && (prefixesC.all fun (k, v) => match prefixesT.get? k with | some v' => Nat.beq v v' | none => false)
  && (customLutC.all fun (k, e) => match customLutT.get? k with | some e' => entryEq e e' | none => false)
  && (lutC.all fun (k, e) => (findN k customLutC).isSome ||
        match customLutT.get? k with | some e' => entryEq e e' | none => false)
  && customLutT.size == lutC.length + (customLutC.filter fun (k, _) => (findN k lutC).isNone).length

/-- every alias key of the input table is a table key -/
def altKeysOk : Bool := altsInC.all fun (k, _) => (findN k lutC).isSome

/-- every non-ASCII character of the generator's inputs has a row in the case table -/
def charsCovered : Bool :=
  let ok (n : Name) : Bool := (Name.chars n).all fun c => c < 128 || (findN c charTable).isSome
  lutC.all (fun (k, _) => ok k) && altsInC.all (fun (k, as) => ok k && as.all ok)
    && prefixWordsC.all (fun (k, w) => ok k && ok w)

def absR (q : Rat) : Rat := if q < 0 then -q else q

/-- the regenerated prefix table: every symbol and its word form are the SI prefix of the same
    power of ten, the value is that power of ten up to the rounding of a double, and every SI
    prefix of the reference is present -/
def prefixTableOk : Bool :=
  (prefixesC.all fun (k, v) =>
    match findN k Ref.C14.prefixSymbols, findN k prefixWordsC with
    | some e, some w =>
      findN w Ref.C14.prefixWords == some e
        && decide (absR (ratOfBits v - Ref.C14.pow10 e) ≤ Ref.C14.pow10 e / (2 ^ 50 : Nat))
    | _, _ => false)
  && Ref.C14.prefixSymbols.all (fun (k, _) => (findN k prefixesC).isSome)
  && Ref.C14.prefixWords.all (fun (w, _) => prefixWordsC.any fun (_, w') => Nat.beq w w')

/-- the prefix dict the look-up walks: every value is the SI power of ten of its symbol, up to the
    rounding of a double -/
def prefixDictOk : Bool :=
  prefixesT.toList.all fun (k, v) =>
    match findN k Ref.C14.prefixSymbols with
    | some e => decide (absR (ratOfBits v - Ref.C14.pow10 e) ≤ Ref.C14.pow10 e / (2 ^ 50 : Nat))
    | none => false

/-- the readable reference tables are the code tables -/
def refCodesOk : Bool :=
  (Ref.C14.prefixSymbolsS.map fun (s, k) => (Name.ofString s, k)) == Ref.C14.prefixSymbols
  && (Ref.C14.prefixWordsS.map fun (s, k) => (Name.ofString s, k)) == Ref.C14.prefixWords
  && (Ref.C14.shadowedByConstantsS.map Name.ofString) == Ref.C14.shadowedByConstants
  && Name.ofString "°C" == Ref.C14.degreeSignC
  && Name.ofChars deltaDegChars == Name.ofString "delta_deg" && [cpDelta] == "Δ".toList.map Char.toNat
  && Name.ofString "da" == daCode
  && Name.ofChars percentChars == Name.ofString "percent"
  && Name.ofChars degChars == Name.ofString "deg"
  && [cpPercent] == "%".toList.map Char.toNat && [cpDegree] == "°".toList.map Char.toNat
  && [cpUnderscore] == "_".toList.map Char.toNat

/-- the code-keyed unit table is the shared (string-keyed) regenerated table -/
def lutMatchesShared : Bool :=
  lutC.length == Generated.rawLut.length
  && (lutC.zip Generated.rawLut).all fun ((k, e), (s, r')) =>
       Name.toString k == s && e.scale == r'.scale && e.offset == r'.offset && e.dim == r'.dim
         && e.prefixable == r'.prefixable

/-- nothing reaches the three namespaces except listed names (and what `add_symbols` adds from the
    registry's own keys), shadowed names are names of `unit_symbols`, and every unit of the custom
    namespace belongs to the custom registry -/
def namespacesClosed : Bool :=
  usExtraC.isEmpty
  && topExtraC.isEmpty
  && (customExtraC.all fun (n, s) =>
        customLutT.contains n && Nat.beq s (symOf (addSymbolsAttr customCtxBits n)))
  && (shadowedC.all fun n => invTree.contains n && memN n Ref.C14.shadowedByConstants)
  && customForeignC.isEmpty
  && invTree.size == invCount && allRows.length == invCount

/-! ### the generator of the name tables -/

/-- the regenerated inputs of `generate_name_alternatives` -/
def genInputs : NameGen.Inputs :=
  { lut := lutC.map fun (k, e) => (k, e.prefixable), prefixes := prefixWordsC, alts := altsInC, ct := charTable }

/-- the model of `generate_name_alternatives()` run on the regenerated inputs -/
def generateDefault : Except (Name × Name) NameGen.Result :=
  match NameGen.generate genInputs with
  | .ok outs => .ok (NameGen.resultOf outs)
  | .error e => .error e

/-! ### the loop body of the generator, key by key, against the regenerated output -/

/-- was the name appended before position `a` of `inv_name_alternatives`? -/
def before (a : Nat) (n : Name) : Bool :=
  match posTree.get? n with
  | some p => Nat.blt p a
  | none => false

/-- the state the real generator had built when it reached the table key whose own name sits at
    position `a`: `seen` = the names listed before `a`; `names[nk]` = the members of
    `name_alternatives[nk]` listed before `a` -/
def viewAt (a : Nat) : NameGen.View :=
  { seen := before a,
    names := fun nk => ((namesOutT.get? nk).getD []).filter (before a) }

/-- the `j`-th append of the model is the `a+j`-th entry of the real tables, with the same
    canonical name and under the same listing key -/
def outsOk (a : Nat) : Nat → List NameGen.Out → Bool
  | _, [] => true
  | j, o :: r =>
    (match posTree.get? o.name, invTree.get? o.name with
     | some p, some (ok, nk) => Nat.beq p (a + j) && Nat.beq ok o.okey && Nat.beq nk o.nkey
     | _, _ => false) && outsOk a (j + 1) r

/-- the body of the generator's outer loop for the `i`-th table key, started in the state the real
    generator had at that point, appends exactly the entries the real generator appended there -/
def genKeyOk (i : Nat) : Bool :=
  match lutC[i]?, keyStarts[i]?, keyStarts[i + 1]? with
  | some (key, e), some a, some b =>
    (match NameGen.genKey genInputs (viewAt a) key e.prefixable with
     | .ok outs => outs.length == b - a && outsOk a 0 outs
     | .error _ => false)
  | _, _, _ => false

/-- table keys number i ≡ k (mod 16) -/
def keysOfChunk (k : Nat) : List Nat := (List.range lutC.length).filter fun i => i % 16 == k

def genChunkOk (k : Nat) : Bool := (keysOfChunk k).all genKeyOk

/-- the key positions are the whole table: as many starts as keys (+1), first 0, last the size -/
def keyStartsOk : Bool :=
  keyStarts.length == lutC.length + 1 && keyStarts.head? == some 0 && keyStarts.getLast? == some invCount

end Unyt.C14
