/-
  UnytModel.UfuncHistory — `unyt_array.__array_ufunc__` as a STATE MACHINE over the process-wide
  state it keeps between calls (C01: the outcome of a call must not depend on the calls made before).

  `Ufunc.dispatch` is a function of one call.  The real dispatcher runs in an interpreter whose
  module-level objects survive from call to call: a memo table consulted on the way (a dictionary
  `key -> what an earlier call worked out`) makes the outcome of a call a function of the HISTORY.
  This file models that:

  §1  a generic memo (`MemoSem`): key function, key equality, which results are stored, bounded size
      with flush; `MemoSem.step` = look up, else compute and store;
  §2  what a memo of the binary branch can be keyed by (`Field`), the memo descriptions regenerated
      from the live source of `unyt/array.py` by `tools/extract.d/c01_state.py`
      (`Generated.C01State.dispatcherMemos`: container name, block it short-circuits, the fields its
      key mentions, size bound), and when a description is sound (`Memo.sound`: the key mentions
      everything the short-circuited block reads);
  §3  the dispatcher with its two memo tables threaded through — one on the dimension-check block
      (none on the unchanged tree), one on the unit rule (`_unit_rule_cache`, an `lru_cache` per rule
      function): `stdBinaryM` / `binaryPathM` / `dispatchM : Cfg → St → Call → St × Run`, and
      `runHistory` (a list of earlier calls, then the call).  `stdBinaryV` is `Ufunc.stdBinary` with the
      verdict of the check block and the unit rule as parameters (`stdBinaryV_plain : … = stdBinary …` by `rfl`).

  Theorems (UnytProofs/C01History.lean): a sound configuration is transparent — after ANY history
  the outcome of a call is `Ufunc.dispatch` of that call alone; hence a mismatch is refused after
  any history.  The unchanged tree has no memo on the check block and a soundly keyed one on the unit
  rule (kernel-decided over the regenerated table); a check memo keyed by the two units only is refuted
  by a concrete history.
-/
import UnytModel.Ufunc

namespace Unyt.Ufunc.History
open Unyt Unyt.Ufunc

/-! ## §1 a generic memo table -/

/-- a memo in front of a block `blk : I → V` -/
abbrev Store (KeyT V : Type) := List (KeyT × V)

structure MemoSem (I KeyT V : Type) where
  /-- the key an input is filed under; `none` = this input is never memoised -/
  key : I → Option KeyT
  /-- dictionary key equality, called as `keq storedKey newKey` -/
  keq : KeyT → KeyT → Bool
  /-- results that reach the store statement (an exception or an early `return` never does) -/
  storable : V → Bool
  /-- what is kept when room is made for a new entry (a flush when full, `lru_cache`'s eviction, …) -/
  evict : Store KeyT V → Store KeyT V

section
variable {I KeyT V : Type}

def MemoSem.lookup (M : MemoSem I KeyT V) (st : Store KeyT V) (k : KeyT) : Option V :=
  (st.find? fun e => M.keq e.1 k).map (·.2)

/-- one pass through a memoised block: `(table afterwards, value used)` -/
def MemoSem.step (M : MemoSem I KeyT V) (blk : I → V) (st : Store KeyT V) (x : I) : Store KeyT V × V :=
  match M.key x with
  | none => (st, blk x)
  | some k =>
    match M.lookup st k with
    | some v => (st, v)
    | none =>
      let v := blk x
      if M.storable v then ((k, v) :: M.evict st, v) else (st, v)

end

/-! ## §2 memo descriptions regenerated from the source -/

/-- what the key of a memo in the binary branch of `__array_ufunc__` can mention (and what the
    dimension-check block reads) -/
inductive Field
  | ufunc | rule | method | unit0 | unit1 | reg0 | reg1 | operand0 | operand1 | out | other
deriving DecidableEq, Repr, Inhabited

/-- field names as the translator plugin writes them -/
def Field.ofName (s : String) : Field :=
  match s with
  | "ufunc" => .ufunc | "rule" => .rule | "method" => .method
  | "unit0" => .unit0 | "unit1" => .unit1 | "reg0" => .reg0 | "reg1" => .reg1
  | "operand0" => .operand0 | "operand1" => .operand1 | "out" => .out
  | _ => .other

/-- the block a memo short-circuits -/
inductive Block
  /-- array.py "if not u0.same_dimensions_as(u1): …" — `Ufunc.commensurate` -/
  | check
  /-- the unit rule `unit_operator(u0, u1)` (array.py `_unit_rule_cache`) — `Ufunc.applyRule2` -/
  | rule
  /-- anything else: not modelled (an obligation fails when one appears) -/
  | unmodelled
deriving DecidableEq, Repr, Inhabited

structure Memo where
  name : String
  block : Block
  key : List Field
  maxsize : Nat
deriving Repr, Inhabited

/-- everything `Ufunc.commensurate` reads: the rule, the ufunc (`==`/`!=`), both operands (zero
    adoption) and both units -/
def checkReads : List Field := [.rule, .ufunc, .operand0, .operand1, .unit0, .unit1]

/-- everything `Ufunc.applyRule2` reads: which rule, and the two units -/
def ruleReads : List Field := [.rule, .unit0, .unit1]

/-- the key mentions everything the block reads -/
def Memo.sound (m : Memo) : Bool :=
  match m.block with
  | .check => checkReads.all fun f => m.key.contains f
  | .rule => ruleReads.all fun f => m.key.contains f
  | .unmodelled => false

/-- the process-wide state of the dispatcher as the model knows it: at most one memo on the check
    block and one on the unit rule -/
structure Cfg where
  check : Option Memo := none
  rule : Option Memo := none
deriving Repr, Inhabited

def Cfg.sound (cfg : Cfg) : Bool :=
  (match cfg.check with
   | none => true
   | some m => m.block == .check && m.sound)
  && (match cfg.rule with
   | none => true
   | some m => m.block == .rule && m.sound)

/-- configuration from the regenerated rows `(name, block, key fields, maxsize)`; `none` when a row
    is of a kind the model has no place for (two memos on one block, a memo on another block) -/
def Cfg.ofRows : List (String × String × List String × Nat) → Option Cfg
  | [] => some {}
  | (n, b, ks, mx) :: rest =>
    match Cfg.ofRows rest with
    | none => none
    | some cfg =>
      if b == "check" && cfg.check.isNone then some { cfg with check := some ⟨n, .check, ks.map Field.ofName, mx⟩ }
      else if b == "rule" && cfg.rule.isNone then some { cfg with rule := some ⟨n, .rule, ks.map Field.ofName, mx⟩ }
      else none

section
variable {K : Type}

/-- the inputs of the dimension-check block -/
structure CheckIn (K : Type) where
  rule : Rule
  ufunc : String
  i0 : Operand K
  i1 : Operand K
  u0 : UnitR K
  u1 : UnitR K

/-- value of a key field -/
inductive FVal (K : Type)
  | str (s : String)
  | rule (r : Rule)
  | unit (u : UnitR K)
  | opnd (o : Operand K)
  | none

/-- one registry in the model: `id(u.registry)` is a constant; `method`, `out` are not inputs of the block -/
def Field.proj : Field → CheckIn K → FVal K
  | .ufunc, x => .str x.ufunc
  | .rule, x => .rule x.rule
  | .unit0, x => .unit x.u0
  | .unit1, x => .unit x.u1
  | .operand0, x => .opnd x.i0
  | .operand1, x => .opnd x.i1
  | _, _ => .none

/-- structural equality of units as dictionary keys (`Unit.__hash__` is the expression,
    `Unit.__eq__` scale, offset and dimensions) -/
def unitKeyEq [BEq K] (a b : UnitR K) : Bool :=
  a.repr == b.repr && a.v.scale == b.v.scale && a.v.offset == b.v.offset && a.v.dim == b.v.dim
    && a.v.canon == b.v.canon && a.v.expr.coeff == b.v.expr.coeff && a.v.expr.factors == b.v.expr.factors

def dataKeyEq (a b : Data) : Bool :=
  a.shape == b.shape && a.allZero == b.allZero && a.kind == b.kind && a.itemsize == b.itemsize
    && a.constant == b.constant && a.first == b.first

def optUnitKeyEq [BEq K] : Option (UnitR K) → Option (UnitR K) → Bool
  | some a, some b => unitKeyEq a b
  | none, none => true
  | _, _ => false

def itemsKeyEq [BEq K] : List (Option (UnitR K)) → List (Option (UnitR K)) → Bool
  | [], [] => true
  | a :: as, b :: bs => optUnitKeyEq a b && itemsKeyEq as bs
  | _, _ => false

def operandKeyEq [BEq K] : Operand K → Operand K → Bool
  | .unyt c u d, .unyt c' u' d' => c == c' && unitKeyEq u u' && dataKeyEq d d'
  | .bare d, .bare d' => dataKeyEq d d'
  | .seq it d, .seq it' d' => itemsKeyEq it it' && dataKeyEq d d'
  | _, _ => false

/-- the driver's key-field equality -/
def fvalKeyEq [BEq K] : FVal K → FVal K → Bool
  | .str a, .str b => a == b
  | .rule a, .rule b => a == b
  | .unit a, .unit b => unitKeyEq a b
  | .opnd a, .opnd b => operandKeyEq a b
  | .none, .none => true
  | _, _ => false

/-- the memo of the check block: the key is the block's input seen through the key fields; only a
    verdict that lets the call go on is stored -/
def Memo.sem (m : Memo) (feq : FVal K → FVal K → Bool) : MemoSem (CheckIn K) (CheckIn K) (Check K) where
  key := fun x => some x
  keq := fun a b => m.key.all fun f => feq (f.proj a) (f.proj b)
  storable := fun v => match v with | .pass _ _ _ => true | _ => false
  evict := fun st => if st.length ≥ m.maxsize then [] else st

/-- the inputs of the unit-rule block -/
structure RuleIn (K : Type) where
  rule : Rule
  u0 : UnitR K
  u1 : UnitR K

def Field.projR : Field → RuleIn K → FVal K
  | .rule, x => .rule x.rule
  | .unit0, x => .unit x.u0
  | .unit1, x => .unit x.u1
  | _, _ => .none

/-- the memo of the unit rules (`functools.lru_cache`): a raised exception is not stored; when full
    the oldest entry goes (the recency update on a hit is not modelled: any sub-table keeps the invariant) -/
def Memo.semR (m : Memo) (feq : FVal K → FVal K → Bool) :
    MemoSem (RuleIn K) (RuleIn K) (Except Err (K × Option (UnitV K))) where
  key := fun x => some x
  keq := fun a b => m.key.all fun f => feq (f.projR a) (f.projR b)
  storable := fun v => match v with | .ok _ => true | .error _ => false
  evict := fun st => if st.length ≥ m.maxsize then st.dropLast else st

variable [Add K] [Sub K] [Mul K] [Div K] [OfNat K 0] [OfNat K 1] [BEq K] [RPow K]

/-- the dimension-check block as a function of its inputs -/
def checkBlk (C : Ctx K) (x : CheckIn K) : Check K := commensurate C x.rule x.ufunc x.i0 x.i1 x.u0 x.u1

abbrev CheckStore (K : Type) := Store (CheckIn K) (Check K)

/-- the check block behind the configured memo -/
def checkM (cfg : Cfg) (feq : FVal K → FVal K → Bool) (C : Ctx K) (st : CheckStore K) (x : CheckIn K) :
    CheckStore K × Check K :=
  match cfg.check with
  | none => (st, checkBlk C x)
  | some m => (m.sem feq).step (checkBlk C) st x

/-- the unit-rule block as a function of its inputs -/
def ruleBlk (C : Ctx K) (x : RuleIn K) : Except Err (K × Option (UnitV K)) := applyRule2 C x.rule x.u0 x.u1

abbrev RuleStore (K : Type) := Store (RuleIn K) (Except Err (K × Option (UnitV K)))

/-- the unit rule behind the configured memo -/
def ruleM (cfg : Cfg) (feq : FVal K → FVal K → Bool) (C : Ctx K) (st : RuleStore K) (x : RuleIn K) :
    RuleStore K × Except Err (K × Option (UnitV K)) :=
  match cfg.rule with
  | none => (st, ruleBlk C x)
  | some m => (m.semR feq).step (ruleBlk C) st x

/-- the process-wide state -/
structure St (K : Type) where
  check : CheckStore K := []
  rule : RuleStore K := []

/-! ## §3 the dispatcher with the memos threaded through -/

/-- floor division of operands of different dimensions is the plain quotient rule -/
def effRule (rule : Rule) (u0 u1 : UnitR K) : Rule :=
  if rule == .floorDivide && u0.v.dim != u1.v.dim then .divide else rule

/-- the K/R-plus-offset refusal that precedes the check block -/
def kRefusal (rule : Rule) (u0 u1 : UnitR K) : Bool :=
  rule == .preserve && isTemperature u0.v && u1.v.offset != 0 && u0.v.offset == 0
      && (u0.repr == "K" || u0.repr == "R")

/-- `Ufunc.stdBinary` with the verdict of the check block (used only when the rule enters the rescale
    block) and the unit rule (of the effective rule) as parameters -/
def stdBinaryV (C : Ctx K) (c : Call K) (rule : Rule) (i0 i1 : Operand K)
    (u0r u1r : Option (UnitR K)) (eff0 : List (Effect K)) (chkv : Check K)
    (rulev : UnitR K → UnitR K → Except Err (K × Option (UnitV K))) : Run K :=
  let u0 : UnitR K := defaultUnit u0r
  let u1 : UnitR K := defaultUnit u1r
  if rule == .preserve && isTemperature u0.v && u1.v.offset != 0 && u0.v.offset == 0
      && (u0.repr == "K" || u0.repr == "R") then ⟨eff0, .error .UnitOperationError⟩
  else
    let rule : Rule := if rule == .floorDivide && u0.v.dim != u1.v.dim then .divide else rule
    let chk : Check K := if rule.rescales then chkv else .pass u0 u1 false
    match chk with
    | .refuse => ⟨eff0, .error .UnitOperationError⟩
    | .early b =>
      let eff : List (Effect K) := match c.out with
        | .none => []
        | .one o => .writeOut 0 :: (if o.isUnyt then [.setOutUnits 0 (UnitR.null : UnitR K).v] else [])
        | .many _ => []
      match c.out with
      | .many _ => ⟨eff0, .error .TypeError⟩
      | .one _ =>
        if i1.data.shape == [] then ⟨eff0, .error .Other⟩
        else ⟨eff0 ++ eff, .ok { unit := none, mul := 1, early := some b }⟩
      | .none => ⟨eff0, .ok { unit := none, mul := 1, early := some b }⟩
    | .pass u0 u1 conv =>
      let cv : Except Err (Option (Rescale K)) :=
        if conv then (convertSecond C rule u0 u1 i1.data).map some else .ok none
      match cv with
      | .error e => ⟨eff0, .error e⟩
      | .ok cvo =>
        match rulev u0 u1 with
        | .error e => ⟨eff0, .error e⟩
        | .ok (mul, unit) =>
          let effR := eff0 ++ prepOut C.T c.ufunc c.out
          match c.kernelErr with
          | some e => ⟨effR, .error e⟩
          | none =>
            let eff1 := effR ++ kernelWrites c.out
            match mulDivPost rule u0 u1 mul unit with
            | .error e => ⟨eff1, .error e⟩
            | .ok (mul, unit) =>
              let f2 : Option K := match cvo with | some (.second f _) => some f | _ => none
              let fz : Option Nat := match cvo with | some (.second _ z) => some z | _ => none
              let f1 : Option K := match cvo with | some (.first f) => some f | _ => none
              let r := wrapUp C.T eff1 c (!(i0.isUnyt) && !(i1.isUnyt)) mul unit f2 fz
              ⟨r.effects, r.result.map fun o => { o with factorFirst := f1 }⟩

/-- the input of the check block for this call -/
def checkInOf (c : Call K) (rule : Rule) (i0 i1 : Operand K) (u0r u1r : Option (UnitR K)) : CheckIn K :=
  ⟨effRule rule (defaultUnit u0r) (defaultUnit u1r), c.ufunc, i0, i1, defaultUnit u0r, defaultUnit u1r⟩

/-- did the conversion of the second operand raise (then the unit rule is never called) -/
def convertFails (C : Ctx K) (rule : Rule) (a b : UnitR K) (conv : Bool) (d1 : Data) : Bool :=
  conv && (match convertSecond C rule a b d1 with | .error _ => true | .ok _ => false)

/-- the table of the unit rules after a call whose (effective) verdict is `chk`: the rule is looked up
    only when the call gets as far as `unit_operator(u0, u1)` -/
def ruleStoreAfter (cfg : Cfg) (feq : FVal K → FVal K → Bool) (C : Ctx K) (st : RuleStore K) (rule : Rule)
    (d1 : Data) (chk : Check K) : RuleStore K :=
  match chk with
  | .pass a b conv =>
    if convertFails C rule a b conv d1 then st else (ruleM cfg feq C st ⟨rule, a, b⟩).1
  | _ => st

/-- `stdBinary` in an interpreter whose check block and unit rules sit behind the configured memos:
    the check memo is consulted exactly when the real code reaches the block (no K/R refusal, a
    rescaling rule, and — as in the code — only when the units differ); the rule memo when the call
    gets as far as `unit_operator(u0, u1)` -/
def stdBinaryM (cfg : Cfg) (feq : FVal K → FVal K → Bool) (C : Ctx K) (st : St K) (c : Call K)
    (rule : Rule) (i0 i1 : Operand K) (u0r u1r : Option (UnitR K)) (eff0 : List (Effect K)) :
    St K × Run K :=
  let x := checkInOf c rule i0 i1 u0r u1r
  if kRefusal rule x.u0 x.u1 then
    (st, stdBinaryV C c rule i0 i1 u0r u1r eff0 (checkBlk C x) (fun a b => ruleBlk C ⟨x.rule, a, b⟩))
  else
    let r1 : CheckStore K × Check K :=
      if !(x.rule.rescales) || C.ueq x.u0.v x.u1.v then (st.check, checkBlk C x) else checkM cfg feq C st.check x
    let chk : Check K := if x.rule.rescales then r1.2 else .pass x.u0 x.u1 false
    let rs : RuleStore K := ruleStoreAfter cfg feq C st.rule x.rule i1.data chk
    (⟨r1.1, rs⟩,
     stdBinaryV C c rule i0 i1 u0r u1r eff0 r1.2 (fun a b => (ruleM cfg feq C st.rule ⟨x.rule, a, b⟩).2))

def binaryPathM (cfg : Cfg) (feq : FVal K → FVal K → Bool) (C : Ctx K) (st : St K) (c : Call K)
    (i0 i1 : Operand K) (eff0 : List (Effect K)) : St K × Run K :=
  match coerce C.ueq i0 with
  | .error e => (st, ⟨eff0, .error e⟩)
  | .ok c0 =>
    match coerce C.ueq i1 with
    | .error e => (st, ⟨eff0, .error e⟩)
    | .ok c1 =>
      let u0r := unitsOf i0 c0
      let u1r := unitsOf i1 c1
      if c.ufunc == C.T.powerName then (st, powerPath C c i0 i1 u0r c1 eff0)
      else
        match C.T.ruleOf c.ufunc with
        | none => (st, ⟨eff0, .error .KeyError⟩)
        | some rule => stdBinaryM cfg feq C st c rule i0 i1 u0r u1r eff0

/-- `unyt_array.__array_ufunc__` in an interpreter with process-wide state `st` -/
def dispatchM (cfg : Cfg) (feq : FVal K → FVal K → Bool) (C : Ctx K) (st : St K) (c : Call K) :
    St K × Run K :=
  match c.inputs with
  | [i0, i1] => binaryPathM cfg feq C st c i0 i1 []
  | _ => (st, dispatch C c)

/-- the state after a list of calls -/
def stateAfter (cfg : Cfg) (feq : FVal K → FVal K → Bool) (C : Ctx K) (st : St K) :
    List (Call K) → St K
  | [] => st
  | c :: rest => stateAfter cfg feq C (dispatchM cfg feq C st c).1 rest

/-- a fresh interpreter, the calls of `history`, then `c` -/
def runHistory (cfg : Cfg) (feq : FVal K → FVal K → Bool) (C : Ctx K) (history : List (Call K)) (c : Call K) : Run K :=
  (dispatchM cfg feq C (stateAfter cfg feq C {} history) c).2

end

end Unyt.Ufunc.History
