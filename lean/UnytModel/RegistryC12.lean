/-
  UnytModel.RegistryC12 — a unit registry as a state machine over operation histories (C12).

  Models `unyt/unit_registry.py::UnitRegistry` — `lut`, `_unit_object_cache`, the
  `unit_system_id` memo, `add` / `modify` (float | quantity) / `remove`, `__contains__`,
  `__getitem__`, `_lookup_unit_symbol` with the WRITE-BACK of derived prefixed entries into
  `lut` (also when the enclosing construction later fails) — and the string → `Unit`
  construction path of `unyt/unit_object.py::Unit.__new__` (cache look-up by the raw string,
  `parse_unyt_expr`, `_get_unit_data_from_expr`, cache fill), as

      step : RegState K → Op K → RegState K × Out K

  faithful to the code AS IT IS.  Which memo layers an edit invalidates is a configuration
  `Cfg` that the translator regenerates from the live source (`Generated/RegistryC12Cfg`):
  `Cfg.asIs` is the code before the `fix:` commits (an edit resets the id memo and, for
  `modify`/`remove`, deletes the one cache key equal to the symbol; nothing else); since them an edit
  starts by forgetting the derived entries it wrote back (`purgeDerived`), ends — when it succeeds —
  by emptying the string cache (`clearCache`), and `modify` resets the memo again after `in_base`
  (`memoResetLast`); `Cfg.repaired` additionally computes the id over the non-derived entries
  (`idSkipsDerived`, not part of the fix: a kept finding).

  The sympy parser is outside the model: `parse : String → Except Err (PExpr K)` is an arbitrary
  function (the theorems hold for every such function; the driver is handed the graph of the real
  `parse_unyt_expr` on the probe strings, factors in sympy's `Mul.args` order).

  The abstract specification is `contents`: the symbol table computed from the HISTORY by the
  obvious `add/modify/remove` semantics (never read back from the concrete `lut`, which also
  holds derived write-backs), and `fresh c`: a new registry whose table is exactly `c`.
-/
import UnytModel.Unit

namespace Unyt.RegC12
open Unyt

/-- which memo layers an edit invalidates / what the id covers (regenerated from the source) -/
structure Cfg where
  /-- a successful `add/modify/remove` ends by emptying `_unit_object_cache` -/
  clearCache : Bool
  /-- `add/modify/remove` start by deleting the derived (written-back) prefixed entries from `lut` -/
  purgeDerived : Bool
  /-- `unit_system_id` is computed over the non-derived entries only -/
  idSkipsDerived : Bool
  /-- `modify` resets the `unit_system_id` memo (again) *after* it has updated the table; in the
      present code the only reset is the first statement, and `quantity.in_base("mks")` — run
      between the reset and the table update — recomputes the memo over the OLD table whenever
      the quantity's unit belongs to this registry (`Unit.__hash__` reads `unit_system_id`) -/
  memoResetLast : Bool
deriving DecidableEq, Repr

def Cfg.asIs : Cfg := ⟨false, false, false, false⟩
def Cfg.repaired : Cfg := ⟨true, true, true, true⟩

/-- what `parse_unyt_expr` returns, as far as `_get_unit_data_from_expr` distinguishes it:
    a bare `Symbol` (carries the table's offset), or anything else (`Number`, `Pow`, `Mul`):
    numeric coefficient and the symbol powers in `Mul.args` order (offset 0) -/
inductive PExpr (K : Type) where
  | atom (s : String)
  | prod (coeff : K) (fs : Factors)
deriving Repr

/-- the data a `Unit` object holds (`base_value`, `base_offset`, `dimensions`) -/
structure UnitD (K : Type) where
  scale : K
  offset : K
  dim : Dim
deriving DecidableEq, Repr

structure RegState (K : Type) where
  /-- `UnitRegistry.lut`, including derived prefixed entries written back by look-ups -/
  lut : Lut K
  /-- `UnitRegistry._unit_object_cache`: raw unit string ↦ the `Unit` object (its heap index) -/
  cache : List (String × Nat)
  /-- every `Unit` object handed out so far, in creation order (objects are never mutated:
      `old_units_keep_value` is the statement that no step changes an existing cell) -/
  objs : List (UnitD K)
  /-- `UnitRegistry._unit_system_id`: `none`, or the table snapshot the md5 was taken over -/
  idMemo : Option (Lut K)
  /-- the keys of `lut` that were written back by `_lookup_unit_symbol`.  In the present code
      this information does not exist at run time (a derived tuple looks like a user tuple): the
      field is then a ghost that no `Cfg.asIs` step reads for its result — it only feeds the
      decidable guard of the `…_partial` theorem.  In the repaired code it is the set of entries
      carrying the derived marker. -/
  derived : List String
  /-- ghost as well: the memo was filled by `modify(sym, quantity)` from the table *before* the
      update (see `Cfg.memoResetLast`) and has not been reset since -/
  memoStale : Bool

inductive Op (K : Type) where
  /-- `r.add(sym, base_value, dimensions, offset=…, prefixable=…)` with valid arguments -/
  | add (sym : String) (e : Entry K)
  /-- `r.add(sym, <non-float>, …)`: refused with `UnitParseError` after the memo reset -/
  | addInvalid (sym : String)
  /-- `r.modify(sym, float)` -/
  | modifyF (sym : String) (v : K)
  /-- `r.modify(sym, quantity)`: new MKS value and the quantity's dimensions; `own`: the
      quantity's unit belongs to this very registry -/
  | modifyQ (sym : String) (v : K) (d : Dim) (own : Bool)
  /-- `r.remove(sym)` -/
  | remove (sym : String)
  /-- `Unit(q, registry=r)` -/
  | unit (q : String)
  /-- `k in r` -/
  | contains (k : String)
  /-- `r[k]` -/
  | getitem (k : String)
  /-- `r.unit_system_id` -/
  | sysId

inductive Out (K : Type) where
  /-- returned `None` -/
  | done
  | err (e : Err)
  /-- a `Unit` object: its identity (heap index) and its data -/
  | unit (id : Nat) (d : UnitD K)
  | bool (b : Bool)
  | entry (e : Entry K)
  /-- the table snapshot the id is the md5 of -/
  | sysId (snap : Lut K)

def Op.isEdit {K : Type} : Op K → Bool
  | .add .. | .addInvalid .. | .modifyF .. | .modifyQ .. | .remove .. => true
  | _ => false

/-- string ↦ heap index look-up in the unit-object cache -/
def cfind : List (String × Nat) → String → Option Nat
  | [], _ => none
  | (k, i) :: r, q => if k = q then some i else cfind r q

/-- `del d[k]` for all keys in `D` -/
def eraseKeys {K : Type} (t : Lut K) (D : List String) : Lut K :=
  t.filter fun p => !D.contains p.1

section
variable {K : Type} [Mul K] [OfNat K 1] [OfNat K 0] [RPow K]

/-- `_lookup_unit_symbol(s, lut)` with the table after the write-back and the record of it;
    a failed look-up leaves no trace -/
def lookupW (pre : Prefixes K) (t : Lut K) (D : List String) (s : String) :
    Lut K × List String × Option (Entry K) :=
  match lookupUnitSymbol pre t s with
  | .error _ => (t, D, none)
  | .ok (e, t') => (t', if (t.find? s).isNone then s :: D else D, some e)

/-- `_get_unit_data_from_expr` over the factors of a `Mul` / a `Pow`, in `args` order.  The
    write-backs of the factors already looked up persist when a later factor fails (the
    exception propagates, the dict stays mutated). -/
def evalW (pre : Prefixes K) : Lut K → List String → Factors → Lut K × List String × Option (K × Dim)
  | t, D, [] => (t, D, some (1, Dim.one))
  | t, D, (s, q) :: rest =>
    match lookupW pre t D s with
    | (t', D', none) => (t', D', none)
    | (t', D', some ent) =>
      match evalW pre t' D' rest with
      | (t'', D'', none) => (t'', D'', none)
      | (t'', D'', some (v, d)) => (t'', D'', some (pw ent.scale q * v, ent.dim.pow q * d))

/-- `_get_unit_data_from_expr(parse_unyt_expr(q), registry.lut)` and the offset rule of
    `Unit.__new__`: only a bare symbol takes the table's offset -/
def evalExpr (pre : Prefixes K) (t : Lut K) (D : List String) :
    PExpr K → Lut K × List String × Option (UnitD K)
  | .atom s =>
    match lookupW pre t D s with
    | (t', D', none) => (t', D', none)
    | (t', D', some e) => (t', D', some ⟨e.scale, e.offset, e.dim⟩)
  | .prod c fs =>
    match evalW pre t D fs with
    | (t', D', none) => (t', D', none)
    | (t', D', some (v, d)) => (t', D', some ⟨c * v, 0, d⟩)

/-- what an expression denotes against a table, without any state (`resolve`, `denoteF`) -/
def pureEval (pre : Prefixes K) (c : Lut K) : PExpr K → Option (UnitD K)
  | .atom s =>
    match resolve pre c s with
    | none => none
    | some e => some ⟨e.scale, e.offset, e.dim⟩
  | .prod co fs =>
    match denoteF pre c fs with
    | none => none
    | some (v, d) => some ⟨co * v, 0, d⟩

/-- the first statements of `add` / `modify` / `remove`: `self._unit_system_id = None` and — in the
    repaired code — the purge of the derived entries -/
def invalidate (cfg : Cfg) (s : RegState K) : RegState K :=
  let s1 : RegState K :=
    if cfg.purgeDerived then { s with lut := eraseKeys s.lut s.derived, derived := [] } else s
  { s1 with idMemo := none, memoStale := false }

/-- the last statement of a successful edit of `sym`: the repaired code empties the string cache;
    the present code deletes the key equal to `sym` in `modify`/`remove` (`delKey`) and nothing in `add` -/
def cacheAfterEdit (cfg : Cfg) (cache : List (String × Nat)) (sym : String) (delKey : Bool) :
    List (String × Nat) :=
  if cfg.clearCache then [] else if delKey then cache.filter (·.1 ≠ sym) else cache

/-- the table snapshot `unit_system_id` hashes -/
def snapshot (cfg : Cfg) (s : RegState K) : Lut K :=
  if cfg.idSkipsDerived then eraseKeys s.lut s.derived else s.lut

/-- one call on the registry -/
def step (cfg : Cfg) (pre : Prefixes K) (parse : String → Except Err (PExpr K))
    (s0 : RegState K) : Op K → RegState K × Out K
  -- unit_registry.py:105-165
  | .add sym e =>
    let s := invalidate cfg s0
    ({ s with lut := s.lut.set sym e, cache := cacheAfterEdit cfg s.cache sym false,
              derived := s.derived.filter (· ≠ sym) }, .done)
  | .addInvalid _ => (invalidate cfg s0, .err .UnitParseError)
  -- unit_registry.py:190-221
  | .modifyF sym v =>
    let s := invalidate cfg s0
    match s.lut.find? sym with
    | none => (s, .err .SymbolNotFoundError)
    | some e =>
      ({ s with lut := s.lut.set sym { e with scale := v },
                cache := cacheAfterEdit cfg s.cache sym true,
                derived := s.derived.filter (· ≠ sym) }, .done)
  | .modifyQ sym v d own =>
    let s := invalidate cfg s0
    match s.lut.find? sym with
    | none => (s, .err .SymbolNotFoundError)
    | some e =>
      -- unit_registry.py:212-215: `base_value.in_base("mks")` hashes the quantity's unit
      let s : RegState K :=
        if own && !cfg.memoResetLast then { s with idMemo := some (snapshot cfg s), memoStale := true }
        else s
      ({ s with lut := s.lut.set sym { e with scale := v, dim := d },
                cache := cacheAfterEdit cfg s.cache sym true,
                derived := s.derived.filter (· ≠ sym) }, .done)
  -- unit_registry.py:167-188
  | .remove sym =>
    let s := invalidate cfg s0
    match s.lut.find? sym with
    | none => (s, .err .SymbolNotFoundError)
    | some _ =>
      ({ s with lut := s.lut.erase sym,
                cache := cacheAfterEdit cfg s.cache sym true,
                derived := s.derived.filter (· ≠ sym) }, .done)
  -- unit_object.py:157-285 (string branch)
  | .unit q =>
    match cfind s0.cache q with
    | some i =>
      match s0.objs[i]? with
      | some u => (s0, .unit i u)
      | none => (s0, .err .Other)
    | none =>
      match parse q with
      | .error e => (s0, .err e)
      | .ok ex =>
        match evalExpr pre s0.lut s0.derived ex with
        | (t', D', none) => ({ s0 with lut := t', derived := D' }, .err .UnitParseError)
        | (t', D', some u) =>
          ({ s0 with lut := t', derived := D', cache := (q, s0.objs.length) :: s0.cache,
                     objs := s0.objs ++ [u] }, .unit s0.objs.length u)
  -- unit_registry.py:75-82
  | .contains k =>
    match lookupW pre s0.lut s0.derived k with
    | (_, _, none) => (s0, .bool false)
    | (t', D', some _) => ({ s0 with lut := t', derived := D' }, .bool true)
  -- unit_registry.py:62-73
  | .getitem k =>
    match lookupW pre s0.lut s0.derived k with
    | (_, _, none) => (s0, .err .SymbolNotFoundError)
    | (t', D', some e) => ({ s0 with lut := t', derived := D' }, .entry e)
  -- unit_registry.py:84-99
  | .sysId =>
    match s0.idMemo with
    | some d => (s0, .sysId d)
    | none => ({ s0 with idMemo := some (snapshot cfg s0) }, .sysId (snapshot cfg s0))

/-- the state after a history -/
def run (cfg : Cfg) (pre : Prefixes K) (parse : String → Except Err (PExpr K))
    (s : RegState K) (h : List (Op K)) : RegState K :=
  h.foldl (fun s o => (step cfg pre parse s o).1) s

/-! ### the abstract specification -/

/-- the effect of one call on the registry's *contents* (symbol ↦ entry), as documented:
    `add` sets, `modify` changes the value (and, for a quantity, the dimensions) of an existing
    symbol, `remove` deletes an existing symbol, everything else leaves the contents alone -/
def specStep (c : Lut K) : Op K → Lut K
  | .add sym e => c.set sym e
  | .modifyF sym v =>
    match c.find? sym with
    | none => c
    | some e => c.set sym { e with scale := v }
  | .modifyQ sym v d _ =>
    match c.find? sym with
    | none => c
    | some e => c.set sym { e with scale := v, dim := d }
  | .remove sym =>
    match c.find? sym with
    | none => c
    | some _ => c.erase sym
  | _ => c

/-- the contents after a history, starting from the table `t0` -/
def contents (t0 : Lut K) (h : List (Op K)) : Lut K := h.foldl specStep t0

/-- a new registry whose table is exactly `c`: nothing cached, nothing derived, no objects -/
def fresh (c : Lut K) : RegState K := ⟨c, [], [], none, [], false⟩

/-- two results are the same observation: equal, except that `Unit` objects are compared by
    their data (identities differ between registries) and id snapshots as key ↦ entry maps
    (the code hashes the *sorted* items) -/
def Out.Sim : Out K → Out K → Prop
  | .done, .done => True
  | .err a, .err b => a = b
  | .unit _ u, .unit _ v => u = v
  | .bool a, .bool b => a = b
  | .entry a, .entry b => a = b
  | .sysId a, .sysId b => ∀ k, a.find? k = b.find? k
  | _, _ => False

/-! ### the guard: which edits the present code handles correctly -/

/-- the string that remains after the candidate prefix of `s` differs from `sym` (so that a
    change of `sym` cannot change how `s` splits) -/
def restNe (s sym : String) : Bool :=
  match splitCandidate s with
  | none => true
  | some (_, w) => w != sym

/-- the resolution of `x` cannot depend on the entry of `sym` -/
def symAvoids (sym x : String) : Bool := x != sym && restNe x sym

def exprAvoids (sym : String) : PExpr K → Bool
  | .atom x => symAvoids sym x
  | .prod _ fs => fs.all fun p => symAvoids sym p.1

/-- an edit of `sym` meets no residue of earlier look-ups that it fails to invalidate:
    no derived entry hangs off `sym` (and, unless the edit overwrites it — `add` —, `sym`
    itself is not a derived key), and every cached string other than the one the edit deletes
    (`delKey`: `modify`/`remove` delete the key equal to `sym`) parses to an expression that
    does not mention `sym` or a prefixed form of it — unless the edit empties the cache (`clears`) -/
def editSafe (parse : String → Except Err (PExpr K)) (s : RegState K) (sym : String)
    (delKey : Bool) (clears : Bool) : Bool :=
  s.derived.all (fun k => restNe k sym && (!delKey || k != sym)) &&
  (clears || s.cache.all (fun p =>
    (delKey && p.1 == sym) ||
    match parse p.1 with
    | .ok ex => exprAvoids sym ex
    | .error _ => false))

/-- the decidable guard of one step in state `s` -/
def opSafe (cfg : Cfg) (parse : String → Except Err (PExpr K)) (s : RegState K) : Op K → Bool
  | .add sym _ => editSafe parse (invalidate cfg s) sym false cfg.clearCache
  | .addInvalid _ => true
  | .modifyF sym _ => editSafe parse (invalidate cfg s) sym true cfg.clearCache
  | .modifyQ sym _ _ _ => editSafe parse (invalidate cfg s) sym true cfg.clearCache
  | .remove sym => editSafe parse (invalidate cfg s) sym true cfg.clearCache
  | .sysId => !s.memoStale && (cfg.idSkipsDerived || s.derived.isEmpty)
  | _ => true

/-- the guard without its `unit_system_id` part: what the *resolution* of units needs (asking for the
    id never changes the table, the string cache or the objects) -/
def opSafeCore (cfg : Cfg) (parse : String → Except Err (PExpr K)) (s : RegState K) : Op K → Bool
  | .sysId => true
  | op => opSafe cfg parse s op

def safeRunCore (cfg : Cfg) (pre : Prefixes K) (parse : String → Except Err (PExpr K)) :
    RegState K → List (Op K) → Bool
  | _, [] => true
  | s, o :: h => opSafeCore cfg parse s o && safeRunCore cfg pre parse (step cfg pre parse s o).1 h

/-- forget the id memo (the rest of the state never depends on it) -/
def strip (s : RegState K) : RegState K := { s with idMemo := none, memoStale := false }

/-- every step of the history is safe in the state it is executed in -/
def safeRun (cfg : Cfg) (pre : Prefixes K) (parse : String → Except Err (PExpr K)) :
    RegState K → List (Op K) → Bool
  | _, [] => true
  | s, o :: h => opSafe cfg parse s o && safeRun cfg pre parse (step cfg pre parse s o).1 h

end

end Unyt.RegC12
