/-
  UnytModel.PersistCfg — the persistence routes of unyt and, per route, WHAT travels and what is
  rebuilt on the other side (C11).  Types only: the table itself is regenerated from the live
  code by single-route probes (`tools/extract.d/c11_routes.py` → `Generated/PersistRoutes.lean`),
  the hand-written reference is `Ref/C11.lean`, the model that is run and proved about is
  `UnytModel/Persist.lean`.
-/

namespace Unyt.Persist

/-- the ways a quantity / array / unit / registry is persisted and brought back -/
inductive Route
  /-- `pickle.loads(pickle.dumps(x))` — `unyt_array.__reduce__` / `__setstate__` (array.py) -/
  | pickleArray
  /-- `pickle.loads(pickle.dumps(x.units))` — `Unit` has `__slots__` and no `__reduce__`: every
      slot travels, including the whole registry object -/
  | pickleUnit
  /-- `x.copy()` (array.py `unyt_array.copy`) -/
  | arrayCopy
  /-- `copy.copy(x)` (`ndarray.__copy__` + `__array_finalize__`) -/
  | copyCopy
  /-- `copy.deepcopy(x)` (array.py `__deepcopy__` → `Unit.__deepcopy__` → `UnitRegistry.__deepcopy__`) -/
  | deepcopyArray
  /-- `x.units.copy()` (unit_object.py `Unit.copy`, shallow registry copy), cache-miss path -/
  | unitCopy
  /-- `copy.deepcopy(x.units)` (`Unit.copy(deep=True)`) -/
  | deepcopyUnit
  /-- `savetxt(f, [x]); loadtxt(f)` (array.py: `str(units)` header, default registry on load) -/
  | saveLoadTxt
  /-- `Unit(str(u), registry=u.registry)`, cache-miss path -/
  | unitOfStr
  /-- `UnitRegistry.from_json(reg.to_json())`, the unit rebuilt from its expression in it -/
  | registryJson
deriving DecidableEq, Repr, Inhabited

def Route.all : List Route :=
  [.pickleArray, .pickleUnit, .arrayCopy, .copyCopy, .deepcopyArray, .unitCopy, .deepcopyUnit,
   .saveLoadTxt, .unitOfStr, .registryJson]

def Route.name : Route → String
  | .pickleArray => "pickleArray" | .pickleUnit => "pickleUnit" | .arrayCopy => "arrayCopy"
  | .copyCopy => "copyCopy" | .deepcopyArray => "deepcopyArray" | .unitCopy => "unitCopy"
  | .deepcopyUnit => "deepcopyUnit" | .saveLoadTxt => "saveLoadTxt" | .unitOfStr => "unitOfStr"
  | .registryJson => "registryJson"

def Route.ofName (s : String) : Option Route := Route.all.find? (·.name == s)

/-- what a route does to "this dimension object is built from the library's singleton symbols"
    (the code tests `is angle`, `is temperature`, `is logarithmic`): the answer afterwards for an
    object that was canonical, and for one that was not.
    `keep = ⟨true,false⟩`, `lose = ⟨false,false⟩` (pickle / deepcopy of a sympy `Symbol`),
    `intern = ⟨true,true⟩` (taken from the default table / `sympify(…, locals=vars(dimensions))`). -/
structure CanonEff where
  onCanon : Bool
  onNon : Bool
deriving DecidableEq, Repr, Inhabited

def CanonEff.apply (e : CanonEff) (c : Bool) : Bool := if c then e.onCanon else e.onNon
def CanonEff.keep : CanonEff := ⟨true, false⟩
def CanonEff.lose : CanonEff := ⟨false, false⟩
def CanonEff.intern : CanonEff := ⟨true, true⟩

/-- what one route persists and how it rebuilds (one row of the regenerated table) -/
structure RouteCfg where
  /-- the numbers come back bit for bit (float64) -/
  keepsValues : Bool
  /-- … in the same dtype (int32, float32 stay what they are) -/
  keepsDtype : Bool
  /-- a `unyt_quantity` comes back as a `unyt_quantity` -/
  keepsClass : Bool
  /-- the restored object holds the very same `Unit` object -/
  unitSame : Bool
  /-- the unit travels as a string that cannot name `delta_degC` / `delta_degF` (before the parser
      fix acfd34f: `str(units)` is `Δ°C`, which `parse_unyt_expr` rejected) -/
  unitByDisplayStr : Bool
  /-- `base_value`, `base_offset`, `dimensions` travel with the unit (else: recomputed from the
      restored registry's table by the unit's expression) -/
  unitDataCarried : Bool
  /-- identity of the carried dimension object (read only when `unitDataCarried`) -/
  unitCanon : CanonEff
  /-- the restored unit's registry has the very same `lut` dict -/
  regSame : Bool
  /-- user-added symbols are in the restored table -/
  keepsAdded : Bool
  /-- a default symbol whose value (or dimensions, or offset) was modified keeps the modified data -/
  keepsModifiedDefault : Bool
  /-- a default symbol that was re-declared with exactly the default value, dimensions and offset but
      the OTHER SI-prefixability flag keeps its flag (read only when `keepsModifiedDefault`; a route
      that decides "this is unyt's own row, no need to carry it" on the data alone has `false`) -/
  keepsFlagOnlyDefault : Bool
  /-- a default symbol that was removed stays removed -/
  keepsRemoved : Bool
  /-- identity of the dimension objects of user rows / of rows keyed by a default symbol -/
  userRowCanon : CanonEff
  dfltRowCanon : CanonEff
  /-- `registry.unit_system` (what `in_base()` defaults to) -/
  keepsUnitSystem : Bool
deriving DecidableEq, Repr, Inhabited

/-- the table: one configuration per route -/
abbrev RouteTable := List (Route × RouteCfg)

def RouteTable.get (T : RouteTable) (r : Route) : Option RouteCfg :=
  (T.find? (·.1 == r)).map (·.2)

end Unyt.Persist
