/-
  UnytModel.RegistryC12Conv — using `Unit` objects that outlived a registry edit (C12).

  A `Unit` object carries its own `(base_value, base_offset, dimensions)`; what two objects do to
  each other — `_get_conversion_factor(old, new)` behind `to`/`in_units`/`convert_to_units`, and the
  second-operand rescale of `+`, `-`, `<`, `==` in `unyt_array.__array_ufunc__` — is computed from
  those stored data (unit_object.py:896-946), never from the spelling of the two units or from the
  identity of their registry.  The heap of the registry machine (`RegState.objs`) holds exactly these
  data, so the conversion between two heap cells is the shared conversion model
  (`UnytModel.Convert.getConversionFactor`) applied to them.
-/
import UnytModel.RegistryC12
import UnytModel.Convert

namespace Unyt.RegC12
open Unyt

section
variable {K : Type} [Add K] [Sub K] [Mul K] [Div K] [OfNat K 0] [OfNat K 1] [BEq K]

/-- the expression `_get_unit_data_from_expr` was handed, as a `UExpr` -/
def PExpr.toUExpr : PExpr K → UExpr K
  | .atom s => ⟨1, [(s, 1)]⟩
  | .prod c fs => ⟨c, fs⟩

/-- a heap object as the conversion model sees it: its stored data under its expression -/
def UnitD.toUnitV (d : UnitD K) (e : UExpr K) : UnitV K := ⟨e, d.scale, d.offset, d.dim, true⟩

/-- `objs[i].get_conversion_factor(objs[j])` in registry state `s`; `ei`, `ej` are the expressions of
    the two objects (only consulted for the SI-prefix rule of offset temperature units) -/
def heapConv (pre : Prefixes K) (s : RegState K) (i j : Nat) (ei ej : UExpr K) :
    Except Err (K × Option K) :=
  match s.objs[i]?, s.objs[j]? with
  | some a, some b => getConversionFactor pre s.lut (a.toUnitV ei) (b.toUnitV ej)
  | _, _ => .error .Other

/-- `(x objs[i]).to(objs[j])`: the new reading -/
def heapTo (pre : Prefixes K) (s : RegState K) (i j : Nat) (ei ej : UExpr K) (x : K) : Except Err K :=
  (heapConv pre s i j ei ej).map fun f => applyFactor f x

/-- `(x objs[i]) + (y objs[j])`: the second operand is converted to the first one's unit
    (array.py `__array_ufunc__`, binary path), the result is labelled `objs[i]` -/
def heapAdd (pre : Prefixes K) (s : RegState K) (i j : Nat) (ei ej : UExpr K) (x y : K) : Except Err K :=
  match heapConv pre s j i ej ei with
  | .ok f => .ok (x + applyFactor f y)
  | .error .UnitConversionError => .error .UnitOperationError
  | .error e => .error e

end
end Unyt.RegC12
