/-
  UnytModel.Ops.C02 — opcodes of the C02 model that go beyond the shared ones (prefix `c02.`):
  the string path of numeric coefficients.
-/
import UnytModel.DriverBase
import UnytModel.NumLitC02
import UnytModel.Generated.C02NumPipeline
import UnytModel.Parse
import UnytModel.ExprTreeC02

namespace Unyt
open NumLit

def optRatStr : Option Rat → String
  | some q => ratStr q
  | none => "none"

/-- the tokenizer model of C20 on the same token: value, or `none` when it does not read the
    whole string as one NUMBER token -/
def parseTokenValue (cs : List Char) : Option Rat :=
  match Parse.lexNumber cs with
  | some ((m, e), []) => match Parse.numValue m e with | .ok q => some q | .error _ => none
  | _ => none

def opsC02 : Handler := fun st fields =>
  match fields with
  -- a NUMBER token: auto_number's class, its value, and the tokenizer model's value
  | ["c02.numlit", s] =>
    let cs := s.toList
    some (st, s!"ok\t{(autoNumberClass cs).str}\t{optRatStr (tokenValue cs)}\t{optRatStr (parseTokenValue cs)}\t{if Generated.c02AutoNumberIsFloat cs then "float" else "integer"}")
  -- Unit(str) against registry 0: parse (C20's model), then the table evaluation of C02
  | ["c02.unitstr", s] =>
    match Parse.parseUnit s with
    | .error c => some (st, s!"err\t{c.str}")
    | .ok e =>
      match UnitV.ofExpr st.pre (st.luts[0]!) ⟨ratToFloat e.coeff, e.factors⟩ with
      | .ok (u, _) => some (st, unitOut u ++ s!"\t{ratStr e.coeff}")
      | .error err => some (st, s!"err\t{err.str}")
  -- a nested expression tree: Unit(build tree) against registry 0, and the constituents' reading `sem`
  | ["c02.tree", w] =>
    match CExpr.parse ratToFloat w with
    | none => none
    | some (e : CExpr Float) =>
      let t := st.luts[0]!
      let semOut := match CExpr.sem st.pre t e with
        | some (v, d) => s!"{bitsStr v}\t{d.str}"
        | none => "none\tnone"
      match UnitV.ofExpr st.pre t e.build with
      | .ok (u, _) => some (st, unitOut u ++ "\t" ++ semOut)
      | .error err => some (st, s!"err\t{err.str}\t{semOut}")
  | _ => none

end Unyt
