/-
  UnytModel.Ops.Core — opcodes for the tables, units, unit algebra and conversion (C02, C03, C05, C14).
-/
import UnytModel.DriverBase

namespace Unyt

def stepCore (st : DriverState) (fields : List String) : DriverState × String :=
  match fields with
  | ["ping"] => (st, "pong")
  -- dump of the regenerated tables (the translator is checked against the live objects)
  | ["dump.lut", k] =>
    match (st.luts[0]!).find? k with
    | some e => (st, s!"ok\t{bitsStr e.scale}\t{bitsStr e.offset}\t{e.dim.str}\t{if e.prefixable then 1 else 0}")
    | none => (st, "none")
  | ["dump.prefix", k] =>
    match st.pre.find? k with
    | some v => (st, s!"ok\t{bitsStr v}")
    | none => (st, "none")
  | ["dump.invname", k] => (st, s!"ok\t{canonName k}")
  -- C14 / C02: a name as the parser sees it → canonical symbol → table entry (+prefix)
  | ["resolve", ""] => (st, s!"ok\t1\t{bitsStr 1.0}\t{bitsStr 0.0}\t{Dim.one.str}")
  | ["resolve", name] =>
    let c := nameToSymbol name
    match resolve st.pre (st.luts[0]!) c with
    | some e => (st, s!"ok\t{c}\t{bitsStr e.scale}\t{bitsStr e.offset}\t{e.dim.str}")
    | none => (st, "err\tUnitParseError")
  | ["splitprefix", s] =>
    let (p, w) := splitPrefix st.pre (st.luts[0]!) s
    (st, s!"ok\t{p}\t{w}")
  -- C02: Unit(expr) against registry `r`
  | ["unit", r, co, fac] =>
    match r.toNat?, fb co, Factors.parse fac with
    | some ri, some c, some f =>
      if h : ri < st.luts.size then
        match UnitV.ofExpr st.pre st.luts[ri] ⟨c, f⟩ with
        | .ok (u, t') => ({ st with luts := st.luts.set ri t' }, unitOut u)
        | .error e => (st, s!"err\t{e.str}")
      else (st, "bad-op")
    | _, _, _ => (st, "bad-op")
  -- C05: unit algebra on explicit unit values
  | ["umul", s1, o1, d1, c1, f1, s2, o2, d2, c2, f2] =>
    match parseUnitV s1 o1 d1 c1 f1, parseUnitV s2 o2 d2 c2 f2 with
    | some u, some v => (st, exceptOut unitOut (u.mul v))
    | _, _ => (st, "bad-op")
  | ["udiv", s1, o1, d1, c1, f1, s2, o2, d2, c2, f2] =>
    match parseUnitV s1 o1 d1 c1 f1, parseUnitV s2 o2 d2 c2 f2 with
    | some u, some v => (st, exceptOut unitOut (u.div v))
    | _, _ => (st, "bad-op")
  | ["upow", s1, o1, d1, c1, f1, p] =>
    match parseUnitV s1 o1 d1 c1 f1, parseRat p with
    | some u, some q => (st, exceptOut unitOut (u.pow q))
    | _, _ => (st, "bad-op")
  | ["ueq", s1, o1, d1, c1, f1, s2, o2, d2, c2, f2] =>
    match parseUnitV s1 o1 d1 c1 f1, parseUnitV s2 o2 d2 c2 f2 with
    | some u, some v => (st, s!"ok\t{if UnitV.eqFloat u v then 1 else 0}")
    | _, _ => (st, "bad-op")
  -- C03: the affine conversion rule
  | ["conv", sA, oA, pA, sB, oB, pB, x] =>
    match fb sA, fb oA, parseBool pA, fb sB, fb oB, parseBool pB, fb x with
    | some sA, some oA, some pA, some sB, some oB, some pB, some x =>
      let f := convFactorP pA sA oA pB sB oB
      (st, s!"ok\t{bitsStr f.1}\t{bitsStr f.2}\t{bitsStr (applyConv f x)}")
    | _, _, _, _, _, _, _ => (st, "bad-op")
  -- C03: Unit(A).get_conversion_factor(Unit(B)) and its application, units built by the model
  | ["convunits", r, cA, fA, cB, fB, x] =>
    match r.toNat?, fb cA, Factors.parse fA, fb cB, Factors.parse fB, fb x with
    | some ri, some cA, some fA, some cB, some fB, some x =>
      if h : ri < st.luts.size then
        match UnitV.ofExpr st.pre st.luts[ri] ⟨cA, fA⟩ with
        | .error e => (st, s!"err\t{e.str}")
        | .ok (uA, t1) =>
          match UnitV.ofExpr st.pre t1 ⟨cB, fB⟩ with
          | .error e => (st, s!"err\t{e.str}")
          | .ok (uB, t2) =>
            let st := { st with luts := st.luts.set ri t2 }
            match getConversionFactor st.pre t2 uA uB with
            | .error e => (st, s!"err\t{e.str}")
            | .ok f =>
              let o := match f.2 with | some o => bitsStr o | none => "none"
              (st, s!"ok\t{bitsStr f.1}\t{o}\t{bitsStr (applyFactor f x)}")
      else (st, "bad-op")
    | _, _, _, _, _, _ => (st, "bad-op")
  -- C02/C12/C14: look-up histories against a fresh registry table (write-back of derived entries)
  | ["reg.fresh"] => ({ st with luts := st.luts.push (defaultLut Float) }, s!"ok\t{st.luts.size}")
  | ["lookup", r, name] =>
    match r.toNat? with
    | some ri =>
      if h : ri < st.luts.size then
        match lookupUnitSymbol st.pre st.luts[ri] name with
        | .ok (e, t') =>
          ({ st with luts := st.luts.set ri t' },
           s!"ok\t{bitsStr e.scale}\t{bitsStr e.offset}\t{e.dim.str}\t{if e.prefixable then 1 else 0}")
        | .error e => (st, s!"err\t{e.str}")
      else (st, "bad-op")
    | none => (st, "bad-op")
  | ["dump.reglut", r, k] =>
    match r.toNat? with
    | some ri =>
      if h : ri < st.luts.size then
        match (st.luts[ri]).find? k with
        | some e => (st, s!"ok\t{bitsStr e.scale}\t{bitsStr e.offset}\t{e.dim.str}\t{if e.prefixable then 1 else 0}")
        | none => (st, "none")
      else (st, "bad-op")
    | none => (st, "bad-op")
  | _ => (st, "bad-op")


def opsCore : Handler := fun st fields =>
  match stepCore st fields with
  | (_, "bad-op") => none
  | r => some r

end Unyt
