/-
  UnytModel.Ops.C09 — opcodes of the C09 model (prefix `c09.`).
-/
import UnytModel.DriverBase

namespace Unyt

def opsC09 : Handler := fun _st fields =>
  match fields with
  | _ => none

end Unyt
