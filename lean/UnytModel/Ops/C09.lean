/-
  UnytModel.Ops.C09 — opcodes of the C09 model (prefix `c09.`): the regenerated equivalence
  table read back (`dump.*`, `formula`), the wrapper decision (`route`) and the numbers
  (`convert`) — all through the definitions the theorems of `UnytProofs/C09.lean` are about.
-/
import UnytModel.DriverBase
import UnytModel.Generated.EquivFormulas
import UnytModel.EquivUnitsC09

namespace Unyt
open Unyt.Equiv

namespace Equiv

/-- rendering used to compare with the tracer's own reading of a chain -/
def Formula.str : Formula → String
  | .atom a => a
  | .lit q => ratStr q
  | .mul a b => s!"({a.str} * {b.str})"
  | .div a b => s!"({a.str} / {b.str})"
  | .sub a b => s!"({a.str} - {b.str})"
  | .add a b => s!"({a.str} + {b.str})"
  | .sqrt a => s!"sqrt({a.str})"
  | .pow a q => s!"({a.str})**({ratStr q})"

def parseMode (s : String) : Option Mode :=
  if s == "copy" then some .copy else if s == "inplace" then some .inplace else none

def constsFloat : List (String × Float) :=
  Generated.equivConstants.map (fun c => (c.1, (OfBits.ofBits c.2.1 : Float)))

def routeStr : Except Err Route → String
  | .ok .plain => "ok\tplain"
  | .ok (.via f) => s!"ok\tvia\t{f.str}"
  | .error e => s!"err\t{e.str}"

end Equiv

def stepC09 (st : DriverState) (fields : List String) : Option String :=
  match fields with
  | ["c09.dump.const", k] =>
    match Generated.equivConstants.find? (fun c => c.1 == k) with
    | some c => some s!"ok\t{c.2.1}\t{c.2.2.str}"
    | none => some "none"
  | ["c09.dump.equiv", k] =>
    match findEquiv Generated.equivalences k with
    | some e =>
      let ds := ";".intercalate (e.dims.map Dim.str)
      let ps := ";".intercalate (e.params.map (fun p => s!"{p.1}={p.2}"))
      some s!"ok\t{e.cls}\t{ds}\t{ps}\t{e.branches.length}"
    | none => some "none"
  | ["c09.pow_refuses"] =>
    some (match Generated.powRefuses with | some e => s!"ok\t{e.str}" | none => "ok\tnone")
  | ["c09.names"] => some ("ok\t" ++ ";".intercalate (Generated.equivalences.map (·.name)))
  -- the formula a branch denotes: copy = returned value, inplace = final buffer (alias reading),
  -- inplace-ssa = final buffer (returned objects are values of their own)
  | ["c09.formula", k, mode, a, b] =>
    match findEquiv Generated.equivalences k, Dim.parse a, Dim.parse b with
    | some e, some da, some db =>
      match e.branch da db with
      | none => some "none"
      | some br =>
        let f := if mode == "copy" then br.formula
                 else if mode == "inplace" then br.inplaceFormula true
                 else if mode == "inplace-ssa" then br.inplaceFormula false
                 else if mode == "copy-buffer" then br.copyBuffer
                 else none
        match f with
        | some f => some s!"ok\t{f.str}"
        | none => some "none"
    | _, _, _ => some "bad-op"
  -- the wrapper decision: equivalence name or `-` for `equivalence=None`
  | ["c09.route", mode, eq, a, b] =>
    match parseMode mode, Dim.parse a, Dim.parse b with
    | some m, some da, some db =>
      some (routeStr (inUnitsRoute Generated.equivalences m da db (if eq == "-" then none else some eq)))
    | _, _, _ => some "bad-op"
  | ["c09.has_equivalent", eq, a] =>
    match Dim.parse a with
    | some da =>
      match hasEquivalent Generated.equivalences da eq with
      | .ok b => some s!"ok\t{if b then 1 else 0}"
      | .error e => some s!"err\t{e.str}"
    | none => some "bad-op"
  -- the numbers: mode, equivalence or `-`, input unit (5 fields), target unit (5 fields),
  -- value bits, then `name=bits` keyword arguments separated by `;` (or empty)
  | ["c09.convert", mode, eq, s1, o1, d1, c1, f1, s2, o2, d2, c2, f2, x, kw] =>
    match parseMode mode, parseUnitV s1 o1 d1 c1 f1, parseUnitV s2 o2 d2 c2 f2, fb x with
    | some m, some u, some tg, some xv =>
      let kws : Option (List (String × Float)) :=
        if kw == "" then some [] else
        (kw.splitOn ";").mapM (fun item => match item.splitOn "=" with
          | [n, b] => (fb b).map (fun v => (n, v))
          | _ => none)
      match kws with
      | none => some "bad-op"
      | some kws =>
        match convertValue Generated.powRefuses st.pre (st.luts[0]!) Generated.equivalences constsFloat kws m u xv tg
            (if eq == "-" then none else some eq) with
        | .ok v => some s!"ok\t{bitsStr v}"
        | .error e => some s!"err\t{e.str}"
    | _, _, _, _ => some "bad-op"
  -- the unit-carrying run of one branch (`Trace.runU`): equivalence, mode, from-dim, to-dim, data
  -- bits, bits of the input unit's `base_value`, keyword arguments → data, unit scale and
  -- dimension of what `_convert` returns (copy) / leaves in the caller's array (inplace)
  | ["c09.chain", k, mode, a, b, d, sc, kw] =>
    match findEquiv Generated.equivalences k, parseMode mode, Dim.parse a, Dim.parse b, fb d, fb sc with
    | some e, some m, some da, some db, some dv, some sv =>
      let kws : Option (List (String × Float)) :=
        if kw == "" then some [] else
        (kw.splitOn ";").mapM (fun item => match item.splitOn "=" with
          | [n, b] => (fb b).map (fun v => (n, v))
          | _ => none)
      match kws, e.branch da db with
      | some kws, some br =>
        let params := effectiveParams Generated.equivalences (some k) kws
        let ρ := mkEnv constsFloat params (dv * sv)
        match br.unitResult (atomDim Generated.equivConstants) ρ m ⟨dv, sv, da⟩ with
        | some r => some s!"ok\t{bitsStr r.data}\t{bitsStr r.scale}\t{r.dim.str}"
        | none => some "none"
      | _, _ => some "bad-op"
    | _, _, _, _, _, _ => some "bad-op"
  | _ => none

def opsC09 : Handler := fun st fields =>
  match stepC09 st fields with
  | some r => some (st, r)
  | none => none

end Unyt
