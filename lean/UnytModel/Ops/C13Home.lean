/-
  UnytModel.Ops.C13Home — opcodes `c13.h.*`: the heap of `Unit` objects (`UnitHome.step`) run with the
  configuration regenerated from the live conversion entry points (`Generated/C13Conv.lean`).
-/
import UnytModel.UnitHome
import UnytModel.Generated.C13Conv

namespace Unyt
open UnitHome

/-- the configuration the driver runs and `C13Home.live_histories_isolated` speaks about: an entry point the
    probe did not measure counts as passing `registry=` (conservative) -/
def liveHomeCfg : UnitHome.Cfg :=
  ⟨fun ep => (Generated.convPasses.lookup ep).getD true, Generated.convFastAssigns,
   fun ep => (Generated.convRelabels.lookup ep).getD false⟩

namespace C13Home

def objStr (h : Heap) (a : Nat) : String := s!"obj\t{a}\t{h.home a}"

/-- `name:1` = an object that exists at start-up (exported by the `unyt` namespace, registry 0) and is held by
    the default registry's string cache under its name; `name:0` = exported but not cached -/
def seed (spec : String) : Heap :=
  (if spec == "" then [] else spec.splitOn ",").foldl (fun h item =>
    match item.splitOn ":" with
    | [name, c] =>
      let r := alloc h name 0
      if c == "1" then { r.1 with cache := upd r.1.cache 0 ((name, r.2) :: r.1.cache 0) } else r.1
    | _ => h) {}

def sortStrs (l : List String) : List String := l.toArray.qsort (· < ·) |>.toList

def stepH (h : Heap) (fields : List String) : Option (Heap × String) :=
  match fields with
  | ["c13.h.reset", spec] => some (seed spec, "ok")
  | ["c13.h.lookup", r, s] =>
    match r.toNat? with
    | some r => let res := step liveHomeCfg h (.lookup r s); some (res.1, objStr res.1 res.2)
    | none => some (h, "bad-op")
  | ["c13.h.clear", r] =>
    match r.toNat? with
    | some r => some ((step liveHomeCfg h (.clear r)).1, "ok")
    | none => some (h, "bad-op")
  | ["c13.h.arith", x, y, key] =>
    match x.toNat?, y.toNat? with
    | some x, some y => let res := step liveHomeCfg h (.arith x y key); some (res.1, objStr res.1 res.2)
    | _, _ => some (h, "bad-op")
  | ["c13.h.construct", u, reg, b] =>
    match u.toNat? with
    | some u =>
      let res := step liveHomeCfg h (.construct u reg.toNat? (b == "1"))
      some (res.1, objStr res.1 res.2)
    | none => some (h, "bad-op")
  | ["c13.h.convert", ep, x, kind, arg] =>
    if (Generated.convPasses.lookup ep).isNone then some (h, "bad-entry-point") else
    match x.toNat?, kind, arg.toNat? with
    | some x, "str", _ => let res := step liveHomeCfg h (.convert ep x (.str arg)); some (res.1, objStr res.1 res.2)
    | some x, "obj", some a => let res := step liveHomeCfg h (.convert ep x (.obj a)); some (res.1, objStr res.1 res.2)
    | _, _, _ => some (h, "bad-op")
  | ["c13.h.homes"] => some (h, "homes\t" ++ ",".intercalate ((List.range h.n).map fun a => toString (h.home a)))
  | ["c13.h.cache", r] =>
    match r.toNat? with
    | some r => some (h, "cache\t" ++ ",".intercalate (sortStrs (((h.cache r).map (·.1)).eraseDups.map fun s =>
        s!"{s}={(find (h.cache r) s).getD 0}")))
    | none => some (h, "bad-op")
  | _ => none

end C13Home
end Unyt
