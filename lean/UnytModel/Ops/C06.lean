/-
  UnytModel.Ops.C06 — opcodes of the C06 model (prefix `c06.`).
-/
import UnytModel.DriverBase

namespace Unyt

def opsC06 : Handler := fun _st fields =>
  match fields with
  | _ => none

end Unyt
