/-
  UnytModel.Ops.C06 — opcodes of the C06 model (prefix `c06.`).
    c06.route <func>                         → unsupported | handled | default | unknown
    c06.run <func> <variant> <sig> p=q|b …   → the kernel call `Np.run` makes on symbolic arguments
    c06.dispatch <func> <0|1>                → branch of `Np.dispatch` (1 = a foreign type takes part)
    c06.defects <func> <variant> <sig>       → defects of the regenerated row (comma separated)
    c06.static <func>                        → static defects of the handler
    c06.exclusions                           → the literal exclusion list
    c06.dump.counts                          → sizes of the regenerated tables
    c06.alias <func> <0|1 mixed units> slot=objno …  → what `Np.runGuarded` does with the handler's regenerated
                                               exits on a call whose slots hold the given objects
    c06.exits <func>                         → the regenerated exit list (kind:raises:src;…)
    c06.method <ndarray.m>                   → per regenerated override row: variant|receiver|kernel call `Np.run`
                                               makes on symbolic arguments|defects (after the equivalence list)
    c06.method.names                         → the regenerated override universe
-/
import UnytModel.DriverBase
import UnytModel.NpHandlers
import UnytModel.Generated.Handlers
import UnytModel.Ref.C06Exclusions
import UnytModel.NpAlias
import UnytModel.Generated.C06Alias
import UnytModel.NpMethods
import UnytModel.Generated.C06Methods
import UnytModel.Ref.C06MethodExclusions

namespace Unyt
open Unyt.Np

def c06FindRow (f v s : String) : Option Row :=
  Generated.traceRows.find? fun r => r.func == f && r.variant == v && r.sig == s

/-- symbolic argument `p=q` (carries units) / `p=b` (bare): the value is named by its parameter -/
def c06ParseArgs (xs : List String) : Option (Args String) :=
  xs.mapM fun x =>
    match x.splitOn "=" with
    | [p, "q"] => some (p, PyVal.qty p "u")
    | [p, "b"] => some (p, PyVal.bare p)
    | _ => none

/-- the recording kernel: returns the call it was asked to make -/
def c06Kernel : Kernel String String := fun g a => renderCall g a

def c06RouteStr (f : String) : String :=
  if !(Generated.npUniverse.contains f) then "unknown" else
  match route Generated.npUnsupported Generated.npHandled f with
  | .unsupported => "unsupported"
  | .handled => "handled"
  | .default => "default"

def c06ParseSlots (xs : List String) : Option (List (String × Nat)) :=
  xs.mapM fun x =>
    match x.splitOn "=" with
    | [p, i] => i.toNat?.map fun n => (p, n)
    | _ => none

def c06Units (a : Args String) : List String :=
  a.filterMap fun (_, v) => match v with | .qty _ u => some u | _ => none

/-- the operands' units are not all the same -/
def c06UnitsDiffer (a : Args String) : Bool :=
  match c06Units a with
  | [] => false
  | u :: us => us.any (· != u)

def opsC06 : Handler := fun st fields =>
  match fields with
  | "c06.alias" :: f :: mixed :: rest =>
    match c06ParseSlots (rest.filter (· != "")) with
    | some slots =>
      let c : ObjCall String := ⟨slots, fun i => PyVal.qty ("o" ++ toString i) (if mixed == "1" then "u" ++ toString i else "u")⟩
      let row : Row := ⟨f, "", "", false, [(true, f)], slots.map (fun (p, _) => (p, Fwd.same)), [], Post.id⟩
      let env : Env String := ⟨c06UnitsDiffer, fun _ _ => false⟩
      match runGuarded c06Kernel (fun p => PyVal.qty ("?" ++ p) "u") (fun r => r) (fun _ => "u") env
              (exitsOf Generated.handlerExits f) row c with
      | .raised e => some (st, s!"ok\traised\t{e}")
      | .noKernel => some (st, "ok\tnokernel")
      | .value _ r => some (st, s!"ok\tcall\t{r}")
    | none => some (st, "bad-args")
  | ["c06.method.exclusions"] =>
    some (st, "ok\t" ++ ";".intercalate (Ref.exclC06Methods.map fun (f, d) => f ++ "|" ++ d)
      ++ "\t" ++ ";".intercalate (Ref.methodEquivC06.map fun (f, d) => f ++ "|" ++ d))
  | ["c06.method.names"] => some (st, "ok\t" ++ ";".intercalate Generated.methodOverrides)
  | ["c06.method", m] =>
    let rows := Generated.methodRows.filter (·.func == m)
    let show1 (r : Row) : String :=
      let args : Args String := r.params.filterMap fun (p, f) => if f == Fwd.injected then none else some (p, PyVal.qty p "u")
      let call := match run c06Kernel (fun p => PyVal.qty ("?" ++ p) "u") (fun x => x) (fun _ => "u") r args with
        | .value _ x => x
        | .noKernel => "nokernel"
        | .raised e => "raised:" ++ e
      s!"{r.variant}|{r.sig}|{call}|{",".intercalate (methodDefects Ref.methodEquivC06 r)}"
    some (st, "ok\t" ++ ";".intercalate (rows.map show1))
  | ["c06.exits", f] =>
    some (st, "ok\t" ++ ";".intercalate ((exitsOf Generated.handlerExits f).map fun e => s!"{e.kind.str}:{e.raises}:{e.src}"))
  | ["c06.route", f] => some (st, s!"ok\t{c06RouteStr f}")
  | "c06.run" :: f :: v :: s :: rest =>
    match c06FindRow f v s, c06ParseArgs (rest.filter (· != "")) with
    | some row, some args =>
      let o := run c06Kernel (fun p => PyVal.qty ("?" ++ p) "u") (fun r => "altered:" ++ r) (fun _ => "u") row args
      match o with
      | .raised e =>
        -- the kernel was reached and raised on every sampled instance: still show the call it was handed
        match row.calls with
        | (via, g) :: _ =>
          some (st, s!"ok\traised\t{if via then "impl" else "public"}\t{renderCall g (forward row.params (fun p => PyVal.qty ("?" ++ p) "u") args)}")
        | [] => some (st, s!"ok\traised\t{e}")
      | .noKernel => some (st, "ok\tnokernel")
      | .value _ r =>
        let via := match row.calls with | (true, _) :: _ => "impl" | _ => "public"
        some (st, s!"ok\tcall\t{via}\t{r}\t{row.post.str}")
    | none, _ => some (st, "norow")
    | _, none => some (st, "bad-args")
  -- the dispatcher on a symbolic call: which branch of `Np.dispatch` answers
  | ["c06.dispatch", f, foreign] =>
    let row : Row := ⟨f, "", "", false, [(true, f)], [("x", Fwd.same)], [], Post.id⟩
    let o := dispatch Generated.npUnsupported Generated.npHandled c06Kernel (fun p => PyVal.qty ("?" ++ p) "u")
      (fun r => r) (fun _ => "handler") (fun _ => row) (foreign == "1") f [("x", PyVal.qty "x" "u")]
    match o with
    | .raised e => some (st, s!"ok\traised\t{e}")
    | .noKernel => some (st, "ok\tnokernel")
    | .value u r => some (st, s!"ok\t{if u == "handler" then "handler" else "kernel"}\t{r}")
  | ["c06.defects", f, v, s] =>
    match c06FindRow f v s, Generated.handlerStatics.find? (·.implements == f) with
    | some row, some h => some (st, s!"ok\t{",".intercalate (defects row ++ provenanceDefects h row)}")
    | _, _ => some (st, "norow")
  | ["c06.static", f] =>
    match Generated.handlerStatics.find? (·.implements == f) with
    | some h => some (st, s!"ok\t{",".intercalate (staticDefects h)}")
    | none => some (st, "none")
  | ["c06.exclusions"] =>
    some (st, "ok\t" ++ ";".intercalate (Ref.exclC06.map fun (f, d) => f ++ "|" ++ d))
  | ["c06.dump.counts"] =>
    some (st, s!"ok\t{Generated.npUniverse.length}\t{Generated.npUnsupported.length}\t{Generated.npHandled.length}\t{Generated.handlerStatics.length}\t{Generated.traceRows.length}")
  | _ => none

end Unyt
