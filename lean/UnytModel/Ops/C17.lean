/-
  UnytModel.Ops.C17 — opcodes of the C17 model (prefix `c17.`): dtype selection of every
  conversion route, the binary-ufunc operand conversion, `out=` promotion, the LARGE_INPUT
  warning and the value path, all run on `Generated.liveNumpy` / `Generated.liveRules`
  (the same definitions the theorems of `UnytProofs/C17.lean` are about).
-/
import UnytModel.DriverBase
import UnytModel.Dtype
import UnytModel.Generated.DtypeTables

namespace Unyt
open Unyt.Generated

namespace C17Ops

def parseDtype (k s : String) : Option Dtype := do
  let kk ← DKind.parse k
  let n ← s.toNat?
  some ⟨kk, n⟩

def dtOut : Except Err Dtype → String
  | .ok d => s!"ok\t{d.kind.char}\t{d.size}"
  | .error e => s!"err\t{e.str}"

/-- `i:<int>` | `r:<bits>` | `c:<bits>:<bits>` -/
def parseElem (s : String) : Option (Elem Float) :=
  match s.splitOn ":" with
  | ["i", n] => (n.toInt?).map Elem.int
  | ["r", b] => (fb b).map Elem.real
  | ["c", a, b] => do
    let re ← fb a
    let im ← fb b
    some (Elem.cplx re im)
  | _ => none

def elemOut : Elem Float → String
  | .int n => s!"i:{n}"
  | .real x => s!"r:{bitsStr x}"
  | .cplx re im => s!"c:{bitsStr re}:{bitsStr im}"

def valOut : Except Err (Dtype × Elem Float) → String
  | .ok (d, e) => s!"ok\t{d.kind.char}\t{d.size}\t{elemOut e}"
  | .error e => s!"err\t{e.str}"

def parseOffset (s : String) : Option (Option Float) :=
  if s == "none" then some none else (fb s).map some

def parseInts (s : String) : Option (List Int) :=
  (s.splitOn ",").mapM String.toInt?

end C17Ops

open C17Ops in
def opsC17 : Handler := fun st fields =>
  match fields with
  | ["c17.route", r, k, s, q] =>
    match Route.parse r, parseDtype k s, parseBool q with
    | some r, some d, some q =>
      if r == .toValue then
        match toValueOut liveNumpy liveRules d q with
        | .ok .pyfloat => some (st, "ok\tpyfloat\t8")
        | .ok .pycomplex => some (st, "ok\tpycomplex\t16")
        | .ok (.ndarray x) => some (st, dtOut (.ok x))
        | .error e => some (st, s!"err\t{e.str}")
      else some (st, dtOut (routeDtype liveNumpy liveRules r d q))
    | _, _, _ => none
  | ["c17.binop", k1, s1] =>
    match parseDtype k1 s1 with
    | some d1 => some (st, dtOut (binaryOperandDtype liveNumpy liveRules d1))
    | none => none
  | ["c17.binary", k0, s0, k1, s1, mixed, cmp] =>
    match parseDtype k0 s0, parseDtype k1 s1, parseBool mixed, parseBool cmp with
    | some d0, some d1, some m, some c => some (st, dtOut (binaryResultDtype liveNumpy liveRules d0 d1 m c))
    | _, _, _, _ => none
  | ["c17.out", k0, s0, k1, s1, ko, so, mixed] =>
    match parseDtype k0 s0, parseDtype k1 s1, parseDtype ko so, parseBool mixed with
    | some d0, some d1, some o, some m => some (st, dtOut (binaryOutDtype liveNumpy liveRules d0 d1 o m))
    | _, _, _, _ => none
  | ["c17.outpromote", ko, so] =>
    match parseDtype ko so with
    | some o => some (st, dtOut (outPromote liveNumpy liveRules o))
    | none => none
  | ["c17.warn", route, k, s, vs] =>
    match parseDtype k s, parseInts vs with
    | some d, some vs =>
      if route == "copy" then some (st, s!"ok\t{if inUnitsWarns liveRules d vs then 1 else 0}")
      else if route == "inplace" then some (st, s!"ok\t{if convertToUnitsWarns liveRules d vs then 1 else 0}")
      else if route == "inbase" then some (st, s!"ok\t{if routeWarns liveRules .inBase d vs then 1 else 0}")
      else none
    | _, _ => none
  | ["c17.value", route, k, s, e, f, o] =>
    match parseDtype k s, parseElem e, fb f, parseOffset o with
    | some d, some e, some f, some o =>
      if route == "copy" then some (st, valOut (inUnitsElem liveNumpy liveRules floatOps d e f o))
      else if route == "inplace" then some (st, valOut (convertToUnitsElem liveNumpy liveRules floatOps d e f o))
      else if route == "inbase" then some (st, valOut (inBaseElem liveNumpy liveRules floatOps d e f o))
      else if route == "binop" then some (st, valOut (binaryOperandElem liveNumpy liveRules floatOps d e f))
      else none
    | _, _, _, _ => none
  | ["c17.dump.large", s] =>
    match s.toNat? with
    | some n => some (st, match liveRules.largeInput.lookup n with | some v => s!"ok\t{v}" | none => "none")
    | none => none
  | ["c17.dump.universe"] =>
    some (st, "ok\t" ++ ",".intercalate (liveNumpy.dtypes.map Dtype.str))
  | ["c17.dump.mulpyfloat", k, s] =>
    match parseDtype k s with
    | some d => some (st, dtOut (mulPyFloatDtype liveNumpy d))
    | none => none
  | ["c17.dump.resulttype", k0, s0, k1, s1] =>
    match parseDtype k0 s0, parseDtype k1 s1 with
    | some a, some b => some (st, dtOut (resultTypeOf liveNumpy a b))
    | _, _ => none
  | _ => none

end Unyt
