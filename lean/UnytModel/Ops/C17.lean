/-
  UnytModel.Ops.C17 — opcodes of the C17 model (prefix `c17.`).
-/
import UnytModel.DriverBase

namespace Unyt

def opsC17 : Handler := fun _st fields =>
  match fields with
  | _ => none

end Unyt
