/-
  UnytModel.Ops.C16 — opcodes of the C16 model (prefix `c16.`).

  Wire formats: a shape is `()` or `2x3x4`; an int list is `()` or `0,-1`; `none` is None;
  an index tuple is `;`-separated items
      `i:<int>`  `s:<start|_>:<stop|_>:<step>`  `e`  `n`  `m:<shape>:<ntrue>`  `f:<shape>:<lo>:<hi>`
  (the empty tuple is `()`); classes are the `PyCls.str` names.
  Replies: `ok\t…` or `err\t<ExceptionName>`.
-/
import UnytModel.DriverBase
import UnytModel.ResultClass
import UnytModel.Generated.C16Tables
import UnytModel.Ref.C16
import UnytModel.C16CoerceProg
import UnytModel.Generated.C16Coerce

namespace Unyt
namespace C16Wire
open Shape

def parseNatList (sep : String) (s : String) : Option (List Nat) :=
  if s == "()" then some [] else (s.splitOn sep).mapM String.toNat?

def parseShape (s : String) : Option Shape := parseNatList "x" s

def parseIntList (s : String) : Option (List Int) :=
  if s == "()" then some [] else (s.splitOn ",").mapM String.toInt?

def parseOptIntList (s : String) : Option (Option (List Int)) :=
  if s == "none" then some none else (parseIntList s).map some

def parseOptInt (s : String) : Option (Option Int) :=
  if s == "_" then some none else s.toInt?.map some

def shapeStr (s : Shape) : String :=
  if s.isEmpty then "()" else "x".intercalate (s.map toString)

def parseIx (s : String) : Option Ix :=
  match s.splitOn ":" with
  | ["i", v] => v.toInt?.map Ix.int
  | ["s", a, b, c] => do
    let a ← parseOptInt a
    let b ← parseOptInt b
    let c ← c.toInt?
    some (Ix.slice a b c)
  | ["e"] => some Ix.ellipsis
  | ["n"] => some Ix.newaxis
  | ["m", sh, nt] => do
    let sh ← parseShape sh
    let nt ← nt.toNat?
    some (Ix.mask sh nt)
  | ["f", sh, lo, hi] => do
    let sh ← parseShape sh
    let lo ← lo.toInt?
    let hi ← hi.toInt?
    some (Ix.fancy sh lo hi)
  | _ => none

def parseIxs (s : String) : Option (List Ix) :=
  if s == "()" then some [] else (s.splitOn ";").mapM parseIx

def resOut (r : Except SErr Res) : String :=
  match r with
  | .ok r => s!"ok\t{r.cls.str}\t{shapeStr r.shape}"
  | .error e => s!"err\t{e.str}"

def shapeOut (r : Except SErr Shape) : String :=
  match r with
  | .ok s => s!"ok\t{shapeStr s}"
  | .error e => s!"err\t{e.str}"

def parseMethod (m axes keep : String) : Option UMethod :=
  match m with
  | "call" => some .call
  | "accumulate" => some .accumulate
  | "outer" => some .outer
  | "matmul" => some .matmul
  | "vecdot" => some .vecdot
  | "reduce" => do
    let a ← parseOptIntList axes
    let k ← parseBool keep
    some (.reduce a k)
  | _ => none

/-- operands: `cls@shape|cls@shape` -/
def parseOps (s : String) : Option (List (PyCls × Shape)) :=
  (s.splitOn "|").mapM (fun item =>
    match item.splitOn "@" with
    | [c, sh] => do
      let c ← PyCls.parse c
      let sh ← parseShape sh
      some (c, sh)
    | _ => none)

def parseNewInput (k a b : String) : Option NewInput :=
  match k with
  | "pyscalar" => some .pyscalar
  | "npnumber" => some .npnumber
  | "ndarray" => (parseShape a).map .ndarray
  | "unyt" => do
    let c ← PyCls.parse a
    let s ← parseShape b
    some (.unyt c s)
  | "list" => (parseShape a).map .list
  | "listOfUnyt" => do
    let n ← a.toNat?
    let e ← parseShape b
    some (.listOfUnyt n e)
  | "emptyList" => some .emptyList
  | "nonNumeric" => some .nonNumeric
  | _ => none

def newOut (r : Except SErr NewRes) : String :=
  match r with
  | .ok r => s!"ok\t{r.res.cls.str}\t{shapeStr r.res.shape}\t{if r.sharesInput then 1 else 0}"
  | .error e => s!"err\t{e.str}"

def parseViewOp (k a : String) : Option ViewOp :=
  match k with
  | "squeeze" => some .squeeze
  | "squeezeAxis" => a.toInt?.map .squeezeAxis
  | "transpose" => some .transpose
  | "transposeAxes" => (parseNatList "," a).map .transposeAxes
  | "ravel" => some .ravel
  | "expandDims" => a.toNat?.map .expandDims
  | "reshape" => (parseIntList a).map (ViewOp.reshape · false)
  | "reshapeList" => (parseIntList a).map (ViewOp.reshape · true)
  | "repeat" => a.toNat?.map .repeat_
  | _ => none

/-- list elements `value,scale,offset,dim` separated by `|` (dim in the `Dim.parse` format,
    commas replaced by `/`… the dimension is sent as an opaque tag resolved through `Dim.parse`
    with `;` separators) -/
def parseCoItems (s : String) : Option (List (CoItem Float)) :=
  (s.splitOn "|").mapM (fun item =>
    match item.splitOn "~" with
    | [v, sc, o, d] => do
      let v ← fb v
      let sc ← fb sc
      let o ← fb o
      let d ← Dim.parse d
      some ⟨v, sc, o, d⟩
    | _ => none)

/-- `v~scale~offset~dim~kind|…` (the element's `dtype.kind` as its NumPy letter) -/
def parseCoElems (s : String) : Option (List (CoProg.CoElem Float)) :=
  (s.splitOn "|").mapM (fun item =>
    match item.splitOn "~" with
    | [v, sc, o, d, k] => do
      let v ← fb v
      let sc ← fb sc
      let o ← fb o
      let d ← Dim.parse d
      some ⟨⟨v, sc, o, d⟩, CoProg.DKind.parse k⟩
    | _ => none)

def unitNeFloat (a b : CoItem Float) : Bool :=
  !(Float.isclose a.scale b.scale && Float.isclose a.offset b.offset && a.dim == b.dim)

end C16Wire

open C16Wire Shape in
def stepC16 (fields : List String) : Option String :=
  match fields with
  | ["c16.size", s] => (parseShape s).map (fun s => s!"ok\t{size s}")
  | ["c16.bcast", a, b] => do
    let a ← parseShape a
    let b ← parseShape b
    some (match broadcast a b with | some r => s!"ok\t{shapeStr r}" | none => "err\tValueError")
  | ["c16.reduce", s, axes, keep] => do
    let s ← parseShape s
    let a ← parseOptIntList axes
    let k ← parseBool keep
    some (shapeOut (reduceAxes s a k))
  | ["c16.index", s, ixs] => do
    let s ← parseShape s
    let ixs ← parseIxs ixs
    some (shapeOut (index s ixs))
  | ["c16.view", cls, s, k, a] => do
    let c ← PyCls.parse cls
    let s ← parseShape s
    let op ← parseViewOp k a
    some (resOut (viewOp c s op))
  | ["c16.qreshape", cls, s, arg] => do
    let c ← PyCls.parse cls
    let s ← parseShape s
    let a ← if arg == "empty" then some ReshapeArg.emptyOrNone else (parseIntList arg).map ReshapeArg.dims
    some (resOut (quantityReshape c s a))
  | ["c16.binclass", a, b] => do
    let a ← PyCls.parse a
    let b ← PyCls.parse b
    some (match binaryReturnClass a b with | .ok c => s!"ok\t{c.str}" | .error e => s!"err\t{e.str}")
  | ["c16.ufunc", m, axes, keep, unitNone, multiOut, mulIsOne, ops] => do
    let m ← parseMethod m axes keep
    let un ← parseBool unitNone
    let mo ← parseBool multiOut
    let m1 ← parseBool mulIsOne
    let ops ← parseOps ops
    some (resOut (ufuncResult ⟨m, un, mo, m1, ops⟩))
  | ["c16.unitmul", kindOk, s] => do
    let k ← parseBool kindOk
    let s ← parseShape s
    some (resOut (unitMulData k s))
  | ["c16.handler", rule, s] => do
    let r ← HRule.parse rule
    let s ← parseShape s
    some (match handlerClass r s with | some r => resOut (.ok r) | none => "ok\tnone\t()")
  | ["c16.handlerrules", name] =>
    -- the regenerated return-rule list of a handler (cross-check of the translator)
    some (match Generated.c16HandlerRules.find? (·.1 == name) with
      | some (_, rs) => s!"ok\t{",".intercalate (rs.map HRule.str)}"
      | none => "none")
  | ["c16.getitem", cls, s, ixs] => do
    let c ← PyCls.parse cls
    let s ← parseShape s
    let ixs ← parseIxs ixs
    -- units are tags: 1 = the parent's unit, 0 = NULL_UNIT; the parent is named "parent"
    let p : Obj Nat := ⟨c, s, ⟨1, some "parent"⟩⟩
    some (match getitem 0 p ixs with
      | .ok o => s!"ok\t{o.cls.str}\t{shapeStr o.shape}\t{o.md.units}\t{o.md.name.getD "None"}\t{if isBasic ixs then 1 else 0}"
      | .error e => s!"err\t{e.str}")
  | ["c16.iter", cls, s] => do
    let c ← PyCls.parse cls
    let s ← parseShape s
    let p : Obj Nat := ⟨c, s, ⟨1, some "parent"⟩⟩
    some (match iterate 0 p with
      | .error e => s!"err\t{e.str}"
      | .ok items =>
        let strs := items.map (fun it => match it with
          | .ok o => s!"{o.cls.str}@{shapeStr o.shape}@{o.md.units}@{o.md.name.getD "None"}"
          | .error e => e.str)
        s!"ok\t{items.length}\t{"|".intercalate strs.eraseDups}")
  | ["c16.new", which, cls, k, a, b, bypass] => do
    let c ← PyCls.parse cls
    let inp ← parseNewInput k a b
    let bp ← parseBool bypass
    if which == "array" then some (newOut (arrayNew c inp bp))
    else if which == "quantity" then some (newOut (quantityNew c inp bp))
    else none
  | ["c16.coerce", items] => do
    let items ← parseCoItems items
    some (match coerceList unitNeFloat items with
      | .ok (vals, some ff) => s!"ok\t{bitsStr ff.scale}\t{bitsStr ff.offset}\t{ff.dim.str}\t{",".intercalate (vals.map bitsStr)}"
      | .ok (_, none) => "ok\tempty"
      | .error e => s!"err\t{e.str}")
  | ["c16.coerceprog", items] => do
    -- `_coerce_iterable_units` as the program REGENERATED from the live source (C16CoerceProg.lean)
    let items ← parseCoElems items
    some (match CoProg.coerceProg Generated.c16CoerceProg unitNeFloat items with
      | .ok (vals, some ff) => s!"ok\t{bitsStr ff.scale}\t{bitsStr ff.offset}\t{ff.dim.str}\t{",".intercalate (vals.map bitsStr)}"
      | .ok (_, none) => "ok\tnolabel"
      | .error e => s!"err\t{e.str}")
  | ["c16.coerceprog.ok"] => some s!"ok\t{CoProg.progOk Generated.c16CoerceProg}"
  | ["c16.accessor", name] =>
    some (match Generated.c16Accessors.find? (·.1 == name) with
      | some (_, rel, cls) => s!"ok\t{rel.str}\t{cls}"
      | none => "none")
  | ["c16.refaccessor", name] =>
    some (match Ref.c16Accessors.find? (·.1 == name) with
      | some (_, rel) => s!"ok\t{rel.str}"
      | none => "none")
  | _ => none

def opsC16 : Handler := fun st fields =>
  match fields with
  | op :: _ => if op.startsWith "c16." then (stepC16 fields).map (fun r => (st, r)) else none
  | _ => none

end Unyt
