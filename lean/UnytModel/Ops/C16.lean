/-
  UnytModel.Ops.C16 — opcodes of the C16 model (prefix `c16.`).
-/
import UnytModel.DriverBase

namespace Unyt

def opsC16 : Handler := fun _st fields =>
  match fields with
  | _ => none

end Unyt
