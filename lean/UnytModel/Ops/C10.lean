/-
  UnytModel.Ops.C10 — opcodes of the C10 model (prefix `c10.`): unit systems, synthesis,
  `__getitem__`/`__setitem__`, `UnitSystem.__init__`, `get_base_equivalent`, `in_base`,
  `convert_to_base`, and the row classifier of the kernel-decided closure obligation.

  Wire formats (all stateless — a system travels as its `units_map`):
  * expression  `coeffbits@sym:p/q;sym:p/q`
  * units_map   `dim=expr|dim=none|…`   (dim = eight comma-separated rationals)
  * extra rows of the registry table   `name&scalebits&offsetbits&dim&0|1` joined by `|`
  * a registry history (`c10.hist`): one field per item, parts joined by `!` —
    `I!name!um!base` (an object registered before the history starts, in registry order),
    `C!name!0|1!u1!…!u8` (construction; 1 = `registry=UnitRegistry()`), `G!obj!dim`, `S!obj!dim!expr`,
    `N!name`, `O!obj`; the reply lists every answer, the final dict `name=obj,…`, the invariant
    check, and every live object as `name#um#base`
-/
import UnytModel.DriverBase
import UnytModel.SystemTables
import UnytModel.SystemRegistry

namespace Unyt
namespace C10Wire

def exprStr (e : UExpr Float) : String :=
  s!"{bitsStr e.coeff}@{Factors.str (UExpr.normF e.factors)}"

def parseExpr (s : String) : Option (UExpr Float) :=
  match s.splitOn "@" with
  | [c, f] => do
    let c ← fb c
    let f ← Factors.parse f
    some ⟨c, f⟩
  | _ => none

def parseOptExpr (s : String) : Option (Option (UExpr Float)) :=
  if s == "none" then some none else (parseExpr s).map some

def umStr (m : UMap Float) : String :=
  "|".intercalate (m.map fun (d, e) =>
    match e with
    | some x => s!"{d.str}={exprStr x}"
    | none => s!"{d.str}=none")

def parseUm (s : String) : Option (UMap Float) :=
  if s.isEmpty then some [] else
  (s.splitOn "|").mapM fun item =>
    match item.splitOn "=" with
    | [d, e] => do
      let d ← Dim.parse d
      let e ← parseOptExpr e
      some (d, e)
    | _ => none

def parseExtra (s : String) : Option (Lut Float) :=
  if s.isEmpty then some [] else
  (s.splitOn "|").mapM fun item =>
    match item.splitOn "&" with
    | [n, sc, off, d, p] => do
      let sc ← fb sc
      let off ← fb off
      let d ← Dim.parse d
      let p ← parseBool p
      some (n, { scale := sc, dim := d, offset := off, prefixable := p })
    | _ => none

/-- the registry table: the extra rows override / extend a fresh copy of the default table -/
def lutWith (st : DriverState) (extra : Lut Float) : Lut Float :=
  extra.foldr (fun (k, e) t => Lut.set t k e) (st.luts[0]!)

def sysOf (um : UMap Float) : USys Float := { name := "wire", um := um, base := um }

inductive HistItem
  | init (S : USys Float)
  | op (o : SysOp Float)

def parseHistItem (st : DriverState) (s : String) : Option HistItem :=
  match s.splitOn "!" with
  | ["I", name, um, base] => do
    let m ← parseUm um
    let b ← parseUm base
    some (.init { name := name, um := m, base := b })
  | ["C", name, reg, u1, u2, u3, u4, u5, u6, u7, u8] => do
    let reg ← parseBool reg
    let us ← [u1, u2, u3, u4, u5, u6, u7, u8].mapM parseOptExpr
    some (.op (.construct name (if reg then some (st.luts[0]!) else none) us))
  | ["G", i, d] => do
    let i ← i.toNat?
    let d ← Dim.parse d
    some (.op (.getitem i d))
  | ["S", i, d, e] => do
    let i ← i.toNat?
    let d ← Dim.parse d
    let e ← parseExpr e
    some (.op (.setitem i d e))
  | ["N", name] => some (.op (.byName name))
  | ["O", i] => do
    let i ← i.toNat?
    some (.op (.byObject i))
  | _ => none

def outStr : SysOut Float → String
  | .built i => s!"built:{i}"
  | .unit e => s!"unit:{exprStr e}"
  | .done => "done"
  | .system i => s!"system:{i}"
  | .raised e => s!"raised:{e.str}"

/-- run a history on `SysWorld.step` (the function `UnytProofs/C10Registry.lean` is about) -/
def runHist (st : DriverState) (items : List HistItem) : String :=
  let inits := items.filterMap fun | .init S => some S | _ => none
  let ops := items.filterMap fun | .op o => some o | _ => none
  let W0 := SysWorld.ofSystems inits
  let t0 := st.luts[0]!
  let r := SysWorld.trace st.pre t0 Generated.invNames W0 ops
  let names := ",".intercalate (r.1.names.map fun (n, i) => s!"{n}={i}")
  let inv := if r.1.checkB st.pre t0 Generated.invNames then "1" else "0"
  let objs := r.1.heap.map fun o => s!"{o.sys.name}#{umStr o.sys.um}#{umStr o.sys.base}"
  "\t".intercalate (["ok", toString ops.length] ++ r.2.map outStr ++ [names, inv] ++ objs)

end C10Wire

open C10Wire in
def opsC10 : Handler := fun st fields =>
  let em : EmTable Float := defaultEm Float
  match fields with
  -- dump of the regenerated tables
  | ["c10.sys", name] =>
    match findSystem Float name with
    | some S => some (st, s!"ok\t{umStr S.um}\t{umStr S.base}")
    | none => some (st, "none")
  | ["c10.sysnames"] => some (st, "ok\t" ++ ",".intercalate ((builtinSystems Float).map (·.name)))
  | ["c10.syskinds", name] =>
    match rawSystem? name with
    | some r => some (st, "ok\t" ++ "|".intercalate (r.entries.map fun (d, _, k) => s!"{d.str}={k}"))
    | none => some (st, "none")
  | ["c10.em"] =>
    some (st, "ok\t" ++ "|".intercalate (em.map fun r =>
      s!"{r.name}&{r.dim.str}&{r.toDim.str}&{r.partner}&{bitsStr r.factor}"))
  -- _get_system_unit_string + parse
  | ["c10.synth", um, d] =>
    match parseUm um, Dim.parse d with
    | some m, some d => some (st, s!"ok\t{exprStr (synth m d)}")
    | _, _ => none
  -- UnitSystem.__getitem__ (answer and grown units_map)
  | ["c10.getitem", um, d] =>
    match parseUm um, Dim.parse d with
    | some m, some d =>
      match (sysOf m).getItem d with
      | .ok (e, S') => some (st, s!"ok\t{exprStr e}\t{umStr S'.um}")
      | .error e => some (st, s!"err\t{e.str}")
    | _, _ => none
  | ["c10.setitem", um, d, e] =>
    match parseUm um, Dim.parse d, parseExpr e with
    | some m, some d, some e =>
      match (sysOf m).setItem d e with
      | .ok S' => some (st, s!"ok\t{umStr S'.um}")
      | .error e => some (st, s!"err\t{e.str}")
    | _, _, _ => none
  -- UnitSystem.__init__: registry flag (0 = None, 1 = the table with the extra rows), 8 units
  | ["c10.init", extra, reg, u1, u2, u3, u4, u5, u6, u7, u8] =>
    match parseExtra extra, parseBool reg, [u1, u2, u3, u4, u5, u6, u7, u8].mapM parseOptExpr with
    | some ex, some reg, some us =>
      let t := lutWith st ex
      match USys.init st.pre (st.luts[0]!) Generated.invNames (if reg then some t else none) "wire" us with
      | .ok S => some (st, s!"ok\t{umStr S.um}\t{umStr S.base}")
      | .error e => some (st, s!"err\t{e.str}")
    | _, _, _ => none
  -- Unit(expr).get_base_equivalent(system)
  | ["c10.baseequiv", extra, um, ue] =>
    match parseExtra extra, parseUm um, parseExpr ue with
    | some ex, some m, some ue =>
      let t := lutWith st ex
      match mkUnit st.pre t ue with
      | .error e => some (st, s!"err\tunit:{e.str}")
      | .ok u => some (st, exceptOut unitOut (getBaseEquivalent st.pre t em (sysOf m) u))
    | _, _, _ => none
  -- unyt_quantity(x, expr).in_base(system): value, unit, units_map afterwards
  | ["c10.inbase", extra, um, ue, x] =>
    match parseExtra extra, parseUm um, parseExpr ue, fb x with
    | some ex, some m, some ue, some x =>
      let t := lutWith st ex
      match mkUnit st.pre t ue with
      | .error e => some (st, s!"err\tunit:{e.str}")
      | .ok u =>
        let S := sysOf m
        match inBase st.pre t em S u x with
        | .error e => some (st, s!"err\t{e.str}")
        | .ok (y, v) =>
          let S' := S.memoAll (inBaseTouches st.pre t em S u)
          some (st, s!"{unitOut v}\t{bitsStr y}\t{umStr S'.um}")
    | _, _, _, _ => none
  -- convert_to_base
  | ["c10.tobase", extra, um, ue, x] =>
    match parseExtra extra, parseUm um, parseExpr ue, fb x with
    | some ex, some m, some ue, some x =>
      let t := lutWith st ex
      match mkUnit st.pre t ue with
      | .error e => some (st, s!"err\tunit:{e.str}")
      | .ok u =>
        match convertToBase st.pre t em (sysOf m) (x, u) with
        | .error e => some (st, s!"err\t{e.str}")
        | .ok (y, v) => some (st, s!"{unitOut v}\t{bitsStr y}")
    | _, _, _, _ => none
  -- a history over `unit_system_registry`
  | "c10.hist" :: items =>
    match items.mapM (parseHistItem st) with
    | some its => some (st, runHist st its)
    | none => none
  -- the row classifier the kernel decides (at ℚ), executed
  | ["c10.verdict", sys, name] =>
    match rawSystem? sys with
    | some r => some (st, s!"ok\t{(rowVerdict r name).str}")
    | none => some (st, "none")
  | ["c10.exclusions"] =>
    let f (l : List (String × String)) := ",".intercalate (l.map fun (a, b) => s!"{a}|{b}")
    some (st, s!"ok\t{f Ref.exclC10}\t{f Ref.exclC10Prefixed}\t{f Ref.okC10Prefixed}")
  | _ => none

end Unyt
