/-
  UnytModel.Ops.C10 — opcodes of the C10 model (prefix `c10.`).
-/
import UnytModel.DriverBase

namespace Unyt

def opsC10 : Handler := fun _st fields =>
  match fields with
  | _ => none

end Unyt
