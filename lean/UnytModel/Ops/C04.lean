/-
  UnytModel.Ops.C04 — opcodes of the C04 model (prefix `c04.`).

  c04.rules                                     dump of the regenerated tables (translator cross-check)
  c04.excluded                                  the literal exclusion list `Ref.C04.exclC04` (must mirror the known findings)
  c04.lutadd  name scale [offset] dim prefixable `registry.add(name, scale, dim, offset=…, prefixable=…)` on table 0
  c04.cancel  coeff factors                     `_cancel_mul(expr, registry)`
  c04.binary  ufunc k0 <unit0> z0 k1 <unit1> z1 pexp x0 x1
                                                the binary value path (`k` = q: quantity, b: bare;
                                                `<unit>` = 5 fields; `z` = all-zero flag)
  c04.unary   ufunc method n <unit> x           the unary value path
  c04.dot     <unit0> <unit1>                   `unyt_array.dot`
  c04.pow     <unit> p                          `unyt_array.__pow__`
  c04.outfix  <old unit of out> mul             the `multiply(out, mul, out=out)` fix-up: terminates or recurses
  c04.bufcheck                                  symbolic check of the regenerated buffer program (+ first failing flags/placement)
  c04.bufrun  ufunc k0 <unit0> z0 k1 <unit1> z1 hasOut l0 l1 lo a0 a1 a2   the buffer program at Float on the caller cells
  c04.prog    n  <unit x>*n  tok…               a whole expression program (postfix: L<i>, B:<ufunc>,
                                                U:<ufunc>, P:<p/q>) through `Prog.evalModel`
-/
import UnytModel.DriverBase
import UnytModel.UfuncValue
import UnytModel.UfuncProgram
import UnytModel.Ref.C04Classes
import UnytModel.Generated.C04Buffers

namespace Unyt
open Unyt.UV

/-- the numeric kernels the driver can evaluate itself at `Float` (for the others the harness
    applies NumPy's kernel to the factors the model returns) -/
def kernelFloat2 : String → Option (Float → Float → Float)
  | "add" => some (· + ·)
  | "subtract" => some (· - ·)
  | "multiply" | "matmul" | "vecdot" => some (· * ·)
  | "divide" => some (· / ·)
  | "maximum" | "fmax" => some fun a b => if a ≥ b then a else b
  | "minimum" | "fmin" => some fun a b => if a ≤ b then a else b
  | "hypot" => some fun a b => Float.sqrt (a * a + b * b)
  | "floor_divide" => some fun a b => Float.floor (a / b)
  | "remainder" => some fun a b =>
    -- NumPy's remainder takes the sign of the divisor, also for a zero result
    let r := a - b * Float.floor (a / b)
    if r == 0 then (if b < 0 then -0.0 else 0.0) else r
  | "arctan2" => some Float.atan2
  | "copysign" => some fun a b => if b < 0 then -a.abs else a.abs
  | "greater" => some fun a b => if a > b then 1 else 0
  | "greater_equal" => some fun a b => if a ≥ b then 1 else 0
  | "less" => some fun a b => if a < b then 1 else 0
  | "less_equal" => some fun a b => if a ≤ b then 1 else 0
  | "equal" => some fun a b => if a == b then 1 else 0
  | "not_equal" => some fun a b => if a != b then 1 else 0
  | _ => none

def kernelFloat1 : String → Option (Float → Float)
  | "negative" => some fun a => -a
  | "absolute" | "fabs" => some Float.abs
  | "positive" | "conjugate" => some id
  | "sqrt" => some Float.sqrt
  | "cbrt" => some Float.cbrt
  | "square" => some fun a => a * a
  | "reciprocal" => some fun a => 1 / a
  | "sin" => some Float.sin
  | "cos" => some Float.cos
  | "tan" => some Float.tan
  | _ => none

def optUnitOut (u : Option (UnitV Float)) : String :=
  match u with
  | some u => s!"1\t{bitsStr u.scale}\t{bitsStr u.offset}\t{u.dim.str}\t{bitsStr u.expr.coeff}\t{Factors.str (UExpr.normF u.expr.factors)}"
  | none => "0\t-\t-\t-\t-\t-"

def parseOpnd (k sc off dim co fac z : String) : Option (Opnd Float) :=
  match parseBool z with
  | none => none
  | some zb =>
    if k == "b" then some ⟨none, zb⟩
    else if k == "q" then (parseUnitV sc off dim co fac).map fun u => ⟨some u, zb⟩
    else none

def outLine (o : Out Float) (val : String) : String :=
  let early := match o.early with | some true => "1" | some false => "0" | none => "-"
  s!"ok\t{optUnitOut o.unit}\t{bitsStr o.conv}\t{bitsStr o.mul}\t{bitsStr o.post}\t{early}\t{val}"

/-- parse `n` leaves (6 fields each: the unit's 5 fields and the number) -/
def parseLeaves : Nat → List String → Option (List (UnitV Float × Float) × List String)
  | 0, rest => some ([], rest)
  | n + 1, sc :: off :: dim :: co :: fac :: x :: rest =>
    match parseUnitV sc off dim co fac, fb x, parseLeaves n rest with
    | some u, some v, some (l, r) => some ((u, v) :: l, r)
    | _, _, _ => none
  | _, _ => none

/-- build a program from postfix tokens -/
def parseProg (toks : List String) : Option (Prog Float) :=
  let step (st : Option (List (Prog Float))) (tok : String) : Option (List (Prog Float)) :=
    match st with
    | none => none
    | some stack =>
      if tok.startsWith "L" then (tok.drop 1).toNat?.map fun i => Prog.leaf i :: stack
      else if tok.startsWith "B:" then
        let f := (tok.drop 2).toString
        match kernelFloat2 f, stack with
        | some F, b :: a :: r => some (Prog.bin f F a b :: r)
        | _, _ => none
      else if tok.startsWith "U:" then
        let f := (tok.drop 2).toString
        match kernelFloat1 f, stack with
        | some G, a :: r => some (Prog.un f G a :: r)
        | _, _ => none
      else if tok.startsWith "P:" then
        match parseRat (tok.drop 2).toString, stack with
        | some p, a :: r => some (Prog.pow p (fun x => Float.pow x (ratToFloat p)) a :: r)
        | _, _ => none
      else none
  match toks.foldl step (some []) with
  | some [p] => some p
  | _ => none

def stepC04 (st : DriverState) (fields : List String) : Option (DriverState × String) :=
  let pre := st.pre
  let t := st.luts[0]!
  match fields with
  | ["c04.rules"] =>
    let kv (l : List (String × String)) := ";".intercalate (l.map fun p => s!"{p.1}={p.2}")
    let G := Generated.C04.convRules
    some (st, s!"ok\t{kv Generated.C04.ufuncRules}\t{",".intercalate G}\t{",".intercalate Generated.C04.postMulRules}\t{",".intercalate Generated.C04.reducePowerUfuncs}\t{",".intercalate Generated.C04.trigOperators}\t{",".intercalate Generated.C04.eqNeUfuncs}")
  | ["c04.excluded"] => some (st, s!"ok\t{",".intercalate Ref.C04.exclC04}")
  | ["c04.rule", f] =>
    match ruleOf f with
    | some r => some (st, s!"ok\t{r.pyName}")
    | none => some (st, "err\tKeyError")
  | ["c04.lutadd", name, sc, dim, pf] =>
    match fb sc, Dim.parse dim, parseBool pf with
    | some s, some d, some p =>
      some ({ st with luts := st.luts.set! 0 (t.set name ⟨s, d, 0, p⟩) }, "ok")
    | _, _, _ => some (st, "bad-op")
  | ["c04.lutadd", name, sc, off, dim, pf] =>
    match fb sc, fb off, Dim.parse dim, parseBool pf with
    | some s, some o, some d, some p =>
      some ({ st with luts := st.luts.set! 0 (t.set name ⟨s, d, o, p⟩) }, "ok")
    | _, _, _, _ => some (st, "bad-op")
  | ["c04.cancel", co, fac] =>
    match fb co, Factors.parse fac with
    | some c, some f =>
      match cancelMul pre t (⟨c, f⟩ : UExpr Float) with
      | .ok e => some (st, s!"ok\t{bitsStr e.coeff}\t{Factors.str (UExpr.normF e.factors)}")
      | .error e => some (st, s!"err\t{e.str}")
    | _, _ => some (st, "bad-op")
  | ["c04.binary", f, k0, s0, o0, d0, c0, f0, z0, k1, s1, o1, d1, c1, f1, z1, pexp, x0, x1] =>
    let pe : Option (Option Rat) := if pexp == "-" then some none else (parseRat pexp).map some
    match parseOpnd k0 s0 o0 d0 c0 f0 z0, parseOpnd k1 s1 o1 d1 c1 f1 z1, pe, fb x0, fb x1 with
    | some a, some b, some p, some x0, some x1 =>
      match dispatchBinary UnitV.eqFloat pre t f a b p with
      | .error e => some (st, s!"err\t{e.str}")
      | .ok o =>
        let val :=
          if f == "power" then
            match p with
            | some q => bitsStr (o.mul * (Float.pow x0 (ratToFloat q) * o.post))
            | none => "-"
          else match kernelFloat2 f with
            | some F => bitsStr (o.value F x0 x1)
            | none => "-"
        some (st, outLine o val)
    | _, _, _, _, _ => some (st, "bad-op")
  | ["c04.unary", f, method, n, s0, o0, d0, c0, f0, x] =>
    match n.toNat?, parseUnitV s0 o0 d0 c0 f0, fb x with
    | some n, some u, some x =>
      match dispatchUnary UnitV.eqFloat pre t f method u n with
      | .error e => some (st, s!"err\t{e.str}")
      | .ok o =>
        let ic := match o.inConv with
          | some (c, some off) => s!"{bitsStr c}\t{bitsStr off}"
          | some (c, none) => s!"{bitsStr c}\t-"
          | none => "-\t-"
        let val := match kernelFloat1 f with
          | some F => if method == "__call__" then bitsStr (o.value F x) else "-"
          | none => "-"
        some (st, s!"ok\t{optUnitOut o.unit}\t{bitsStr o.mul}\t{ic}\t{val}")
    | _, _, _ => some (st, "bad-op")
  | ["c04.dot", s0, o0, d0, c0, f0, s1, o1, d1, c1, f1] =>
    match parseUnitV s0 o0 d0 c0 f0, parseUnitV s1 o1 d1 c1 f1 with
    | some u, some v =>
      match dotUnits u v with
      | .ok o => some (st, outLine o "-")
      | .error e => some (st, s!"err\t{e.str}")
    | _, _ => some (st, "bad-op")
  | ["c04.pow", s0, o0, d0, c0, f0, p] =>
    match parseUnitV s0 o0 d0 c0 f0, parseRat p with
    | some u, some q =>
      match powDunder UnitV.eqFloat pre t u q with
      | .ok o => some (st, outLine o "-")
      | .error e => some (st, s!"err\t{e.str}")
    | _, _ => some (st, "bad-op")
  | ["c04.outfix", s0, o0, d0, c0, f0, m] =>
    match parseUnitV s0 o0 d0 c0 f0, fb m with
    | some u, some m =>
      match outFixup pre t u m with
      | .ok (some f) => some (st, s!"ok\tfixed\t{bitsStr f}")
      | .ok none => some (st, "ok\trecursion")
      | .error e => some (st, s!"err\t{e.str}")
    | _, _ => some (st, "bad-op")
  | ["c04.bufcheck"] =>
    let ok := Buf.checkAll Generated.C04Buf.binaryStmts
    let ff := match Buf.firstFailure Generated.C04Buf.binaryStmts with
      | some (fl, l0, l1, lo) => s!"{fl.conv}\t{fl.tdelta}\t{fl.post}\t{fl.hasOut}\t{fl.mulNe1}\t{fl.free0}\t{fl.free1}\t{l0}\t{l1}\t{lo}"
      | none => "-"
    some (st, s!"ok\t{ok}\t{Generated.C04Buf.binaryStmts.length}\t{ff}")
  | ["c04.bufrun", f, k0, s0, o0, d0, c0, f0, z0, k1, s1, o1, d1, c1, f1, z1, hasOut, l0, l1, lo, a0, a1, a2] =>
    match parseOpnd k0 s0 o0 d0 c0 f0 z0, parseOpnd k1 s1 o1 d1 c1 f1 z1, kernelFloat2 f,
          l0.toNat?, l1.toNat?, lo.toNat?, fb a0, fb a1, fb a2 with
    | some a, some b, some F, some l0, some l1, some lo, some a0, some a1, some a2 =>
      match dispatchBinary UnitV.eqFloat pre t f a b none with
      | .error e => some (st, s!"err\t{e.str}")
      | .ok o =>
        -- the blocks that run: read off the model's own outcome of the unit bookkeeping
        let fl : Buf.Flags := ⟨o.conv != 1, false, o.post != 1, hasOut == "1", o.mul != 1, false, false⟩
        let coef : Buf.Coef → Float := fun c => match c with
          | .conv => o.conv | .ratio0 => 1 | .post => o.post | .mul => o.mul
        let s := Buf.run (Buf.mulAlg F coef) fl lo Generated.C04Buf.binaryStmts (Buf.initSt a0 a1 a2 l0 l1)
        let cell (i : Nat) : String := match s.mem[i]? with | some v => bitsStr v | none => "-"
        let ret := match s.read .ret with | some v => bitsStr v | none => "-"
        some (st, s!"ok\t{s.bad}\t{ret}\t{cell 0}\t{cell 1}\t{cell 2}")
    | _, _, _, _, _, _, _, _, _ => some (st, "bad-op")
  | "c04.prog" :: n :: rest =>
    match n.toNat? with
    | none => some (st, "bad-op")
    | some n =>
      match parseLeaves n rest with
      | none => some (st, "bad-op")
      | some (leaves, toks) =>
        match parseProg toks with
        | none => some (st, "bad-op")
        | some p =>
          let env : Nat → UnitV Float × Float := fun i => leaves.getD i (UnitV.dimensionless, 0)
          match p.evalModel UnitV.eqFloat pre t env with
          | .ok (u, v) => some (st, s!"ok\t{optUnitOut (some u)}\t{bitsStr v}")
          | .error e => some (st, s!"err\t{e.str}")
  | _ => none

def opsC04 : Handler := stepC04

end Unyt
