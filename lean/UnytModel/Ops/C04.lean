/-
  UnytModel.Ops.C04 — opcodes of the C04 model (prefix `c04.`).
-/
import UnytModel.DriverBase

namespace Unyt

def opsC04 : Handler := fun _st fields =>
  match fields with
  | _ => none

end Unyt
