/-
  UnytModel.Ops.C17Factor — opcodes (prefix `c17.f`) of the factor-kind extension of the C17 model:
  base-value type of a unit of the live table, typing of the quotient, the same-dimension routes per
  factor kind (dtype) and the value path with the product evaluated in the promoted dtype — all on
  the regenerated `liveFactor` / `liveFactorRules` / `liveUnitBaseKinds` (the definitions the
  theorems of `UnytProofs/C17Factor.lean` are about).
-/
import UnytModel.Ops.C17
import UnytModel.DtypeFactor
import UnytModel.Generated.FactorTables

namespace Unyt
open Unyt.Generated

/-- `type(registry.lut[sym][0])` -/
def unitBaseKind (t : List (String × BaseKind)) (sym : String) : Option BaseKind := t.lookup sym

/-- factor kind of a conversion between two atomic units of the table -/
def unitFactorKind (t : List (String × BaseKind)) (a b : String) : Option FactorKind :=
  match unitBaseKind t a, unitBaseKind t b with
  | some x, some y => some (ratioKind x y)
  | _, _ => none

open C17Ops in
def opsC17Factor : Handler := fun st fields =>
  match fields with
  | ["c17.fbasekind", sym] =>
    match unitBaseKind liveUnitBaseKinds sym with
    | some k => some (st, s!"ok\t{k.str}")
    | none => some (st, "none")
  | ["c17.fkind", a, b] =>
    match unitFactorKind liveUnitBaseKinds a b with
    | some k => some (st, s!"ok\t{k.str}")
    | none => some (st, "none")
  | ["c17.fratio", a, b] =>
    match BaseKind.parse a, BaseKind.parse b with
    | some x, some y => some (st, s!"ok\t{(ratioKind x y).str}")
    | _, _ => none
  | ["c17.fshape", a, b] =>
    -- a unit is given as `s:<symbol>` or `other`
    let parse := fun (x : String) => if x == "other" then some UnitShape.other
      else if x.startsWith "s:" then some (UnitShape.symbol (String.ofList (x.toList.drop 2))) else none
    match parse a, parse b with
    | some x, some y =>
      match shapeFactorKind liveUnitBaseKinds x y with
      | some k => some (st, s!"ok\t{k.str}")
      | none => some (st, "none")
    | _, _ => none
  | ["c17.foffsetkind", fk] =>
    match FactorKind.parse fk with
    | some fk => some (st, s!"ok\t{(offsetKind fk).str}")
    | none => none
  | ["c17.froute", fk, r, k, s, q] =>
    match FactorKind.parse fk, Route.parse r, parseDtype k s, parseBool q with
    | some fk, some r, some d, some q =>
      if r == .toValue then
        match toValueOutOf liveNumpy liveRules
            (copyDtypeStaged liveNumpy liveRules liveFactor liveFactorRules.copyCastKinds.contains fk d) q with
        | .ok .pyfloat => some (st, "ok\tpyfloat\t8")
        | .ok .pycomplex => some (st, "ok\tpycomplex\t16")
        | .ok (.ndarray x) => some (st, dtOut (.ok x))
        | .error e => some (st, s!"err\t{e.str}")
      else some (st, dtOut (routeDtypeF liveNumpy liveRules liveFactor liveFactorRules fk r d q))
    | _, _, _, _ => none
  | ["c17.foroute", fk, r, k, s, q] =>
    match FactorKind.parse fk, Route.parse r, parseDtype k s, parseBool q with
    | some fk, some r, some d, some q =>
      if r == .toValue then
        match toValueOutOf liveNumpy liveRules
            (withOffset liveNumpy liveFactor liveOffsetRules.copyStep fk true
              (copyDtypeStaged liveNumpy liveRules liveFactor liveFactorRules.copyCastKinds.contains fk d)) q with
        | .ok .pyfloat => some (st, "ok\tpyfloat\t8")
        | .ok .pycomplex => some (st, "ok\tpycomplex\t16")
        | .ok (.ndarray x) => some (st, dtOut (.ok x))
        | .error e => some (st, s!"err\t{e.str}")
      else some (st, dtOut (routeDtypeO liveNumpy liveRules liveFactor liveFactorRules liveOffsetRules fk true r d q))
    | _, _, _, _ => none
  | ["c17.fovalue", route, fk, k, s, e, f, o] =>
    match FactorKind.parse fk, parseDtype k s, parseElem e, fb f, parseOffset o with
    | some fk, some d, some e, some f, some o =>
      if route == "copy" then
        some (st, valOut (inUnitsElemO liveNumpy liveRules liveFactor liveFactorRules.copyCastKinds liveOffsetRules.copyStep floatOps fk d e f o))
      else if route == "inbase" then
        some (st, valOut (inUnitsElemO liveNumpy liveRules liveFactor liveFactorRules.inBaseCastKinds liveOffsetRules.inBaseStep floatOps fk d e f o))
      else if route == "inplace" then
        some (st, valOut (convertToUnitsElemO liveNumpy liveRules liveFactor liveOffsetRules.inplaceStep floatOps fk d e f o))
      else none
    | _, _, _, _, _ => none
  | ["c17.fvalue", route, fk, k, s, e, f, o] =>
    match FactorKind.parse fk, parseDtype k s, parseElem e, fb f, parseOffset o with
    | some fk, some d, some e, some f, some o =>
      if route == "copy" then
        some (st, valOut (inUnitsElemF liveNumpy liveRules liveFactor liveFactorRules.copyCastKinds floatOps fk d e f o))
      else if route == "inbase" then
        some (st, valOut (inUnitsElemF liveNumpy liveRules liveFactor liveFactorRules.inBaseCastKinds floatOps fk d e f o))
      else if route == "inplace" then
        some (st, valOut (convertToUnitsElemF liveNumpy liveRules liveFactor floatOps fk d e f o))
      else none
    | _, _, _, _, _ => none
  | _ => none

end Unyt
