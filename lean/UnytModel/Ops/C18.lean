/-
  UnytModel.Ops.C18 — opcodes of the C18 model (prefix `c18.`).

  run line (every routine):  <ok|err:Name> <effects> <value bits> <scale bits> <offset bits> <dim> <dtype> <coherent> <named>
      effects := `,`-joined  S (setUnits) R<dtype> (retype) C<dtype> (castCopy) M (scale) O (shift) K (kernel) T (store) N (clearName)
      the state columns are the target after the effects, starting from the value `x`, the array's unit/dtype, named = 1

  c18.ctu      <x> <unit5> <kind> <size> <writeable> (E <Err> | U <unit5>)
  c18.ctb      <base|cgs|mks> <system> <x> <unit5> <kind> <size> <writeable>
  c18.cte      <x> <unit5> <kind> <size> <writeable> (E <Err> | U <unit5>) <equiv> <kw,kw|> <selfCoeff bits> <depth>
  c18.setitem  <self unit5> (B | U <unit5>) (- | <Err>)
  c18.iufunc   <fuel> (N | U <unit6>) <float kind> <float size> <c01.dispatch fields …> <out shape;kind;itemsize> <out writeable>
  c18.simplify <unit5>                      → <ok|err:Name> <n effects> <returns self 0|1> <coeff bits> <factors>
  c18.copy.in_units <Class.method> <unit5> <kind> <size> (E <Err> | U <unit5>)   → <ok|err:Name> <n effects>
  c18.copy.in_base  <Class.method> <system> <unit5>
  c18.copy.to_equivalent <Class.method> <unit5> <kind> <size> (E <Err> | U <unit5>) <equiv> <kw,kw|>
  c18.copy.method <Class.method>       (effects = the regenerated self-writes of the method)
  c18.copy.ufunc <c01.dispatch fields …>   (out forced to none)           → <ok|err:Name> <n effects>
  c18.dump.order <routine>     c18.dump.writes <Class.method>     c18.dump.lists
-/
import UnytModel.DriverBase
import UnytModel.Effects
import UnytModel.SystemTables
import UnytModel.Ops.C01
import UnytModel.Ops.C17
import UnytModel.Generated.EquivFormulas
import UnytModel.Generated.DtypeTables
import UnytModel.Generated.C18Order
import UnytModel.Ref.C18

namespace Unyt
open Unyt.Effects Unyt.Ufunc Unyt.Generated

namespace C18Wire

def pErrName (s : String) : Option Err :=
  [Err.UnitOperationError, .UnitConversionError, .UnitParseError, .InvalidUnitOperation,
   .UnitInconsistencyError, .IterableUnitCoercionError, .UnitsNotReducible, .InvalidUnitEquivalence,
   .SymbolNotFoundError, .IllDefinedUnitSystem, .MissingMKSCurrent, .MKSCGSConversionError,
   .TypeError, .ValueError, .RuntimeError, .KeyError, .Other].find? (fun e => e.str == s)

def effStr : Eff Float → String
  | .setUnits _ => "S" | .retype d => "R" ++ d.str | .castCopy d => "C" ++ d.str | .scale _ => "M"
  | .shift _ => "O" | .kernel _ => "K" | .store => "T" | .clearName => "N"

def b01 (b : Bool) : String := if b then "1" else "0"

def runLine (r : IRun Float) (x : Float) (u : UnitV Float) (d : Dtype) : String :=
  let t := applyAll (fun _ v => v) x ⟨x, u, d, true, true⟩ r.effects
  let head := match r.result with | .ok _ => "ok" | .error e => "err:" ++ e.str
  s!"{head}\t{",".intercalate (r.effects.map effStr)}\t{bitsStr t.value}\t{bitsStr t.unit.scale}\t{bitsStr t.unit.offset}\t{t.unit.dim.str}\t{t.dtype.str}\t{b01 t.coherent}\t{b01 t.named}"

/-- `E <Err>` | `U <unit5>` -/
def pTarget : List String → Option (Except Err (UnitV Float) × List String)
  | "E" :: e :: rest => (pErrName e).map fun e => (.error e, rest)
  | "U" :: sc :: off :: dim :: co :: fac :: rest => (parseUnitV sc off dim co fac).map fun u => (.ok u, rest)
  | _ => none

def pKw (s : String) : List String := if s == "" then [] else s.splitOn ","

def shortLine {α : Type} (n : Nat) : Except Err α → String
  | .ok _ => s!"ok\t{n}"
  | .error e => s!"err:{e.str}\t{n}"

/-- the driver's dispatcher context: generated tables, `math.isclose` equality and the real
    `Unit.simplify` (`_cancel_mul`) as simplifier -/
def ctx (st : DriverState) : Ctx Float :=
  let lut := st.luts[0]!
  { T := Tables.generated, pre := st.pre, lut := lut, ueq := UnitV.eqFloat,
    simp := fun u => match UV.simplify st.pre lut u with
      | .ok s => s.asCoeffUnit
      | .error _ => (1, u) }

/-- the variant of the conversion code the live source has (regenerated flags) -/
def liveFlags : CtuFlags := ⟨C18.ctuUnitsLast, C18.ctuReadonlyGuard, C18.outReadonlyGuard⟩

def orderOf (name : String) : Option (List String) :=
  match name with
  | "convertToUnits" => some C18.convertToUnitsOrder | "convertToBase" => some C18.convertToBaseOrder
  | "convertToCgs" => some C18.convertToCgsOrder | "convertToMks" => some C18.convertToMksOrder
  | "convertToEquivalent" => some C18.convertToEquivalentOrder | "toEquivalent" => some C18.toEquivalentOrder
  | "inUnits" => some C18.inUnitsOrder | "inBase" => some C18.inBaseOrder | "setitem" => some C18.setitemOrder
  | "arrayUfunc" => some C18.arrayUfuncOrder | "unitSimplify" => some C18.unitSimplifyOrder
  | _ => none

end C18Wire

open C18Wire C01Wire in
def stepC18 (st : DriverState) (fields : List String) : Option String :=
  let lut := st.luts[0]!
  let em : EmTable Float := defaultEm Float
  let N := liveNumpy
  let P := liveRules
  match fields with
  | "c18.ctu" :: x :: sc :: off :: dim :: co :: fac :: k :: sz :: w :: rest => do
    let x ← fb x
    let u ← parseUnitV sc off dim co fac
    let d ← C17Ops.parseDtype k sz
    let w ← parseBool w
    let (tg, _) ← pTarget rest
    some (runLine (runSteps (convertToUnitsSteps liveFlags N P st.pre lut em ⟨u, d, w⟩ tg)) x u d)
  | ["c18.ctb", kind, sys, x, sc, off, dim, co, fac, k, sz, w] => do
    let bk ← (match kind with | "base" => some BaseKind.base | "cgs" => some .cgs | "mks" => some .mks | _ => none)
    let S ← findSystem Float sys
    let x ← fb x
    let u ← parseUnitV sc off dim co fac
    let d ← C17Ops.parseDtype k sz
    let w ← parseBool w
    some (runLine (runSteps (convertToBaseSteps liveFlags N P st.pre lut em S bk ⟨u, d, w⟩)) x u d)
  | "c18.cte" :: x :: sc :: off :: dim :: co :: fac :: k :: sz :: w :: rest => do
    let x ← fb x
    let u ← parseUnitV sc off dim co fac
    let d ← C17Ops.parseDtype k sz
    let w ← parseBool w
    let (tg, rest) ← pTarget rest
    match rest with
    | [eq, kw, sco, depth] =>
      let sco ← fb sco
      let depth ← depth.toNat?
      some (runLine (runSteps (convertToEquivalentSteps liveFlags N P st.pre lut em equivalences ⟨u, d, w⟩
        { convUnit := tg, name := eq, kwargs := pKw kw, selfCoeff := sco, depth := depth,
          reenters := C18.fixupReenters, powRefuses := powRefuses })) x u d)
    | _ => none
  | "c18.setitem" :: sc :: off :: dim :: co :: fac :: rest => do
    let u ← parseUnitV sc off dim co fac
    let (v, rest) ← (match rest with
      | "B" :: r => some (ArrayChecks.SetValue.bare, r)
      | "U" :: a :: b :: c :: d :: e :: r => (parseUnitV a b c d e).map fun vu => (ArrayChecks.SetValue.withUnits vu, r)
      | _ => none)
    match rest with
    | [np] =>
      let np : Option (Option Err) := if np == "-" then some none else (pErrName np).map some
      let np ← np
      some (runLine (runSteps (setitemSteps st.pre lut UnitV.eqFloat u v np)) 0 u ⟨.f, 8⟩)
    | _ => none
  | "c18.iufunc" :: fuel :: rest => do
    let fuel ← fuel.toNat?
    let (ou, rest) ← (match rest with
      | "N" :: r => some (none, r)
      | "U" :: r => (pUnit r).map fun p => (some p.1, p.2)
      | _ => none)
    match rest with
    | fk :: fs :: f :: m :: nin :: rest =>
      let fd ← C17Ops.parseDtype fk fs
      let m ← pMethod m
      let nin ← nin.toNat?
      let (ins, rest) ← pOperands nin rest
      let (out, rest) ← pOut rest
      match rest with
      | [ax, ke, ksh, od, ow] =>
        let ow ← parseBool ow
        let ax : Option (Option Nat) := if ax == "-" then some none else ax.toNat?.map some
        let ax ← ax
        let ke : Option (Option Err) := if ke == "-" then some none else (pErrName ke).map some
        let ke ← ke
        let ksh ← pShape ksh
        -- `od`: the out array's data descriptor `shape;kind;itemsize`
        let odata : Option Data := match od.splitOn ";" with
          | [sh, kk, isz] => do
            let sh ← pShape sh
            let kk ← pKind kk
            let isz ← isz.toNat?
            some { shape := sh, kind := kk, itemsize := isz }
          | _ => none
        let odata ← odata
        let c : Call Float := { ufunc := f, method := m, inputs := ins, out := out, axisLen := ax, kernelErr := ke,
                                kernelShape := ksh }
        let o : OutInfo Float := { unit := ou, data := odata, floatDtype := fd,
                                   promotable := (npDtype N .f fd.size).toOption.isSome, writeable := ow }
        let r := inplaceUfunc C18.fixupReenters liveFlags.outRoGuard (ctx st) o fuel c
        let u0 : UnitV Float := match ou with | some u => u.v | none => UnitV.dimensionless
        let d0 : Dtype := ⟨(match odata.kind with | .i => .i | .u => .u | .c => .c | .b => .b | _ => .f), odata.itemsize⟩
        some (runLine r 1 u0 d0)
      | _ => none
    | _ => none
  | ["c18.simplify", sc, off, dim, co, fac] => do
    let u ← parseUnitV sc off dim co fac
    let r := unitSimplify C18.simplifyCopies st.pre lut u
    match r.result with
    | .ok (v, self) => some s!"ok\t{r.effects.length}\t{b01 self}\t{bitsStr v.expr.coeff}\t{Factors.str (UExpr.normF v.expr.factors)}"
    | .error e => some s!"err:{e.str}\t{r.effects.length}"
  | "c18.copy.in_units" :: meth :: sc :: off :: dim :: co :: fac :: k :: sz :: rest => do
    let u ← parseUnitV sc off dim co fac
    let d ← C17Ops.parseDtype k sz
    let (tg, _) ← pTarget rest
    let r := runSteps (copyingRoute C18.methodFacts meth (inUnitsSteps N P st.pre lut em ⟨u, d, true⟩ tg))
    some (shortLine r.effects.length r.result)
  | ["c18.copy.in_base", meth, sys, sc, off, dim, co, fac] => do
    let S ← findSystem Float sys
    let u ← parseUnitV sc off dim co fac
    let r := runSteps (copyingRoute C18.methodFacts meth (inBaseSteps st.pre lut em S u))
    some (shortLine r.effects.length r.result)
  | "c18.copy.to_equivalent" :: meth :: sc :: off :: dim :: co :: fac :: k :: sz :: rest => do
    let u ← parseUnitV sc off dim co fac
    let d ← C17Ops.parseDtype k sz
    let (tg, rest) ← pTarget rest
    match rest with
    | [eq, kw] =>
      let r := runSteps (copyingRoute C18.methodFacts meth
        (toEquivalentSteps N P st.pre lut em equivalences powRefuses ⟨u, d, true⟩ tg eq (pKw kw)))
      some (shortLine r.effects.length r.result)
    | _ => none
  | ["c18.copy.method", meth] =>
    -- any other documented-copying method: no modelled fallible step, the regenerated self-writes only
    some (shortLine (runSteps (copyingRoute (K := Float) C18.methodFacts meth [])).effects.length
      (runSteps (copyingRoute (K := Float) C18.methodFacts meth [])).result)
  | "c18.copy.ufunc" :: f :: m :: nin :: rest => do
    let m ← pMethod m
    let nin ← nin.toNat?
    let (ins, rest) ← pOperands nin rest
    let (_out, rest) ← pOut rest
    match rest with
    | [ax, ke, ksh] =>
      let ax : Option (Option Nat) := if ax == "-" then some none else ax.toNat?.map some
      let ax ← ax
      let ke : Option (Option Err) := if ke == "-" then some none else (pErrName ke).map some
      let ke ← ke
      let ksh ← pShape ksh
      let c : Call Float := { ufunc := f, method := m, inputs := ins, out := .none, axisLen := ax, kernelErr := ke,
                              kernelShape := ksh }
      let r := dispatch (ctx st) c
      some (shortLine r.effects.length r.result)
    | _ => none
  | ["c18.dump.order", name] =>
    match orderOf name with
    | some l => some ("ok\t" ++ "|".intercalate l)
    | none => some "none"
  | ["c18.dump.writes", m] =>
    match MethodFacts.find? C18.methodFacts m with
    | some _ => some ("ok\t" ++ "|".intercalate (selfWrites C18.methodFacts 6 m))
    | none => some "none"
  | ["c18.dump.lists"] =>
    some ("ok\t" ++ ",".intercalate Ref.C18.copyingMethods ++ "\t" ++ ",".intercalate Ref.C18.inplaceMethods
      ++ "\t" ++ ",".intercalate Ref.C18.knownMutatingCopies)
  | _ => none

def opsC18 : Handler := fun st fields =>
  match fields with
  | op :: _ => if op.startsWith "c18." then (stepC18 st fields).map fun s => (st, s) else none
  | _ => none

end Unyt
