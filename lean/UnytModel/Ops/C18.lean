/-
  UnytModel.Ops.C18 — opcodes of the C18 model (prefix `c18.`).
-/
import UnytModel.DriverBase

namespace Unyt

def opsC18 : Handler := fun _st fields =>
  match fields with
  | _ => none

end Unyt
