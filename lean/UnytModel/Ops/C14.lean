/-
  UnytModel.Ops.C14 — opcodes of the C14 model (prefix `c14.`): the string route and the three
  attribute routes of `UnytModel/Names.lean` at `Float`, the reference reader, the Python string
  methods, the generator model, and dumps of the regenerated tables (translator self-check).
  Names travel as text; the handler converts to and from codes.
-/
import UnytModel.DriverBase
import UnytModel.C14Check
import UnytModel.NameGen
import UnytModel.NamesHistoryC14
import UnytModel.Generated.C14RegCfg

namespace Unyt
open Unyt.Names Unyt.C14 Unyt.Generated.C14

namespace C14Ops

def showName (n : Name) : String := if n == C14.absent then "<absent>" else Name.toString n

def ctxF : Ctx Float := C14.ctx Float
def customCtxF : Ctx Float := C14.customCtx Float

def pickCtx (reg : String) : Option (Ctx Float) :=
  if reg == "default" then some ctxF else if reg == "custom" then some customCtxF else none

def readingOut : Option Reading → String
  | some .one => "one"
  | some (.sym s p b) => s!"sym\t{showName s}\t{showName p}\t{showName b}"
  | none => "none"

def verdictOut (s : Name) : String :=
  let all := Ref.C14.allReadings charTable baseTreeC s
  let allS := ";".intercalate (all.map fun (k, c) => s!"{k}:{showName c}")
  match refVerdict s with
  | .unknown => s!"unknown\t\t\t{allS}"
  | .ambiguous => s!"ambiguous\t\t\t{allS}"
  | .unique k c => s!"unique\t{k}\t{showName c}\t{allS}"

def findRow (n : Name) : Option NameRow := allRows.find? fun r => r.name == n

/-! #### registry histories (`UnytModel/NamesHistoryC14.lean`) -/

/-- one request of a history: a unit STRING (parser rewrites + alias table, then the look-up), or an
    operation of the state machine itself -/
inductive HReq
  | unit (name : Name)
  | op (o : NamesHist.Op Float)

/-- wire: `U:<string>` `K:<symbol>` `A:<scale bits>:<0|1 prefixable>:<default key whose dimension is used>:<symbol>`
    `R:<symbol>` `M:<scale bits>:<symbol>` `J` (save/load) `C` (deep copy) -/
def parseHReq (f : String) : Option HReq :=
  match f.splitOn ":" with
  | ["J"] => some (.op .reload)
  | ["C"] => some (.op .copy)
  | "U" :: rest => some (.unit (Name.ofString (":".intercalate rest)))
  | "K" :: rest => some (.op (.look (Name.ofString (":".intercalate rest))))
  | "R" :: rest => some (.op (.remove (Name.ofString (":".intercalate rest))))
  | "M" :: b :: rest =>
    match floatOfBitsStr b with
    | some v => some (.op (.modify (Name.ofString (":".intercalate rest)) v))
    | none => none
  | "A" :: b :: p :: d :: rest =>
    match floatOfBitsStr b, ctxF.lut.get? (Name.ofString d) with
    | some v, some row =>
      some (.op (.add (Name.ofString (":".intercalate rest)) { scale := v, dim := row.dim, offset := 0.0, prefixable := p == "1" }))
    | _, _ => none
  | _ => none

def entryOut (e : Entry Float) : String :=
  s!"e:{bitsStr e.scale}:{bitsStr e.offset}:{e.dim.str}:{if e.prefixable then 1 else 0}"

def outOut : NamesHist.Out Float → String
  | .entry (some e) => entryOut e
  | .entry none => "none"
  | .done => "done"
  | .missing => "missing"

def HReq.toOp : HReq → NamesHist.OpS Float
  | .unit n => .unit n
  | .op o => .op o

def outSOut : NamesHist.OutS Float → String
  | .unit (some (.sym s e)) => Name.toString s ++ "=" ++ entryOut e
  | .unit (some .one) => "one"
  | .unit none => "none"
  | .out o => outOut o

/-- run the requests through `NamesHist.runS` (string cache, look-up with write-back, edits, reloads)
    with the live configurations; one answer per request -/
def runHist (c : Ctx Float) (r : NamesHist.RegS Float) (reqs : List HReq) : NamesHist.RegS Float × List String :=
  let (r2, outs) := NamesHist.runS regCfg regCacheCfg ⟨c.globals, c.inv, c.rewritten, c.pre⟩ c.lut r (reqs.map HReq.toOp)
  (r2, outs.map outSOut)

end C14Ops

open C14Ops in
def opsC14 : Handler := fun st fields =>
  match fields with
  -- string route: symbol, prefix, base, scale, offset, dimension
  | ["c14.resolve", reg, name] =>
    match pickCtx reg with
    | none => none
    | some c =>
      let n := Name.ofString name
      match stringReading c n, stringEntry c n with
      | some r, some e =>
        some (st, s!"ok\t{readingOut (some r)}\t{bitsStr e.scale}\t{bitsStr e.offset}\t{e.dim.str}")
      | none, none => some (st, "err\tUnitParseError")
      | _, _ => some (st, "inconsistent")
  -- attribute routes (symbolic) and the value the attribute's symbol has in the registry
  | ["c14.attr", route, name] =>
    let n := Name.ofString name
    let r := if route == "us" then some (unitSymbolsAttr ctxF n, ctxF)
      else if route == "top" then some (topLevelAttr ctxF shadowedC n, ctxF)
      else if route == "custom" then some (addSymbolsAttr customCtxF n, customCtxF) else none
    match r with
    | none => none
    | some (rd, c) =>
      match rd with
      | some (.sym s _ _) =>
        match Names.lookupUnitSymbol c.pre c.lut s with
        | some e => some (st, s!"ok\t{readingOut rd}\t{bitsStr e.scale}\t{bitsStr e.offset}\t{e.dim.str}")
        | none => some (st, s!"ok\t{readingOut rd}\tnone")
      | _ => some (st, s!"ok\t{readingOut rd}")
  -- a history on a registry that starts from the default table (`full`) or from nothing (`empty`)
  | "c14.hist" :: start :: reqs =>
    let base : Option (Dict (Entry Float)) :=
      if start == "full" then some ctxF.lut else if start == "empty" then some .leaf else none
    match base, reqs.mapM parseHReq with
    | some b, some rs =>
      let (r, outs) := runHist ctxF (NamesHist.freshS b) rs
      let der := ",".intercalate (r.reg.derived.map Name.toString)
      some (st, "ok\t" ++ der ++ "\t" ++ "\t".intercalate outs)
    | _, _ => some (st, "bad-request")
  | ["c14.ref", name] => some (st, verdictOut (Name.ofString name))
  -- translator self-check: the generated row of a listed name
  | ["c14.row", name] =>
    match findRow (Name.ofString name), invTree.get? (Name.ofString name) with
    | some r, some (o, k) =>
      some (st, s!"ok\t{showName r.okey}\t{showName r.nkey}\t{showName r.usSym}\t{showName r.topSym}\t{showName r.customSym}\t{showName o}\t{showName k}")
    | _, _ => some (st, "none")
  | ["c14.counts"] =>
    some (st, s!"ok\t{allRows.length}\t{invTree.size}\t{lutC.length}\t{prefixesC.length}\t{baseRowsC.length}\t{altsInC.length}\t{namesOutC.length}\t{shadowedC.length}\t{customLutC.length}")
  | ["c14.lutrow", reg, key] =>
    match pickCtx reg with
    | none => none
    | some c =>
      match c.lut.get? (Name.ofString key) with
      | some e => some (st, s!"ok\t{bitsStr e.scale}\t{bitsStr e.offset}\t{e.dim.str}\t{if e.prefixable then 1 else 0}")
      | none => some (st, "none")
  | ["c14.prefix", key] =>
    match ctxF.pre.get? (Name.ofString key), findN (Name.ofString key) prefixWordsC with
    | some v, some w => some (st, s!"ok\t{bitsStr v}\t{showName w}")
    | _, _ => some (st, "none")
  -- Python string methods of the generator
  | ["c14.title", s] => some (st, "ok\t" ++ Name.toString (Name.title charTable (Name.ofString s)))
  | ["c14.lower", s] => some (st, "ok\t" ++ Name.toString (Name.lower charTable (Name.ofString s)))
  | ["c14.islower", s] => some (st, if Name.isLower charTable (Name.ofString s) then "ok\t1" else "ok\t0")
  | ["c14.rewrite", s] => some (st, "ok\t" ++ Name.toString (Names.parserRewrite (Name.ofString s)))
  | ["c14.split_", s] =>
    some (st, "ok\t" ++ "|".intercalate ((Py.splitUnderscore (Name.chars (Name.ofString s))).map fun w => Name.toString (Name.ofChars w)))
  -- the generator model run on the regenerated inputs
  | ["c14.gen"] =>
    match C14.generateDefault with
    | .error (k, o) => some (st, s!"err\tRuntimeError\t{showName k}\t{showName o}")
    | .ok g =>
      let inv := ";".intercalate (g.invList.map fun (k, o) => s!"{showName k}={showName o}")
      let names := ";".intercalate (g.namesList.map fun (k, as) => s!"{showName k}=" ++ ",".intercalate (as.map showName))
      some (st, s!"ok\t{inv}\t{names}")
  | _ => none

end Unyt
