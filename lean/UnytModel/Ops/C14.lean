/-
  UnytModel.Ops.C14 — opcodes of the C14 model (prefix `c14.`).
-/
import UnytModel.DriverBase

namespace Unyt

def opsC14 : Handler := fun _st fields =>
  match fields with
  | _ => none

end Unyt
