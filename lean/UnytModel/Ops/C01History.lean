/-
  UnytModel.Ops.C01History — opcodes of the history model of C01.

  c01.history  <call> ## <call> ## … ## <call>
      call := <ufunc> <method> <nin> <operand>… <initial> <out> <axisLen|-> <kernelErr|-> <kernelShape> <eq|ne|->
              (the fields of `c01.dispatch` after the opcode)
    → the reply of `c01.dispatch` for the LAST call, evaluated by `History.runHistory` after the
      earlier calls in one interpreter, under the memo configuration regenerated from the source;
      followed by `rs=<n0>,<n1>` (entries of the unit-rule table before / after the last call);
      `unmodelled` when the regenerated state has no place in the model
  c01.dump.state → ok <memo rows name:block:fields:maxsize;…> <unmodelled names> <sound 0|1>
-/
import UnytModel.Ops.C01
import UnytModel.UfuncHistory
import UnytModel.Generated.C01State

namespace Unyt
open Unyt.Ufunc Unyt.Ufunc.History

namespace C01Wire

def pCall (fields : List String) : Option (Call Float × String) :=
  match fields with
  | f :: m :: nin :: rest => do
    let m ← pMethod m
    let nin ← nin.toNat?
    let (ins, rest) ← pOperands nin rest
    let (ini, rest) ← (match rest with
      | "-" :: r => some (none, r)
      | "I" :: r => (pOperand r).map fun x => (some x.1, x.2)
      | _ => none)
    let (out, rest) ← pOut rest
    match rest with
    | [ax, ke, ksh, wrap] =>
      let ax : Option (Option Nat) := if ax == "-" then some none else ax.toNat?.map some
      let ax ← ax
      let ke ← pErr ke
      let ksh ← pShape ksh
      some ({ ufunc := f, method := m, inputs := ins, out := out, axisLen := ax, kernelErr := ke,
              kernelShape := ksh, initial := ini }, wrap)
    | _ => none
  | _ => none

/-- split a field list at the separator `##` -/
def splitCalls (fields : List String) : List (List String) :=
  let r := fields.foldr (fun f (acc : List String × List (List String)) =>
    if f == "##" then ([], acc.1 :: acc.2) else (f :: acc.1, acc.2)) ([], [])
  r.1 :: r.2

end C01Wire

open C01Wire in
def stepC01History (st : DriverState) (fields : List String) : Option String :=
  let C : Ctx Float := Ctx.float st.pre (st.luts[0]!)
  match fields with
  | "c01.history" :: rest => do
    let calls ← (splitCalls rest).mapM pCall
    match calls.reverse with
    | [] => none
    | (c, wrap) :: revHist =>
      match Cfg.ofRows Generated.dispatcherMemos with
      | none => some "unmodelled"
      | some cfg =>
        let st0 := stateAfter cfg fvalKeyEq C {} (revHist.reverse.map (·.1))
        let r1 := dispatchM cfg fvalKeyEq C st0 c
        let r := r1.2
        -- sizes of the unit-rule table before and after the last call (compared with `cache_info()`)
        let tail := s!"\trs={st0.rule.length},{r1.1.rule.length}"
        if wrap == "eq" then some (runStr (eqNeOperator false r) ++ tail)
        else if wrap == "ne" then some (runStr (eqNeOperator true r) ++ tail)
        else if wrap == "-" then some (runStr r ++ tail) else none
  | ["c01.dump.state"] =>
    let rows := ";".intercalate (Generated.dispatcherMemos.map fun m =>
      m.1 ++ ":" ++ m.2.1 ++ ":" ++ ",".intercalate m.2.2.1 ++ ":" ++ toString m.2.2.2)
    let sound := match Cfg.ofRows Generated.dispatcherMemos with
      | some cfg => cfg.sound && Generated.dispatcherStateUnmodelled.isEmpty
      | none => false
    some ("ok\t" ++ rows ++ "\t" ++ ",".intercalate Generated.dispatcherStateUnmodelled ++ "\t" ++ (if sound then "1" else "0"))
  | _ => none

def opsC01History : Handler := fun st fields =>
  match fields with
  | op :: _ =>
    if op == "c01.history" || op == "c01.dump.state" then
      match stepC01History st fields with
      | some r => some (st, r)
      | none => some (st, "bad-op")
    else none
  | _ => none

end Unyt
