/-
  UnytModel.Ops.Tables — opcodes exposing the reference definitions and the table checks (C02, C14).
-/
import UnytModel.DriverBase
import UnytModel.TableCheck

namespace Unyt

def opsTables : Handler := fun st fields =>
  match fields with
  | ["c02.refrow", k] =>
    match Ref.find? k with
    | none => some (st, "none")
    | some r =>
      let (kind, q) := match r.v with
        | .val q => ("val", q)
        | .sqrtOf q => ("sqrt", q)
      some (st, s!"ok\t{kind}\t{ratStr q}\t{ratStr r.cls.tol}\t{r.dim.str}\t{ratStr r.offset}")
  | ["c02.rowok", k] => some (st, if rowOkByName k then "ok\t1" else "ok\t0")
  | ["c02.excluded"] => some (st, "ok\t" ++ ",".intercalate Ref.exclC02)
  | ["c02.refprefix", k] =>
    match Ref.siPrefixes.lookup k with
    | some e => some (st, s!"ok\t{e}")
    | none => some (st, "none")
  | _ => none

end Unyt
