/-
  UnytModel.Ops.C20 — opcodes of the C20 model (prefix `c20.`).
-/
import UnytModel.DriverBase

namespace Unyt

def opsC20 : Handler := fun _st fields =>
  match fields with
  | _ => none

end Unyt
