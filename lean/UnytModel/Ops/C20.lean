/-
  UnytModel.Ops.C20 — opcodes of the C20 model (prefix `c20.`).
  Strings travel as comma-separated code points (they may contain tabs and newlines).
-/
import UnytModel.DriverBase
import UnytModel.Parse
import UnytModel.Print
import UnytModel.UnitArith
import UnytModel.UnitCache

namespace Unyt
open Parse Print

def cpsToChars (s : String) : Option (List Char) :=
  if s.isEmpty then some [] else
  (s.splitOn ",").mapM fun t =>
    match t.toNat? with
    | some n => if n.isValidChar then some (Char.ofNat n) else none
    | none => none

def charsToCps (cs : List Char) : String := ",".intercalate (cs.map fun c => toString c.toNat)

def exprOut (e : UExpr Rat) : String :=
  s!"ok\t{ratStr e.coeff}\t{Factors.str (UExpr.normF e.factors)}"

def resOut : Except PErr (UExpr Rat) → String
  | .ok e => exprOut e
  | .error c => s!"err\t{c.str}"

/-- flat (tab-free) rendering of a parse result, for embedding in a longer reply -/
def resFlat : Except PErr (UExpr Rat) → String
  | .ok e => s!"ok|{ratStr e.coeff}|{Factors.str (UExpr.normF e.factors)}"
  | .error c => s!"err|{c.str}"

/-- Python's strict UTF-8 decoder (`bytes.decode("utf-8")`): no overlong forms, no surrogates,
    nothing above U+10FFFF -/
def decodeUtf8 : Nat → List Nat → Option (List Char)
  | 0, _ => none
  | _ + 1, [] => some []
  | fuel + 1, b :: r =>
    let cont (x : Nat) : Bool := 0x80 ≤ x && x ≤ 0xBF
    if b < 0x80 then (decodeUtf8 fuel r).map (Char.ofNat b :: ·)
    else if 0xC2 ≤ b && b ≤ 0xDF then
      match r with
      | b1 :: r' => if cont b1 then (decodeUtf8 fuel r').map (Char.ofNat ((b - 0xC0) * 64 + (b1 - 0x80)) :: ·) else none
      | _ => none
    else if 0xE0 ≤ b && b ≤ 0xEF then
      match r with
      | b1 :: b2 :: r' =>
        let cp := (b - 0xE0) * 4096 + (b1 - 0x80) * 64 + (b2 - 0x80)
        if cont b1 && cont b2 && cp ≥ 0x800 && !(0xD800 ≤ cp && cp ≤ 0xDFFF) then
          (decodeUtf8 fuel r').map (Char.ofNat cp :: ·) else none
      | _ => none
    else if 0xF0 ≤ b && b ≤ 0xF4 then
      match r with
      | b1 :: b2 :: b3 :: r' =>
        let cp := (b - 0xF0) * 262144 + (b1 - 0x80) * 4096 + (b2 - 0x80) * 64 + (b3 - 0x80)
        if cont b1 && cont b2 && cont b3 && cp ≥ 0x10000 && cp ≤ 0x10FFFF then
          (decodeUtf8 fuel r').map (Char.ofNat cp :: ·) else none
      | _ => none
    else none

/-- `Unit(b)` for `bytes`: `b.decode("utf-8")`, then the string path -/
def parseBytes (bs : List Nat) : Except PErr (UExpr Rat) :=
  match decodeUtf8 (bs.length + 1) bs with
  | none => .error .unitParseError                     -- UnicodeDecodeError, caught (fix C20-03)
  | some cs => parseChars cs

/-- the end of `Unit.__new__` when unit data are handed in (`base_value is not None`):
    `_get_unit_data_from_expr` is not called, so no symbol is looked up -/
def finishRaw : Val → Except PErr (UExpr Rat)
  | .fn | .ty => upe                                 -- "must be a string or sympy Expr"
  | .mono e => .ok e
  | .bad _ _ _ => .error .unmodelled                 -- built, with an expression outside `UExpr`

/-- `Unit(s, base_value=…, dimensions=…)` for a `str`: `parseChars` without the table look-up -/
def parseCharsRaw (cs : List Char) : Except PErr (UExpr Rat) :=
  let cs := if cs.isEmpty then Generated.parseEmptyCodes.map Char.ofNat else cs
  match tokenize (rewrite cs) with
  | .error e => .error e
  | .ok ts =>
    if hasBinarySign ts then .error .outOfVocabulary else
    match parseTokens ts with
    | none => upe
    | some p =>
      match evalP p with
      | .error e => .error e
      | .ok v => finishRaw v

/-- the cache state machine of `Unit.__new__` with the model's parsers and decoder -/
def unitNewHistory (ks : List UnitCache.Call) : List (UnitCache.Outcome PErr (UExpr Rat)) × UnitCache.Cache (UExpr Rat) :=
  UnitCache.history parseChars parseCharsRaw (fun b => decodeUtf8 (b.length + 1) b) .unitParseError [] ks

/-- the same call on a registry that has never been used -/
def unitNewFresh (k : UnitCache.Call) : UnitCache.Outcome PErr (UExpr Rat) :=
  UnitCache.fresh parseChars parseCharsRaw (fun b => decodeUtf8 (b.length + 1) b) .unitParseError k

def parseCall (s : String) : Option UnitCache.Call :=
  match s.splitOn "=" with
  | ["s", cps] => (cpsToChars cps).map .str
  | ["w", cps] => (cpsToChars cps).map .withData
  | ["b", bs] => (if bs.isEmpty then some [] else (bs.splitOn ",").mapM (·.toNat?)).map .bytes
  | ["c"] => some .clear
  | _ => none

def outcomeOut : UnitCache.Outcome PErr (UExpr Rat) → String
  | .hit e => "H|" ++ resFlat (.ok e)
  | .built e => "B|" ++ resFlat (.ok e)
  | .error c => "E|" ++ resFlat (.error c)
  | .done => "C"

/-- NAME tokens compared up to `inv_name_alternatives` (`%` is printed for the symbol `percent`) -/
def canonTok : Tok → Tok
  | .name s => .name (canonTree s).toList
  | t => t

def opsC20 : Handler := fun st fields =>
  match fields with
  -- Unit(str): parsed expression, and str()/repr() of the result
  | ["c20.parse", cps] =>
    match cpsToChars cps with
    | none => some (st, "err\toutOfVocabulary")     -- lone surrogates are no characters of a unit string
    | some cs =>
      match parseChars cs with
      | .ok e => some (st, exprOut e ++ s!"\t{charsToCps (unitStr e).toList}\t{charsToCps (unitRepr e).toList}")
      | .error c => some (st, s!"err\t{c.str}")
  | ["c20.bytes", bs] =>
    match (if bs.isEmpty then some [] else (bs.splitOn ",").mapM (·.toNat?)) with
    | none => none
    | some l => some (st, resOut (parseBytes l))
  -- str()/repr() of an expression and what they re-parse to
  | ["c20.print", co, fac] =>
    match parseRat co, Factors.parse fac with
    | some c, some f =>
      let e : UExpr Rat := ⟨c, f⟩
      let s := unitStr e
      let r := unitRepr e
      some (st, s!"ok\t{charsToCps s.toList}\t{charsToCps r.toList}\t{resFlat (parseUnit s)}\t{resFlat (parseUnit r)}")
    | _, _ => none
  -- the layout level: tokens of the printed form parse back to the expression
  | ["c20.layout", co, fac] =>
    match parseRat co, Factors.parse fac with
    | some c, some f =>
      let e : UExpr Rat := ⟨c, f⟩
      let a := printAst e
      let viaTokens : Except PErr (UExpr Rat) :=
        match parseTokens (renderTokens a) with
        | none => .error .unitParseError
        | some p => match evalP p with
          | .ok (.mono x) => .ok x
          | .ok _ => .error .unmodelled
          | .error c => .error c
      let lexed := match tokenize (rewrite (render a).toList) with
        | .ok ts => if ts.map canonTok == (renderTokens a).map canonTok then "1" else "0"
        | .error _ => "0"
      some (st, s!"ok\t{resFlat (.ok (evalAst a))}\t{resFlat viaTokens}\t{lexed}")
    | _, _ => none
  -- a unit built by unit arithmetic (`__mul__`, `__truediv__`, `__rtruediv__`, `__pow__`) from a
  -- coefficient-free start unit: its expression, str()/repr() and what they re-parse to
  | ["c20.arith", f0, prog] =>
    match Factors.parse f0, UnitArith.parseProg prog with
    | some f, some pr =>
      let e : UExpr Rat := ⟨1, UnitArith.run f pr⟩
      let s := unitStr e
      let r := unitRepr e
      some (st, s!"ok\t{Factors.str (UExpr.normF e.factors)}\t{charsToCps s.toList}\t{charsToCps r.toList}\t{resFlat (parseUnit s)}\t{resFlat (parseUnit r)}")
    | _, _ => none
  -- a history of `Unit(text, registry=reg)` calls on one new registry: per call hit / built / error and the value;
  -- last field: number of cached texts at the end
  | ["c20.history", calls] =>
    match (calls.splitOn "|").mapM parseCall with
    | none => none
    | some ks =>
      let (os, c) := unitNewHistory ks
      some (st, "ok\t" ++ "\t".intercalate (os.map outcomeOut) ++ s!"\t{c.length}")
  -- `Rational(p).limit_denominator(B)` = `fractions.Fraction.limit_denominator`
  | ["c20.limden", b, q] =>
    match b.toNat?, parseRat q with
    | some B, some x => if B = 0 then none else some (st, s!"ok\t{ratStr (UnitArith.limitDenominator B x)}")
    | _, _ => none
  | _ => none

end Unyt
