/-
  UnytModel.Ops.C01 — opcodes of the C01 model (prefix `c01.`).
-/
import UnytModel.DriverBase

namespace Unyt

def opsC01 : Handler := fun _st fields =>
  match fields with
  | _ => none

end Unyt
