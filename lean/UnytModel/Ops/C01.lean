/-
  UnytModel.Ops.C01 — opcodes of the C01 model (prefix `c01.`).

  c01.dispatch  <ufunc> <method> <nin> <operand>… <initial: - | I operand> <out> <axisLen|-> <kernelErr|-> <kernelShape d,d,…> <eq|ne|->
      operand :=  U <a|q> <unit> <data> | B <data> | S <n> (<-> | u <unit>)… <data>
      unit    :=  <scale bits> <offset bits> <dim> <coeff bits> <factors> <repr>
      data    :=  <shape d,d,…> <allZero 0|1> <kind f|i|u|c|b|o> <itemsize> <constant 0|1> <first p/q>
      out     :=  N | O <isUnyt> <isInt> | M <n> (<-> | o <isUnyt> <isInt>)…
    → ok <unit: scale offset dim | none> <factor|none> <fsz|none> <mul> <early none|0|1> <effects>
    | err <Name> <effects>
  c01.validate / c01.validate_v2 / c01.comp / c01.setitem / c01.to / c01.coerce
  c01.dump.rule / c01.dump.sets / c01.dump.checks / c01.covered
-/
import UnytModel.DriverBase
import UnytModel.Ufunc
import UnytModel.ArrayChecks
import UnytModel.Ref.C01
import UnytModel.Generated.C01Writes

namespace Unyt
open Unyt.Ufunc Unyt.ArrayChecks

namespace C01Wire

abbrev P (α : Type) := List String → Option (α × List String)

def pUnit : P (UnitR Float)
  | sc :: off :: dim :: co :: fac :: rp :: rest =>
    (parseUnitV sc off dim co fac).map fun u => (⟨u, rp⟩, rest)
  | _ => none

def pShape (s : String) : Option (List Nat) :=
  if s == "" then some [] else (s.splitOn ",").mapM String.toNat?

def pKind (s : String) : Option DtKind :=
  match s with
  | "f" => some .f | "i" => some .i | "u" => some .u | "c" => some .c | "b" => some .b
  | "o" => some .other | _ => none

def pData : P Data
  | sh :: z :: k :: isz :: cst :: fst :: rest => do
    let shape ← pShape sh
    let z ← parseBool z
    let k ← pKind k
    let isz ← isz.toNat?
    let cst ← parseBool cst
    let fst ← parseRat fst
    some ({ shape := shape, allZero := z, kind := k, itemsize := isz, constant := cst, first := fst }, rest)
  | _ => none

def pItems : Nat → List String → Option (List (Option (UnitR Float)) × List String)
  | 0, rest => some ([], rest)
  | n + 1, "-" :: rest => (pItems n rest).map fun r => (none :: r.1, r.2)
  | n + 1, "u" :: rest =>
    match pUnit rest with
    | some (u, rest') => (pItems n rest').map fun r => (some u :: r.1, r.2)
    | none => none
  | _, _ => none

def pOperand : P (Operand Float)
  | "U" :: cls :: rest => do
    let c ← (if cls == "a" then some Cls.array else if cls == "q" then some Cls.quantity else none)
    let (u, rest) ← pUnit rest
    let (d, rest) ← pData rest
    some (.unyt c u d, rest)
  | "B" :: rest => (pData rest).map fun r => (.bare r.1, r.2)
  | "S" :: n :: rest => do
    let n ← n.toNat?
    let (items, rest) ← pItems n rest
    let (d, rest) ← pData rest
    some (.seq items d, rest)
  | _ => none

def pOperands : Nat → List String → Option (List (Operand Float) × List String)
  | 0, rest => some ([], rest)
  | n + 1, rest =>
    match pOperand rest with
    | some (o, rest') => (pOperands n rest').map fun r => (o :: r.1, r.2)
    | none => none

def pOutItems : Nat → List String → Option (List (Option OutArr) × List String)
  | 0, rest => some ([], rest)
  | n + 1, "-" :: rest => (pOutItems n rest).map fun r => (none :: r.1, r.2)
  | n + 1, "o" :: a :: b :: rest => do
    let a ← parseBool a
    let b ← parseBool b
    let r ← pOutItems n rest
    some (some ⟨a, b⟩ :: r.1, r.2)
  | _, _ => none

def pOut : P OutSpec
  | "N" :: rest => some (.none, rest)
  | "O" :: a :: b :: rest => do
    let a ← parseBool a
    let b ← parseBool b
    some (.one ⟨a, b⟩, rest)
  | "M" :: n :: rest => do
    let n ← n.toNat?
    let (os, rest) ← pOutItems n rest
    some (.many os, rest)
  | _ => none

def pMethod (s : String) : Option Method :=
  match s with
  | "__call__" => some .call | "reduce" => some .reduce | "accumulate" => some .accumulate
  | "outer" => some .outer | "reduceat" => some .reduceat | "at" => some .at | _ => none

def pErr (s : String) : Option (Option Err) :=
  match s with
  | "-" => some none
  | "TypeError" => some (some .TypeError) | "ValueError" => some (some .ValueError)
  | "RuntimeError" => some (some .RuntimeError) | "KeyError" => some (some .KeyError)
  | "Other" => some (some .Other) | _ => none

def unitStr (u : UnitV Float) : String := s!"{bitsStr u.scale}\t{bitsStr u.offset}\t{u.dim.str}"

def effStr : Effect Float → String
  | .retypeOut => "R"
  | .writeOut i => s!"W{i}"
  | .scaleOut => "S"
  | .setOutUnits i u => s!"U{i}:{bitsStr u.scale}:{bitsStr u.offset}:{u.dim.str}"

def effsStr (es : List (Effect Float)) : String := ";".intercalate (es.map effStr)

def runStr (r : Run Float) : String :=
  match r.result with
  | .error e => s!"err\t{e.str}\t{effsStr r.effects}"
  | .ok o =>
    let u := match o.unit with | some u => unitStr u | none => "none\tnone\tnone"
    let f := match o.factor with
      | some f => bitsStr f
      | none => match o.factorFirst with | some f => "first:" ++ bitsStr f | none => "none"
    let z := match o.factorItemsize with | some n => toString n | none => "none"
    let e := match o.early with | some true => "1" | some false => "0" | none => "none"
    let fi := match o.factorInitial with | some f => bitsStr f | none => "none"
    s!"ok\t{u}\t{f}\t{z}\t{bitsStr o.mul}\t{e}\t{effsStr r.effects}\t{fi}"

/-- `A <unit>` | `A-` | `N` | `[` … `]` -/
partial def pObjs (acc : List (Obj Float)) : List String → Option (List (Obj Float) × List String)
  | [] => some (acc.reverse, [])
  | "]" :: rest => some (acc.reverse, rest)
  | "N" :: rest => pObjs (.num :: acc) rest
  | "A-" :: rest => pObjs (.arr none :: acc) rest
  | "A" :: rest =>
    match pUnit rest with
    | some (u, rest') => pObjs (.arr (some u.v) :: acc) rest'
    | none => none
  | "[" :: rest =>
    match pObjs [] rest with
    | some (xs, rest') => pObjs (.seq xs :: acc) rest'
    | none => none
  | _ => none

def pOptUnit : P (Option (UnitV Float))
  | "-" :: rest => some (none, rest)
  | "u" :: rest => (pUnit rest).map fun r => (some r.1.v, r.2)
  | _ => none

end C01Wire

open C01Wire in
def stepC01 (st : DriverState) (fields : List String) : Option String :=
  let C : Ctx Float := Ctx.float st.pre (st.luts[0]!)
  match fields with
  | "c01.dispatch" :: f :: m :: nin :: rest => do
    let m ← pMethod m
    let nin ← nin.toNat?
    let (ins, rest) ← pOperands nin rest
    let (ini, rest) ← (match rest with
      | "-" :: r => some (none, r)
      | "I" :: r => (pOperand r).map fun x => (some x.1, x.2)
      | _ => none)
    let (out, rest) ← pOut rest
    match rest with
    | [ax, ke, ksh, wrap] =>
      let ax : Option (Option Nat) := if ax == "-" then some none else ax.toNat?.map some
      let ax ← ax
      let ke ← pErr ke
      let ksh ← pShape ksh
      let c : Call Float := { ufunc := f, method := m, inputs := ins, out := out, axisLen := ax, kernelErr := ke,
                              kernelShape := ksh, initial := ini }
      let r := dispatch C c
      if wrap == "eq" then some (runStr (eqNeOperator false r))
      else if wrap == "ne" then some (runStr (eqNeOperator true r))
      else if wrap == "-" then some (runStr r) else none
    | _ => none
  | "c01.coerce" :: rest => do
    let (o, _) ← pOperand rest
    match coerce C.ueq o with
    | .error e => some s!"err\t{e.str}"
    | .ok none => some "ok\tnone"
    | .ok (some u) => some s!"ok\t{unitStr u.v}"
  | "c01.validate" :: rest => do
    let (objs, _) ← pObjs [] rest
    match validateConsistency C.ueq objs with
    | .error e => some s!"err\t{e.str}"
    | .ok u => some s!"ok\t{unitStr u}"
  | "c01.validate_v2" :: rest => do
    let (r, rest) ← pUnit rest
    let (objs, _) ← pObjs [] rest
    match validateV2 C.ueq r.v objs with
    | .error e => some s!"err\t{e.str}"
    | .ok () => some "ok"
  | "c01.comp" :: rest => do
    let (a, rest) ← pOptUnit rest
    let (b, _) ← pOptUnit rest
    match arrayCompHelper C.pre C.lut C.ueq a b with
    | .error e => some s!"err\t{e.str}"
    | .ok .asIs => some "ok\tasis"
    | .ok .adopt => some "ok\tadopt"
    | .ok (.convertB f) => some s!"ok\tconvert\t{bitsStr f}"
  | "c01.setitem" :: rest => do
    let (s, rest) ← pUnit rest
    let (v, _) ← pOptUnit rest
    let v : SetValue Float := match v with | some u => .withUnits u | none => .bare
    match setitem C.pre C.lut C.ueq s.v v with
    | .error e => some s!"err\t{e.str}"
    | .ok .raw => some "ok\traw"
    | .ok (.converted f) => some s!"ok\tconverted\t{bitsStr f}"
  | "c01.to" :: rest => do
    let (u, rest) ← pUnit rest
    let (t, _) ← pUnit rest
    match toCheck C.pre C.lut u.v t.v with
    | .error e => some s!"err\t{e.str}"
    | .ok fo => some s!"ok\t{bitsStr fo.1}"
  -- dumps of the regenerated tables (the translator is checked against the live objects)
  | ["c01.dump.rule", f] =>
    match C.T.ruleOf f with
    | some r => some s!"ok\t{r.str}"
    | none => some "none"
  | ["c01.dump.sets"] =>
    some ("ok\t" ++ ",".intercalate C.T.trig ++ "\t" ++
      ",".intercalate (C.T.multiOut.map fun p => s!"{p.1}:{p.2}") ++ "\t" ++
      ",".intercalate (C.T.powerMap.map fun p => s!"{p.1}:{p.2.1}:{p.2.2}") ++ "\t" ++
      ",".intercalate [C.T.multiplyName, C.T.divideName, C.T.powerName, C.T.equalName,
        C.T.notEqualName, C.T.clipName, C.T.modfName, C.T.divmodName] ++ "\t" ++
      (if C.T.clipIsUfunc then "1" else "0") ++ "\t" ++
      ",".intercalate Generated.unaryOperators ++ "\t" ++ ",".intercalate Generated.binaryOperators)
  | ["c01.dump.alias", n] =>
    match Generated.npUfuncAliases.find? (·.1 == n) with
    | some p => some s!"ok\t{p.2}"
    | none => some "none"
  | ["c01.dump.checks", fn] =>
    match Generated.handlerChecks.find? (·.1 == fn) with
    | some (_, cs) => some ("ok\t" ++ ";".intercalate (cs.map fun c =>
        c.1 ++ ":" ++ ",".intercalate c.2.1 ++ ":" ++ (if c.2.2.1 then "1" else "0") ++ (if c.2.2.2 then "1" else "0")))
    | none => some "none"
  | "c01.covered" :: fn :: ops =>
    some (if covered Generated.handlerChecks (Ref.C01.kindsFor (fn, ops)) fn ops then "ok\t1" else "ok\t0")
  | ["c01.dump.writes"] =>
    some ("ok\t" ++ ";".intercalate (Generated.dispatcherWriteSites.map fun w => w.1 ++ ":" ++ w.2.1) ++ "\t" ++
      ",".intercalate Generated.dispatcherInputAliases ++ "\t" ++ ",".intercalate Generated.dispatcherRescaleTuple ++ "\t" ++
      ";".intercalate (Generated.dispatcherMismatchFallback.map fun p => p.1 ++ ">" ++ p.2))
  | ["c01.ref.ufuncs"] => some ("ok\t" ++ ",".intercalate Ref.C01.commensurabilityRequiring)
  | ["c01.ref.merging"] =>
    some ("ok\t" ++ ";".intercalate (Ref.C01.mergingFunctions.map fun p => p.1 ++ ":" ++ ",".intercalate p.2))
  | ["c01.ref.unchecked"] =>
    some ("ok\t" ++ ";".intercalate (Ref.C01.uncheckedRows.map fun p => p.1 ++ ":" ++ ",".intercalate p.2)
      ++ "\t" ++ ",".intercalate Ref.C01.uncheckedUfuncs)
  | _ => none

def opsC01 : Handler := fun st fields =>
  match fields with
  | op :: _ =>
    if op.startsWith "c01." then
      match stepC01 st fields with
      | some r => some (st, r)
      | none => some (st, "bad-op")
    else none
  | _ => none

end Unyt
