/-
  UnytModel.Ops.C08 — opcodes of the C08 model (prefix `c08.`).
-/
import UnytModel.DriverBase

namespace Unyt

def opsC08 : Handler := fun _st fields =>
  match fields with
  | _ => none

end Unyt
