/-
  UnytModel.Ops.C08 — opcodes of the C08 model (prefix `c08.`).

  Units travel as `<prefix symbol>:<table symbol>` (e.g. `m:degC`, `:K`, `da:delta_degC`); the
  prefix value and the rows come from the regenerated tables.  Doubles travel as bit patterns.
-/
import UnytModel.DriverBase
import UnytModel.TempTable
import UnytModel.TempSeq
import UnytModel.TempReduce

namespace Unyt
open Unyt.Temp

namespace C08Wire

def parseTU (s : String) : Option (TU Float) :=
  match s.splitOn ":" with
  | [p, b] =>
    match TBase.ofName (Name.ofString b) with
    | none => none
    | some base =>
      if p.isEmpty then some ⟨none, base⟩
      else match genPfx Float (Name.ofString p) with
        | some pf => some ⟨some pf, base⟩
        | none => none
  | _ => none

def tuStr (u : TU Float) : String :=
  (match u.pre with | none => "" | some p => Name.toString p.sym) ++ ":" ++ Name.toString u.base.name

def parseOpnd (s : String) : Option (Opnd Float) :=
  if s == "dimless" then some .dimless
  else if s == "other" then some .other
  else (parseTU s).map .temp

def parseRule (s : String) : Option Rule :=
  if s == "preserve" then some .preserve
  else if s == "difference" then some .difference
  else if s == "comparison" then some .comparison
  else none

def parseUnOp (s : String) (p : String) : Option UnOp :=
  if s == "sqrt" then some .sqrt
  else if s == "cbrt" then some .cbrt
  else if s == "square" then some .square
  else if s == "reciprocal" then some .reciprocal
  else if s == "power" then (parseRat p).map .power
  else if s == "mulreduce" then p.toNat?.map .mulReduce
  else none

def lvOut : Except Err (TU Float × Float) → String
  | .ok (u, v) => s!"ok\t{tuStr u}\t{bitsStr v}"
  | .error e => s!"err\t{e.str}"

def unitVOut : Except Err (UnitV Float) → String
  | .ok u => s!"ok\t{bitsStr u.scale}\t{bitsStr u.offset}\t{u.dim.str}"
  | .error e => s!"err\t{e.str}"

/-- a Python sequence of quantities: units `a,b,c` and readings `x,y,z` -/
def parseSeq (us xs : String) : Option (List (TU Float × Float)) :=
  let ul := us.splitOn ","
  let xl := xs.splitOn ","
  if ul.length != xl.length then none
  else (ul.zip xl).mapM fun p =>
    match parseTU p.1, fb p.2 with
    | some u, some v => some (u, v)
    | _, _ => none

def parseFloats (xs : String) : Option (List Float) := (xs.splitOn ",").mapM fb

def parseSide (s : String) : Option SeqSide :=
  if s == "left" then some .left else if s == "right" then some .right else none

def floatsStr (l : List Float) : String := ",".intercalate (l.map bitsStr)

/-- labelled readings of an elementwise result (one unit decision: the label of the first element) -/
def lvListOut : Except Err (List (TU Float × Float)) → String
  | .ok [] => "ok\tnone\t"
  | .ok ((u, v) :: rest) => s!"ok\t{tuStr u}\t{floatsStr (v :: rest.map (·.2))}"
  | .error e => s!"err\t{e.str}"

end C08Wire
open C08Wire

def stepC08 (fields : List String) : String :=
  let tab := genTab Float
  match fields with
  | ["c08.add", a, b, x, y] =>
    match parseTU a, parseTU b, fb x, fb y with
    | some u0, some u1, some x0, some x1 => lvOut (tempAdd tab u0 x0 u1 x1)
    | _, _, _, _ => "bad-op"
  | ["c08.sub", a, b, x, y] =>
    match parseTU a, parseTU b, fb x, fb y with
    | some u0, some u1, some x0, some x1 => lvOut (tempSub tab u0 x0 u1 x1)
    | _, _, _, _ => "bad-op"
  | ["c08.cmp", a, b, x, y] =>
    match parseTU a, parseTU b, fb x, fb y with
    | some u0, some u1, some x0, some x1 =>
      match tempCmpArgs tab u0 x0 u1 x1 with
      | .ok (p, q) => s!"ok\t{bitsStr p}\t{bitsStr q}"
      | .error e => s!"err\t{e.str}"
    | _, _, _, _ => "bad-op"
  -- Python sequences (list / tuple) of quantities as operands: `_coerce_iterable_units`
  | ["c08.coerce", us, xs] =>
    match parseSeq us xs with
    | some seq =>
      match coerceIterable genSyms genNames tab seq with
      | some (ff, ys) => s!"ok\t{tuStr ff}\t{floatsStr ys}"
      | none => "ok\tnone\t"
    | none => "bad-op"
  | ["c08.seqadd", side, a, xs, us, ys] =>
    match parseSide side, parseTU a, parseFloats xs, parseSeq us ys with
    | some sd, some u, some xl, some seq => lvListOut (tempSeqBinary tempAdd sd genSyms genNames tab u xl seq)
    | _, _, _, _ => "bad-op"
  | ["c08.seqsub", side, a, xs, us, ys] =>
    match parseSide side, parseTU a, parseFloats xs, parseSeq us ys with
    | some sd, some u, some xl, some seq => lvListOut (tempSeqBinary tempSub sd genSyms genNames tab u xl seq)
    | _, _, _, _ => "bad-op"
  | ["c08.seqcmp", side, a, xs, us, ys] =>
    match parseSide side, parseTU a, parseFloats xs, parseSeq us ys with
    | some sd, some u, some xl, some seq =>
      match tempSeqBinary tempCmpArgs sd genSyms genNames tab u xl seq with
      | .ok l => s!"ok\t{floatsStr (l.map (·.1))}\t{floatsStr (l.map (·.2))}"
      | .error e => s!"err\t{e.str}"
    | _, _, _, _ => "bad-op"
  -- reductions with a start value carrying units: `np.add.reduce(a, initial=q)`, `np.subtract.reduce(a, initial=q)`
  | ["c08.redinit", op, a, xs, b, y] =>
    match (if op == "add" then some RedOp.add else if op == "sub" then some RedOp.sub else none),
        parseTU a, parseFloats xs, parseTU b, fb y with
    | some o, some u, some xl, some ui, some xi => lvOut (tempReduceInitial o genSyms genNames tab u xl ui xi)
    | _, _, _, _, _ => "bad-op"
  | ["c08.reduce", r, a] =>
    match parseRule r, parseTU a with
    | some rule, some u =>
      match reduceUnit rule tab u with
      | .ok (some l) => s!"ok\t{tuStr l}"
      | .ok none => "ok\tnone"
      | .error e => s!"err\t{e.str}"
    | _, _ => "bad-op"
  | ["c08.diff", a, x, y] =>
    match parseTU a, fb x, fb y with
    | some u, some xa, some xb => lvOut (tempDiff tab u xa xb)
    | _, _, _ => "bad-op"
  | ["c08.conv", a, b, x] =>
    match parseTU a, parseTU b, fb x with
    | some u, some v, some x0 =>
      let f := tempConvFactor genSyms genNames tab u v
      let o := match f.2 with | some o => bitsStr o | none => "none"
      s!"ok\t{bitsStr f.1}\t{o}\t{bitsStr (applyTempFactor f x0)}"
    | _, _, _ => "bad-op"
  | ["c08.mul", a, b] =>
    match parseOpnd a, parseOpnd b with
    | some p, some q => unitVOut (tempMul tab p q)
    | _, _ => "bad-op"
  | ["c08.div", a, b] =>
    match parseOpnd a, parseOpnd b with
    | some p, some q => unitVOut (tempDivide tab p q)
    | _, _ => "bad-op"
  | ["c08.floordiv", a, b, y] =>
    match parseOpnd a, parseOpnd b, fb y with
    | some p, some q, some x1 =>
      match tempFloorDivide tab p q with
      | .ok (u, c) => s!"ok\t{bitsStr u.scale}\t{bitsStr u.offset}\t{u.dim.str}\t{bitsStr (applyC c x1)}"
      | .error e => s!"err\t{e.str}"
    | _, _, _ => "bad-op"
  | ["c08.unary", op, p, a] =>
    match parseUnOp op p, parseTU a with
    | some o, some u => unitVOut (tempUnary tab o u)
    | _, _ => "bad-op"
  -- dumps of the regenerated tables (the translator is checked against the live objects)
  | ["c08.row", b] =>
    match TBase.ofName (Name.ofString b) with
    | some base =>
      let r := tab base
      s!"ok\t{bitsStr r.scale}\t{bitsStr r.offset}\t{if r.prefixable then 1 else 0}"
    | none => "none"
  | ["c08.prefix", p] =>
    match genPfx Float (Name.ofString p) with
    | some pf => s!"ok\t{bitsStr pf.val}"
    | none => "none"
  | ["c08.unit", a] =>
    match parseTU a with
    | some u =>
      s!"ok\t{bitsStr (u.scale tab)}\t{bitsStr (u.offset tab)}\t{Name.toString u.repr}\t{Name.toString u.str}\t{if splitsPrefix genSyms genNames u.str then 1 else 0}"
    | none => "none"
  | ["c08.rule", uf] => s!"ok\t{genRule uf}"
  | _ => "bad-op"

def opsC08 : Handler := fun st fields =>
  match stepC08 fields with
  | "bad-op" => none
  | r => some (st, r)

end Unyt
