/-
  UnytModel.Ops.C11 — opcodes of the C11 model (prefix `c11.`).

  Wire formats
    unit    :=  <scale bits> <offset bits> <dim> <coeff bits> <factors> <canon 0|1>
    reg     :=  <extra rows> <removed keys> <noncanon keys> <usys>
                extra   = `name&scalebits&offsetbits&dim&0|1` joined by `|` — rows that differ from / are
                          absent in the default table;  removed = default keys that are absent (`,`);
                          noncanon = keys whose dimension object is not the singleton (`,`; `*` = all)
    obj     :=  <dtype> <isQuantity 0|1> <vals: bits joined by ,> unit reg          (13 fields)
    expr    :=  `coeffbits@sym:p/q;…`
    op      :=  unary <f> | binaryQ <f> <expr> <vbits> | binarySelf <f> | mulUnit <expr> | powUnit <p/q>
                | inBase <sys|-> | toUnit <expr>

  c11.routes                      → ok <route>=<18 flags 0/1> …          (the regenerated table, for the dump check)
  c11.restore <route> obj         → ok obj | err <Name>                  (`Persist.restore` with the route's regenerated cfg)
  c11.guard   <route> obj         → ok 0|1                               (`Persist.restoreGuard`)
  c11.follow  obj op              → ok <vals> <unit|none> | err <Name>   (`Persist.follow`)
  c11.prog    obj <n> op…  op     → same, `Persist.runProg` (n object-returning steps, then the last op)
  c11.origins                     → ok <origin>/<route>=<18 flags> …     (the regenerated per-origin table)
  c11.restoreAt <origin> <route> obj → ok obj | err <Name> | err no-row  (`Persist.restoreAt` over base rows + per-origin rows)
  c11.guardAt   <origin> <route> obj → ok 0|1                            (`Persist.guardAt`)
  c11.chain <origin> obj <n> (<rows> <noncanon keys> <route>)×n          (`Persist.restoreChain`: add rows, persist, load, …)
                                  → ok <final origin> <guard 0|1> obj | err <Name> | err no-row
-/
import UnytModel.DriverBase
import UnytModel.SystemTables
import UnytModel.Persist
import UnytModel.Generated.PersistRoutes
import UnytModel.PersistChain
import UnytModel.Generated.PersistOrigins

namespace Unyt
open Unyt.Persist

namespace C11Wire

def flagsStr (c : RouteCfg) : String :=
  let b (x : Bool) := if x then "1" else "0"
  String.join [b c.keepsValues, b c.keepsDtype, b c.keepsClass, b c.unitSame, b c.unitByDisplayStr,
    b c.unitDataCarried, b c.unitCanon.onCanon, b c.unitCanon.onNon, b c.regSame, b c.keepsAdded,
    b c.keepsModifiedDefault, b c.keepsRemoved, b c.userRowCanon.onCanon, b c.userRowCanon.onNon,
    b c.dfltRowCanon.onCanon, b c.dfltRowCanon.onNon, b c.keepsUnitSystem, b c.keepsFlagOnlyDefault]

def parseExpr (s : String) : Option (UExpr Float) :=
  match s.splitOn "@" with
  | [c, f] => do
    let c ← fb c
    let f ← Factors.parse f
    some ⟨c, f⟩
  | _ => none

def parseRows (s : String) : Option (Lut Float) :=
  if s.isEmpty then some [] else
  (s.splitOn "|").mapM fun item =>
    match item.splitOn "&" with
    | [n, sc, off, d, p] => do
      let sc ← fb sc
      let off ← fb off
      let d ← Dim.parse d
      let p ← parseBool p
      some (n, { scale := sc, dim := d, offset := off, prefixable := p })
    | _ => none

def keys (s : String) : List String := if s.isEmpty then [] else s.splitOn ","

/-- the registry table: the default rows (minus `removed`, with overrides in place), then the rows
    that are not default keys -/
def buildRows (dflt : Lut Float) (extra : Lut Float) (removed : List String) (non : String) : PLut Float :=
  let isNon (k : String) : Bool := non == "*" || (keys non).contains k
  let base : PLut Float := (dflt.filter fun p => !removed.contains p.1).map fun p =>
    match extra.find? p.1 with
    | some e => (p.1, ⟨e, !isNon p.1⟩)
    | none => (p.1, ⟨p.2, !isNon p.1⟩)
  let added : PLut Float := (extra.filter fun p => !(dflt.contains p.1)).map fun p => (p.1, ⟨p.2, !isNon p.1⟩)
  base ++ added

def entryEq (a b : Entry Float) : Bool :=
  a.scale.toBits == b.scale.toBits && a.offset.toBits == b.offset.toBits && a.dim == b.dim
    && a.prefixable == b.prefixable

def rowStr (k : String) (e : Entry Float) : String :=
  s!"{k}&{bitsStr e.scale}&{bitsStr e.offset}&{e.dim.str}&{if e.prefixable then 1 else 0}"

def regStr (dflt : Lut Float) (R : PReg Float) : String :=
  let extra := R.rows.filter fun p =>
    match dflt.find? p.1 with
    | some d => !(entryEq d p.2.e)
    | none => true
  let removed := (dflt.filter fun p => !(R.rows.hasKey p.1)).map (·.1)
  let non := (R.rows.filter fun p => !p.2.canon).map (·.1)
  let nonS := if !R.rows.isEmpty && non.length == R.rows.length then "*" else ",".intercalate non
  "\t".intercalate ["|".intercalate (extra.map fun p => rowStr p.1 p.2.e), ",".intercalate removed, nonS, R.usys]

def unitStr (u : UnitV Float) : String :=
  s!"{bitsStr u.scale}\t{bitsStr u.offset}\t{u.dim.str}\t{bitsStr u.expr.coeff}\t{Factors.str (UExpr.normF u.expr.factors)}\t{if u.canon then 1 else 0}"

def valsStr (v : List Float) : String := ",".intercalate (v.map bitsStr)

def parseVals (s : String) : Option (List Float) :=
  if s.isEmpty then some [] else (s.splitOn ",").mapM fb

def objStr (dflt : Lut Float) (x : PObj Float) : String :=
  s!"{x.dtype}\t{if x.isQuantity then 1 else 0}\t{valsStr x.vals}\t{unitStr x.unit}\t{regStr dflt x.reg}"

abbrev P (α : Type) := List String → Option (α × List String)

def pObj (dflt : Lut Float) : P (PObj Float)
  | dt :: q :: vals :: sc :: off :: dim :: co :: fac :: cn :: extra :: removed :: non :: usys :: rest => do
    let q ← parseBool q
    let vals ← parseVals vals
    let u ← parseUnitV sc off dim co fac
    let cn ← parseBool cn
    let extra ← parseRows extra
    some ({ vals := vals, dtype := dt, isQuantity := q, unit := { u with canon := cn },
            reg := ⟨buildRows dflt extra (keys removed) non, usys⟩ }, rest)
  | _ => none

def pOp : P (FollowOp Float)
  | "unary" :: f :: rest => some (.unary f, rest)
  | "binaryQ" :: f :: e :: v :: rest => do
    let e ← parseExpr e
    let v ← fb v
    some (.binaryQ f e v, rest)
  | "binarySelf" :: f :: rest => some (.binarySelf f, rest)
  | "mulUnit" :: e :: rest => (parseExpr e).map fun e => (.mulUnit e, rest)
  | "powUnit" :: p :: rest => (parseRat p).map fun p => (.powUnit p, rest)
  | "inBase" :: s :: rest => some (.inBase (if s == "-" then none else some s), rest)
  | "toUnit" :: e :: rest => (parseExpr e).map fun e => (.toUnit e, rest)
  | _ => none

def pOps : Nat → List String → Option (List (FollowOp Float) × List String)
  | 0, rest => some ([], rest)
  | n + 1, rest =>
    match pOp rest with
    | some (o, rest') => (pOps n rest').map fun r => (o :: r.1, r.2)
    | none => none

/-- the numeric kernels the battery uses (the model is parametric in them) -/
def kern (f : String) (x : Float) : Float :=
  match f with
  | "sin" => Float.sin x | "cos" => Float.cos x | "tan" => Float.tan x
  | "arcsin" => Float.asin x | "arccos" => Float.acos x | "arctan" => Float.atan x
  | "sinh" => Float.sinh x | "cosh" => Float.cosh x | "tanh" => Float.tanh x
  | "sqrt" => Float.sqrt x | "negative" => -x | "absolute" => Float.abs x
  | "exp" => Float.exp x | "log" => Float.log x
  | _ => x

def fctx (st : DriverState) : FCtx Float :=
  { T := Ufunc.Tables.generated, pre := st.pre, ueq := UnitV.eqFloat, simp := fun u => (1, u),
    em := defaultEm Float, systems := builtinSystems Float, kern := kern }

/-- the table the chain model runs with: the base rows (origin `built`) and the per-origin rows -/
def originTable : OriginTable := OriginTable.ofRoutes Generated.persistRoutes ++ Generated.persistOrigins

def parseOrigin (s : String) : Option Origin :=
  if s == "built" then some .built else (Route.ofName s).map .via

def pSteps : Nat → List String → Option (List (Step Float) × List String)
  | 0, rest => some ([], rest)
  | n + 1, rows :: non :: route :: rest => do
    let rows ← parseRows rows
    let r ← Route.ofName route
    let tail ← pSteps n rest
    let isNon (k : String) : Bool := non == "*" || (keys non).contains k
    some (⟨rows.map fun p => (p.1, ⟨p.2, !isNon p.1⟩), r⟩ :: tail.1, tail.2)
  | _, _ => none

def resStr (r : Except Err (Res Float)) : String :=
  match r with
  | .error e => s!"err\t{e.str}"
  | .ok r =>
    match r.unit with
    | some u => s!"ok\t{valsStr r.vals}\t{unitStr u}"
    | none => s!"ok\t{valsStr r.vals}\tnone"

end C11Wire

open C11Wire in
def opsC11 : Handler := fun st fields =>
  let dflt := st.luts[0]!
  match fields with
  | ["c11.routes"] =>
    some (st, "ok\t" ++ "\t".intercalate (Generated.persistRoutes.map fun p => s!"{p.1.name}={flagsStr p.2}")
      ++ s!"\tprotocolsAgree={if Generated.pickleProtocolsAgree then 1 else 0}"
      ++ s!"\tlowRefusedBySympy={if Generated.pickleLowProtocolsRefusedBySympy then 1 else 0}")
  | "c11.restore" :: route :: rest =>
    match Route.ofName route, pObj dflt rest with
    | some r, some (x, []) =>
      match Generated.persistRoutes.get r with
      | none => some (st, "err\tno-such-route")
      | some cfg =>
        match restore cfg st.pre dflt x with
        | .ok y => some (st, "ok\t" ++ objStr dflt y)
        | .error e => some (st, s!"err\t{e.str}")
    | _, _ => none
  | "c11.guard" :: route :: rest =>
    match Route.ofName route, pObj dflt rest with
    | some r, some (x, []) =>
      match Generated.persistRoutes.get r with
      | none => some (st, "err\tno-such-route")
      | some cfg => some (st, s!"ok\t{if restoreGuard EqTests.float cfg st.pre dflt x then 1 else 0}")
    | _, _ => none
  | ["c11.origins"] =>
    some (st, "ok\t" ++ "\t".intercalate (Generated.persistOrigins.map fun p => s!"{p.1.1.name}/{p.1.2.name}={flagsStr p.2}"))
  | "c11.restoreAt" :: origin :: route :: rest =>
    match parseOrigin origin, Route.ofName route, pObj dflt rest with
    | some o, some r, some (x, []) =>
      match restoreAt originTable st.pre dflt o r x with
      | none => some (st, "err\tno-row")
      | some (.ok y) => some (st, "ok\t" ++ objStr dflt y)
      | some (.error e) => some (st, s!"err\t{e.str}")
    | _, _, _ => none
  | "c11.guardAt" :: origin :: route :: rest =>
    match parseOrigin origin, Route.ofName route, pObj dflt rest with
    | some o, some r, some (x, []) =>
      some (st, s!"ok\t{if guardAt EqTests.float originTable st.pre dflt o r x then 1 else 0}")
    | _, _, _ => none
  | "c11.chain" :: origin :: rest =>
    match parseOrigin origin, pObj dflt rest with
    | some o, some (x, n :: rest') =>
      match n.toNat? with
      | some n =>
        match pSteps n rest' with
        | some (steps, []) =>
          match restoreChain originTable st.pre dflt steps o x with
          | none => some (st, "err\tno-row")
          | some (.error e) => some (st, s!"err\t{e.str}")
          | some (.ok (o', y)) =>
            some (st, s!"ok\t{o'.name}\t{if chainGuard EqTests.float originTable st.pre dflt steps o x then 1 else 0}\t" ++ objStr dflt y)
        | _ => none
      | none => none
    | _, _ => none
  | "c11.follow" :: rest =>
    match pObj dflt rest with
    | some (x, rest') =>
      match pOp rest' with
      | some (op, []) => some (st, resStr (follow (fctx st) op x))
      | _ => none
    | none => none
  | "c11.prog" :: rest =>
    match pObj dflt rest with
    | some (x, n :: rest') =>
      match n.toNat? with
      | some n =>
        match pOps n rest' with
        | some (ops, rest'') =>
          match pOp rest'' with
          | some (last, []) => some (st, resStr (runProg (fctx st) ops last x))
          | _ => none
        | none => none
      | none => none
    | _ => none
  | _ => none

end Unyt
