/-
  UnytModel.Ops.C11 — opcodes of the C11 model (prefix `c11.`).
-/
import UnytModel.DriverBase

namespace Unyt

def opsC11 : Handler := fun _st fields =>
  match fields with
  | _ => none

end Unyt
