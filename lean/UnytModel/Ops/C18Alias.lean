/-
  UnytModel.Ops.C18Alias — opcodes of the may-alias model of unyt/_array_functions.py (prefix `c18.af.`).

  c18.af.params  <routine>            → ok <p1,p2,…> | none
  c18.af.written <routine>            → ok <parameters whose buffer may be written, `,`-joined> | none
  c18.af.taint   <routine> <param>    → ok <names that may share the parameter's buffer> <in-place statements reaching it>
  c18.af.run     <routine> <param> <i:pick,i:pick,…>   → ok <number of writes the execution performed on the parameter's buffer>
  c18.af.nroutines                    → ok <n>
  c18.am.<same>                       the same opcodes over the table of unyt/array.py (routine = `unyt_array.in_units` ...)
-/
import UnytModel.DriverBase
import UnytModel.AliasFlow
import UnytModel.Generated.C18Alias
import UnytModel.Generated.C18AliasArray

namespace Unyt
open Unyt.AliasFlow

def stepAliasTable (t : Table) (fields : List String) : Option String :=
  match fields with
  | ["c18.af.nroutines"] => some s!"ok\t{t.length}"
  | ["c18.af.params", f] =>
    match t.find? f with
    | some r => some ("ok\t" ++ ",".intercalate r.params)
    | none => some "none"
  | ["c18.af.written", f] =>
    match writtenParams t f with
    | some ps => some ("ok\t" ++ ",".intercalate ps)
    | none => some "none"
  | ["c18.af.taint", f, p] =>
    match progOf t f with
    | some (_, prog) => some ("ok\t" ++ ",".intercalate (taint prog p) ++ "\t" ++ ",".intercalate (writesTo prog p))
    | none => some "none"
  | ["c18.af.run", f, p, tr] =>
    match progOf t f with
    | some (ps, prog) =>
      match idxOf? ps p with
      | some k =>
        let trace := (tr.splitOn ",").filterMap fun e =>
          match e.splitOn ":" with
          | [a, b] => match a.toNat?, b.toNat? with
            | some i, some j => some (i, j)
            | _, _ => none
          | _ => none
        some s!"ok\t{(run prog trace (init ps (fun _ => 0))).heap k}"
      | none => some "none"
    | none => some "none"
  | _ => none

/-- `c18.af.*`: unyt/_array_functions.py; `c18.am.*` (same opcodes): unyt/array.py (methods as `Class.method`) -/
def opsC18Alias : Handler := fun st fields =>
  match fields with
  | op :: rest =>
    if op.startsWith "c18.af." then (stepAliasTable Generated.C18Alias.table fields).map fun s => (st, s)
    else if op.startsWith "c18.am." then
      (stepAliasTable Generated.C18AliasArray.table (("c18.af." ++ (op.drop 7).toString) :: rest)).map fun s => (st, s)
    else none
  | _ => none

end Unyt
