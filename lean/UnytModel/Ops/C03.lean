/-
  UnytModel.Ops.C03 — opcodes of the C03 model (prefix `c03.`): conversion histories.

  `c03.hist  <x bits> <coeff bits> <factors>  op…` where an op is one of
    `C <coeff> <factors>`                       obj.convert_to_units(target)
    `P <coeff> <factors>`                       obj.to_value(target)
    `T <x> <coeff> <factors> <coeff> <factors>` unyt_quantity(x, u).to_value(target)
    `I <x> <coeff> <factors> <coeff> <factors>` t = unyt_array(x, u); t.convert_to_units(target)
    `PB <system>`                               obj.in_base(system)
    `TB <x> <coeff> <factors> <system>`         unyt_quantity(x, u).in_base(system)
    `IB <x> <coeff> <factors> <system>`         t = unyt_array(x, u); t.convert_to_base(system)
  reply: `ok`, one field per op (`<bits>` or `err:<Class>`), then the final buffer value.

  `c03.routes <x bits> <coeff> <factors> <coeff> <factors>`: `x [A]` to `B` on the copying route
  (`in_units`, EM branch included) and on the in-place route (`convert_to_units`);
  reply `ok <in_units> <convert_to_units>`.

  `c03.base <system name> <x bits> <coeff> <factors>`: `x [A]` into the base units of a built-in
  unit system on the three routes `in_base`, `convert_to_base`, `to(get_base_equivalent)`;
  reply `ok <in_base> <convert_to_base> <to(get_base_equivalent)>`.
-/
import UnytModel.DriverBase
import UnytModel.ConvHistory
import UnytModel.ConvRoutes

namespace Unyt
namespace C03Wire

/-- `Unit(expr, registry=default)`; the table is threaded because look-ups write derived
    prefixed entries back -/
def unitOf (pre : Prefixes Float) (t : Lut Float) (c f : String) : Option (UnitV Float × Lut Float) :=
  match fb c, Factors.parse f with
  | some c, some f =>
    match UnitV.ofExpr pre t ⟨c, f⟩ with
    | .ok r => some r
    | .error _ => none
  | _, _ => none

/-- parse the op fields, threading the table -/
def parseOps (pre : Prefixes Float) : Nat → Lut Float → List String → Option (List (HOp Float) × Lut Float)
  | 0, _, _ => none
  | _, t, [] => some ([], t)
  | n + 1, t, "C" :: c :: f :: rest => do
    let (u, t1) ← unitOf pre t c f
    let (ops, t2) ← parseOps pre n t1 rest
    some (.convert u :: ops, t2)
  | n + 1, t, "P" :: c :: f :: rest => do
    let (u, t1) ← unitOf pre t c f
    let (ops, t2) ← parseOps pre n t1 rest
    some (.peek u :: ops, t2)
  | n + 1, t, "T" :: x :: cu :: fu :: c :: f :: rest => do
    let x ← fb x
    let (u, t1) ← unitOf pre t cu fu
    let (tg, t2) ← unitOf pre t1 c f
    let (ops, t3) ← parseOps pre n t2 rest
    some (.temp x u tg :: ops, t3)
  | n + 1, t, "I" :: x :: cu :: fu :: c :: f :: rest => do
    let x ← fb x
    let (u, t1) ← unitOf pre t cu fu
    let (tg, t2) ← unitOf pre t1 c f
    let (ops, t3) ← parseOps pre n t2 rest
    some (.tempConvert x u tg :: ops, t3)
  | n + 1, t, "PB" :: sys :: rest => do
    let S ← findSystem Float sys
    let (ops, t2) ← parseOps pre n t rest
    some (.peekBase S :: ops, t2)
  | n + 1, t, "TB" :: x :: cu :: fu :: sys :: rest => do
    let x ← fb x
    let (u, t1) ← unitOf pre t cu fu
    let S ← findSystem Float sys
    let (ops, t2) ← parseOps pre n t1 rest
    some (.tempBase S x u :: ops, t2)
  | n + 1, t, "IB" :: x :: cu :: fu :: sys :: rest => do
    let x ← fb x
    let (u, t1) ← unitOf pre t cu fu
    let S ← findSystem Float sys
    let (ops, t2) ← parseOps pre n t1 rest
    some (.tempConvertBase S x u :: ops, t2)
  | _, _, _ => none

def outStr : Except Err Float → String
  | .ok v => bitsStr v
  | .error e => s!"err:{e.str}"

end C03Wire

open C03Wire in
def opsC03 : Handler := fun st fields =>
  match fields with
  | "c03.hist" :: x :: c :: f :: rest =>
    match fb x, unitOf st.pre (st.luts[0]!) c f with
    | some x, some (u, t1) =>
      match parseOps st.pre (rest.length + 1) t1 rest with
      | some (ops, t2) =>
        let r := runHist st.pre t2 (defaultEm Float) (x, u) ops
        some (st, "ok\t" ++ "\t".intercalate (r.2.map outStr) ++ s!"\t{bitsStr r.1.1}")
      | none => some (st, "err\tparse")
    | _, _ => some (st, "err\tparse")
  | ["c03.routes", x, cA, fA, cB, fB] =>
    match fb x, unitOf st.pre (st.luts[0]!) cA fA with
    | some x, some (uA, t1) =>
      match unitOf st.pre t1 cB fB with
      | some (uB, t2) =>
        let T : EmTable Float := defaultEm Float
        let a := (inUnitsEm st.pre t2 T uA x uB).map (·.1)
        let b := (convertToUnitsEm st.pre t2 T (x, uA) uB).map (·.1)
        some (st, s!"ok\t{outStr a}\t{outStr b}")
      | none => some (st, "err\tparse")
    | _, _ => some (st, "err\tparse")
  | ["c03.base", sys, x, cA, fA] =>
    match fb x, unitOf st.pre (st.luts[0]!) cA fA, findSystem Float sys with
    | some x, some (uA, t1), some S =>
      let T : EmTable Float := defaultEm Float
      let a := (inBase st.pre t1 T S uA x).map (·.1)
      let b := (convertToBase st.pre t1 T S (x, uA)).map (·.1)
      let c := match getBaseEquivalent st.pre t1 T S uA with
        | .ok v => (inUnitsEm st.pre t1 T uA x v).map (·.1)
        | .error e => .error e
      some (st, s!"ok\t{outStr a}\t{outStr b}\t{outStr c}")
    | _, _, _ => some (st, "err\tparse")
  | _ => none

end Unyt
