/-
  UnytModel.Ops.C19 — opcodes of the C19 model (prefix `c19.`).
-/
import UnytModel.DriverBase

namespace Unyt

def opsC19 : Handler := fun _st fields =>
  match fields with
  | _ => none

end Unyt
