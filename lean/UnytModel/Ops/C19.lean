/-
  UnytModel.Ops.C19 — opcodes of the C19 model (prefix `c19.`), executing `UnytModel/Testing.lean`
  at `Float`.

  Wire formats (fields of a line are tab-separated; inside a field):
    argument   `B~<0|1 scalar>~<bits bits …>`                       bare number(s)
               `Q~<0|1 scalar>~<bits …>~<scale>~<offset>~<dim>`     unyt_array / unyt_quantity
               `L~<bits;scale;offset;dim>|<…>`                      list of quantities
    tolerance  `b~<bits>`  |  `q~<bits>~<scale>~<offset>~<dim>`
    value seen by a decorator: `none` (no units) or a dimension string
-/
import UnytModel.DriverBase
import UnytModel.Testing
import UnytModel.CompHelperLive

namespace Unyt
open Unyt.Testing

namespace C19Wire

def parseVals (s : String) : Option (List Float) :=
  if s == "" then some [] else (s.splitOn " ").mapM fb

def parseTUnit (sc off dim : String) : Option (TUnit Float) := do
  let s ← fb sc
  let o ← fb off
  let d ← Dim.parse dim
  some ⟨s, o, d⟩

def parseArg (s : String) : Option (ArgIn Float) :=
  match s.splitOn "~" with
  | ["B", sc, vals] => do
    let b ← parseBool sc
    let v ← parseVals vals
    some (.bare v b)
  | ["Q", sc, vals, scale, off, dim] => do
    let b ← parseBool sc
    let v ← parseVals vals
    let u ← parseTUnit scale off dim
    some (.qty ⟨v, b, u⟩)
  | ["L", items] =>
    if items == "" then some (.qlist []) else do
      let its ← (items.splitOn "|").mapM fun it =>
        match it.splitOn ";" with
        | [v, scale, off, dim] => do
          let x ← fb v
          let u ← parseTUnit scale off dim
          some (x, u)
        | _ => none
      some (.qlist its)
  | _ => none

def parseTol (s : String) : Option (Tol Float) :=
  match s.splitOn "~" with
  | ["b", v] => (fb v).map .bare
  | ["q", v, scale, off, dim] => do
    let x ← fb v
    let u ← parseTUnit scale off dim
    some (.qty x u)
  | _ => none

def boolStr (b : Bool) : String := if b then "1" else "0"

def verdictOut : Except Err Bool → String
  | .ok b => s!"ok\t{boolStr b}"
  | .error e => s!"err\t{e.str}"

def assertOut : AssertOutcome → String
  | .pass => "pass"
  | .assertionError => "AssertionError"
  | .raised e => s!"err\t{e.str}"

def aeuOut : AEUOutcome → String
  | .pass => "pass"
  | .valuesDiffer => "valuesDiffer"
  | .unitsDiffer => "unitsDiffer"
  | .refused => "refused"

/-- `none` or a dimension string -/
def parseOptDim (s : String) : Option (Option Dim) :=
  if s == "none" then some none else (Dim.parse s).map some

def mkVal (i : Nat) (d : Option Dim) : PyVal := ⟨i, d.map fun d => ⟨1, 0, d⟩⟩

def parseNamedDims (s : String) : Option (List (String × Dim)) :=
  if s == "" then some [] else (s.splitOn ";").mapM fun it =>
    match it.splitOn "=" with
    | [n, d] => (Dim.parse d).map fun d => (n, d)
    | _ => none

def parseNamedVals (s : String) (start : Nat) : Option (List (String × PyVal)) :=
  if s == "" then some [] else do
    let xs ← (s.splitOn ";").mapM fun it =>
      match it.splitOn "=" with
      | [n, d] => (parseOptDim d).map fun d => (n, d)
      | _ => none
    some (xs.zipIdx.map fun (p, i) => (p.1, mkVal (start + i) p.2))

def parseValList (s : String) : Option (List PyVal) :=
  if s == "" then some [] else do
    let xs ← (s.splitOn ";").mapM parseOptDim
    some (xs.zipIdx.map fun (d, i) => mkVal i d)

def parseDimList (s : String) : Option (List Dim) :=
  if s == "" then some [] else (s.splitOn ";").mapM Dim.parse

end C19Wire

open C19Wire in
def opsC19 : Handler := fun st fields =>
  match fields with
  | ["c19.flag"] => some (st, s!"ok\t{boolStr Generated.bareAtolInDesiredUnit}")
  | ["c19.allclose_units", a, d, r, t] =>
    match parseArg a, parseArg d, parseTol r, parseTol t with
    | some a, some d, some r, some t => some (st, verdictOut (allcloseUnits a d r t))
    | _, _, _, _ => some (st, "bad-args")
  | ["c19.allclose_units_with", f, a, d, r, t] =>
    match parseBool f, parseArg a, parseArg d, parseTol r, parseTol t with
    | some f, some a, some d, some r, some t => some (st, verdictOut (allcloseUnitsWith f a d r t))
    | _, _, _, _, _ => some (st, "bad-args")
  | ["c19.assert_allclose_units", a, d, r, t] =>
    match parseArg a, parseArg d, parseTol r, parseTol t with
    | some a, some d, some r, some t => some (st, assertOut (assertAllcloseUnits a d r t))
    | _, _, _, _ => some (st, "bad-args")
  | ["c19.isclose", a, b, rt, atl] =>
    match parseArg a, parseArg b, fb rt, fb atl with
    | some a, some b, some rt, some atl =>
      match iscloseHandlerLive a b rt atl with
      | .ok bs => some (st, "ok\t" ++ String.join (bs.map boolStr))
      | .error e => some (st, s!"err\t{e.str}")
    | _, _, _, _ => some (st, "bad-args")
  | ["c19.allclose", a, b, rt, atl] =>
    match parseArg a, parseArg b, fb rt, fb atl with
    | some a, some b, some rt, some atl => some (st, verdictOut (allcloseHandlerLive a b rt atl))
    | _, _, _, _ => some (st, "bad-args")
  | ["c19.array_equal", a, b] =>
    match parseArg a, parseArg b with
    | some a, some b => some (st, s!"ok\t{boolStr (arrayEqualHandler a b)}")
    | _, _ => some (st, "bad-args")
  | ["c19.array_equiv", a, b] =>
    match parseArg a, parseArg b with
    | some a, some b => some (st, s!"ok\t{boolStr (arrayEquivHandler a b)}")
    | _, _ => some (st, "bad-args")
  | ["c19.assert_array_equal_units", a, b] =>
    match parseArg a, parseArg b with
    | some a, some b => some (st, aeuOut (assertArrayEqualUnits a b))
    | _, _ => some (st, "bad-args")
  | ["c19.hasdim", q, d] =>
    match parseOptDim q, Dim.parse d with
    | some q, some d => some (st, s!"ok\t{boolStr (hasDimensions q d)}")
    | _, _ => some (st, "bad-args")
  | ["c19.accepts", au, vn, pos, kw] =>
    match parseNamedDims au, parseValList pos with
    | some au, some pos =>
      match parseNamedVals kw pos.length with
      | some kw =>
        let varnames := if vn == "" then [] else vn.splitOn ","
        let r := accepts au varnames (fun _ => (.ok () : Except Err Unit)) ⟨pos, kw⟩
        let o := match r.out with | .ok _ => "through" | .error e => e.str
        some (st, s!"called\t{boolStr r.called}\t{o}")
      | none => some (st, "bad-args")
    | _, _ => some (st, "bad-args")
  -- a history of calls on one `accepts`-decorated function: calls separated by `#`, each `pos@kw`
  | ["c19.accepts_seq", au, vn, calls] =>
    match parseNamedDims au with
    | some au =>
      let varnames := if vn == "" then [] else vn.splitOn ","
      let parsed : Option (List Call) := (calls.splitOn "#").mapM fun c =>
        match c.splitOn "@" with
        | [pos, kw] => do
          let pos ← parseValList pos
          let kw ← parseNamedVals kw pos.length
          some ⟨pos, kw⟩
        | _ => none
      match parsed with
      | some cs =>
        let rs := acceptsHistory au varnames (fun _ => (.ok () : Except Err Unit)) cs
        let outs := rs.map fun r => match r.out with | .ok _ => "through" | .error e => e.str
        some (st, "seq\t" ++ String.join (rs.map fun r => boolStr r.called) ++ "\t" ++ ",".intercalate outs)
      | none => some (st, "bad-args")
    | none => some (st, "bad-args")
  -- a history of calls on one `returns`-decorated function: results separated by `#`, each `S|T:vals`
  | ["c19.returns_seq", ds, results] =>
    match parseDimList ds with
    | some dims =>
      let parsed : Option (List PyResult) := (results.splitOn "#").mapM fun r =>
        match r.splitOn ":" with
        | ["S", v] => do
          let vs ← parseValList v
          match vs with | [x] => some (.single x) | _ => none
        | ["T", v] => (parseValList v).map .tuple
        | _ => none
      match parsed with
      | some rs =>
        -- the i-th call returns the i-th result: the call carries its index as a positional id
        let f : Call → Except Err PyResult := fun c =>
          match c.pos with
          | [v] => match rs[v.id]? with | some r => .ok r | none => .error .Other
          | _ => .error .Other
        let calls : List Call := (List.range rs.length).map fun i => ⟨[⟨i, none⟩], []⟩
        let out := returnsHistory dims f calls
        let outs := out.map fun r => match r.out with | .ok _ => "ok" | .error e => e.str
        some (st, "seq\t" ++ String.join (out.map fun r => boolStr r.called) ++ "\t" ++ ",".intercalate outs)
      | none => some (st, "bad-args")
    | none => some (st, "bad-args")
  | ["c19.returns", ds, ru, kind, vals] =>
    match parseDimList ds, (if ru == "-" then some none else (Dim.parse ru).map some), parseValList vals with
    | some ds, some ru, some vals =>
      match returnsDims ds ru with
      | .error e => some (st, s!"decorate-err\t{e.str}")
      | .ok dims =>
        let res : Option PyResult :=
          if kind == "S" then (match vals with | [v] => some (.single v) | _ => none)
          else if kind == "T" then some (.tuple vals) else none
        match res with
        | none => some (st, "bad-args")
        | some res =>
          let r := returns dims (fun _ => .ok res) ⟨[], []⟩
          match r.out with
          | .ok r' =>
            -- the ids show that the very same objects come back
            some (st, s!"ok\t{boolStr r.called}\t" ++ ";".intercalate (r'.asTuple.map fun v => toString v.id))
          | .error e => some (st, s!"err\t{boolStr r.called}\t{e.str}")
    | _, _, _ => some (st, "bad-args")
  | _ => none

end Unyt
