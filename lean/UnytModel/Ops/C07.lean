/-
  UnytModel.Ops.C07 — opcodes of the C07 model (prefix `c07.`).
-/
import UnytModel.DriverBase

namespace Unyt

def opsC07 : Handler := fun _st fields =>
  match fields with
  | _ => none

end Unyt
