/-
  UnytModel.Ops.C07 — opcodes of the C07 model (prefix `c07.`).
    c07.dump.counts                               → sizes of the regenerated tables
    c07.predict <func> <variant> <outMode> <operands> <flags> <ok|raise> <nleaves> <leaf sizes> <shapes> <scales> <reduced counts>
                                                  → the unit label `UR.Leaf.exponents/scale` gives every result
                                                    leaf of that call form for the concrete shapes and unit scales
                                                    (operands `p:g,…`; flags `n=v,…`; leaf sizes `n,n,…`;
                                                    shapes `p=2x3;q=4`; scales `g=<float bits>;…`)
    c07.defects <func>                            → defects of every regenerated row of the function
    c07.exclusions                                → the literal exclusion list
    c07.ref.lists                                 → the hand-written lists (dimension-preserving, unitless-result)
    c07.expected <func> <operands> <flags>        → the reference expectation for a call form
    c07.attach <func> <variant> <sig> …           → C06's `Np.run` with the unit rule filled in (label of leaf 0)
    c07.memo <func> <variant>                     → the regenerated memo configuration of the handler (`m,r,e,s`)
    c07.history <func> <variant> <groups> <expos> <init> <events>
                                                  → `LabelMemo.run` with the regenerated configuration of that row
                                                    (handler rows and memoised unit rules `unyt.array._x_unit rule`):
                                                    log2(base_value) of the label of every call of the history, and
                                                    `LabelMemo.missesOf` (number of cache misses)
                                                    (groups `0,1`; expos `2,1/2` per group; init `r.x=k;…`;
                                                    events `c:r:s` (call on symbol set s of registry r: symbol
                                                    3s+g for group g) | `m:r:s:k0,k1,k2` (re-scale set s of r))
-/
import UnytModel.DriverBase
import UnytModel.UnitRules
import UnytModel.UnitRulesCheck
import UnytModel.Generated.UnitRules
import UnytModel.Generated.Handlers
import UnytModel.Ref.C07Degrees
import UnytModel.Ref.C07Exclusions
import UnytModel.LabelMemo
import UnytModel.Generated.C07Memo
import UnytModel.Generated.C07RuleMemo

namespace Unyt
open Unyt.UR

def c07Pairs (s : String) (sep : String) : List (String × String) :=
  if s == "" then [] else
  (s.splitOn ",").filterMap fun item =>
    match item.splitOn sep with
    | [a, b] => some (a, b)
    | a :: rest => some (a, sep.intercalate rest)
    | _ => none

def c07Operands (s : String) : List (String × String) :=
  if s == "" then [] else
  (s.splitOn ",").filterMap fun item =>
    -- the group is what follows the LAST colon
    match (item.splitOn ":").reverse with
    | g :: rest@(_ :: _) => some (":".intercalate rest.reverse, g)
    | _ => none

def c07Shape (s : String) : Option Shape :=
  if s == "" then some [] else (s.splitOn "x").mapM (·.toNat?)

def c07Shapes (s : String) : List (String × Shape) :=
  if s == "" then [] else
  (s.splitOn ";").filterMap fun item =>
    match (item.splitOn "=").reverse with
    | sh :: rest@(_ :: _) => (c07Shape sh).map fun x => ("=".intercalate rest.reverse, x)
    | _ => none

def c07Scales (s : String) : List (String × Float) :=
  if s == "" then [] else
  (s.splitOn ";").filterMap fun item =>
    match item.splitOn "=" with
    | [g, b] => (fb b).map fun x => (g, x)
    | _ => none

def c07Counts (s : String) : List (String × Nat) :=
  if s == "" then [] else
  (s.splitOn ";").filterMap fun item =>
    match (item.splitOn "=").reverse with
    | k :: rest@(_ :: _) => k.toNat?.map fun n => ("=".intercalate rest.reverse, n)
    | _ => none

/-- `reduced` = the number of elements of an operand combined into each result element as MEASURED by the
    harness on the real kernel (the same call on an array of twos returns 2^k), when it measured one -/
def c07Env (shapes : List (String × Shape)) (ops : List (String × String)) (resultSize : Nat)
    (reduced : List (String × Nat) := []) : Env :=
  { shape := fun p => (shapes.find? (·.1 == p)).map (·.2)
    resultSize := resultSize
    reduced := fun p => (reduced.find? (·.1 == p)).map (·.2)
    nops := fun p => (ops.filter fun (n, _) => Ref.paramBase n == p).length }

def c07FlagsStr (fl : List (String × String)) : String := ",".intercalate (fl.map fun (n, v) => n ++ "=" ++ v)
def c07OpsStr (ops : List (String × String)) : String := ",".intercalate (ops.map fun (n, g) => n ++ ":" ++ g)

def c07LabelOut (u : String → Float) (env : Env) (lab : List (String × Expo)) : String :=
  match (lab.mapM fun (g, e) => (e.eval env).map fun q => (g, q)) with
  | some l =>
    let l' := l.filter (·.2 != 0)
    ";".intercalate (l'.map fun (g, q) => g ++ ":" ++ ratStr q) ++ "|" ++ bitsStr (labelScale u l')
  | none => "?"

def c07Rat (s : String) : Option Rat :=
  match s.splitOn "/" with
  | [a] => a.toInt?.map fun n => (n : Rat)
  | [a, b] => do
    let n ← a.toInt?
    let d ← b.toNat?
    if d == 0 then none else some ((n : Rat) / (d : Rat))
  | _ => none

def c07HistInit (s : String) : List ((Nat × Nat) × Int) :=
  if s == "" then [] else
  (s.splitOn ";").filterMap fun item =>
    match item.splitOn "=" with
    | [rx, k] => (match rx.splitOn "." with
      | [r, x] => do
        let r ← r.toNat?
        let x ← x.toNat?
        let k ← k.toInt?
        some ((r, x), k)
      | _ => none)
    | _ => none

def c07HistWorld (init : List ((Nat × Nat) × Int)) : LabelMemo.World :=
  fun r x => ((init.find? fun e => e.1 == (r, x)).map (·.2)).getD 0

def c07HistEvents (groups : List Nat) (expos : List Rat) (s : String) : Option (List LabelMemo.Ev) :=
  if s == "" then some [] else
  ((s.splitOn "|").mapM fun (item : String) =>
    match item.splitOn ":" with
    | ["c", r, x] => do
      let r ← r.toNat?
      let x ← x.toNat?
      some [LabelMemo.Ev.call (groups.map fun g => (r, 3 * x + g)) expos]
    | ["m", r, x, ks] => do
      let r ← r.toNat?
      let x ← x.toNat?
      let ks ← (ks.splitOn ",").mapM String.toInt?
      some ((List.range ks.length).zip ks |>.map fun (g, k) => LabelMemo.Ev.modify r (3 * x + g) k)
    | _ => none).map List.flatten

def opsC07 : Handler := fun st fields =>
  match fields with
  | ["c07.memo", f, v] =>
    match (Generated.memoRows ++ Generated.ruleMemoRows).find? fun r => r.func == f && r.variant == v with
    | some r =>
      let b : Bool → String := fun x => if x then "1" else "0"
      some (st, s!"ok\t{b r.cfg.memo},{b r.cfg.byReg},{b r.cfg.byExpr},{b r.cfg.byScale}\t{Generated.memoRows.length}\t{Generated.ruleMemoRows.length}")
    | none => some (st, s!"norow\t-\t{Generated.memoRows.length}\t{Generated.ruleMemoRows.length}")
  | ["c07.history", f, v, groupsS, exposS, initS, eventsS] =>
    match (Generated.memoRows ++ Generated.ruleMemoRows).find? fun r => r.func == f && r.variant == v with
    | none => some (st, "norow")
    | some row =>
      match (if groupsS == "" then some [] else (groupsS.splitOn ",").mapM String.toNat?),
            (if exposS == "" then some [] else (exposS.splitOn ",").mapM c07Rat) with
      | some groups, some expos =>
        (match c07HistEvents groups expos eventsS with
         | some evs =>
           let w := c07HistWorld (c07HistInit initS)
           let ans := LabelMemo.run row.cfg w [] evs
           some (st, "ok\t" ++ " ".intercalate (ans.map fun l => ratStr l.scale) ++ s!"\t{LabelMemo.missesOf row.cfg w evs}")
         | none => some (st, "bad-events"))
      | _, _ => some (st, "bad-args")
  | ["c07.dump.counts"] =>
    some (st, s!"ok\t{Generated.ruleRows.length}\t{Generated.staticExpos.length}\t{(Generated.ruleRows.map (·.func)).eraseDups.length}")
  | ["c07.predict", f, v, om, opsS, flagsS, outcome, nleaves, sizesS, shapesS, scalesS, reducedS] =>
    let raised := outcome != "ok"
    let n := nleaves.toNat?.getD 0
    let cands := Generated.ruleRows.filter fun r =>
        r.func == f && r.variant == v && r.outMode == om && c07OpsStr r.operands == opsS && c07FlagsStr r.flags == flagsS
    if cands.isEmpty then some (st, "norow") else
    match cands.find? fun r => r.raised == raised && (raised || r.leaves.length == n || (r.tailRepeats && n ≥ 2)) with
    | none => some (st, "other-outcome")
    | some row =>
      if row.raised then some (st, "ok\traised") else
      let shapes := c07Shapes shapesS
      let scales := c07Scales scalesS
      let u : String → Float := fun g => ((scales.find? (·.1 == g)).map (·.2)).getD 1.0
      let sizes := if sizesS == "" then [] else (sizesS.splitOn ",").map fun s => s.toNat?.getD 0
      let lvs := if row.tailRepeats then
          (match row.leaves with
           | [h, r] => h :: List.replicate (n - 1) r
           | l => l)
        else row.leaves
      let red := c07Counts reducedS
      let outs := (lvs.zip sizes).map fun (leaf, sz) =>
        let env := c07Env shapes (c07Operands opsS) sz red
        s!"{if leaf.carries then 1 else 0}|{c07LabelOut u env leaf.expo}"
      -- the hand-written reference evaluated in the same environment (numeric comparison with the library by
      -- the harness), and whether the environment meets the hypothesis of `C07_partial_all_shapes`
      let refs : String := match Ref.expected row.callForm with
        | .leaves specs =>
          if specs.length != lvs.length then "-" else
          " ".intercalate (((specs.zip lvs).zip sizes).map fun ((spec, leaf), sz) =>
            let env := c07Env shapes (c07Operands opsS) sz red
            match spec with
            | .unitless => "u|1"
            | .units l =>
              let items := row.groups.map fun g =>
                match expectedExpo row l g with
                | some e =>
                  let ok := envValidForB ((expoOf leaf.expo g).reducedParams ++ e.reducedParams) env
                  (match e.eval env with
                   | some q => (if q == 0 then "" else g ++ ":" ++ ratStr q, ok)
                   | none => (g ++ ":?", ok))
                | none => (g ++ ":roles", true)
              ";".intercalate ((items.map (·.1)).filter (· != "")) ++ "|" ++ (if items.all (·.2) then "1" else "0"))
        | _ => "-"
      let ol := match row.outLabel with
        | some lab => c07LabelOut u (c07Env shapes (c07Operands opsS) (sizes.headD 1)) lab
        | none => "-"
      some (st, s!"ok\tvalue\t{" ".intercalate outs}\t{ol}\t{refs}")
  | ["c07.defects", f] =>
    let ds := (Generated.ruleRows.filter (·.func == f)).flatMap fun r =>
      (rowDefects r).map fun d => r.variant ++ "|" ++ r.outMode ++ "|" ++ d
    some (st, "ok\t" ++ ";".intercalate ds)
  | ["c07.exclusions"] =>
    some (st, "ok\t" ++ ";".intercalate (Ref.exclC07.map fun (f, d) => f ++ "|" ++ d)
      ++ "\t" ++ ";".intercalate Ref.exclC07DimPreserving)
  | ["c07.ref.lists"] =>
    some (st, "ok\t" ++ ";".intercalate Ref.dimensionPreserving ++ "\t" ++ ";".intercalate Ref.unitlessResult
      ++ "\t" ++ ";".intercalate (Ref.dimensionPreserving.filterMap fun f => (Ref.dimOperand f).map fun p => f ++ "=" ++ p))
  | ["c07.expected", f, opsS, flagsS] =>
    let c : Ref.CallForm := ⟨f, c07Pairs flagsS "=", (c07Operands opsS).filter fun (_, g) => g != "d" && g != "out"⟩
    let specStr : Ref.LeafSpec → String := fun s => match s with
      | .unitless => "unitless"
      | .units l => "units(" ++ ",".intercalate (l.map fun (r, e) => r ++ "^" ++ e.str) ++ ")"
    let out := match Ref.expected c with
      | .missing => "missing"
      | .mustRefuse => "mustRefuse"
      | .allUnitless => "allUnitless"
      | .leaves l => "leaves:" ++ " ".intercalate (l.map specStr)
      | .headRest h r => "headRest:" ++ specStr h ++ " " ++ specStr r
    some (st, "ok\t" ++ out)
  -- C06's interpreter with C07's unit rule as its `unitRule` parameter
  | ["c07.attach", f, v, om, shapesS, sizeS] =>
    match Generated.ruleRows.filter (fun r => r.func == f && r.variant == v && r.outMode == om && !r.raised),
          Generated.traceRows.find? (fun r => r.func == f && r.variant == v && !r.raised && !r.calls.isEmpty) with
    | [rule], some fwd =>
      let env := c07Env (c07Shapes shapesS) rule.operands (sizeS.toNat?.getD 1)
      let args : Np.Args String := fwd.params.map fun (p, _) => (p, Np.PyVal.qty p "u")
      match runWithRule (fun g a => Np.renderCall g a) (fun p => Np.PyVal.qty ("?" ++ p) "u") (fun r => r) fwd rule env args with
      | .value u r => some (st, s!"ok\t{u}\t{r}")
      | .raised e => some (st, s!"ok\traised\t{e}")
      | .noKernel => some (st, "ok\tnokernel")
    | _ :: _ :: _, _ => some (st, "ambiguous")
    | _, _ => some (st, "norow")
  | _ => none

end Unyt
