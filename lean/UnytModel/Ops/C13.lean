/-
  UnytModel.Ops.C13 — opcodes of the C13 model (prefix `c13.`): the world of registries
  `RegWorld.runOp` run at `Float` on the regenerated default table, with the C12 configuration
  (`Generated.registryCfg`), the route shapes (`Generated.registryRoutes`) and the explicit-data flag
  (`Generated.worldCfg`) the translator read off the live code.

  Start-up world: table cell 0 = the module-level `default_unit_symbol_lut`, registry 0 = the
  default registry (its own copy of the table in cell 1, class `_NonModifiableUnitRegistry`).
-/
import UnytModel.DriverBase
import UnytModel.RegistryWorld
import UnytModel.Generated.RegistryC12Cfg
import UnytModel.Generated.RegistryRoutes
import UnytModel.RuleCache
import UnytModel.Generated.RuleCacheCfg

namespace Unyt
open RegC12 RegWorld

def startWorld (base : Lut Float) : World Float :=
  { luts := [base, base], caches := [{}], deriveds := [[]],
    regs := [{ lut := 1, cache := 0, derived := 0, frozen := true }] }

structure C13State where
  cfg : Cfg := Generated.registryCfg
  wc : WCfg := Generated.worldCfg
  pre : Prefixes Float := defaultPrefixes Float
  base : Lut Float := defaultLut Float
  world : World Float := startWorld (defaultLut Float)
  ptab : List (String × Except Err (PExpr Float)) := []
  /-- the table cells of the user dicts made by `c13.dict`, in creation order -/
  dictCells : Array Nat := #[]
  /-- the process-wide memo of the unit rules (`RuleCache`), one per rule name -/
  ruleCaches : List (String × RuleCache.Cache) := []

namespace C13State

def parse (st : C13State) (q : String) : Except Err (PExpr Float) :=
  match st.ptab.lookup q with
  | some r => r
  | none => .error .UnitParseError

def cellStr (e : Option (Entry Float)) : String :=
  match e with
  | none => "-"
  | some e => s!"{bitsStr e.scale},{bitsStr e.offset},{e.dim.str},{if e.prefixable then 1 else 0}"

/-- the rows of `t` that differ from the default table (sorted by key), `k=-` for a default key `t` lacks -/
def lutDigest (st : C13State) (t : Lut Float) : String :=
  let keys := (t.map (·.1) ++ st.base.map (·.1)).eraseDups
  let diff := keys.filterMap fun k =>
    let a := cellStr (t.find? k)
    let b := cellStr (st.base.find? k)
    if a == b then none else some (k, a)
  let sorted := diff.toArray.qsort (fun x y => x.1 < y.1) |>.toList
  ";".intercalate (sorted.map fun p => s!"{p.1}={p.2}")

def sortStrs (l : List String) : List String := l.toArray.qsort (· < ·) |>.toList

def outStr (st : C13State) : Out Float → String
  | .done => "done"
  | .err e => s!"err\t{e.str}"
  | .unit i d => s!"unit\t{i}\t{bitsStr d.scale}\t{bitsStr d.offset}\t{d.dim.str}"
  | .bool b => s!"bool\t{if b then 1 else 0}"
  | .entry e => s!"entry\t{bitsStr e.scale}\t{bitsStr e.offset}\t{e.dim.str}\t{if e.prefixable then 1 else 0}"
  | .sysId snap => s!"sysid\t{st.lutDigest snap}"

def woutStr (st : C13State) : WOut Float → String
  | .cell c => s!"cell\t{c}"
  | .regId r => s!"reg\t{r}"
  | .out o => st.outStr o
  | .err e => s!"err\t{e.str}"
  | .unitIn r => s!"unitin\t{r}"
  | .done => "done"

def run (st : C13State) (op : WOp Float) : C13State × String :=
  let (w, o) := runOp st.cfg st.wc st.pre st.parse st.world op
  let st' := { st with world := w }
  (st', st'.woutStr o)

/-- what registry `r` holds: addresses, class, unit system, table digest, cached strings, derived keys, memo -/
def dump (st : C13State) (r : Nat) : String :=
  match st.world.regs[r]? with
  | none => "none"
  | some ro =>
    let s := view st.world ro
    let ck := sortStrs (s.cache.map (·.1)).eraseDups
    s!"ok\t{ro.lut}\t{ro.cache}\t{ro.derived}\t{if ro.frozen then 1 else 0}\t{ro.usys}\t{st.lutDigest s.lut}\t{",".intercalate ck}\t{",".intercalate (sortStrs s.derived.eraseDups)}\t{if s.idMemo.isSome then 1 else 0}"

end C13State

def parseEntryC13 (sc dim off pf : String) : Option (Entry Float) :=
  match fb sc, Dim.parse dim, fb off, parseBool pf with
  | some s, some d, some o, some p => some ⟨s, d, o, p⟩
  | _, _, _, _ => none

def parseOpC13 : List String → Option (Op Float)
  | ["add", sym, sc, dim, off, pf] => (parseEntryC13 sc dim off pf).map fun e => .add sym e
  | ["addbad", sym] => some (.addInvalid sym)
  | ["modf", sym, v] => (fb v).map fun x => .modifyF sym x
  | ["modq", sym, v, dim, own] =>
    match fb v, Dim.parse dim, parseBool own with
    | some x, some d, some o => some (.modifyQ sym x d o)
    | _, _, _ => none
  | ["rm", sym] => some (.remove sym)
  | ["unit", q] => some (.unit q)
  | ["has", k] => some (.contains k)
  | ["get", k] => some (.getitem k)
  | ["sysid"] => some .sysId
  | _ => none

/-- rows `sym,scale,offset,dim,pf` separated by `|` (dimension vectors contain `,`, so fields use `~`) -/
def parseRowsC13 (s : String) : Option (Lut Float) :=
  if s == "" then some [] else
  (s.splitOn "|").mapM fun row =>
    match row.splitOn "~" with
    | [sym, sc, off, dim, pf] => (parseEntryC13 sc dim off pf).map fun e => (sym, e)
    | _ => none

def stepC13 (st : C13State) (fields : List String) : Option (C13State × String) :=
  match fields with
  | ["c13.reset"] => some ({ st with world := startWorld st.base, dictCells := #[], ruleCaches := [] }, "ok")
  -- a memoised unit rule called with two operands (class, registry): the registry of the answer
  | ["c13.rule", name, ka, ra, kb, rb] =>
    match ka.toNat?, ra.toNat?, kb.toNat?, rb.toNat? with
    | some ka, some ra, some kb, some rb =>
      let byReg := Generated.ruleCachesKeyed.all (·.2)
      let c := (st.ruleCaches.lookup name).getD []
      let (c', r) := RuleCache.call byReg (fun ks => ks.sum) c [⟨ka, ra⟩, ⟨kb, rb⟩]
      some ({ st with ruleCaches := (name, c') :: st.ruleCaches.filter (·.1 != name) }, s!"reg\t{r.reg}")
    | _, _, _, _ => some (st, "bad-op")
  | ["c13.cfg"] =>
    let b := fun (x : Bool) => if x then "1" else "0"
    some (st, s!"ok\t{b st.cfg.clearCache}\t{b st.cfg.purgeDerived}\t{b st.cfg.idSkipsDerived}\t{b st.cfg.memoResetLast}\t{b st.wc.cachesExplicit}")
  | ["c13.parse", q, "atom", s] => some ({ st with ptab := (q, .ok (.atom s)) :: st.ptab }, "ok")
  | ["c13.parse", q, "prod", co, fac] =>
    match fb co, Factors.parse fac with
    | some c, some f => some ({ st with ptab := (q, .ok (.prod c f)) :: st.ptab }, "ok")
    | _, _ => some (st, "bad-op")
  | ["c13.parse", q, "err"] => some ({ st with ptab := (q, .error .UnitParseError) :: st.ptab }, "ok")
  | ["c13.dict", rows] =>
    match parseRowsC13 rows with
    | some t =>
      let c := st.world.luts.length
      let (st', o) := st.run (.dict t)
      some ({ st' with dictCells := st'.dictCells.push c }, o)
    | none => some (st, "bad-op")
  | ["c13.fromdictn", di, ad] =>
    match di.toNat?, parseBool ad with
    | some d, some a =>
      match st.dictCells[d]? with
      | some c => some (st.run (.fromDict c a))
      | none => some (st, "bad-op")
    | _, _ => some (st, "bad-op")
  | ["c13.fresh", ad, usys] =>
    match parseBool ad with
    | some a => some (st.run (.fresh a usys))
    | none => some (st, "bad-op")
  | ["c13.fromdict", c, ad] =>
    match c.toNat?, parseBool ad with
    | some c, some a => some (st.run (.fromDict c a))
    | _, _ => some (st, "bad-op")
  | ["c13.route", name, src] =>
    match Generated.registryRoutes.lookup name, src.toNat? with
    | some sh, some s => some (st.run (.route sh s))
    | _, _ => some (st, "bad-route")
  | ["c13.defunit", r, sym, sc, dim, off, pf] =>
    match r.toNat?, parseEntryC13 sc dim off pf with
    | some r, some e => some (st.run (.defineUnit r sym e))
    | _, _ => some (st, "bad-op")
  | ["c13.newsys", r, name, bus] =>
    match r.toNat? with
    | some r => some (st.run (.newSystem r name (if bus == "" then [] else bus.splitOn ",")))
    | none => some (st, "bad-op")
  | ["c13.mixed", a, b, key, sc, off, dim] =>
    match a.toNat?, b.toNat?, fb sc, fb off, Dim.parse dim with
    | some a, some b, some s, some o, some d => some (st.run (.mixed a b key ⟨s, o, d⟩))
    | _, _, _, _, _ => some (st, "bad-op")
  -- a registry made through an OBJECT of registry `src`: the unit string `q` is looked up through `src`
  -- first (building the unit / array / quantity); only then does the route run; `post = 1`: the restored
  -- object builds its unit from the string in the new registry (`unyt_array.__setstate__`)
  | ["c13.routeobj", name, src, q, post] =>
    match Generated.registryRoutes.lookup name, src.toNat?, parseBool post with
    | some sh, some s, some p =>
      let (st1, o1) := st.run (.reg s (.unit q))
      if o1.startsWith "unit" then
        let n := st1.world.regs.length
        let (st2, o2) := st1.run (.route sh s)
        if p && o2.startsWith "reg" then
          let (st3, _) := st2.run (.reg n (.unit q))
          some (st3, o2)
        else some (st2, o2)
      else some (st1, o1)
    | _, _, _ => some (st, "bad-route")
  -- `(Unit(qa, registry=src) * Unit(qb, registry=src)).copy()`: the copy is built from `str(expr)` = `key`
  -- in a shallow copy of the registry — whose string cache is the source's, so a cached `key` answers
  | ["c13.unitcopy", src, qa, qb, key] =>
    match Generated.registryRoutes.lookup "unit_copy", src.toNat? with
    | some sh, some s =>
      let (st1, o1) := st.run (.reg s (.unit qa))
      if !o1.startsWith "unit" then some (st1, o1) else
      let (st2, o2) := st1.run (.reg s (.unit qb))
      if !o2.startsWith "unit" then some (st2, o2) else
      match st2.world.regs[s]? with
      | none => some (st2, "bad-op")
      | some ro =>
        if ((view st2.world ro).cache.map (·.1)).contains key then some (st2, "same")
        else some (st2.run (.route sh s))
    | _, _ => some (st, "bad-route")
  -- `define_unit(sym, (v, q), prefixable=pf, registry=r)`: `sym in r` → RuntimeError; the quantity's unit
  -- from `q` through `r`; then the `define_unit` of the world model with the reduced row
  | ["c13.defunitq", r, sym, v, q, pf] =>
    match r.toNat?, fb v, parseBool pf with
    | some r, some x, some p =>
      let (st1, o1) := st.run (.reg r (.contains sym))
      if o1 == "bool\t1" then some (st1, "err\tRuntimeError") else
      if o1 != "bool\t0" then some (st1, o1) else
      let (w2, o2) := runOp st1.cfg st1.wc st1.pre st1.parse st1.world (.reg r (.unit q))
      let st2 := { st1 with world := w2 }
      match o2 with
      | .out (.unit _ u) => some (st2.run (.defineUnit r sym ⟨x * u.scale, u.dim, 0, p⟩))
      | o => some (st2, st2.woutStr o)
    | _, _, _ => some (st, "bad-op")
  | ["c13.dump", r] =>
    match r.toNat? with
    | some r => some (st, st.dump r)
    | none => some (st, "bad-op")
  | ["c13.cell", c] =>
    match c.toNat? with
    | some c => some (st, s!"ok\t{st.lutDigest (lutAt st.world c)}")
    | none => some (st, "bad-op")
  | ["c13.count"] =>
    some (st, s!"ok\t{st.world.regs.length}\t{st.world.luts.length}\t{st.world.caches.length}\t{st.world.deriveds.length}")
  | ["c13.exported"] =>
    some (st, s!"ok\t{",".intercalate (C13State.sortStrs (st.world.exported.map (·.1)))}\t{",".intercalate (C13State.sortStrs st.world.systems)}")
  | "c13.op" :: r :: rest =>
    match r.toNat?, parseOpC13 rest with
    | some r, some o => some (st.run (.reg r o))
    | _, _ => some (st, "bad-op")
  | _ => none

/-- the shared-state handler slot (all C13 opcodes are served by `stepC13`) -/
def opsC13 : Handler := fun _st _fields => none

end Unyt
