/-
  UnytModel.Ops.C13 — opcodes of the C13 model (prefix `c13.`).
-/
import UnytModel.DriverBase

namespace Unyt

def opsC13 : Handler := fun _st fields =>
  match fields with
  | _ => none

end Unyt
