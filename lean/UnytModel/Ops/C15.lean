/-
  UnytModel.Ops.C15 — opcodes of the C15 model (prefix `c15.`): dumps of the regenerated
  constants tables (translator self-check), Float evaluation of the symbolic definitions
  (module execution and closed forms), the naming model of `add_constants`, the reference
  rows and the Boolean checks the theorems of `UnytProofs/C15*.lean` are about.
-/
import UnytModel.DriverBase
import UnytModel.PhysicalConstantsCheck
import UnytModel.AddConstants
import UnytModel.Ops.C10

namespace Unyt
open Generated PCheck

namespace C15Ops

/-- what importing `_physical_ratios.py` binds, at Float -/
def moduleEnv : List (String × Float) := execModule 0.0 ratioDefs

def envF : String → Float := envOf 0.0 moduleEnv
def baseF : String → Float := baseEnv ratioDefs 0.0

def atomStr : Atom → String
  | .pi => "pi"
  | .num n => s!"#{n}"
  | .name s => s

def monoStr (m : Mono) : String :=
  ratStr m.coef ++ " " ++ " ".intercalate (m.atoms.filter (fun p => p.2 != 0) |>.map fun p => s!"{atomStr p.1}^{ratStr p.2}")

def boolStr (b : Bool) : String := if b then "1" else "0"

def spaceCheck (which : String) (rows : List MatRow) : Option Bool :=
  match which with
  | "names" => some (namesOk rows)
  | "table" => some (matchesTable rows)
  | "mks" => some (mksIsTable rows)
  | "cgsdim" => some (cgsHasNoCurrent rows)
  | "aliases" => some (aliasesEqual rows)
  | "suffixes" => some (suffixesEqual rows)
  | "registry" => some (registryEqual pcRows rows)
  | _ => none

end C15Ops
open C15Ops

/-- one reading on the wire: `valuebits;scalebits;offsetbits;dim;coeffbits;factors` -/
def readingStr (r : Float × UnitV Float) : String :=
  s!"{bitsStr r.1};{bitsStr r.2.scale};{bitsStr r.2.offset};{r.2.dim.str};{bitsStr r.2.expr.coeff};{Factors.str (UExpr.normF r.2.expr.factors)}"

def opsC15 : Handler := fun st fields =>
  match fields with
  -- the body of add_constants for one table row: `extra` = user rows of the registry table,
  -- `um` / `cgs` = units_map of the registry's unit system / of the cgs system, `ue` = the row's
  -- unit expression, `x` = the row's value.  Reply: route label, plain, _mks, _cgs readings
  | ["c15.materialise", extra, um, cgs, ue, x] =>
    match C10Wire.parseExtra extra, C10Wire.parseUm um, C10Wire.parseUm cgs, C10Wire.parseExpr ue, fb x with
    | some ex, some m, some mc, some ue, some x =>
      let t := C10Wire.lutWith st ex
      let em : EmTable Float := defaultEm Float
      match mkUnit st.pre t ue with
      | .error e => some (st, s!"err\tunit:{e.str}")
      | .ok u =>
        let S := C10Wire.sysOf m
        match AddConstants.addConstantsRow st.pre t em S (C10Wire.sysOf mc) u x with
        | .error e => some (st, s!"err\t{e.str}")
        | .ok g =>
          let c := match g.cgs with | some c => readingStr c | none => "none"
          some (st, s!"ok\t{AddConstants.routeLabel st.pre t em S u}\t{readingStr g.plain}\t{readingStr g.mks}\t{c}")
    | _, _, _, _, _ => none
  -- symbolic definitions, evaluated at Float
  | ["c15.ratio", n] =>
    match ratioDefs.lookup n with
    | none => some (st, "none")
    | some e =>
      let viaExec := envF n
      let viaClosed := (e.subst closedRatios).eval baseF
      some (st, s!"ok\t{bitsStr viaExec}\t{bitsStr viaClosed}\t{boolStr e.isLit}")
  | ["c15.constcell", n] =>
    match constCells.lookup n with
    | none => some (st, "none")
    | some e => some (st, s!"ok\t{bitsStr (e.eval envF)}\t{bitsStr ((e.subst closedRatios).eval baseF)}")
  | ["c15.unitcell", n] =>
    match unitCells.lookup n with
    | none => some (st, "none")
    | some e => some (st, s!"ok\t{bitsStr (e.eval envF)}\t{bitsStr ((e.subst closedRatios).eval baseF)}")
  | ["c15.normal", n] =>
    match cellDefs.lookup n with
    | none => some (st, "none")
    | some e =>
      match norm (e.subst closedRatios) with
      | some m => some (st, s!"ok\t{monoStr m}")
      | none => some (st, "ok\t(outside the multiplicative fragment)")
  -- dumps of the regenerated tables
  | ["c15.dump.const", n] =>
    match constTable.find? (fun c => c.spec.name == n) with
    | none => some (st, "none")
    | some c =>
      some (st, s!"ok\t{c.value}\t{c.unitScale}\t{c.spec.dim.str}\t{c.spec.unit}\t{",".intercalate c.spec.aliases}\t{";".intercalate (c.unitFactors.map fun p => s!"{p.1}:{ratStr p.2}")}")
  | ["c15.dump.consts"] => some (st, "ok\t" ++ ",".intercalate (constTable.map (·.spec.name)))
  | ["c15.dump.spaces"] => some (st, "ok\t" ++ ",".intercalate (spaces.map (·.1)))
  | ["c15.dump.space", s] =>
    match spaces.lookup s with
    | none => some (st, "none")
    | some rows => some (st, s!"ok\t{rows.length}\t{",".intercalate (rows.map (·.name))}")
  | ["c15.dump.mat", s, k] =>
    match spaces.lookup s with
    | none => some (st, "none")
    | some rows =>
      match rows.find? (fun r => r.name == k) with
      | none => some (st, "none")
      | some r => some (st, s!"ok\t{r.value}\t{r.scale}\t{r.dim.str}")
  | ["c15.dump.em"] =>
    some (st, "ok\t" ++ ";".intercalate (emUnits.map fun p => s!"{p.1}|{p.2.str}"))
  -- the naming model of add_constants / __init__
  | ["c15.expected"] => some (st, "ok\t" ++ ",".intercalate expectedKeys)
  | ["c15.guise", k] =>
    match lastWrite (addConstantsNames emUnits (constTable.map (·.spec))) k with
    | some (c, g) => some (st, s!"ok\t{c}\t{g.str}")
    | none => some (st, "none")
  | ["c15.top", k, isUnit] =>
    match topLevel expectedKeys (if isUnit == "1" then [k] else []) k with
    | some true => some (st, "ok\tconstant")
    | some false => some (st, "ok\tunit")
    | none => some (st, "none")
  -- reference
  | ["c15.ref", n] =>
    match Ref.C15.find? n with
    | none => some (st, "none")
    | some r => some (st, s!"ok\t{ratStr r.v}\t{ratStr r.tol}\t{r.dim.str}\t{r.note}")
  | ["c15.ref.lists"] =>
    some (st, s!"ok\t{",".intercalate Ref.C15.exclUnitVsConstant}\t{",".intercalate Ref.C15.exclValue}\t{",".intercalate Ref.C15.homonyms}")
  | ["c15.relations"] =>
    some (st, s!"ok\t{",".intercalate (Ref.C15.relations.map (·.name))}\t{",".intercalate (Ref.C15.numRelations.map (·.name))}")
  | ["c15.relation", n] =>
    match Ref.C15.relations.find? (fun r => r.name == n) with
    | some r =>
      some (st, s!"ok\t{bitsStr ((closeRel r.lhs).eval baseF)}\t{bitsStr ((closeRel r.rhs).eval baseF)}\t{boolStr (relationOk r)}")
    | none =>
      match Ref.C15.numRelations.find? (fun r => r.name == n) with
      | some r =>
        some (st, s!"ok\t{bitsStr ((closeRel r.lhs).eval baseF)}\t{bitsStr ((closeRel r.rhs).eval baseF)}\t{boolStr (numRelationOk r)}\t{ratStr r.tol}")
      | none => some (st, "none")
  -- the Boolean checks the theorems are about
  | ["c15.check", "relations"] => some (st, s!"ok\t{boolStr relationsOk}")
  | ["c15.check", "numrelations"] => some (st, s!"ok\t{boolStr numRelationsOk}")
  | ["c15.check", "constdoubles"] => some (st, s!"ok\t{boolStr constCellsMatchDoubles}")
  | ["c15.check", "unitdoubles"] => some (st, s!"ok\t{boolStr unitCellsMatchDoubles}")
  | ["c15.check", "unsuffixed"] => some (st, s!"ok\t{boolStr unitSymbolsUnsuffixed}")
  | ["c15.check", "constunits"] => some (st, s!"ok\t{boolStr constUnitsOk}")
  | ["c15.check", "editions"] => some (st, s!"ok\t{boolStr editionsOk}")
  | ["c15.editions", n] =>
    match Ref.C15.editions.lookup n with
    | none => some (st, "none")
    | some es =>
      let got := match constTable.find? (fun c => c.spec.name == n) with
        | some c => (editionOf c).getD "(none)"
        | none => "(no such constant)"
      some (st, s!"ok\t{got}\t{";".intercalate (es.map fun e => s!"{e.1}={ratStr e.2}")}")
  | ["c15.editions"] => some (st, "ok\t" ++ ",".intercalate (Ref.C15.editions.map (·.1)))
  | ["c15.check", "top"] => some (st, s!"ok\t{boolStr (bitwiseEqual pcRows topRows)}")
  | ["c15.check", "unitconst", excl] =>
    some (st, s!"ok\t{boolStr (unitAndConstantAgree (if excl == "1" then Ref.C15.exclUnitVsConstant else []))}")
  | ["c15.check", "unitconstsym", excl] =>
    some (st, s!"ok\t{boolStr (unitAndConstantAgreeSymbolic (if excl == "1" then Ref.C15.exclUnitVsConstant else []))}")
  | ["c15.check", "values", excl] =>
    some (st, s!"ok\t{boolStr (valuesInClass (if excl == "1" then Ref.C15.exclValue else []))}")
  | ["c15.check", "space", which, s] =>
    match spaces.lookup s with
    | none => some (st, "none")
    | some rows =>
      match spaceCheck which rows with
      | some b => some (st, s!"ok\t{boolStr b}")
      | none => some (st, "bad-op")
  | ["c15.unitvsconst", k] =>
    match (defaultLut Rat).find? k with
    | none => some (st, "none")
    | some e => some (st, s!"ok\t{boolStr (constOfKey k).isSome}\t{boolStr (unitVsConstOk k e)}\t{boolStr (unitVsConstSymbolicOk k)}")
  | _ => none

end Unyt
