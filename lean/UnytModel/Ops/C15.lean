/-
  UnytModel.Ops.C15 — opcodes of the C15 model (prefix `c15.`).
-/
import UnytModel.DriverBase

namespace Unyt

def opsC15 : Handler := fun _st fields =>
  match fields with
  | _ => none

end Unyt
