/-
  UnytModel.Ops.C05 — opcodes of the C05 model (prefix `c05.`): the control flow of `Unit.__mul__`,
  `__truediv__`, `__pow__`, `__eq__` REGENERATED from the live source (`Generated.C05Paths`, translator plugin
  tools/extract.d/c05_paths.py) and run by the interpreter `UnitPaths.evalPaths` on explicit unit values
  (stored scale, offset, dimension, expression).  Opaque conditions (ones the translator has no reading for)
  are taken as false.  `UnytProofs/C05Paths.lean` proves these programs equal to `UnitV.mul/div/powSrc`.
-/
import UnytModel.DriverBase
import UnytModel.UnitPaths
import UnytModel.Generated.C05Paths

namespace Unyt
open UnitPaths

def stepC05 (st : DriverState) (fields : List String) : Option (DriverState × String) :=
  match fields with
  | ["c05.umul", s1, o1, d1, c1, f1, s2, o2, d2, c2, f2] =>
    match parseUnitV s1 o1 d1 c1 f1, parseUnitV s2 o2 d2 c2 f2 with
    | some u, some v => some (st, exceptOut unitOut (evalPaths (fun _ => false) u v 0 Generated.C05Paths.mulPaths))
    | _, _ => none
  | ["c05.udiv", s1, o1, d1, c1, f1, s2, o2, d2, c2, f2] =>
    match parseUnitV s1 o1 d1 c1 f1, parseUnitV s2 o2 d2 c2 f2 with
    | some u, some v => some (st, exceptOut unitOut (evalPaths (fun _ => false) u v 0 Generated.C05Paths.truedivPaths))
    | _, _ => none
  | ["c05.upow", s1, o1, d1, c1, f1, p] =>
    match parseUnitV s1 o1 d1 c1 f1, parseRat p with
    | some u, some q => some (st, exceptOut unitOut (evalPaths (fun _ => false) u u q Generated.C05Paths.powPaths))
    | _, _ => none
  | ["c05.ueq", s1, o1, d1, c1, f1, s2, o2, d2, c2, f2] =>
    match parseUnitV s1 o1 d1 c1 f1, parseUnitV s2 o2 d2 c2 f2 with
    | some u, some v =>
      match evalBoolPaths Float.isclose (fun _ => false) u v Generated.C05Paths.eqPaths with
      | some b => some (st, s!"ok\t{if b then 1 else 0}")
      | none => some (st, "err\tOther")
    | _, _ => none
  -- `Unit.as_coeff_unit` (`UnitV.asCoeffUnit`, theorem `asCoeffUnit_denotes_same`): the unit, then the coefficient
  | ["c05.ascoeff", s1, o1, d1, c1, f1] =>
    match parseUnitV s1 o1 d1 c1 f1 with
    | some u => let r := u.asCoeffUnit; some (st, s!"{unitOut r.2}\t{bitsStr r.1}")
    | none => none
  | ["c05.npaths"] =>
    some (st, s!"ok\t{Generated.C05Paths.mulPaths.length}\t{Generated.C05Paths.truedivPaths.length}\t{Generated.C05Paths.powPaths.length}")
  | _ => none

def opsC05 : Handler := stepC05

end Unyt
