/-
  UnytModel.Ops.C12 — opcodes of the C12 model (prefix `c12.`).
-/
import UnytModel.DriverBase

namespace Unyt

def opsC12 : Handler := fun _st fields =>
  match fields with
  | _ => none

end Unyt
