/-
  UnytModel.Ops.C12 — opcodes of the C12 model (prefix `c12.`): the registry state machine
  `RegC12.step` run at `Float` on the regenerated default table, with the configuration the
  translator read off the live source (`Generated.registryCfg`).

  The session keeps, beside the machine state, the *contents* computed from the history
  (`RegC12.specStep`) so that `c12.spec.*` can answer what `fresh (contents h)` says, and the
  graph of the real parser on the probe strings (`c12.parse`).
-/
import UnytModel.DriverBase
import UnytModel.RegistryC12
import UnytModel.RegistryC12Conv
import UnytModel.Generated.RegistryC12Cfg
import UnytModel.RegistryC12Alias
import UnytModel.RegistryC12Macro
import UnytModel.RegistryC12AliasMacro
import UnytModel.Generated.RegistryC12Alias

namespace Unyt
open RegC12

structure C12State where
  cfg : Cfg := Generated.registryCfg
  pre : Prefixes Float := defaultPrefixes Float
  base : Lut Float := defaultLut Float
  reg : RegState Float := fresh (defaultLut Float)
  contents : Lut Float := defaultLut Float
  /-- the graph of `parse_unyt_expr` on the strings the harness uses -/
  ptab : List (String × Except Err (PExpr Float)) := []
  /-- for every `c12.unit` line since the last reset: the string and the heap index it returned -/
  uret : Array (String × Option Nat) := #[]
  /-- the family of registry objects over shared containers (`c12a.*`), with the regenerated in-place flags -/
  acfg : ACfg := Generated.registryACfg
  areg : AState Float := afresh (defaultLut Float)

namespace C12State

def parse (st : C12State) (q : String) : Except Err (PExpr Float) :=
  match st.ptab.lookup q with
  | some r => r
  | none => .error .UnitParseError

def entryStr (e : Entry Float) : String :=
  s!"{bitsStr e.scale}\t{bitsStr e.offset}\t{e.dim.str}\t{if e.prefixable then 1 else 0}"

/-- the entries of a snapshot that differ from the default table (sorted by key), `k=-` for a
    default key the snapshot lacks: a canonical digest of the table `unit_system_id` hashes -/
def snapDigest (_st : C12State) (base snap : Lut Float) : String :=
  let keys := (snap.map (·.1) ++ base.map (·.1)).eraseDups
  let cell (e : Option (Entry Float)) : String :=
    match e with
    | none => "-"
    | some e => s!"{bitsStr e.scale},{bitsStr e.offset},{e.dim.str},{if e.prefixable then 1 else 0}"
  let diff := keys.filterMap fun k =>
    let a := cell (snap.find? k)
    let b := cell (base.find? k)
    if a == b then none else some (k, a)
  let sorted := diff.toArray.qsort (fun x y => x.1 < y.1) |>.toList
  ";".intercalate (sorted.map fun p => s!"{p.1}={p.2}")

def outStr (st : C12State) : Out Float → String
  | .done => "done"
  | .err e => s!"err\t{e.str}"
  | .unit i d => s!"unit\t{i}\t{bitsStr d.scale}\t{bitsStr d.offset}\t{d.dim.str}"
  | .bool b => s!"bool\t{if b then 1 else 0}"
  | .entry e => s!"entry\t{entryStr e}"
  | .sysId snap => s!"sysid\t{st.snapDigest st.base snap}"

/-- run one machine step: new session, the guard `opSafe` evaluated before the step, the result.
    `updSpec = false` leaves the spec-side contents alone (used by the macros, which update the
    contents by the *principled* spec: values taken from `fresh contents`, never from the machine) -/
def doOp' (st : C12State) (op : Op Float) (updSpec : Bool := true) : C12State × Bool × Out Float :=
  let safe := opSafe st.cfg st.parse st.reg op
  let (reg', out) := step st.cfg st.pre st.parse st.reg op
  ({ st with reg := reg', contents := if updSpec then specStep st.contents op else st.contents }, safe, out)

def reply (st : C12State) (safe : Bool) (out : Out Float) : String :=
  s!"{if safe then 1 else 0}\t{st.outStr out}"

def doOp (st : C12State) (op : Op Float) : C12State × String :=
  let (st', safe, out) := st.doOp' op
  (st', st'.reply safe out)

/-- what the fresh registry holding the contents answers (state unchanged) -/
def specOut (st : C12State) (op : Op Float) : Out Float :=
  (step st.cfg st.pre st.parse (fresh st.contents) op).2

def specOp (st : C12State) (op : Op Float) : String := st.outStr (st.specOut op)

/-- a reading edit (`RegistryC12Macro`): the machine runs `mstep` (the definitions `C12_reading_edits_full` is
    about), the guard is `safeRun` over the primitive calls it performs, the spec-side contents change as a FRESH
    registry holding them would (`mspec`) -/
def doMacro (st : C12State) (m : MOp Float) : C12State × String :=
  let safe := safeRun st.cfg st.pre st.parse st.reg (mexpand st.cfg st.pre st.parse st.reg m)
  let (reg', out) := mstep st.cfg st.pre st.parse st.reg m
  let st' := { st with reg := reg', contents := mspec st.cfg st.pre st.parse st.contents m }
  (st', st'.reply safe out)

/-- `r.modify(sym, unyt_quantity(v, q, registry=r))` (unit_registry.py:modify, quantity branch) -/
def modifyByQuantity (st : C12State) (sym : String) (v : Float) (q : String) : C12State × String :=
  st.doMacro (.modifyQu sym v q)

/-- `define_unit(sym, (v, q), prefixable=p, registry=r)` (unit_object.py:define_unit) -/
def defineUnit (st : C12State) (sym : String) (v : Float) (q : String) (p : Bool) : C12State × String :=
  st.doMacro (.defineUnit sym v q p)

/-- heap indices and expressions of the a-th and b-th `c12.unit` results -/
def heapPair (st : C12State) (a b : String) : Option (Nat × Nat × UExpr Float × UExpr Float) := do
  let ia ← a.toNat?
  let ib ← b.toNat?
  let (qa, ha) ← st.uret[ia]?
  let (qb, hb) ← st.uret[ib]?
  let i ← ha
  let j ← hb
  let ea ← match st.parse qa with | .ok e => some e.toUExpr | .error _ => none
  let eb ← match st.parse qb with | .ok e => some e.toUExpr | .error _ => none
  some (i, j, ea, eb)

end C12State

def parseOpC12 : List String → Option (Op Float)
  | ["add", sym, sc, dim, off, pf] =>
    match fb sc, Dim.parse dim, fb off, parseBool pf with
    | some s, some d, some o, some p => some (.add sym ⟨s, d, o, p⟩)
    | _, _, _, _ => none
  | ["addbad", sym] => some (.addInvalid sym)
  | ["modf", sym, v] => (fb v).map fun x => .modifyF sym x
  | ["modq", sym, v, dim, own] =>
    match fb v, Dim.parse dim, parseBool own with
    | some x, some d, some o => some (.modifyQ sym x d o)
    | _, _, _ => none
  | ["rm", sym] => some (.remove sym)
  | ["unit", q] => some (.unit q)
  | ["has", k] => some (.contains k)
  | ["get", k] => some (.getitem k)
  | ["sysid"] => some .sysId
  | _ => none

/-- the stateful C12 opcodes -/
def stepC12 (st : C12State) (fields : List String) : Option (C12State × String) :=
  match fields with
  | ["c12.cfg"] =>
    let b := fun (x : Bool) => if x then "1" else "0"
    some (st, s!"ok\t{b st.cfg.clearCache}\t{b st.cfg.purgeDerived}\t{b st.cfg.idSkipsDerived}\t{b st.cfg.memoResetLast}")
  | ["c12.setcfg", c, p, i, m] =>
    match parseBool c, parseBool p, parseBool i, parseBool m with
    | some c, some p, some i, some m => some ({ st with cfg := ⟨c, p, i, m⟩ }, "ok")
    | _, _, _, _ => some (st, "bad-op")
  | ["c12a.acfg"] =>
    let b := fun (x : Bool) => if x then "1" else "0"
    some (st, s!"ok\t{b st.acfg.derivedInPlace}\t{b st.acfg.cacheInPlace}")
  | ["c12a.setacfg", d, c] =>
    match parseBool d, parseBool c with
    | some d, some c => some ({ st with acfg := ⟨d, c⟩ }, "ok")
    | _, _ => some (st, "bad-op")
  | ["c12a.reset"] => some ({ st with areg := afresh st.base }, "ok")
  | ["c12a.copy", i] =>
    match i.toNat? with
    | some i => some ({ st with areg := acopy st.areg i }, s!"ok\t{st.areg.handles.length}")
    | none => some (st, "bad-op")
  | ["c12a.state"] =>
    let cells := st.areg.handles.map fun hd =>
      s!"{hd.cacheRef}:{hd.dsetRef}:{",".intercalate ((st.areg.caches hd.cacheRef).map (·.1))}:{",".intercalate (st.areg.dsets hd.dsetRef)}"
    some (st, s!"ok\t{"|".intercalate cells}")
  | ["c12a.modqu", i, sym, v, q] =>
    match i.toNat?, fb v with
    | some i, some x =>
      let (a', out) := amstep st.acfg st.cfg st.pre st.parse st.areg i (.modifyQu sym x q)
      let st' := { st with areg := a' }
      some (st', st'.outStr out)
    | _, _ => some (st, "bad-op")
  | ["c12a.defunit", i, sym, v, q, p] =>
    match i.toNat?, fb v, parseBool p with
    | some i, some x, some pf =>
      let (a', out) := amstep st.acfg st.cfg st.pre st.parse st.areg i (.defineUnit sym x q pf)
      let st' := { st with areg := a' }
      some (st', st'.outStr out)
    | _, _, _ => some (st, "bad-op")
  | "c12a.call" :: i :: op :: args =>
    match i.toNat?, parseOpC12 (op :: args) with
    | some i, some o =>
      let (a', out) := astep st.acfg st.cfg st.pre st.parse st.areg i o
      let st' := { st with areg := a' }
      some (st', st'.outStr out)
    | _, _ => some (st, "bad-op")
  | ["c12.parse", q, "atom", s] => some ({ st with ptab := (q, .ok (.atom s)) :: st.ptab }, "ok")
  | ["c12.parse", q, "prod", co, fac] =>
    match fb co, Factors.parse fac with
    | some c, some f => some ({ st with ptab := (q, .ok (.prod c f)) :: st.ptab }, "ok")
    | _, _ => some (st, "bad-op")
  | ["c12.parse", q, "err"] => some ({ st with ptab := (q, .error .UnitParseError) :: st.ptab }, "ok")
  | ["c12.split", s] =>
    match splitCandidate s with
    | some (p, w) => some (st, s!"ok\t{p}\t{w}")
    | none => some (st, "none")
  | ["c12.modqu", sym, v, q] =>
    match fb v with
    | some x => some (st.modifyByQuantity sym x q)
    | none => some (st, "bad-op")
  | ["c12.defunit", sym, v, q, p] =>
    match fb v, parseBool p with
    | some x, some pf => some (st.defineUnit sym x q pf)
    | _, _ => some (st, "bad-op")
  | ["c12.lut"] => some (st, s!"ok\t{st.snapDigest st.base st.reg.lut}")
  | ["c12.contents"] => some (st, s!"ok\t{st.snapDigest st.base st.contents}")
  | ["c12.reset"] => some ({ st with reg := fresh st.base, contents := st.base, uret := #[] }, "ok")
  | ["c12.unit", q] =>
    let (st', safe, out) := st.doOp' (.unit q)
    let hid := match out with | .unit i _ => some i | _ => none
    let st' := { st' with uret := st'.uret.push (q, hid) }
    some (st', st'.reply safe out)
  -- objects that outlived edits: conversion / addition / comparison of the a-th and b-th `c12.unit` results
  | ["c12.conv", a, b] =>
    match st.heapPair a b with
    | some (i, j, ei, ej) =>
      match heapConv st.pre st.reg i j ei ej with
      | .ok (f, o) => some (st, s!"ok\t{bitsStr f}\t{match o with | some x => bitsStr x | none => "none"}")
      | .error e => some (st, s!"err\t{e.str}")
    | none => some (st, "bad-op")
  | ["c12.to", a, b, x] =>
    match st.heapPair a b, fb x with
    | some (i, j, ei, ej), some x =>
      match heapTo st.pre st.reg i j ei ej x with
      | .ok v => some (st, s!"ok\t{bitsStr v}")
      | .error e => some (st, s!"err\t{e.str}")
    | _, _ => some (st, "bad-op")
  | ["c12.addq", a, b, x, y] =>
    match st.heapPair a b, fb x, fb y with
    | some (i, j, ei, ej), some x, some y =>
      match heapAdd st.pre st.reg i j ei ej x y with
      | .ok v => some (st, s!"ok\t{bitsStr v}")
      | .error e => some (st, s!"err\t{e.str}")
    | _, _, _ => some (st, "bad-op")
  | ["c12.objs"] =>
    let cells := st.reg.objs.map fun d => s!"{bitsStr d.scale},{bitsStr d.offset},{d.dim.str}"
    some (st, s!"ok\t{st.reg.objs.length}\t{"|".intercalate cells}")
  | ["c12.state"] =>
    some (st, s!"ok\t{",".intercalate (st.reg.cache.map (·.1))}\t{",".intercalate st.reg.derived}\t{if st.reg.idMemo.isSome then 1 else 0}")
  | op :: args =>
    if op.startsWith "c12.spec." then
      match parseOpC12 ((op.drop 9).toString :: args) with
      | some o => some (st, st.specOp o)
      | none => some (st, "bad-op")
    else if op.startsWith "c12." then
      match parseOpC12 ((op.drop 4).toString :: args) with
      | some o => some (st.doOp o)
      | none => some (st, "bad-op")
    else none
  | _ => none

/-- the shared-state handler slot (all C12 opcodes are served by `stepC12`) -/
def opsC12 : Handler := fun _st _fields => none

end Unyt
