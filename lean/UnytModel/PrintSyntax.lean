/-
  UnytModel.PrintSyntax — the syntax tree Python's grammar assigns to a printed layout.

  `syn a` is how `render a` is parsed: the specification side of the token-level round trip
  `parseTokens (renderTokens a) = some (syn a)` (UnytProofs/C20Syntax.lean).
-/
import UnytModel.Print

namespace Unyt
namespace Print
open Parse

/-- `p`, `-p`, `p/q`, `-p/q` (the sign binds tighter than `/`) -/
def ratSyn (q : Rat) : PExpr :=
  let n := PExpr.num q.num.natAbs 0
  let s := if q < 0 then PExpr.neg n else n
  if q.den = 1 then s else .div s (.num q.den 0)

def expSyn (e : Rat) : PExpr :=
  if e.den = 1 && e ≥ 0 then .num e.num.natAbs 0 else ratSyn e

def itemSyn : Item → PExpr
  | .lit n => .num n 0
  | .sym s => .name s.toList
  | .sqrt s => .call (.name "sqrt".toList) (.name s.toList)
  | .pow s e => .pow (.name s.toList) (expSyn e)

/-- a product is left-associative -/
def chainSyn (lhs : PExpr) : List Item → PExpr
  | [] => lhs
  | x :: r => chainSyn (.mul lhs (itemSyn x)) r

def joinSyn : List Item → PExpr
  | [] => .num 1 0
  | x :: r => chainSyn (itemSyn x) r

def syn : Ast → PExpr
  | .num q => ratSyn q
  | .lone it => itemSyn it
  | .frac neg a b =>
    let first := match a with | [] => PExpr.num 1 0 | x :: _ => itemSyn x
    let first := if neg then PExpr.neg first else first     -- a leading `-` applies to the first factor only
    let n := chainSyn first a.tail
    match b with
    | [] => n
    | [x] => .div n (itemSyn x)
    | _ => .div n (joinSyn b)

end Print
end Unyt
