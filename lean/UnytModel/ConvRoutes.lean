/-
  UnytModel.ConvRoutes — the copying conversion route including its electromagnetic branch (C03).

  `unyt/array.py::unyt_array.in_units` differs from `convert_to_units` in one line: on the
  CGS<->SI electromagnetic branch it throws the offset of the factor away (`offset = 0`), while
  `convert_to_units` (modelled by `convertToUnitsEm`, `UnytModel/UnitSystem.lean`) applies it.
  The two routes therefore agree only because no unit that can reach that branch carries an
  offset — a fact about the unit table (`emPartnersOffsetFree`, `lutOffsetsWF` below, decided in
  the kernel over the regenerated tables) that `UnytProofs/C03Routes.lean` turns into the route
  agreement theorem.
-/
import UnytModel.UnitSystem
import UnytModel.SystemTables

namespace Unyt

section
variable {K : Type} [Add K] [Sub K] [Mul K] [Div K] [OfNat K 0] [OfNat K 1] [BEq K] [RPow K]

/-- `in_units(target)` / `to(target)` including the EM branch:
    `new_units, (factor, offset) = _em_conversion(self.units, conv_data, units); offset = 0` -/
def inUnitsEm (pre : Prefixes K) (t : Lut K) (T : EmTable K) (u : UnitV K) (x : K) (target : UnitV K) :
    Except Err (K × UnitV K) :=
  match checkEmTo pre t T u target with
  | .error e => .error e
  | .ok (some m) =>
    let newExpr : UExpr K := ⟨m.scale * m.canon.expr.coeff, m.canon.expr.factors⟩
    match mkUnit pre t newExpr with
    | .error e => .error e
    | .ok newUnits =>
      match getConversionFactor pre t newUnits target with
      | .error e => .error e
      | .ok f => .ok (x * f.1, target)
  | .ok none => inUnits pre t u x target

/-- `to_value(target)` = `in_units(target).value` -/
def toValueEm (pre : Prefixes K) (t : Lut K) (T : EmTable K) (u : UnitV K) (x : K) (target : UnitV K) :
    Except Err K :=
  (inUnitsEm pre t T u x target).map (·.1)

/-- the partner unit of the `em_conversions` row an atomic unit hits is not a temperature or
    angle unit (so nothing on the EM branch can carry an offset) -/
def EmPartnersPlain (pre : Prefixes K) (t : Lut K) (T : EmTable K) (u : UnitV K) : Prop :=
  ∀ p r v, emHit pre t T u = some (p, r) → mkUnit pre t (UExpr.sym (r.partnerSym p)) = .ok v →
    v.isTempOrAngle = false

end

/-! ### table obligations (decided in the kernel over the regenerated tables, at `K := Rat`) -/
section checks
attribute [local instance] ratPowStub

/-- every row of the regenerated unit table that carries an offset is a temperature or angle unit -/
def lutOffsetsWF : Bool :=
  c10Lut.all fun (_, e) => e.offset == 0 || e.dim == Dim.dTemperature || e.dim == Dim.dAngle

/-- for every row of the regenerated `em_conversions` and every prefix spelling (`""` and all SI
    prefixes — the only first components `_split_prefix` can return), the partner unit exists, has
    the partner dimension, is neither a temperature nor an angle and has a zero offset; neither
    side of a row is a temperature or an angle -/
def emPartnersOffsetFree : Bool :=
  c10Em.all fun r =>
    r.dim != Dim.dTemperature && r.dim != Dim.dAngle && r.toDim != Dim.dTemperature && r.toDim != Dim.dAngle
    && ("" :: allPrefixKeys).all fun p =>
      match mkUnit c10Pre c10Lut (UExpr.sym (r.partnerSym p)) with
      | .ok v => !v.isTempOrAngle && v.offset == 0 && v.dim == r.toDim
      | .error _ => false

/-- both members of every EM pair have zero offset in the unit table (so the EM branch of
    `in_units`, which discards the offset, loses nothing) -/
def emRowsZeroOffset : Bool :=
  c10Em.all fun r =>
    (match c10Lut.find? r.name with | some e => e.offset == 0 | none => false)
    && (match c10Lut.find? (r.partnerSym "") with | some e => e.offset == 0 | none => false)

end checks
end Unyt
