/-
  UnytModel.NameGen — model of `unyt/_unit_lookup_table.py::generate_name_alternatives`, the
  nested loops (with their length / case heuristics and the duplicate guard) that produce
  `name_alternatives` and `inv_name_alternatives` from the unit table, the prefix table and
  `default_unit_name_alternatives`.

  `genKey` is the body of the outer loop (one table key); `generate` folds it over the table.
  What the body needs of the state built so far is passed as two oracles — `seen` (the set
  `seen`) and `names` (the `defaultdict(list)`, as a function from listing key to its list) — so
  that the same body can be run (a) inside the fold, by the driver, against the live output, and
  (b) by the kernel, key by key, with the oracles read off the regenerated output.
-/
import UnytModel.NameCode

namespace Unyt.NameGen
open Unyt

/-- one `append_name` that took effect: `names[nkey].append(name); inv_names[name] = okey` -/
structure Out where
  nkey : Name
  okey : Name
  name : Name
deriving Repr

/-- `"μ"` (U+03BC), `"u"`, `"µ"` (U+00B5) as code points -/
def cpMu : Nat := 956
def cpU : Nat := 117
def cpMicro : Nat := 181

def muName : Name := Name.cons cpMu Name.nil

/-- the inputs of the generator -/
structure Inputs where
  /-- `default_unit_symbol_lut.items()`: (key, prefixable) in table order -/
  lut : List (Name × Bool)
  /-- `unit_prefixes.items()`: (symbol, word form) in table order -/
  prefixes : List (Name × Name)
  /-- `default_unit_name_alternatives` -/
  alts : List (Name × List Name)
  /-- Python's case data for the non-ASCII characters -/
  ct : CaseTable

/-- the state the loop body can observe: what was appended while this key is processed (`loc`,
    newest first) on top of the oracles for everything before -/
structure View where
  seen : Name → Bool
  names : Name → List Name

def seenNow (v : View) (loc : List Out) (k : Name) : Bool :=
  v.seen k || loc.any fun o => Nat.beq o.name k

/-- `names[nk]` as it is now -/
def namesNow (v : View) (loc : List Out) (nk : Name) : List Name :=
  v.names nk ++ (loc.reverse.filterMap fun o => if Nat.beq o.nkey nk then some o.name else none)

/-- `append_name(names[nk], okey, key)`: append unless seen; a duplicate is an error unless the
    canonical name starts with `u` or `μ` (work-around for unyt issue 145) -/
def appendName (v : View) (loc : List Out) (nk okey key : Name) : Except (Name × Name) (List Out) :=
  Name.force nk fun nk => Name.force okey fun okey => Name.force key fun key =>
  if seenNow v loc key then
    (if Nat.beq (Name.head okey) cpU || Nat.beq (Name.head okey) cpMu then .ok loc else .error (key, okey))
  else .ok (⟨nk, okey, key⟩ :: loc)

/-- `for prefix in unit_prefixes: append_name(names[prefix + key], used_prefix + key, prefix + key)` -/
def prefixLoop (v : View) (key : Name) : List (Name × Name) → List Out → Except (Name × Name) (List Out)
  | [], loc => .ok loc
  | (p, _) :: r, loc =>
    let used := if Nat.beq p (Name.cons cpU Name.nil) || Nat.beq p muName || Nat.beq p (Name.cons cpMicro Name.nil)
      then muName else p
    match appendName v loc (Name.append p key) (Name.append used key) (Name.append p key) with
    | .error e => .error e
    | .ok loc' => prefixLoop v key r loc'

/-- inner loop over the prefixes for one alternative `a` of a prefixable key -/
def aliasPrefixLoop (ct : CaseTable) (v : View) (key a : Name) :
    List (Name × Name) → List Out → Except (Name × Name) (List Out)
  | [], loc => .ok loc
  | (up, word) :: r, loc =>
    Name.force (Name.append up key) fun nk =>
    -- if len(a) < 4: append_name(names[up + key], up + key, up + a)
    let s1 := if Name.len a < 4 then appendName v loc nk nk (Name.append up a) else .ok loc
    match s1 with
    | .error e => .error e
    | .ok loc1 =>
      Name.force (Name.append word a) fun alt =>
      -- if alt not in seen: append_name(names[up + key], up + key, alt)
      let s2 := if seenNow v loc1 alt then .ok loc1 else appendName v loc1 nk nk alt
      match s2 with
      | .error e => .error e
      | .ok loc2 =>
        -- if alt.title() not in names[up + key]: append_name(names[up + key], up + key, alt.title())
        Name.force (Name.title ct alt) fun t =>
        let s3 := if memN t (namesNow v loc2 nk) then .ok loc2 else appendName v loc2 nk nk t
        match s3 with
        | .error e => .error e
        | .ok loc3 => aliasPrefixLoop ct v key a r loc3

def aliasesPrefixed (ct : CaseTable) (v : View) (key : Name) (prefixes : List (Name × Name)) :
    List Name → List Out → Except (Name × Name) (List Out)
  | [], loc => .ok loc
  | a :: r, loc =>
    match aliasPrefixLoop ct v key a prefixes loc with
    | .error e => .error e
    | .ok loc' => aliasesPrefixed ct v key prefixes r loc'

/-- `for alt in alternatives: append_name(names[key], key, alt); title-case variant of lower-case
    alternatives of length ≥ 4` -/
def aliasesPlain (ct : CaseTable) (v : View) (key : Name) :
    List Name → List Out → Except (Name × Name) (List Out)
  | [], loc => .ok loc
  | alt :: r, loc =>
    match appendName v loc key key alt with
    | .error e => .error e
    | .ok loc1 =>
      if !(Name.isLower ct alt) || Name.len alt < 4 then aliasesPlain ct v key r loc1
      else
        Name.force (Name.title ct alt) fun t =>
        let s := if memN t (namesNow v loc1 key) then .ok loc1 else appendName v loc1 key key t
        match s with
        | .error e => .error e
        | .ok loc2 => aliasesPlain ct v key r loc2

/-- the body of `for key, entry in default_unit_symbol_lut.items():` — returns what was appended,
    oldest first -/
def genKey (inp : Inputs) (v : View) (key : Name) (prefixable : Bool) : Except (Name × Name) (List Out) :=
  match appendName v [] key key key with
  | .error e => .error e
  | .ok loc0 =>
    let s1 : Except (Name × Name) (List Out) :=
      if prefixable then prefixLoop v key inp.prefixes loc0
      else
        -- elif len(key) > 3 and key.title() != key: if all(len(k) > 3 for k in key.split("_")): …
        Name.force (Name.title inp.ct key) fun t =>
        if Name.len key > 3 && !(Nat.beq t key)
            && (Py.splitUnderscore (Name.chars key)).all (fun w => w.length > 3)
        then appendName v loc0 key key t else .ok loc0
    match s1 with
    | .error e => .error e
    | .ok loc1 =>
      match findN key inp.alts with
      | none => .ok loc1.reverse
      | some alternatives =>
        let s2 := if prefixable then aliasesPrefixed inp.ct v key inp.prefixes alternatives loc1 else .ok loc1
        match s2 with
        | .error e => .error e
        | .ok loc2 =>
          match aliasesPlain inp.ct v key alternatives loc2 with
          | .error e => .error e
          | .ok loc3 => .ok loc3.reverse

/-- everything appended so far, oldest first, as the oracles of the next iteration -/
def viewOf (outs : List Out) : View :=
  { seen := fun k => outs.any fun o => Nat.beq o.name k,
    names := fun nk => outs.filterMap fun o => if Nat.beq o.nkey nk then some o.name else none }

def generateAux (inp : Inputs) : List (Name × Bool) → List Out → Except (Name × Name) (List Out)
  | [], outs => .ok outs
  | (key, pfx) :: r, outs =>
    match genKey inp (viewOf outs) key pfx with
    | .error e => .error e
    | .ok new => generateAux inp r (outs ++ new)

/-- `generate_name_alternatives()`: the appends in order, or the `RuntimeError` (name, canonical) -/
def generate (inp : Inputs) : Except (Name × Name) (List Out) := generateAux inp inp.lut []

/-- the two returned dicts -/
structure Result where
  /-- `inv_names.items()` -/
  invList : List (Name × Name)
  /-- `names.items()` restricted to non-empty lists, in order of first append -/
  namesList : List (Name × List Name)

def resultOf (outs : List Out) : Result :=
  let keys := outs.foldl (fun acc o => if memN o.nkey acc then acc else acc ++ [o.nkey]) []
  { invList := outs.map fun o => (o.name, o.okey),
    namesList := keys.map fun k => (k, outs.filterMap fun o => if Nat.beq o.nkey k then some o.name else none) }

end Unyt.NameGen
