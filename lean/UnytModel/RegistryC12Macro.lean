/-
  UnytModel.RegistryC12Macro — the two edits that READ the registry before they write it:

  * `define_unit(sym, (v, q), prefixable=p, registry=r)` (unit_object.py:define_unit): `sym in r`
    (→ `RuntimeError`), the quantity `unyt_quantity(v, q, registry=r)` whose unit is `Unit(q, registry=r)`,
    then `r.add(sym, v * scale(q), dimensions(q), prefixable=p)`;
  * `r.modify(sym, unyt_quantity(v, q, registry=r))` (unit_registry.py:modify, `hasattr(base_value, "in_base")`
    branch): the quantity's unit `Unit(q, registry=r)`, then the table update with the MKS value
    `v * scale(q)` and the unit's dimensions (`own = true`: the unit belongs to this registry).

  Each is a composition of `RegC12.step` calls whose LATER calls depend on what the EARLIER ones answered:
  `mexpand s m` is the list of primitive calls the edit performs in state `s`, `mstep` runs them, `mout` is
  what the caller sees.  The specification is the same edit performed on a FRESH registry holding the current
  contents: `mspec`.
-/
import UnytModel.RegistryC12

namespace Unyt.RegC12
open Unyt

/-- a call on the registry: a primitive one, or one of the two reading edits -/
inductive MOp (K : Type) where
  | prim (op : Op K)
  /-- `r.modify(sym, unyt_quantity(v, q, registry=r))` -/
  | modifyQu (sym : String) (v : K) (q : String)
  /-- `define_unit(sym, (v, q), prefixable=p, registry=r)` -/
  | defineUnit (sym : String) (v : K) (q : String) (p : Bool)

/-- `True` was answered -/
def Out.isTrue {K : Type} : Out K → Bool
  | .bool true => true
  | _ => false

/-- the data of the `Unit` object that was answered -/
def Out.unitData {K : Type} : Out K → Option (UnitD K)
  | .unit _ u => some u
  | _ => none

def MOp.isSysId {K : Type} : MOp K → Bool
  | .prim .sysId => true
  | _ => false

section
variable {K : Type} [Mul K] [OfNat K 1] [OfNat K 0] [RPow K]
variable (cfg : Cfg) (pre : Prefixes K) (parse : String → Except Err (PExpr K))

/-- the primitive calls the edit performs when the registry is in state `s` -/
def mexpand (s : RegState K) : MOp K → List (Op K)
  | .prim op => [op]
  | .modifyQu sym v q =>
    match (step cfg pre parse s (.unit q)).2.unitData with
    | some u => [.unit q, .modifyQ sym (v * u.scale) u.dim true]
    | none => [.unit q]
  | .defineUnit sym v q p =>
    let r1 := step cfg pre parse s (.contains sym)
    if r1.2.isTrue then [.contains sym]
    else
      match (step cfg pre parse r1.1 (.unit q)).2.unitData with
      | some u => [.contains sym, .unit q, .add sym ⟨v * u.scale, u.dim, 0, p⟩]
      | none => [.contains sym, .unit q]

/-- what the caller of the edit sees -/
def mout (s : RegState K) : MOp K → Out K
  | .prim op => (step cfg pre parse s op).2
  | .modifyQu sym v q =>
    let r1 := step cfg pre parse s (.unit q)
    match r1.2.unitData with
    | some u => (step cfg pre parse r1.1 (.modifyQ sym (v * u.scale) u.dim true)).2
    | none => r1.2
  | .defineUnit sym v q p =>
    let r1 := step cfg pre parse s (.contains sym)
    if r1.2.isTrue then .err .RuntimeError
    else
      let r2 := step cfg pre parse r1.1 (.unit q)
      match r2.2.unitData with
      | some u => (step cfg pre parse r2.1 (.add sym ⟨v * u.scale, u.dim, 0, p⟩)).2
      | none => r2.2

/-- one call -/
def mstep (s : RegState K) (m : MOp K) : RegState K × Out K :=
  (run cfg pre parse s (mexpand cfg pre parse s m), mout cfg pre parse s m)

def mrun (s : RegState K) (ms : List (MOp K)) : RegState K :=
  ms.foldl (fun s m => (mstep cfg pre parse s m).1) s

/-- the effect of a call on the CONTENTS: that of the same call made on a fresh registry holding them -/
def mspec (c : Lut K) (m : MOp K) : Lut K :=
  contents c (mexpand cfg pre parse (fresh c) m)

def mcontents (t0 : Lut K) (ms : List (MOp K)) : Lut K := ms.foldl (mspec cfg pre parse) t0

end

end Unyt.RegC12
