/-
  UnytModel.Testing — the unit-checking helpers of unyt (property C19).

  Models
  * `unyt/array.py: allclose_units` and `unyt/testing.py: assert_allclose_units`,
    `assert_array_equal_units`;
  * `unyt/_array_functions.py: _array_comp_helper, isclose, allclose, array_equal, array_equiv`
    (the `__array_function__` handlers of `numpy.isclose/allclose/array_equal/array_equiv`) and the
    element rule of `numpy.isclose` they forward to;
  * `unyt/dimensions.py: accepts, returns, _has_dimensions`.

  Everything is a total function.  Numbers are polymorphic over a carrier `K` with `+ - * /`,
  `≤` and `==`: executed at `Float` by the driver, proved about over an arbitrary linear ordered
  field in `UnytProofs/Real/C19Allclose.lean`.  No Mathlib import.

  Not modelled: `equal_nan`/NaN/inf (an ordered field has none), the electromagnetic CGS↔MKS
  route of `in_units`, SI-prefixed offset units (`mdegC`), array-valued tolerances, n-d shapes
  (arrays are 0-d or 1-d; NumPy broadcasting between them is modelled).
-/
import UnytModel.Unit
import UnytModel.Generated.TestingFlags

namespace Unyt.Testing
open Unyt

deriving instance DecidableEq for Except

/-- a unit as the helpers see it: `(base_value, base_offset, dimensions)` -/
structure TUnit (K : Type) where
  scale : K
  offset : K
  dim : Dim
deriving Repr

/-- the closeness test `Unit.__eq__` applies to `base_value` and `base_offset`
    (`math.isclose`, rel_tol 1e-9, at `Float`; exact equality at a lawful carrier) -/
class UnitClose (K : Type) where
  close : K → K → Bool

instance : UnitClose Float := ⟨Float.isclose⟩
/-- exact equality at `Rat` (kernel-evaluated witnesses) -/
instance : UnitClose Rat := ⟨fun a b => a == b⟩

/-- a `unyt_array` as the helpers see it: flattened values, "is 0-d", unit -/
structure Qty (K : Type) where
  vals : List K
  scalar : Bool
  unit : TUnit K
deriving Repr

/-- an argument as the caller passes it -/
inductive ArgIn (K : Type) where
  /-- a bare number / list of numbers / ndarray: no `.units` attribute -/
  | bare (vals : List K) (scalar : Bool)
  /-- a `unyt_array` / `unyt_quantity` -/
  | qty (q : Qty K)
  /-- a Python list/tuple of `unyt_quantity` objects, each with its own unit -/
  | qlist (items : List (K × TUnit K))
deriving Repr

/-- a tolerance argument: a bare number or a `unyt_quantity` -/
inductive Tol (K : Type) where
  | bare (x : K)
  | qty (x : K) (u : TUnit K)
deriving Repr

def Tol.value {K : Type} : Tol K → K
  | .bare x => x
  | .qty x _ => x

section numeric
variable {K : Type} [Add K] [Sub K] [Mul K] [Div K] [Neg K] [OfNat K 0] [OfNat K 1] [BEq K]
  [LE K] [DecidableLE K]

/-- `NULL_UNIT = Unit()` -/
def nullUnit : TUnit K := ⟨1, 0, Dim.one⟩

/-- `Unit.__eq__`: `isclose(base_value) and isclose(base_offset) and dimensions ==` -/
def TUnit.eq [UnitClose K] (u v : TUnit K) : Bool :=
  UnitClose.close u.scale v.scale && UnitClose.close u.offset v.offset && u.dim == v.dim

/-- the number part of `unyt_array.in_units` between commensurable units (non-EM route):
    `ret = x * factor; if offset: ret -= offset` with
    `(factor, offset) = _get_conversion_factor(src, dst)` -/
def convVal (src dst : TUnit K) (x : K) : K :=
  let r := src.scale / dst.scale
  if src.offset == 0 && dst.offset == 0 then x * r
  else
    let o := r * src.offset - dst.offset
    if o != 0 then x * r - o else x * r

/-- `unyt_array.in_units(dst)`: `UnitConversionError` when the dimensions differ -/
def inUnits (src dst : TUnit K) (xs : List K) : Except Err (List K) :=
  if src.dim != dst.dim then .error .UnitConversionError else .ok (xs.map (convVal src dst))

/-! ### `numpy.isclose` / `numpy.allclose` on bare arrays -/

/-- `abs` -/
def absV (x : K) : K := if 0 ≤ x then x else -x

/-- one element of `numpy.isclose` for finite numbers:
    `less_equal(abs(x - y), atol + rtol * abs(y)) | (x == y)` -/
def iscloseElem (rt atl x y : K) : Bool :=
  decide (absV (x - y) ≤ atl + rt * absV y) || x == y

/-- NumPy broadcasting of two arrays that are 0-d or 1-d: a one-element operand is repeated,
    equal lengths pair up, anything else does not broadcast -/
def broadcast2 {α β : Type} : List α → List β → Option (List (α × β))
  | [x], b => some (b.map (fun y => (x, y)))
  | a, [y] => some (a.map (fun x => (x, y)))
  | a, b => if a.length = b.length then some (a.zip b) else none

/-- `numpy.isclose(a, b, rtol, atol)`; `ValueError` when the shapes do not broadcast -/
def npIsclose (rt atl : K) (a b : List K) : Except Err (List Bool) :=
  match broadcast2 a b with
  | none => .error .ValueError
  | some ps => .ok (ps.map (fun p => iscloseElem rt atl p.1 p.2))

/-- `numpy.allclose` = `bool(all(isclose(...)))` -/
def npAllclose (rt atl : K) (a b : List K) : Except Err Bool :=
  match npIsclose rt atl a b with
  | .error e => .error e
  | .ok bs => .ok (bs.all id)

/-! ### `allclose_units` -/

/-- `unyt_array(x)` for the argument kinds above (`unyt_array.__new__`,
    `_coerce_iterable_units`): a bare argument becomes dimensionless, a list of quantities is
    converted to the unit of its first item (`IterableUnitCoercionError` when that fails) -/
def asUnytArray [UnitClose K] : ArgIn K → Except Err (Qty K)
  | .bare vals scalar => .ok ⟨vals, scalar, nullUnit⟩
  | .qty q => .ok q
  | .qlist [] => .ok ⟨[], false, nullUnit⟩
  | .qlist ((x, u) :: rest) =>
    let items := (x, u) :: rest
    if items.any (fun it => !(TUnit.eq u it.2)) then
      if items.any (fun it => it.2.dim != u.dim) then .error .IterableUnitCoercionError
      else .ok ⟨items.map (fun it => convVal it.2 u it.1), false, u⟩
    else .ok ⟨items.map (·.1), false, u⟩

/-- the unit a bare `atol` is given before it is converted to `actual`'s unit:
    `unyt_quantity(atol, des.units)` — `des` has *already been converted* to `actual`'s unit at
    that point, so this is `actual`'s unit; the repaired code (`fixed`) remembers `desired`'s
    own unit -/
def bareAtolUnit (fixed : Bool) (act des0 : TUnit K) : TUnit K :=
  if fixed then des0 else act

/-- the unit `atol` is read in (used by the theorems; the code path is `atolInActualUnit`) -/
def atolUnit (fixed : Bool) (act des0 : TUnit K) : Tol K → TUnit K
  | .bare _ => bareAtolUnit fixed act des0
  | .qty _ u => u

/-- the number `rtol` is used by: `unyt_array(rtol).to_value("dimensionless")` (a bare number is
    already dimensionless) -/
def rtolNumber : Tol K → K
  | .bare x => x
  | .qty x u => convVal u nullUnit x

/-- the dimension of `unyt_array(rtol).units` -/
def rtolDim : Tol K → Dim
  | .bare _ => Dim.one
  | .qty _ u => u.dim

/-- the number `atol` becomes in `actual`'s unit; `none` when the conversion is refused.
    Pinned commit, bare: `unyt_quantity(atol, des.units).in_units(act.units)` with `des` already in
    `actual`'s unit (an identity conversion).  Repaired code, bare: a *difference* in `desired`'s
    own unit: `atol * (one - zero)` where `one`, `zero` are 1 and 0 `desired`-units converted to
    `actual`'s unit (the offset cancels — the plain `unyt_quantity(atol, desired_units)` would turn
    a bare 0 in m°C into a point temperature).  Quantity: `in_units`. -/
def atolInActualUnit (fixed : Bool) (act des0 : TUnit K) : Tol K → Option K
  | .bare x =>
    if fixed then some (x * (convVal des0 act 1 - convVal des0 act 0))
    else some (convVal act act x)
  | .qty x u => if u.dim != act.dim then none else some (convVal u act x)

/-- `allclose_units(actual, desired, rtol, atol)` on two `unyt_array`s, in the order the code
    proceeds: convert `desired` to `actual`'s unit (failure → `False`); `rtol` must be
    dimensionless (else `RuntimeError`) and is then used by its dimensionless value; `atol` is brought to
    `actual`'s unit (`atolInActualUnit`, failure → `False`); `numpy.allclose` on the stripped
    numbers -/
def allcloseQ (fixed : Bool) (act des0 : Qty K) (rtol atol : Tol K) : Except Err Bool :=
  match inUnits des0.unit act.unit des0.vals with
  | .error _ => .ok false
  | .ok des =>
    if rtolDim rtol != Dim.one then .error .RuntimeError
    else
      match atolInActualUnit fixed act.unit des0.unit atol with
      | none => .ok false
      | some av => npAllclose (rtolNumber rtol) av act.vals des

/-- `q.in_units(u)` for a commensurable `u`: the same quantity written in another unit -/
def Qty.reexpress (q : Qty K) (u : TUnit K) : Qty K :=
  ⟨q.vals.map (convVal q.unit u), q.scalar, u⟩

/-- `allclose_units` on arguments as passed, with the bare-`atol` rule selected by `fixed` -/
def allcloseUnitsWith [UnitClose K] (fixed : Bool) (actual desired : ArgIn K) (rtol atol : Tol K) :
    Except Err Bool :=
  match asUnytArray actual with
  | .error e => .error e
  | .ok act =>
    match asUnytArray desired with
    | .error e => .error e
    | .ok des0 => allcloseQ fixed act des0 rtol atol

/-- `allclose_units` as the source currently is: the flag is regenerated from `/repo` on every
    run by `tools/extract.d/c19_flags.py` -/
def allcloseUnits [UnitClose K] (actual desired : ArgIn K) (rtol atol : Tol K) : Except Err Bool :=
  allcloseUnitsWith Generated.bareAtolInDesiredUnit actual desired rtol atol

/-- what an asserting helper does -/
inductive AssertOutcome where
  | pass
  | assertionError
  | raised (e : Err)
deriving DecidableEq, Repr

/-- `assert_allclose_units`: `if not allclose_units(...): raise AssertionError` -/
def assertAllcloseUnitsWith [UnitClose K] (fixed : Bool) (actual desired : ArgIn K)
    (rtol atol : Tol K) : AssertOutcome :=
  match allcloseUnitsWith fixed actual desired rtol atol with
  | .ok true => .pass
  | .ok false => .assertionError
  | .error e => .raised e

def assertAllcloseUnits [UnitClose K] (actual desired : ArgIn K) (rtol atol : Tol K) :
    AssertOutcome :=
  assertAllcloseUnitsWith Generated.bareAtolInDesiredUnit actual desired rtol atol

/-! ### the NumPy handlers -/

/-- `getattr(x, "units", NULL_UNIT)` -/
def unitsAttr : ArgIn K → TUnit K
  | .qty q => q.unit
  | _ => nullUnit

/-- `np.asarray(x)` / `np.array(x)` of an argument (lists of quantities are outside the model) -/
def rawVals : ArgIn K → List K
  | .bare vals _ => vals
  | .qty q => q.vals
  | .qlist items => items.map (·.1)

def isScalar : ArgIn K → Bool
  | .bare _ s => s
  | .qty q => q.scalar
  | .qlist _ => false

/-- `_array_comp_helper(a, b)`: the two value lists in a common unit, and that unit.
    Only when both units are different from each other and from `NULL_UNIT` is anything
    converted (`b` to `a`'s unit, raising when that is impossible); a `NULL_UNIT` side simply
    adopts the other side's unit -/
def arrayCompHelper [UnitClose K] (a b : ArgIn K) : Except Err (List K × List K × TUnit K) :=
  let au := unitsAttr a
  let bu := unitsAttr b
  if !(TUnit.eq bu au) && !(TUnit.eq au nullUnit) && !(TUnit.eq bu nullUnit) then
    match inUnits bu au (rawVals b) with
    | .error e => .error e
    | .ok b' => .ok (rawVals a, b', au)
  else if TUnit.eq bu nullUnit then .ok (rawVals a, rawVals b, au)
  else if TUnit.eq au nullUnit then .ok (rawVals a, rawVals b, bu)
  else .ok (rawVals a, rawVals b, au)

/-- handler of `numpy.isclose` with bare tolerances -/
def iscloseHandler [UnitClose K] (a b : ArgIn K) (rt atl : K) : Except Err (List Bool) :=
  match arrayCompHelper a b with
  | .error e => .error e
  | .ok (x, y, _) => npIsclose rt atl x y

/-- handler of `numpy.allclose` with bare tolerances -/
def allcloseHandler [UnitClose K] (a b : ArgIn K) (rt atl : K) : Except Err Bool :=
  match arrayCompHelper a b with
  | .error e => .error e
  | .ok (x, y, _) => npAllclose rt atl x y

/-- `numpy.array_equal` on bare arrays: same shape and all elements equal -/
def npArrayEqual (a b : List K) (sa sb : Bool) : Bool :=
  sa == sb && a.length == b.length && (a.zip b).all (fun p => p.1 == p.2)

/-- `numpy.array_equiv` on bare arrays: broadcastable and all elements equal -/
def npArrayEquiv (a b : List K) : Bool :=
  match broadcast2 a b with
  | none => false
  | some ps => ps.all (fun p => p.1 == p.2)

/-- handler of `numpy.array_equal`: `if u2 != u1: return False` then the raw comparison -/
def arrayEqualHandler [UnitClose K] (a b : ArgIn K) : Bool :=
  if !(TUnit.eq (unitsAttr b) (unitsAttr a)) then false
  else npArrayEqual (rawVals a) (rawVals b) (isScalar a) (isScalar b)

/-- handler of `numpy.array_equiv` -/
def arrayEquivHandler [UnitClose K] (a b : ArgIn K) : Bool :=
  if !(TUnit.eq (unitsAttr b) (unitsAttr a)) then false
  else npArrayEquiv (rawVals a) (rawVals b)

/-- how `assert_array_equal_units` ends -/
inductive AEUOutcome where
  | pass
  /-- `numpy.testing.assert_array_equal` found different numbers (after unyt's `==` converted
      the second operand) or different shapes -/
  | valuesDiffer
  /-- the numbers agree but `x.units == y.units` is false -/
  | unitsDiffer
  /-- the units are not interchangeable for `==` (different dimensions, or an offset unit):
      some exception escapes from NumPy's comparison machinery -/
  | refused
deriving DecidableEq, Repr

/-- `numpy.testing.assert_array_equal` shape rule: equal shapes, or either side 0-d -/
def assertShapesOk (a b : ArgIn K) : Bool :=
  isScalar a || isScalar b || (rawVals a).length == (rawVals b).length

/-- `assert_array_equal_units(x, y)`: first `numpy.testing.assert_array_equal(x, y)` — which
    compares with unyt's `==`, i.e. after converting `y` to `x`'s unit when the two are
    commensurable, a bare side adopting the other's unit — then `x.units == y.units` -/
def assertArrayEqualUnits [UnitClose K] (x y : ArgIn K) : AEUOutcome :=
  let xu := unitsAttr x
  let yu := unitsAttr y
  let bareSide : Bool := match x, y with | .qty _, .qty _ => false | _, _ => true
  if TUnit.eq xu yu || bareSide then
    -- no conversion happens in `==`
    if !(assertShapesOk x y) then .valuesDiffer
    else match broadcast2 (rawVals x) (rawVals y) with
      | none => .valuesDiffer
      | some ps =>
        if ps.all (fun p => p.1 == p.2) then (if TUnit.eq xu yu then .pass else .unitsDiffer)
        else .valuesDiffer
  else if xu.dim != yu.dim || !(xu.offset == 0 && yu.offset == 0) then .refused
  else
    if !(assertShapesOk x y) then .valuesDiffer
    else match broadcast2 (rawVals x) ((rawVals y).map (convVal yu xu)) with
      | none => .valuesDiffer
      | some ps => if ps.all (fun p => p.1 == p.2) then .unitsDiffer else .valuesDiffer

end numeric

/-! ### `accepts` / `returns` / `_has_dimensions` -/

/-- what the decorators can observe of a Python value: an identity (to state "unaltered"),
    and its unit if it has a `.units.dimensions` attribute -/
structure PyVal where
  id : Nat
  unit : Option (TUnit Rat)
deriving Repr

def PyVal.dim (v : PyVal) : Option Dim := v.unit.map (·.dim)

/-- `_has_dimensions(quant, dim)`: `quant.units.dimensions == dim`, an object without the
    attribute counting as dimensionless -/
def hasDimensions (q : Option Dim) (d : Dim) : Bool := q.getD Dim.one == d

/-- a call `f(*pos, **kw)` -/
structure Call where
  pos : List PyVal
  kw : List (String × PyVal)
deriving Repr

/-- outcome of a decorated call, and whether the wrapped function was entered -/
structure Traced (β : Type) where
  called : Bool
  out : Except Err β

/-- the `(name, value)` pairs `accepts` looks at:
    `chain(zip(f.__code__.co_varnames, args), kwargs.items())` -/
def supplied (varnames : List String) (c : Call) : List (String × PyVal) :=
  varnames.zip c.pos ++ c.kw

/-- does `accepts` object to this `(name, value)` pair -/
def acceptsRejects (argUnits : List (String × Dim)) (nv : String × PyVal) : Bool :=
  match argUnits.lookup nv.1 with
  | some d => !(hasDimensions nv.2.dim d)
  | none => false

/-- `accepts(**arg_units)(f)(*args, **kwargs)`: every supplied argument named in `arg_units` is
    checked, in order, before `f` is called; the first mismatch raises `TypeError` -/
def accepts {β : Type} (argUnits : List (String × Dim)) (varnames : List String)
    (f : Call → Except Err β) (c : Call) : Traced β :=
  match (supplied varnames c).find? (acceptsRejects argUnits) with
  | some _ => ⟨false, .error .TypeError⟩
  | none => ⟨true, f c⟩

/-- a function result: one object, or a tuple -/
inductive PyResult where
  | single (v : PyVal)
  | tuple (vs : List PyVal)
deriving Repr

/-- `result_tuple = results if isinstance(results, tuple) else (results,)` -/
def PyResult.asTuple : PyResult → List PyVal
  | .single v => [v]
  | .tuple vs => vs

/-- the decoration-time part of `returns(*r_units, r_unit=None)`: the deprecated keyword is
    accepted alone (→ one dimension) and refused together with positional dimensions -/
def returnsDims (rUnits : List Dim) (rUnit : Option Dim) : Except Err (List Dim) :=
  match rUnit with
  | none => .ok rUnits
  | some d => if rUnits.length > 0 then .error .ValueError else .ok [d]

/-- `returns(*dims)(f)(*args, **kwargs)`: call `f`, check `zip(result_tuple, dims)`, return the
    very object `f` returned -/
def returns (dims : List Dim) (f : Call → Except Err PyResult) (c : Call) : Traced PyResult :=
  match f c with
  | .error e => ⟨true, .error e⟩
  | .ok r =>
    if (r.asTuple.zip dims).all (fun p => hasDimensions p.1.dim p.2) then ⟨true, .ok r⟩
    else ⟨true, .error .TypeError⟩

/-- a *history* of calls of one decorated function `accepts(**arg_units)(f)`: the decorator keeps
    no state between calls (its closure holds only `arg_units`, `f` and `co_varnames`), so the
    outcomes are the outcomes of the single calls, in order -/
def acceptsHistory {β : Type} (argUnits : List (String × Dim)) (varnames : List String)
    (f : Call → Except Err β) : List Call → List (Traced β)
  | [] => []
  | c :: cs => accepts argUnits varnames f c :: acceptsHistory argUnits varnames f cs

/-- likewise for one function decorated with `returns(*dims)` -/
def returnsHistory (dims : List Dim) (f : Call → Except Err PyResult) :
    List Call → List (Traced PyResult)
  | [] => []
  | c :: cs => returns dims f c :: returnsHistory dims f cs

/-- a Python signature as far as binding of the checked parameters goes -/
structure Sig where
  /-- `co_varnames` -/
  varnames : List String
  /-- parameters that have a default, with the default object -/
  defaults : List (String × PyVal)
deriving Repr

/-- value `v` ends up bound to parameter `p`: it was supplied under that name, or nothing was
    and `v` is the default -/
def Bound (sig : Sig) (c : Call) (p : String) (v : PyVal) : Prop :=
  (p, v) ∈ supplied sig.varnames c ∨
    ((∀ w, (p, w) ∉ supplied sig.varnames c) ∧ (p, v) ∈ sig.defaults)

end Unyt.Testing
