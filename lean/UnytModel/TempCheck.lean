/-
  UnytModel.TempCheck — executable Boolean checks of the regenerated temperature rows, prefixes,
  ufunc rules and code literals against the hand-written reference (`Ref.C08`); decided by the
  kernel in `UnytProofs/C08.lean`.
-/
import UnytModel.TableCheck
import UnytModel.TempTable
import UnytModel.Ref.C08

namespace Unyt.Temp

/-- relative tolerance of the row check: 2⁻⁵⁰ (the rows are the doubles nearest to 1, 5/9,
    −273.15, −459.67) -/
def rowTol : Rat := 1 / (2 : Rat) ^ (50 : Nat)

/-- the regenerated row of `b` is the exact row within `rowTol`, with the right prefixable flag -/
def rowExact (b : TBase) : Bool :=
  let g := genRow Rat b
  let e : TRow Rat := Ref.exactTab b
  within g.scale e.scale rowTol
  && (if e.offset == 0 then g.offset == 0 else within g.offset e.offset rowTol)
  && g.prefixable == e.prefixable

def rowsExact : Bool := TBase.all.all rowExact

/-- the structural facts the additive logic relies on, exactly (no tolerance): which rows carry an
    offset, the delta units have the size of their point unit, K has the size of delta_degC, no
    scale is zero -/
def rowsStructure : Bool :=
  let t := genTab Rat
  TBase.all.all (fun b => ((t b).offset != 0) == (Ref.kind b == .point) && (t b).scale != 0)
  && (t .dC).scale == (t .degC).scale && (t .dF).scale == (t .degF).scale
  && (t .K).scale == (t .dC).scale && (t .R).scale == (t .dF).scale

/-- no other temperature row of the table carries an offset: degC and degF are the only offset
    scales the library knows -/
def universeClosed : Bool := genOtherRows.all fun r => ratOfBits r.2.2 == 0

/-- the prefix table is the SI prefix table (values within 2⁻⁵⁰ of the power of ten), both ways -/
def prefixesExact : Bool :=
  Generated.tempPrefixes.all (fun (s, _, v) =>
    match Ref.siPrefixes.lookup s with
    | some e => within (ratOfBits v) (Unyt.Ref.pow10 e) rowTol
    | none => false)
  && Ref.siPrefixes.all (fun (s, _) => genSyms.contains s)

/-- every ufunc the temperature semantics depends on is registered with the expected unit rule -/
def rulesMatch : Bool := Ref.ruleClass.all fun (uf, r) => genRule uf == r

/-- the string / name literals of the guards are the ones the model uses -/
def codeConstantsMatch : Bool :=
  Generated.krNames == krLit
  && Generated.ufuncStartsWith == deltaLit
  && Generated.diffStartsWith == deltaLit
  && Generated.diffPointToDelta == [(TBase.degF.name, TBase.dF.name), (TBase.degC.name, TBase.dC.name)]
  && Generated.diffHelperUnit == TBase.dC.name

/-- `_split_prefix(str(u))` finds a prefix exactly for the prefixed spellings of the prefixable
    symbols: for every prefix `s` and prefixable `b`, `s ++ b` splits; no bare display name does -/
def splitFactsOK (syms : List Name) (names : List (Name × Bool)) : Bool :=
  (syms.all fun s => TBase.all.all fun b =>
      !Ref.prefixable b || splitsPrefix syms names (s ++ b.name))
  && TBase.all.all fun b => !splitsPrefix syms names b.display

end Unyt.Temp
