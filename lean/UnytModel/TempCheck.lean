/-
  UnytModel.TempCheck — executable Boolean checks of the regenerated temperature rows, prefixes,
  ufunc rules and code literals against the hand-written reference (`Ref.C08`); decided by the
  kernel in `UnytProofs/C08.lean`.
-/
import UnytModel.TableCheck
import UnytModel.TempTable
import UnytModel.Ref.C08

namespace Unyt.Temp

/-- relative tolerance of the row check: 2⁻⁵⁰ (the rows are the doubles nearest to 1, 5/9,
    −273.15, −459.67) -/
def rowTol : Rat := 1 / (2 : Rat) ^ (50 : Nat)

/-- the regenerated row of `b` is the exact row within `rowTol`, with the right prefixable flag -/
def rowExact (b : TBase) : Bool :=
  let g := genRow Rat b
  let e : TRow Rat := Ref.exactTab b
  within g.scale e.scale rowTol
  && (if e.offset == 0 then g.offset == 0 else within g.offset e.offset rowTol)
  && g.prefixable == e.prefixable

def rowsExact : Bool := TBase.all.all rowExact

/-- the structural facts the additive logic relies on, exactly (no tolerance): which rows carry an
    offset, the delta units have the size of their point unit, K has the size of delta_degC, no
    scale is zero -/
def rowsStructure : Bool :=
  let t := genTab Rat
  TBase.all.all (fun b => ((t b).offset != 0) == (Ref.kind b == .point) && (t b).scale != 0)
  && (t .dC).scale == (t .degC).scale && (t .dF).scale == (t .degF).scale
  && (t .K).scale == (t .dC).scale && (t .R).scale == (t .dF).scale

/-- no other temperature row of the table carries an offset: degC and degF are the only offset
    scales the library knows -/
def universeClosed : Bool := genOtherRows.all fun r => ratOfBits r.2.2 == 0

/-- the prefix table is the SI prefix table (values within 2⁻⁵⁰ of the power of ten), both ways -/
def prefixesExact : Bool :=
  Generated.tempPrefixes.all (fun (s, _, v) =>
    match Ref.siPrefixes.lookup s with
    | some e => within (ratOfBits v) (Unyt.Ref.pow10 e) rowTol
    | none => false)
  && Ref.siPrefixes.all (fun (s, _) => genSyms.contains s)

/-- every ufunc the temperature semantics depends on is registered with the expected unit rule -/
def rulesMatch : Bool := Ref.ruleClass.all fun (uf, r) => genRule uf == r

/-- the string / name literals of the guards are the ones the model uses -/
def codeConstantsMatch : Bool :=
  Generated.krNames == krLit
  && Generated.ufuncStartsWith == deltaLit
  && Generated.diffStartsWith == deltaLit
  && Generated.diffPointToDelta == [(TBase.degF.name, TBase.dF.name), (TBase.degC.name, TBase.dC.name)]
  && Generated.diffHelperUnit == TBase.dC.name
  -- the guards the three repairs consist of: regenerated source text = the text the model implements
  && Generated.powRaiseGuards == srcPowRaiseGuards.map Name.ofString
  && Generated.diffHelperOuter == srcDiffHelperOuter.map Name.ofString
  && Generated.diffHelperRaiseGuards == srcDiffHelperRaiseGuards.map Name.ofString
  && Generated.diffHelperLabel == srcDiffHelperLabel.map Name.ofString
  && Generated.firstOperandRescaling
      == srcFirstOperandRescaling.map fun (a, b, c) => (Name.ofString a, Name.ofString b, c.map Name.ofString)

/-- `_split_prefix(str(u))` finds a prefix exactly for the prefixed spellings of the prefixable
    symbols: for every prefix `s` and prefixable `b`, `s ++ b` splits; no bare display name does -/
def splitFactsOK (syms : List Name) (names : List (Name × Bool)) : Bool :=
  (syms.all fun s => TBase.all.all fun b =>
      !Ref.prefixable b || splitsPrefix syms names (s ++ b.name))
  && TBase.all.all fun b => !splitsPrefix syms names b.display

/-! ### the decision skeleton at the table the code holds = the skeleton at the exact table -/

/-- a unit of the regenerated universe in two guises: with the regenerated prefix value (what the
    code computes with) and with the exact power of ten (what the theorems are about) -/
structure UPair where
  gen : TU Rat
  exact : TU Rat

/-- every unit the regenerated tables admit: the six symbols, and each prefix of `unit_prefixes`
    on each symbol whose regenerated row is prefixable -/
def genUniverse : List UPair :=
  (TBase.all.map fun b => (⟨⟨none, b⟩, ⟨none, b⟩⟩ : UPair)) ++
  (Generated.tempPrefixes.flatMap fun (s, _, v) =>
    (TBase.all.filter fun b => (genRow Rat b).prefixable).map fun b =>
      let e : Rat := match Ref.siPrefixes.lookup s with
        | some k => Unyt.Ref.pow10 k
        | none => 0
      (⟨⟨some ⟨s, ratOfBits v⟩, b⟩, ⟨some ⟨s, e⟩, b⟩⟩ : UPair))

/-- what a call decides before any number is computed: the refusal, or the label and whether the
    second operand is rescaled -/
def skeleton (r : Except Err (Option (TU Rat) × Option Rat)) : Option Err × Option Name × Bool :=
  match r with
  | .error e => (some e, none, false)
  | .ok (l, c) => (none, l.map (·.repr), c.isSome)

def errOf {α : Type} (r : Except Err α) : Option Err :=
  match r with
  | .error e => some e
  | .ok _ => none

/-- a stand-in rational power on `Rat` (there is no lawful one): only refusals are compared below,
    never a scale.  Deliberately NOT an instance; it is made a `local instance` for the two
    definitions of this file (and, locally, for one `example` of `UnytProofs/C08.lean`), so it
    cannot reach any theorem of a module that imports this one. -/
@[instance_reducible] def refusalOnlyRPow : RPow Rat := ⟨fun x _ => x⟩

section
attribute [local instance] refusalOnlyRPow

/-- the unary forms compared below: every constructor, with the exponents the harness uses and the
    exempt ones (0, 1; reductions over 0, 1, 2, 3 elements) -/
def unaryForms : List UnOp :=
  [.sqrt, .cbrt, .square, .reciprocal,
   .power 0, .power 1, .power 2, .power 3, .power (-1), .power (-2), .power (1 / 2), .power (3 / 2),
   .mulReduce 0, .mulReduce 1, .mulReduce 2, .mulReduce 3]


/-- for every ordered pair of units of the regenerated universe, the model decides the same
    refusal / label / rescaling under `rule` on the regenerated table as on the exact table -/
def decisionsMatchRule (r : Rule) : Bool :=
  genUniverse.all fun a => genUniverse.all fun b =>
    skeleton (binaryPrep r (genTab Rat) a.gen b.gen) == skeleton (binaryPrep r Ref.exactTab a.exact b.exact)

/-- likewise the refusals of `*`, `/`, `//` (the partner being any temperature unit, a number /
    dimensionless quantity, or a quantity of another dimension, on either side), of every unary form
    of `unaryForms`, and of `diff_helper` -/
def decisionsMatchOther : Bool :=
  genUniverse.all fun a =>
    (genUniverse.all fun b =>
      errOf (tempMul (genTab Rat) (.temp a.gen) (.temp b.gen)) == errOf (tempMul Ref.exactTab (.temp a.exact) (.temp b.exact))
      && errOf (tempDivide (genTab Rat) (.temp a.gen) (.temp b.gen)) == errOf (tempDivide Ref.exactTab (.temp a.exact) (.temp b.exact))
      && errOf (tempFloorDivide (genTab Rat) (.temp a.gen) (.temp b.gen)) == errOf (tempFloorDivide Ref.exactTab (.temp a.exact) (.temp b.exact)))
    && ([Opnd.dimless, Opnd.other].all fun (o : Opnd Rat) =>
      errOf (tempMul (genTab Rat) (.temp a.gen) o) == errOf (tempMul Ref.exactTab (.temp a.exact) o)
      && errOf (tempMul (genTab Rat) o (.temp a.gen)) == errOf (tempMul Ref.exactTab o (.temp a.exact))
      && errOf (tempDivide (genTab Rat) (.temp a.gen) o) == errOf (tempDivide Ref.exactTab (.temp a.exact) o)
      && errOf (tempDivide (genTab Rat) o (.temp a.gen)) == errOf (tempDivide Ref.exactTab o (.temp a.exact))
      && errOf (tempFloorDivide (genTab Rat) (.temp a.gen) o) == errOf (tempFloorDivide Ref.exactTab (.temp a.exact) o)
      && errOf (tempFloorDivide (genTab Rat) o (.temp a.gen)) == errOf (tempFloorDivide Ref.exactTab o (.temp a.exact)))
    && errOf (diffHelper (genTab Rat) a.gen) == errOf (diffHelper Ref.exactTab a.exact)
    && unaryForms.all fun op =>
      errOf (tempUnary (genTab Rat) op a.gen) == errOf (tempUnary Ref.exactTab op a.exact)

end

/-! ### the numbers the regenerated table contributes are the exact ones up to rounding -/

/-- relative tolerance for the numbers computed from two table cells (each within 2⁻⁵⁰) -/
def numTol : Rat := 1 / (2 : Rat) ^ (47 : Nat)

def optClose (a b : Option Rat) : Bool :=
  match a, b with
  | some x, some y => within x y numTol
  | none, none => true
  | _, _ => false

/-- for every ordered pair of units of the regenerated universe: the factor the rescaling block
    applies to the second operand and the factor `u0.scale / u1.scale` applied to the first operand
    in the difference + point branch, computed from the regenerated table (the exact dyadic values
    of the doubles the code holds), are within 2⁻⁴⁷ (relative) of those computed from the exact table -/
def numbersCloseArith : Bool :=
  genUniverse.all fun a => genUniverse.all fun b =>
    let g := genTab Rat
    let e : TTable Rat := Ref.exactTab
    (match convSecond g a.gen b.gen, convSecond e a.exact b.exact with
      | .ok c, .ok c' => optClose c c'
      | .error _, .error _ => true
      | _, _ => false)
    && within (a.gen.scale g / b.gen.scale g) (a.exact.scale e / b.exact.scale e) numTol

/-- likewise the factor and the offset of `_get_conversion_factor` (the offset relative to the sizes
    of its two terms) -/
def numbersCloseConv : Bool :=
  genUniverse.all fun a => genUniverse.all fun b =>
    let g := genTab Rat
    let e : TTable Rat := Ref.exactTab
    let f := tempConvFactor genSyms genNames g a.gen b.gen
    let f' := tempConvFactor genSyms genNames e a.exact b.exact
    within f.1 f'.1 numTol
    && (match f.2, f'.2 with
        | some o, some o' =>
          let eu := effOffset (splitsPrefix genSyms genNames a.exact.str) (a.exact.scale e) (a.exact.offset e)
          let ev := effOffset (splitsPrefix genSyms genNames b.exact.str) (b.exact.scale e) (b.exact.offset e)
          decide (absR (o - o') ≤ numTol * (absR (f'.1 * eu) + absR ev))
        | none, none => true
        | _, _ => false)

/-- `math.isclose(a, b)` (rel_tol = 1e-9, abs_tol = 0) on exact rationals -/
def ratIsClose (a b : Rat) : Bool :=
  a == b || decide (absR (a - b) ≤ (1 / 1000000000 : Rat) * (if absR a ≥ absR b then absR a else absR b))

/-- on the regenerated universe `Unit.__eq__`'s `isclose` tests are equality tests: no two units
    have scales (or offsets) that are close without being equal — the reading of `unitEq` the
    theorems use (`LawfulIsClose`) loses nothing on this family -/
def iscloseIsEquality : Bool :=
  genUniverse.all fun a => genUniverse.all fun b =>
    let g := genTab Rat
    ratIsClose (a.gen.scale g) (b.gen.scale g) == (a.gen.scale g == b.gen.scale g)
    && ratIsClose (a.gen.offset g) (b.gen.offset g) == (a.gen.offset g == b.gen.offset g)

end Unyt.Temp
