/-
  UnytModel.TempCheck — executable Boolean checks of the regenerated temperature rows, prefixes,
  ufunc rules and code literals against the hand-written reference (`Ref.C08`); decided by the
  kernel in `UnytProofs/C08.lean`.
-/
import UnytModel.TableCheck
import UnytModel.TempTable
import UnytModel.Ref.C08

namespace Unyt.Temp

/-- relative tolerance of the row check: 2⁻⁵⁰ (the rows are the doubles nearest to 1, 5/9,
    −273.15, −459.67) -/
def rowTol : Rat := 1 / (2 : Rat) ^ (50 : Nat)

/-- the regenerated row of `b` is the exact row within `rowTol`, with the right prefixable flag -/
def rowExact (b : TBase) : Bool :=
  let g := genRow Rat b
  let e : TRow Rat := Ref.exactTab b
  within g.scale e.scale rowTol
  && (if e.offset == 0 then g.offset == 0 else within g.offset e.offset rowTol)
  && g.prefixable == e.prefixable

def rowsExact : Bool := TBase.all.all rowExact

/-- the structural facts the additive logic relies on, exactly (no tolerance): which rows carry an
    offset, the delta units have the size of their point unit, K has the size of delta_degC, no
    scale is zero -/
def rowsStructure : Bool :=
  let t := genTab Rat
  TBase.all.all (fun b => ((t b).offset != 0) == (Ref.kind b == .point) && (t b).scale != 0)
  && (t .dC).scale == (t .degC).scale && (t .dF).scale == (t .degF).scale
  && (t .K).scale == (t .dC).scale && (t .R).scale == (t .dF).scale

/-- no other temperature row of the table carries an offset: degC and degF are the only offset
    scales the library knows -/
def universeClosed : Bool := genOtherRows.all fun r => ratOfBits r.2.2 == 0

/-- the prefix table is the SI prefix table (values within 2⁻⁵⁰ of the power of ten), both ways -/
def prefixesExact : Bool :=
  Generated.tempPrefixes.all (fun (s, _, v) =>
    match Ref.siPrefixes.lookup s with
    | some e => within (ratOfBits v) (Unyt.Ref.pow10 e) rowTol
    | none => false)
  && Ref.siPrefixes.all (fun (s, _) => genSyms.contains s)

/-- every ufunc the temperature semantics depends on is registered with the expected unit rule -/
def rulesMatch : Bool := Ref.ruleClass.all fun (uf, r) => genRule uf == r

/-- the string / name literals of the guards are the ones the model uses -/
def codeConstantsMatch : Bool :=
  Generated.krNames == krLit
  && Generated.ufuncStartsWith == deltaLit
  && Generated.diffStartsWith == deltaLit
  && Generated.diffPointToDelta == [(TBase.degF.name, TBase.dF.name), (TBase.degC.name, TBase.dC.name)]
  && Generated.diffHelperUnit == TBase.dC.name
  && Generated.diffHelperKeepsUnit && Generated.powChecksOffset && Generated.addRescalesFirst

/-- `_split_prefix(str(u))` finds a prefix exactly for the prefixed spellings of the prefixable
    symbols: for every prefix `s` and prefixable `b`, `s ++ b` splits; no bare display name does -/
def splitFactsOK (syms : List Name) (names : List (Name × Bool)) : Bool :=
  (syms.all fun s => TBase.all.all fun b =>
      !Ref.prefixable b || splitsPrefix syms names (s ++ b.name))
  && TBase.all.all fun b => !splitsPrefix syms names b.display

/-! ### the decision skeleton at the table the code holds = the skeleton at the exact table -/

/-- a unit of the regenerated universe in two guises: with the regenerated prefix value (what the
    code computes with) and with the exact power of ten (what the theorems are about) -/
structure UPair where
  gen : TU Rat
  exact : TU Rat

/-- every unit the regenerated tables admit: the six symbols, and each prefix of `unit_prefixes`
    on each symbol whose regenerated row is prefixable -/
def genUniverse : List UPair :=
  (TBase.all.map fun b => (⟨⟨none, b⟩, ⟨none, b⟩⟩ : UPair)) ++
  (Generated.tempPrefixes.flatMap fun (s, _, v) =>
    (TBase.all.filter fun b => (genRow Rat b).prefixable).map fun b =>
      let e : Rat := match Ref.siPrefixes.lookup s with
        | some k => Unyt.Ref.pow10 k
        | none => 0
      (⟨⟨some ⟨s, ratOfBits v⟩, b⟩, ⟨some ⟨s, e⟩, b⟩⟩ : UPair))

/-- what a call decides before any number is computed: the refusal, or the label and whether the
    second operand is rescaled -/
def skeleton (r : Except Err (Option (TU Rat) × Option Rat)) : Option Err × Option Name × Bool :=
  match r with
  | .error e => (some e, none, false)
  | .ok (l, c) => (none, l.map (·.repr), c.isSome)

def errOf {α : Type} (r : Except Err α) : Option Err :=
  match r with
  | .error e => some e
  | .ok _ => none

instance : RPow Rat := ⟨fun x _ => x⟩  -- only refusals are compared below; the scale is not

/-- for every ordered pair of units of the regenerated universe, the model decides the same
    refusal / label / rescaling under `rule` on the regenerated table as on the exact table -/
def decisionsMatchRule (r : Rule) : Bool :=
  genUniverse.all fun a => genUniverse.all fun b =>
    skeleton (binaryPrep r (genTab Rat) a.gen b.gen) == skeleton (binaryPrep r Ref.exactTab a.exact b.exact)

/-- likewise the refusals of `*`, `/`, the unary forms and `diff_helper` -/
def decisionsMatchOther : Bool :=
  genUniverse.all fun a =>
    (genUniverse.all fun b =>
      errOf (tempMul (genTab Rat) (.temp a.gen) (.temp b.gen)) == errOf (tempMul Ref.exactTab (.temp a.exact) (.temp b.exact))
      && errOf (tempDivide (genTab Rat) (.temp a.gen) (.temp b.gen)) == errOf (tempDivide Ref.exactTab (.temp a.exact) (.temp b.exact))
      && errOf (tempFloorDivide (genTab Rat) (.temp a.gen) (.temp b.gen)) == errOf (tempFloorDivide Ref.exactTab (.temp a.exact) (.temp b.exact)))
    && errOf (diffHelper (genTab Rat) a.gen) == errOf (diffHelper Ref.exactTab a.exact)
    && errOf (tempUnary (genTab Rat) .square a.gen) == errOf (tempUnary Ref.exactTab .square a.exact)
    && errOf (tempUnary (genTab Rat) .sqrt a.gen) == errOf (tempUnary Ref.exactTab .sqrt a.exact)

end Unyt.Temp
