/-
  UnytModel.UfuncValue — value-level semantics of the ufunc unit rules.

  Models, in `unyt/array.py`: the cached unit rules `_multiply_units`, `_divide_units`,
  `_preserve_units`, `_difference_units`, `_power_unit`, `_sqrt_unit`, `_cbrt_unit`,
  `_square_unit`, `_reciprocal_unit`, `_passthrough_unit`, `_return_without_unit`,
  `_arctan2_unit`, `_comparison_unit`, `_bitop_units`, `_invert_units`,
  `_apply_power_mapping`; the value path of `unyt_array.__array_ufunc__` (the factor applied to
  the second operand, the post-multiplication by the scale of a dimensionless-ratio result,
  the final multiplication by the simplification coefficient, the trigonometric-of-angle
  conversion, reductions of multiply/divide as powers); `unyt_array.dot`, `__pow__`, `__pos__`.
  In `unyt/unit_object.py`: `Unit.simplify`, `_factor_pairs`, `_create_unit_from_factor`,
  `_cancel_mul`.

  The numeric kernel of each ufunc is a parameter `F`.  With `o : Out K` the outcome of the
  dispatcher, the number the library returns is `o.value F x₀ x₁ = o.mul * (F x₀ (x₁ * o.conv) *
  o.post)` labelled with `o.unit`, so its SI magnitude is `scale(o.unit) * o.value F x₀ x₁`.
  (The dimension-check side of the dispatcher — operand kinds, refusals — is C01's model; here
  it appears only as far as it decides which factor is applied.)
-/
import UnytModel.Convert
import UnytModel.Generated.C04Ufuncs

namespace Unyt.UV
open Unyt

/-! ### the unit rules -/

/-- the rule functions that occur as values of `unyt_array._ufunc_registry` -/
inductive Rule
  | preserve | difference | multiply | divide | power | sqrt | cbrt | square | reciprocal
  | passthrough | withoutUnit | arctan2 | comparison | bitop | invert | floorDivide
deriving DecidableEq, Repr, Inhabited

/-- the Python name of the rule function -/
def Rule.pyName : Rule → String
  | .preserve => "_preserve_units" | .difference => "_difference_units"
  | .multiply => "_multiply_units" | .divide => "_divide_units" | .power => "_power_unit"
  | .sqrt => "_sqrt_unit" | .cbrt => "_cbrt_unit" | .square => "_square_unit"
  | .reciprocal => "_reciprocal_unit" | .passthrough => "_passthrough_unit"
  | .withoutUnit => "_return_without_unit" | .arctan2 => "_arctan2_unit"
  | .comparison => "_comparison_unit" | .bitop => "_bitop_units" | .invert => "_invert_units"
  | .floorDivide => "_floor_divide_units"

def Rule.all : List Rule :=
  [.preserve, .difference, .multiply, .divide, .power, .sqrt, .cbrt, .square, .reciprocal,
   .passthrough, .withoutUnit, .arctan2, .comparison, .bitop, .invert, .floorDivide]

def Rule.ofName (s : String) : Option Rule := Rule.all.find? fun r => r.pyName == s

/-- `unyt_array._ufunc_registry[ufunc]` over the regenerated table (`none` = `KeyError`, or a
    rule function this model does not know — the table obligation `rules_are_known` excludes
    the latter) -/
def ruleOf (ufunc : String) : Option Rule :=
  (Generated.C04.ufuncRules.lookup ufunc).bind Rule.ofName

/-- `unit_operator in (_preserve_units, _comparison_unit, _arctan2_unit, _difference_units)` -/
def Rule.converts (r : Rule) : Bool := Generated.C04.convRules.contains r.pyName

/-- `if unit_operator is X and not u0.same_dimensions_as(u1): unit_operator = Y` (regenerated): the rule
    actually applied — floor-division of incommensurable operands falls back to the quotient rule -/
def Rule.effective (r : Rule) (incommensurable : Bool) : Rule :=
  if incommensurable then ((Generated.C04.ruleSwaps.lookup r.pyName).bind Rule.ofName).getD r else r

/-- `unit_operator in (_multiply_units, _divide_units)` -/
def Rule.postMul (r : Rule) : Bool := Generated.C04.postMulRules.contains r.pyName

/-! ### `Unit.simplify` = `_cancel_mul` over `_factor_pairs` -/

abbrev Fac := String × Rat

/-- one factor `base**exp` of the expression as `_factor_pairs` expands it: the fractional part
    `base**Mod(exp, 1)` first (when the exponent is not an integer), then `|floor exp|` copies of
    `base` or `1/base` -/
def expandFactor (p : Fac) : List Fac :=
  let fl : Int := p.2.floor
  (if p.2.den = 1 then [] else [(p.1, p.2 - (fl : Rat))])
    ++ List.replicate fl.natAbs (p.1, if fl ≥ 0 then (1 : Rat) else -1)

/-- the expanded factor list, in `as_ordered_factors()` order (symbols by name) -/
def expandedFactors (f : Factors) : List Fac := (UExpr.normF f).flatMap expandFactor

/-- `itertools.combinations(l, 2)` -/
def pairs2 {α : Type} : List α → List (α × α)
  | [] => []
  | a :: r => r.map (fun b => (a, b)) ++ pairs2 r

section cancel
variable {K : Type} [Mul K] [Div K] [OfNat K 1] [OfNat K 0] [RPow K] [BEq K]

/-- `_create_unit_from_factor(factor, registry)`: `Unit(base, *registry[str(base)]) ** exp`
    (the power resets the offset; `registry[...]` resolves prefixed symbols) -/
def factorUnit (pre : Prefixes K) (t : Lut K) (p : Fac) : Except Err (UnitV K) :=
  match resolve pre t p.1 with
  | none => .error .SymbolNotFoundError
  | some e => (⟨UExpr.sym p.1, e.scale, e.offset, e.dim, true⟩ : UnitV K).pow p.2

/-- the `while` loop of `_cancel_mul`: take the last pair of the current expansion that is not
    known to be uncancelable; if the product of the two factor units is dimensionless divide
    the expression by both factors and multiply it by the product's scale, else remember the
    pair.  `fuel` bounds the number of iterations (each one removes two factors or adds a
    pair; `cancelMul` supplies enough). -/
def cancelLoop (pre : Prefixes K) (t : Lut K) : Nat → UExpr K → List (Fac × Fac) → Except Err (UExpr K)
  | 0, e, _ => .ok e
  | fuel + 1, e, unc =>
    match (pairs2 (expandedFactors e.factors)).reverse.find? (fun p => !unc.contains p) with
    | none => .ok e
    | some (a, b) =>
      match factorUnit pre t a with
      | .error err => .error err
      | .ok ua =>
        match factorUnit pre t b with
        | .error err => .error err
        | .ok ub =>
          match ua.mul ub with
          | .error err => .error err
          | .ok prod =>
            if prod.dim == Dim.one then
              cancelLoop pre t fuel ⟨e.coeff * prod.scale, e.factors ++ [(a.1, -a.2), (b.1, -b.2)]⟩ unc
            else cancelLoop pre t fuel e ((a, b) :: unc)

/-- `_cancel_mul(expr, registry)` -/
def cancelMul (pre : Prefixes K) (t : Lut K) (e : UExpr K) : Except Err (UExpr K) :=
  let n := (expandedFactors e.factors).length
  cancelLoop pre t (n * n + 2) e []

/-- `Unit.simplify()`: only the expression changes (scale, offset, dimensions are kept) -/
def simplify (pre : Prefixes K) (t : Lut K) (u : UnitV K) : Except Err (UnitV K) :=
  match cancelMul pre t u.expr with
  | .error e => .error e
  | .ok e' => .ok { u with expr := e' }

/-- `_multiply_units(unit1, unit2)`: `(unit1 * unit2).simplify().as_coeff_unit()`.  (On
    `SymbolNotFoundError` the code retries with the operands swapped; against a single table
    the retry fails the same way.) -/
def multiplyUnits (pre : Prefixes K) (t : Lut K) (u0 u1 : UnitV K) : Except Err (K × UnitV K) :=
  match u0.mul u1 with
  | .error e => .error e
  | .ok r =>
    match simplify pre t r with
    | .error e => .error e
    | .ok s => .ok s.asCoeffUnit

/-- `_divide_units(unit1, unit2)`: `(unit1 / unit2).simplify().as_coeff_unit()` -/
def divideUnits (pre : Prefixes K) (t : Lut K) (u0 u1 : UnitV K) : Except Err (K × UnitV K) :=
  match u0.div u1 with
  | .error e => .error e
  | .ok r =>
    match simplify pre t r with
    | .error e => .error e
    | .ok s => .ok s.asCoeffUnit

end cancel

/-! ### the other rules -/
section rules
variable {K : Type} [Mul K] [Div K] [OfNat K 1] [OfNat K 0] [RPow K] [BEq K]

/-- `u.dimensions is temperature` / `is angle` (identity of the singleton dimension objects) -/
def isTemperature (u : UnitV K) : Bool := u.canon && u.dim == Dim.dTemperature
def isAngle (u : UnitV K) : Bool := u.canon && u.dim == Dim.dAngle

/-- `_preserve_units(unit1, unit2=None)` -/
def preserveUnits (u0 : UnitV K) (u1 : Option (UnitV K)) : K × UnitV K :=
  match u1 with
  | none => (1, u0)
  | some u1 =>
    if !isTemperature u0 then (1, u0)
    else if u0.offset == 0 && u1.offset != 0 then (1, u1)
    else (1, u0)

/-- `repr(unit)` = `str(unit.expr)`, exact for a bare symbol (the only case the temperature
    branches below distinguish); compound expressions are rendered as `a**p*b**q` -/
def reprU (u : UnitV K) : String :=
  match UExpr.normF u.expr.factors with
  | [(s, q)] => if q == 1 && u.expr.coeff == 1 then s else s!"{s}**({ratStr q})"
  | fs => "*".intercalate (fs.map fun p => if p.2 == 1 then p.1 else s!"{p.1}**({ratStr p.2})")

/-- `repr(unit).startswith("delta_")`: the printed expression starts with its first numerator
    symbol (name order) when the coefficient is 1 -/
def reprStartsWithDelta (u : UnitV K) : Bool :=
  u.expr.coeff == 1 &&
  match (UExpr.normF u.expr.factors).find? (fun p => decide (p.2 > 0)) with
  | some (s, q) => "delta_".isPrefixOf s && q.den == 1
  | none => false

def strContains (hay needle : String) : Bool := (hay.splitOn needle).length > 1

/-- the unit object `delta_degC` / `delta_degF` of the default table -/
def tableUnit (pre : Prefixes K) (t : Lut K) (s : String) : Except Err (UnitV K) :=
  match resolve pre t s with
  | some e => .ok ⟨UExpr.sym s, e.scale, e.offset, e.dim, true⟩
  | none => .error .RuntimeError

/-- `_difference_units(unit1, unit2=None)` -/
def differenceUnits (ueq : UnitV K → UnitV K → Bool) (pre : Prefixes K) (t : Lut K)
    (u0 : UnitV K) (u1 : Option (UnitV K)) : Except Err (K × UnitV K) :=
  if !isTemperature u0 then .ok (preserveUnits u0 u1)
  else
    let s1 := reprU u0
    match u1.filter (fun v => !ueq v u0) with
    | some v =>
      let s2 := reprU v
      if strContains s2 s1 && "delta_".isPrefixOf s2 then .ok (1, u0)
      else if strContains s1 s2 && "delta_".isPrefixOf s1 then .ok (1, v)
      else .error .InvalidUnitOperation
    | none =>
      if u0.offset == 0 then .ok (1, u0)
      else if s1 == "degF" then (tableUnit pre t "delta_degF").map fun d => (1, d)
      else if s1 == "degC" then (tableUnit pre t "delta_degC").map fun d => (1, d)
      else .error .RuntimeError

/-- the exponent `Unit.__pow__` derives from the Python float a rule passes
    (`Rational(str(p)).limit_denominator()`): `0.5 ↦ 1/2`, `1.0/3.0 ↦ 1/3`, `-1 ↦ -1` -/
def Rule.unaryExponent : Rule → Option Rat
  | .sqrt => some (1 / 2) | .cbrt => some (1 / 3) | .reciprocal => some (-1)
  | .passthrough => some 1 | .preserve => some 1
  | _ => none

/-- a rule function called with one unit: `_ufunc_registry[ufunc](u)` — `(mul, unit or None)` -/
def unaryRule (ueq : UnitV K → UnitV K → Bool) (pre : Prefixes K) (t : Lut K) (r : Rule) (u : UnitV K) :
    Except Err (K × Option (UnitV K)) :=
  match r with
  | .passthrough => .ok (1, some u)
  | .preserve => .ok (1, some (preserveUnits u none).2)
  | .difference => (differenceUnits ueq pre t u none).map fun p => (p.1, some p.2)
  | .withoutUnit | .comparison => .ok (1, none)
  | .sqrt => (u.pow (1 / 2)).map fun v => (1, some v)
  | .cbrt => (u.pow (1 / 3)).map fun v => (1, some v)
  | .reciprocal => (u.pow (-1)).map fun v => (1, some v)
  | .square => (u.mul u).map fun v => (1, some v)
  -- binary rule functions called with one argument, and the refusing rules
  | .multiply | .divide | .power | .arctan2 | .bitop | .invert | .floorDivide => .error .TypeError

/-- a rule function called with two units: `unit_operator(u0, u1)` — `(mul, unit or None)` -/
def binaryRule (ueq : UnitV K → UnitV K → Bool) (pre : Prefixes K) (t : Lut K) (r : Rule) (u0 u1 : UnitV K) :
    Except Err (K × Option (UnitV K)) :=
  match r with
  | .preserve => .ok (1, some (preserveUnits u0 (some u1)).2)
  | .difference => (differenceUnits ueq pre t u0 (some u1)).map fun p => (p.1, some p.2)
  | .comparison | .withoutUnit => .ok (1, none)
  | .arctan2 => .ok (1, some UnitV.dimensionless)
  -- `_floor_divide_units`: `unit1 / unit2` is executed for its refusals (offset scales, logarithmic
  -- units — exactly what true division refuses), then a pure number is returned (the dispatcher
  -- has rescaled the divisor)
  | .floorDivide =>
    match u0.div u1 with
    | .error e => .error e
    | .ok _ => .ok (1, some UnitV.dimensionless)
  | .passthrough => .ok (1, some u0)
  | .multiply => (multiplyUnits pre t u0 u1).map fun p => (p.1, some p.2)
  | .divide => (divideUnits pre t u0 u1).map fun p => (p.1, some p.2)
  -- `_power_unit(unit, power)` takes a number, not a unit (the dispatcher passes the exponent);
  -- unary rule functions called with two arguments; the refusing rules
  | .power | .sqrt | .cbrt | .square | .reciprocal | .bitop | .invert => .error .TypeError

end rules

/-! ### the value path of `__array_ufunc__` -/

/-- an operand as the value path sees it: its unit (`none` for a bare number / array / list)
    and whether `np.count_nonzero` of it is 0 -/
structure Opnd (K : Type) where
  unit : Option (UnitV K)
  allZero : Bool := false

/-- what the dispatcher decided: the unit label (`none` = a bare array is returned), the
    factor applied to the second operand, the coefficient `mul` returned by the rule, the
    post-multiplier; `early` is the `==`/`!=` early return (all-`False` / all-`True`) -/
structure Out (K : Type) where
  unit : Option (UnitV K)
  conv : K
  mul : K
  post : K
  early : Option Bool := none

section value
variable {K : Type} [Mul K]

/-- the second operand as the kernel receives it: `np.asarray(inp1) * conv` -/
def Out.arg1 (o : Out K) (x1 : K) : K := x1 * o.conv

/-- the number returned: `mul * (F(x0, x1 * conv) * post)` -/
def Out.value (o : Out K) (F : K → K → K) (x0 x1 : K) : K := o.mul * (F x0 (o.arg1 x1) * o.post)

/-- the SI magnitude of the result: the scale of the unit label (1 for a bare result) times
    the returned number -/
def Out.si [OfNat K 1] (o : Out K) (v : K) : K :=
  match o.unit with
  | some u => u.scale * v
  | none => v

end value

section dispatch
variable {K : Type} [Add K] [Sub K] [Mul K] [Div K] [OfNat K 1] [OfNat K 0] [RPow K] [BEq K]

/-- the block after the kernel call for `_multiply_units` / `_divide_units`: a dimensionless
    result whose scale is not 1 is multiplied into the numbers when the operands have the
    same non-trivial dimension; Celsius/Fahrenheit operands are refused -/
def postMulBlock (u0 u1 : UnitV K) (conv m : K) (unit : UnitV K) : Except Err (Out K) :=
  let o : Out K :=
    if unit.isDimensionless && unit.scale != 1 && !u0.isDimensionless && u0.dim == u1.dim then
      ⟨some UnitV.dimensionless, conv, m, unit.scale, none⟩
    else ⟨some unit, conv, m, 1, none⟩
  if (u0.offset != 0 && isTemperature u0) || (u1.offset != 0 && isTemperature u1) then
    .error .InvalidUnitOperation
  else .ok o

/-- the binary branch of `__array_ufunc__` (two inputs), value path.  `ueq` is `Unit.__eq__`
    (`math.isclose` on scale and offset at `Float`, exact equality at a lawful carrier);
    `pexp` is the rationalised exponent of `power`. -/
def dispatchBinary (ueq : UnitV K → UnitV K → Bool) (pre : Prefixes K) (t : Lut K)
    (ufunc : String) (o0 o1 : Opnd K) (pexp : Option Rat) : Except Err (Out K) :=
  match ruleOf ufunc with
  | none => .error .KeyError
  | some rule =>
    let u0 : UnitV K := o0.unit.getD UnitV.dimensionless
    if rule == .power then
      -- power-exponent validation (array.py:1861-1890): the exponent must be dimensionless
      if (o1.unit.map fun e => !e.isDimensionless).getD false then .error .UnitOperationError
      else match pexp with
        | none => .error .TypeError
        | some p => (u0.pow p).map fun u => ⟨some u, 1, 1, 1, none⟩
    else
      let u1 : UnitV K := o1.unit.getD UnitV.dimensionless
      -- K/R plus an offset temperature is refused
      if rule == .preserve && isTemperature u0 && u1.offset != 0 && u0.offset == 0
          && (reprU u0 == "K" || reprU u0 == "R") then .error .UnitOperationError
      else
        -- floor-division of operands that have no common unit uses the quotient rule
        let rule := rule.effective (u0.dim != u1.dim)
        -- rescaling of the second operand
        let step : Except Err (UnitV K × UnitV K × K × Option Bool) :=
          if rule.converts && !ueq u0 u1 then
            -- the zero exception: a bare all-zero operand adopts the other operand's unit
            let bare := o0.unit.isNone || o1.unit.isNone
            let (a0, a1) :=
              if bare && o0.allZero then (u1, u1)
              else if bare && o1.allZero then (u0, u0)
              else (u0, u1)
            let fin : Except Err (UnitV K × UnitV K × Option Bool) :=
              if a0.dim != a1.dim then
                if rule == .comparison then
                  if a0.isDimensionless then .ok (a1, a1, none)
                  else if a1.isDimensionless then .ok (a0, a0, none)
                  else if Generated.C04.eqNeUfuncs.contains ufunc then
                    .ok (a0, a1, some (ufunc != "equal"))
                  else .error .UnitOperationError
                else .error .UnitOperationError
              else .ok (a0, a1, none)
            match fin with
            | .error e => .error e
            | .ok (b0, b1, some b) => .ok (b0, b1, 1, some b)
            | .ok (b0, b1, none) =>
              match getConversionFactor pre t b1 b0 with
              | .error e => .error e
              | .ok (conv, off) =>
                if off.isSome && b1.offset != 0 && !reprStartsWithDelta b0 then
                  .error .InvalidUnitOperation
                else .ok (b0, b1, conv, none)
          else .ok (u0, u1, 1, none)
        match step with
        | .error e => .error e
        | .ok (_, _, _, some b) => .ok ⟨none, 1, 1, 1, some b⟩
        | .ok (v0, v1, conv, none) =>
          -- `mul, unit = unit_operator(u0, u1)`, then the kernel, then the post-multiplication block
          match binaryRule ueq pre t rule v0 v1 with
          | .error e => .error e
          | .ok (m, none) => .ok ⟨none, conv, m, 1, none⟩
          | .ok (m, some unit) =>
            if rule.postMul then postMulBlock v0 v1 conv m unit else .ok ⟨some unit, conv, m, 1, none⟩

/-- `POWER_MAPPING[ufunc](n)` as an affine map `a*n + b` fitted to the regenerated samples at
    `n = 0, 1` (the table obligation `power_mapping_is_affine` checks all samples) -/
def powerCoeffs (ufunc : String) : Option (Int × Int) :=
  match Generated.C04.powerMapping.lookup ufunc with
  | some ((0, b) :: (1, ab) :: _) => some (ab - b, b)
  | _ => none

def powerMap (ufunc : String) (n : Nat) : Option Int :=
  (powerCoeffs ufunc).map fun c => c.1 * n + c.2

/-- the `axis` keyword of a `reduce` call: not passed, `axis=None`, or an index -/
inductive AxisKw | absent | none | idx (a : Nat)
deriving DecidableEq, Repr

/-- the count `_apply_power_mapping` feeds to `POWER_MAPPING`: `axis = kwargs.get("axis", 0)`;
    `in_shape[axis]`, or `in_size` (the whole array) for an explicit `axis=None` -/
def reduceCount (shape : List Nat) (axisKw : AxisKw) : Nat :=
  match axisKw with
  | .absent => shape.getD 0 1
  | .idx a => shape.getD a 1
  | .none => shape.foldl (· * ·) 1

/-- the unary branch (one input; also `reduce` / `accumulate` of binary ufuncs): the argument
    the kernel receives and `(mul, unit)`.  `n` is `inp.size` (or `inp.shape[axis]`). -/
structure UOut (K : Type) where
  unit : Option (UnitV K)
  mul : K
  /-- the affine map `x ↦ x * f - o` applied to the input before the kernel (trig of angle) -/
  inConv : Option (K × Option K) := none

def dispatchUnary (ueq : UnitV K → UnitV K → Bool) (pre : Prefixes K) (t : Lut K)
    (ufunc method : String) (u : UnitV K) (n : Nat) : Except Err (UOut K) :=
  let inConv : Except Err (Option (K × Option K)) :=
    if isAngle u && Generated.C04.trigOperators.contains ufunc then
      match tableUnit pre t "rad" with
      | .error e => .error e
      | .ok rad => (getConversionFactor pre t u rad).map some
    else .ok none
  match inConv with
  | .error e => .error e
  | .ok ic =>
    if Generated.C04.reducePowerUfuncs.contains ufunc && method == "reduce" then
      match powerMap ufunc n with
      | none => .error .KeyError
      | some p => (u.pow (p : Rat)).map fun v => ⟨some v, 1, ic⟩
    else
      match ruleOf ufunc with
      | none => .error .KeyError
      | some rule => (unaryRule ueq pre t rule u).map fun p => ⟨p.2, p.1, ic⟩

/-- the number a unary ufunc returns: `mul * F(conv(x))` -/
def UOut.value (o : UOut K) (F : K → K) (x : K) : K :=
  let x' := match o.inConv with
    | some f => applyFactor f x
    | none => x
  o.mul * F x'

/-- the `out=` fix-up of `__array_ufunc__` (`if mul != 1: multiply(<buffer>, mul, out=<buffer>)`), with the
    dispatcher re-entry made explicit.  `reenters = false`: the buffer is the raw view `out_func`; the
    multiplication is a plain ndarray operation.  `reenters = true`: the buffer is the unyt array `out`, still
    labelled with its *old* unit, so `multiply` enters `__array_ufunc__` again with operands `(out, mul)`: that
    inner call multiplies the data by `mul`, computes `_multiply_units(oldUnit, dimensionless) = (mul', _)` and
    runs the same fix-up with `mul'` — on the same stale unit.  `fuel` bounds the nesting depth; `none` = the
    fuel ran out (Python: RecursionError).  Result: the factor the data were multiplied by. -/
def fixupLoop (reenters : Bool) (pre : Prefixes K) (t : Lut K) (oldUnit : UnitV K) : Nat → K → Except Err (Option K)
  | 0, _ => .ok none
  | fuel + 1, mul =>
    if mul == 1 then .ok (some 1)
    else if !reenters then .ok (some mul)
    else
      match multiplyUnits pre t oldUnit UnitV.dimensionless with
      | .error e => .error e
      | .ok (mul', _) =>
        match fixupLoop reenters pre t oldUnit fuel mul' with
        | .error e => .error e
        | .ok none => .ok none
        | .ok (some f) => .ok (some (mul * f))

/-- the fix-up as the code has it: which buffer is multiplied is read off the source on every run
    (`Generated.C04.fixupReenters`); nesting depth 64 stands for Python's recursion limit -/
def outFixup (pre : Prefixes K) (t : Lut K) (oldUnit : UnitV K) (mul : K) : Except Err (Option K) :=
  fixupLoop Generated.C04.fixupReenters pre t oldUnit 64 mul

/-- `unyt_array.dot(b)`: the unit is `self.units * b.units` (no simplification), the numbers
    are `ndarray.dot` of the raw data -/
def dotUnits (u0 u1 : UnitV K) : Except Err (Out K) :=
  (u0.mul u1).map fun u => ⟨some u, 1, 1, 1, none⟩

/-- `unyt_array.__pow__(p)`: `p == 0` gives ones labelled dimensionless, otherwise the `power`
    ufunc -/
def powDunder (ueq : UnitV K → UnitV K → Bool) (pre : Prefixes K) (t : Lut K) (u : UnitV K) (p : Rat) :
    Except Err (Out K) :=
  if p == 0 then .ok ⟨some UnitV.dimensionless, 1, 1, 1, none⟩
  else dispatchBinary ueq pre t "power" ⟨some u, false⟩ ⟨none, false⟩ (some p)

end dispatch

/-! ### a carrier for kernel evaluation of the model: `Rat` with exact powers where they exist -/

/-- exact `n`-th root of a non-negative rational when numerator and denominator are perfect
    powers, else 0 (never used by a theorem; only to *evaluate* the model on dyadic probes) -/
def ratRoot (x : Rat) (n : Nat) : Rat :=
  let r (m : Nat) : Option Nat := (List.range (m + 1)).find? fun k => k ^ n == m
  match r x.num.natAbs, r x.den with
  | some a, some b => if x.num < 0 then 0 else (a : Rat) / (b : Rat)
  | _, _ => 0

def ratRPow (x : Rat) (q : Rat) : Rat :=
  let y := if q.den = 1 then x else ratRoot x q.den
  zpowK y q.num

scoped instance : RPow Rat := ⟨ratRPow⟩

end Unyt.UV
