/-
  UnytModel.ArrayChecks — the unit-consistency helpers used by the NumPy array-function
  handlers (unyt/_array_functions.py:330-374, 516-527), `unyt_array.__setitem__`
  (unyt/array.py:1764-1768) and the dimension check of `.to()` / `in_units`
  (unyt/array.py:895-909, unyt/unit_object.py:919-922).  No Mathlib.
-/
import UnytModel.Ufunc
import UnytModel.Generated.C01Handlers

namespace Unyt.ArrayChecks
open Unyt.Ufunc

/-- an argument of an array function as `get_units` sees it -/
inductive Obj (K : Type)
  /-- an `np.ndarray`; `some u` when it is a `unyt_array` -/
  | arr (u : Option (UnitV K))
  /-- a `numbers.Number` -/
  | num
  /-- anything else: iterated over -/
  | seq (xs : List (Obj K))

section
variable {K : Type} [OfNat K 0] [OfNat K 1]

def nullV : UnitV K := ⟨UExpr.one, 1, 0, Dim.one, true⟩

mutual
/-- `get_units(objs)` applied to one element -/
def unitsOfObj : Obj K → List (UnitV K)
  | .arr (some u) => [u]
  | .arr none => [nullV]
  | .num => [nullV]
  | .seq xs => unitsOfObjs xs
/-- `get_units(objs)` -/
def unitsOfObjs : List (Obj K) → List (UnitV K)
  | [] => []
  | x :: xs => unitsOfObj x ++ unitsOfObjs xs
end

/-- `_validate_units_consistency(objs)`: the common unit, or `UnitInconsistencyError`
    (`IndexError` → `Other` on an empty collection) -/
def validateUnits (ueq : UnitV K → UnitV K → Bool) (units : List (UnitV K)) : Except Err (UnitV K) :=
  match units with
  | [] => .error .Other
  | u :: rest => if rest.all (fun v => ueq v u) then .ok u else .error .UnitInconsistencyError

def validateConsistency (ueq : UnitV K → UnitV K → Bool) (objs : List (Obj K)) : Except Err (UnitV K) :=
  validateUnits ueq (unitsOfObjs objs)

def Obj.isNumber : Obj K → Bool
  | .num => true
  | _ => false

/-- `_validate_units_consistency_v2(ref_units, *args)`: plain numbers are taken to carry the
    reference unit — they are not checked at all -/
def validateV2 (ueq : UnitV K → UnitV K → Bool) (ref : UnitV K) (args : List (Obj K)) : Except Err Unit :=
  if args.all Obj.isNumber then .ok ()
  else (validateConsistency ueq (.arr (some ref) :: args)).map fun _ => ()

/-- what `_array_comp_helper(a, b)` does with the second operand -/
inductive CompAction (K : Type)
  /-- left as it is (units equal) -/
  | asIs
  /-- `b.in_units(au)`: rescaled by the factor -/
  | convertB (factor : K)
  /-- a unit-less side is given the other side's unit: numbers compared raw -/
  | adopt
deriving Repr

end

section
variable {K : Type} [Add K] [Sub K] [Mul K] [Div K] [OfNat K 0] [OfNat K 1] [BEq K]

/-- `_array_comp_helper(a, b)` (`none` = no `units` attribute → `NULL_UNIT`) -/
def arrayCompHelper (pre : Prefixes K) (lut : Lut K) (ueq : UnitV K → UnitV K → Bool)
    (a b : Option (UnitV K)) : Except Err (CompAction K) :=
  let au : UnitV K := match a with | some u => u | none => nullV
  let bu : UnitV K := match b with | some u => u | none => nullV
  if !(ueq bu au) && !(ueq au nullV) && !(ueq bu nullV) then
    match getConversionFactor pre lut bu au with
    | .error e => .error e
    | .ok fo => .ok (.convertB fo.1)
  else if ueq bu nullV then .ok .adopt
  else if ueq au nullV then .ok .adopt
  else .ok .asIs

/-- a value assigned with `x[item] = value` -/
inductive SetValue (K : Type)
  /-- no `units` attribute: number, ndarray, list -/
  | bare
  /-- `hasattr(value, "units")` -/
  | withUnits (u : UnitV K)

/-- what `__setitem__` stores -/
inductive Stored (K : Type)
  /-- the numbers as they are -/
  | raw
  /-- `value.to(self.units)`: the numbers times the factor -/
  | converted (factor : K)
deriving Repr

/-- `unyt_array.__setitem__` for a pair of units that is not an electromagnetic CGS↔SI pair -/
def setitem (pre : Prefixes K) (lut : Lut K) (ueq : UnitV K → UnitV K → Bool)
    (self : UnitV K) (value : SetValue K) : Except Err (Stored K) :=
  match value with
  | .bare => .ok .raw
  | .withUnits u =>
    if !(ueq u self) && !(ueq u nullV) then
      match getConversionFactor pre lut u self with
      | .error e => .error e
      | .ok fo => .ok (.converted fo.1)
    else .ok .raw

/-- the dimension check of `x.to(target)` / `in_units` outside the electromagnetic branch -/
def toCheck (pre : Prefixes K) (lut : Lut K) (u target : UnitV K) : Except Err (K × Option K) :=
  getConversionFactor pre lut u target

end

/-! ### the regenerated handler-check table -/

/-- one row of the regenerated handler table: (kind, operands covered, placed before the first call
    into NumPy that receives one of them, an unconditional statement of the handler body) -/
abbrev CheckRow := String × List String × Bool × Bool

/-- does handler `fn` run — unconditionally, and before NumPy is handed the operands — one
    consistency check of an accepted `kind` that covers all of `operands`? -/
def covered (table : List (String × List CheckRow)) (kinds : List String) (fn : String)
    (operands : List String) : Bool :=
  match table.find? (·.1 == fn) with
  | none => false
  | some (_, checks) => checks.any fun c =>
      kinds.contains c.1 && c.2.2.1 && c.2.2.2 && operands.all fun o => c.2.1.contains o

section
variable {K : Type} [OfNat K 0] [OfNat K 1]

/-- what a check of a given kind does with the operands it is handed (first = the reference
    operand for the `_v2` / side-value kinds); kinds without a model here answer `.ok` -/
def runCheck (ueq : UnitV K → UnitV K → Bool) (kind : String) (objs : List (Obj K)) : Except Err Unit :=
  if kind = "validate" then (validateConsistency ueq objs).map fun _ => ()
  else if kind = "validate_v2" || kind = "validate_side" then
    match objs with
    | .arr (some ref) :: args => validateV2 ueq ref args
    | _ => .error .Other
  else .ok ()

end

end Unyt.ArrayChecks
