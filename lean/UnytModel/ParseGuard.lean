/-
  UnytModel.ParseGuard — the decidable guard of the guarded totality theorem of C20
  (`UnytProofs/C20Total.lean`): the shapes of unit strings on which the string path of
  `Unit.__new__` provably answers with a unit or with `UnitParseError`.

  `simple p`: numbers (written exponent below 10⁸), names, unary signs, `*`, `/`, parentheses,
  and powers whose exponent is an integer literal of magnitude ≤ 64 — no `sqrt`, no fractional
  or symbolic exponents, no towers.  (The guard is much wider than the recorded findings: it also
  excludes every `sqrt(…)` and every fractional power, i.e. most printed units with roots; for
  those, absence of escapes rests on the correspondence run and the direct oracle only.)  Everything the listed escapes (`lat**0.5`, `(-8)**(1/3)`,
  `m**(2*s)`, `9**9**9**9`, `1e999999999`) need is outside.
-/
import UnytModel.Parse

namespace Unyt
namespace Parse

/-- an integer literal `k`, `-k` or `+k` with `k ≤ 64` -/
def intLit : PExpr → Bool
  | .num k e => e == 0 && k ≤ 64
  | .neg (.num k e) => e == 0 && k ≤ 64
  | .pos (.num k e) => e == 0 && k ≤ 64
  | _ => false

def simple : PExpr → Bool
  | .num _ e => e.natAbs < 10 ^ 8
  | .name s => !(globalTypes.contains (s.map Char.toNat))     -- not a class name of `global_dict`
  | .neg e => simple e
  | .pos e => simple e
  | .mul a b => simple a && simple b
  | .div a b => simple a && simple b
  | .pow a b => simple a && intLit b
  | .call _ _ => false

/-- the result is the number `q` -/
def isMonoNum (r : Except PErr Val) (q : Rat) : Bool :=
  match r with
  | .ok (.mono x) => x.coeff == q && x.factors.isEmpty
  | _ => false

end Parse
end Unyt
