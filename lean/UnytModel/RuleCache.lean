/-
  UnytModel.RuleCache — the process-wide caches of the unit rules of `unyt_array` arithmetic (C13).

  Models `unyt/array.py`: the rule functions `_multiply_units`, `_divide_units`, `_preserve_units`,
  `_difference_units`, `_power_unit`, `_square_unit`, `_sqrt_unit`, `_reciprocal_unit`, … are memoised.
  Before `fix:` ea1f881 the memo was a plain `functools.lru_cache`, keyed by the arguments' `__eq__/__hash__`:
  `Unit.__eq__` compares scale, offset and dimensions, `Unit.__hash__` the expression and the CONTENTS id of
  the registry — neither looks at the registry OBJECT.  Since the repair (`_unit_rule_cache`) the key is the
  tuple of `id(arg.registry)` together with the arguments.

  A unit is seen here as the pair (the class of units it compares and hashes equal to, the registry object
  it belongs to).  The rule itself computes its result in the FIRST operand's registry
  (`Unit.__mul__`: `registry=self.registry`).  Whether the cache key includes the registries is a
  configuration flag, regenerated from the live functions (`Generated/RuleCacheCfg.lean`).
-/
namespace Unyt.RuleCache

/-- what a cached rule can tell about a unit -/
structure U where
  /-- the `(__eq__, __hash__)` class: equal-looking units of registries with identical contents share it -/
  key : Nat
  /-- identity of the registry object the unit belongs to -/
  reg : Nat
deriving DecidableEq, Repr

/-- a cache key: (registries of the arguments — empty when the cache ignores them, classes of the arguments) -/
abbrev Key := List Nat × List Nat

abbrev Cache := List (Key × U)

def cacheKey (byReg : Bool) (args : List U) : Key :=
  (if byReg then args.map (·.reg) else [], args.map (·.key))

/-- the registry a rule computes its result in: the first operand's -/
def leftReg (args : List U) : Nat := (args.head?.map (·.reg)).getD 0

/-- the rule: a result whose class is a function of the operands' classes, in the left operand's registry -/
def rule (f : List Nat → Nat) (args : List U) : U := ⟨f (args.map (·.key)), leftReg args⟩

def find (c : Cache) (k : Key) : Option U :=
  match c with
  | [] => none
  | (k', r) :: rest => if k' = k then some r else find rest k

/-- one call of a memoised rule: a hit answers from the cache, a miss computes and stores -/
def call (byReg : Bool) (f : List Nat → Nat) (c : Cache) (args : List U) : Cache × U :=
  match find c (cacheKey byReg args) with
  | some r => (c, r)
  | none => ((cacheKey byReg args, rule f args) :: c, rule f args)

/-- the answers of a history of calls, starting from cache `c` -/
def answers (byReg : Bool) (f : List Nat → Nat) : Cache → List (List U) → List U
  | _, [] => []
  | c, args :: rest =>
    let r := call byReg f c args
    r.2 :: answers byReg f r.1 rest

end Unyt.RuleCache
