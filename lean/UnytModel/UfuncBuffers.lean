/-
  UnytModel.UfuncBuffers — the *buffer discipline* of the two-input branch of
  `unyt_array.__array_ufunc__` (unyt/array.py): which array each statement reads, which one it
  writes (a fresh temporary or a buffer the caller owns: `out=`), in which order, under which
  condition.  `UfuncValue.Out.value` describes the returned number as a pure function of the
  operand numbers; this file describes how the code gets there on *memory*, where the caller's
  arrays may share storage (`out=` a view of the first operand, `out=` the second operand, in-place
  operators, all three the same array).

  The statement list itself is not written here: `Generated/C04Buffers.lean` is regenerated from the
  live source by `tools/extract.d/c04_buffers.py` (an `ast` pass over the branch and the wrap-up
  after it).  `run` executes such a list over any value algebra: at `Float` in `drv_c04`
  (correspondence with the library on aliased calls), at the free term algebra `Term` under
  `decide +kernel` (`checkAll`), and the theorems of `UnytProofs/C04Buffers.lean` carry the
  term-level check to every carrier.  Mathlib-free.
-/
namespace Unyt.Buf

/-- the Python variables of `__array_ufunc__` that hold array references -/
inductive Ref
  | inp0 | inp1 | outArr | outFunc | ret
deriving DecidableEq, Repr

/-- the numbers a buffer is multiplied by: `conv` (second operand into the first one's unit),
    `ratio0` (`u0.base_value / u1.base_value`, temperature difference + point), `post`
    (`unit.base_value` of a dimensionless-ratio result), `mul` (the rule's coefficient) -/
inductive Coef
  | conv | ratio0 | post | mul
deriving DecidableEq, Repr

/-- conditions statements are guarded by.  `mulPending` and `shared` are read from the run-time
    state, `free0`/`free1` stand for conditions the translator does not recognise (both outcomes
    are considered), the others are inputs of the call -/
inductive Atom
  | conv        -- `u0 is not u1 and u0 != u1`: the conversion block runs
  | tdelta      -- its temperature-difference arm (first operand rescaled instead of the second)
  | post        -- the post-multiplication block of multiply/divide runs
  | hasOut      -- `out is not None`
  | mulPending  -- `mul != 1` (at this point of the execution)
  | shared      -- `np.shares_memory(out_arr, out)`
  | free0 | free1
deriving DecidableEq, Repr

inductive Instr
  /-- `bind = src * c` (dst = none) or `bind = np.multiply(src, c, out=dst)`; a `dst` variable that
      holds `None` means a fresh array, as for NumPy -/
  | scale (src : Ref) (c : Coef) (dst : Option Ref) (bind : Option Ref)
  /-- `bind = func(a, b, out=dst)` -/
  | kernel (a b : Ref) (dst : Option Ref) (bind : Option Ref)
  /-- `out_func = _float_out_view(out)` -/
  | viewOut
  /-- `mul = 1` -/
  | mulDone
  /-- `if mul == 1: return out_arr` / `return mul * out_arr` -/
  | retMul
  /-- a statement touching the buffers that the translator cannot express -/
  | unknown (what : String)
deriving DecidableEq, Repr

structure Stmt where
  guard : List (Atom × Bool)
  instr : Instr
deriving DecidableEq, Repr

/-- what a call looks like from outside: which blocks run, whether `out=` was given, whether the
    rule's coefficient differs from 1, and the outcome of unrecognised conditions -/
structure Flags where
  conv : Bool
  tdelta : Bool
  post : Bool
  hasOut : Bool
  mulNe1 : Bool
  free0 : Bool
  free1 : Bool
deriving DecidableEq, Repr

/-- the value algebra: multiplying an array by a coefficient, applying the kernel -/
structure Alg (V : Type) where
  scale : V → Coef → V
  kern : V → V → V

/-- memory = list of cells (elementwise operations: one cell per array storage); cells 0,1,2 belong
    to the caller, later ones are temporaries -/
structure St (V : Type) where
  mem : List V
  inp0 : Nat
  inp1 : Nat
  outArr : Option Nat := none
  outFunc : Option Nat := none
  ret : Option Nat := none
  mulDone : Bool := false
  bad : Bool := false

variable {V : Type}

def St.loc (s : St V) : Ref → Option Nat
  | .inp0 => some s.inp0
  | .inp1 => some s.inp1
  | .outArr => s.outArr
  | .outFunc => s.outFunc
  | .ret => s.ret

def St.bind (s : St V) (l : Nat) : Option Ref → St V
  | none => s
  | some .inp0 => { s with inp0 := l }
  | some .inp1 => { s with inp1 := l }
  | some .outArr => { s with outArr := some l }
  | some .outFunc => { s with outFunc := some l }
  | some .ret => { s with ret := some l }

/-- store `v` where `dst` says (a fresh cell when there is no `out=` or the variable holds `None`) and
    bind the result -/
def St.store (s : St V) (v : V) (dst : Option Ref) (bind : Option Ref) : St V :=
  match dst.bind s.loc with
  | some l => ({ s with mem := s.mem.set l v }).bind l bind
  | none => ({ s with mem := s.mem ++ [v] }).bind s.mem.length bind

def St.read (s : St V) (r : Ref) : Option V :=
  match s.loc r with
  | some l => s.mem[l]?
  | none => none

def atomHolds (fl : Flags) (lo : Nat) (s : St V) : Atom → Bool
  | .conv => fl.conv
  | .tdelta => fl.tdelta
  | .post => fl.post
  | .hasOut => fl.hasOut
  | .mulPending => fl.mulNe1 && !s.mulDone
  | .shared => fl.hasOut && s.outArr == some lo
  | .free0 => fl.free0
  | .free1 => fl.free1

def guardHolds (fl : Flags) (lo : Nat) (s : St V) (g : List (Atom × Bool)) : Bool :=
  g.all fun (a, pol) => atomHolds fl lo s a == pol

def stepInstr (A : Alg V) (fl : Flags) (lo : Nat) (s : St V) : Instr → St V
  | .scale src c dst bind =>
    match s.read src with
    | some x => s.store (A.scale x c) dst bind
    | none => { s with bad := true }
  | .kernel a b dst bind =>
    match s.read a, s.read b with
    | some x, some y => s.store (A.kern x y) dst bind
    | _, _ => { s with bad := true }
  | .viewOut => if fl.hasOut then { s with outFunc := some lo } else s
  | .mulDone => { s with mulDone := true }
  | .retMul =>
    if fl.mulNe1 && !s.mulDone then
      match s.read .outArr with
      | some x => s.store (A.scale x .mul) none (some .ret)
      | none => { s with bad := true }
    else { s with ret := s.outArr }
  | .unknown _ => { s with bad := true }

def step (A : Alg V) (fl : Flags) (lo : Nat) (s : St V) (st : Stmt) : St V :=
  if guardHolds fl lo s st.guard then stepInstr A fl lo s st.instr else s

/-- execute a statement list -/
def run (A : Alg V) (fl : Flags) (lo : Nat) (prog : List Stmt) (s : St V) : St V :=
  prog.foldl (step A fl lo) s

/-- the call `ufunc(a, b[, out=o])` where `a` lives in cell `l0`, `b` in `l1` (`o` in `lo`) of the
    caller's three cells — any of them may coincide -/
def initSt (c0 c1 c2 : V) (l0 l1 : Nat) : St V := { mem := [c0, c1, c2], inp0 := l0, inp1 := l1 }

/-- what the call has to produce (the buffer-free description; `UfuncValue.Out.value` when the
    algebra is multiplication in a commutative ring, see `expected_eq_value`) -/
def expected (A : Alg V) (fl : Flags) (x0 x1 : V) : V :=
  let a := if fl.conv && fl.tdelta then A.scale x0 .ratio0 else x0
  let b := if fl.conv && !fl.tdelta then A.scale x1 .conv else x1
  let r := A.kern a b
  let r := if fl.post then A.scale r .post else r
  if fl.mulNe1 then A.scale r .mul else r

/-- the contract of one call on memory: no statement failed; the returned array holds the expected
    value; with `out=` the out array holds it too; every caller cell that is not the out array is
    unchanged (operands are not clobbered, whatever shares storage with whatever) -/
def contract [DecidableEq V] (A : Alg V) (fl : Flags) (c0 c1 c2 : V) (l0 l1 lo : Nat) (s : St V) : Bool :=
  let cells := [c0, c1, c2]
  match cells[l0]?, cells[l1]? with
  | some x0, some x1 =>
    let e := expected A fl x0 x1
    !s.bad && s.read .ret == some e
      && (!fl.hasOut || s.mem[lo]? == some e)
      && (List.range 3).all (fun i => (fl.hasOut && i == lo) || s.mem[i]? == cells[i]?)
  | _, _ => false

/-- multiplication in `K` as the value algebra: coefficients `conv`, `ratio0`, `post`, `mul`, kernel `F`
    (what the driver runs at `Float`) -/
def mulAlg {K : Type} [Mul K] (F : K → K → K) (coef : Coef → K) : Alg K := ⟨fun v c => v * coef c, F⟩

/-! ### the free algebra -/

inductive Term
  | var (i : Nat)
  | scale (t : Term) (c : Coef)
  | kern (a b : Term)
deriving DecidableEq, Repr

def termAlg : Alg Term := ⟨Term.scale, Term.kern⟩

def Term.eval (A : Alg V) (env : Nat → V) : Term → V
  | .var i => env i
  | .scale t c => A.scale (t.eval A env) c
  | .kern a b => A.kern (a.eval A env) (b.eval A env)

def forallBool (f : Bool → Bool) : Bool := f true && f false
def forallLoc (f : Nat → Bool) : Bool := f 0 && f 1 && f 2

def flagsOf (a b c d e f g : Bool) : Flags := ⟨a, b, c, d, e, f, g⟩

/-- the symbolic check of a statement list: for every combination of flags and every placement of
    the two operands and the out array in the caller's three cells (all aliasing patterns), the
    run over the free algebra meets the contract -/
def checkAll (prog : List Stmt) : Bool :=
  forallBool fun a => forallBool fun b => forallBool fun c => forallBool fun d => forallBool fun e =>
  forallBool fun f => forallBool fun g =>
  forallLoc fun l0 => forallLoc fun l1 => forallLoc fun lo =>
    let fl := flagsOf a b c d e f g
    contract termAlg fl (.var 0) (.var 1) (.var 2) l0 l1 lo
      (run termAlg fl lo prog (initSt (.var 0) (.var 1) (.var 2) l0 l1))

/-- the first (flags, placement) at which the check fails: the counterexample the harness replays -/
def firstFailure (prog : List Stmt) : Option (Flags × Nat × Nat × Nat) :=
  let bs := [false, true]
  let ls := [0, 1, 2]
  (bs.flatMap fun a => bs.flatMap fun b => bs.flatMap fun c => bs.flatMap fun d => bs.flatMap fun e =>
    bs.flatMap fun f => bs.flatMap fun g => ls.flatMap fun l0 => ls.flatMap fun l1 => ls.map fun lo =>
      (flagsOf a b c d e f g, l0, l1, lo)).find? fun (fl, l0, l1, lo) =>
        !contract termAlg fl (.var 0) (.var 1) (.var 2) l0 l1 lo
          (run termAlg fl lo prog (initSt (.var 0) (.var 1) (.var 2) l0 l1))

end Unyt.Buf
