/-
  UnytModel.TableCheck — executable Boolean checks of the regenerated tables against the
  hand-written reference (`Ref.Definitions`), decided by the kernel in `UnytProofs/C02.lean`.
-/
import UnytModel.Tables
import UnytModel.Ref.Definitions
import UnytModel.Ref.KnownExclusions

namespace Unyt

def absR (q : Rat) : Rat := if q < 0 then -q else q

/-- `|v − ref| ≤ tol · |ref|` -/
def within (v ref tol : Rat) : Bool := decide (absR (v - ref) ≤ tol * absR ref)

def rowOk (e : Entry Rat) (r : Ref.Row) : Bool :=
  e.dim == r.dim
  && (if r.offset == 0 then e.offset == 0 else within e.offset r.offset r.cls.tol)
  && (match r.v with
      | .val q => within e.scale q r.cls.tol
      | .sqrtOf q => decide (0 < e.scale) && within (e.scale * e.scale) q (2 * r.cls.tol))
  && (match r.prefixable with
      | some b => e.prefixable == b
      | none => true)

def rowOkByName (k : String) : Bool :=
  match (defaultLut Rat).find? k, Ref.find? k with
  | some e, some r => rowOk e r
  | _, _ => false

/-- every regenerated row outside `excl` has a reference definition and lies in its class -/
def tableOk (excl : List String) : Bool :=
  (defaultLut Rat).all fun (k, _) => excl.contains k || rowOkByName k

/-- the regenerated prefix table is exactly the SI prefix table -/
def prefixesOk : Bool :=
  (defaultPrefixes Rat).all (fun (k, v) =>
    match Ref.siPrefixes.lookup k with
    | some e => within v (Ref.pow10 e) Ref.Cls.exact.tol
    | none => false)
  && Ref.siPrefixes.all (fun (k, _) => ((defaultPrefixes Rat).find? k).isSome)

end Unyt
