/-
  UnytModel.AliasFlow — who can write to the caller's arrays: a may-alias model of the `__array_function__`
  handlers and helpers of unyt/_array_functions.py (and of any routine that is documented to return a new object).

  A routine is abstracted (by the `ast` translator plugin tools/extract.d/c18_alias.py, regenerated from the live
  source on every run) to a list of statements over its local names:

    fresh v          `v = <arithmetic result / np.empty / x.to_value(..) / x.copy() / a tuple display ...>`
                     the name is bound to a NEWLY allocated object
    alias v srcs     `v = x[i:j]`, `v = np.asarray(x)`, `v = unyt_array(x)`, `v = x.view(..)`, `a, b = x`,
                     `v = x if c else y`, `for v in x` ...: the object bound to `v` MAY share its buffer with
                     the object bound to any of `srcs` (unyt_array(x) of an array IS x.view(unyt_array))
    write v          `v *= ..`, `v[..] = ..`, `v.convert_to_*(..)`, `np.copyto(v, ..)`, `f(.., out=v)`, `v.fill(..)` ...:
                     the buffer behind `v` is modified in place
    call site f args ret   `ret = f(par=<expr over names>, ...)` for another routine of the same module

  Control flow is dropped: the concrete semantics (`run`) executes ANY finite sequence of the routine's statements,
  in any order and multiplicity, with any resolution of every "may share" (`pick`), so loops, branches and early
  returns are all covered.  `mayWrite prog p` is the static verdict "parameter p's buffer may be written";
  `UnytProofs/C18Alias.lean` proves it sound for every such execution.
-/
namespace Unyt.AliasFlow

/-- flat statements (after inlining of calls) -/
inductive FStmt where
  | fresh (v : String)
  | alias (v : String) (srcs : List String)
  | write (v : String)
deriving Repr, DecidableEq, Inhabited

/-- statements as the translator emits them -/
inductive Stmt where
  | fresh (v : String)
  | alias (v : String) (srcs : List String)
  | write (v : String)
  /-- `ret = f(par := srcs, ...)`; `site` makes the inlined names unique -/
  | call (site : String) (f : String) (args : List (String × List String)) (ret : String)
deriving Repr, Inhabited

/-- a routine: parameter names, body -/
structure Routine where
  name : String
  params : List String
  body : List Stmt
deriving Repr, Inhabited

abbrev Table := List Routine

def Table.find? (t : Table) (f : String) : Option Routine := List.find? (fun r => r.name == f) t

/-- name of the pseudo-variable that collects what a routine returns -/
def retVar : String := "$ret"

/-- a statement that is not a call, or a call treated CONSERVATIVELY (unknown callee / beyond the inlining depth):
    it writes every argument and its result may share with every argument -/
def flatStmt (pre : String) : Stmt → List FStmt
  | .fresh v => [FStmt.fresh (pre ++ v)]
  | .alias v srcs => [FStmt.alias (pre ++ v) (srcs.map (pre ++ ·))]
  | .write v => [FStmt.write (pre ++ v)]
  | .call _ _ args ret =>
    let allSrcs := (args.map (·.2)).flatten.map (pre ++ ·)
    allSrcs.map FStmt.write ++ [FStmt.alias (pre ++ ret) allSrcs]

/-- inlining of calls (depth `fuel`).  A call binds every parameter of the callee to an alias of the argument's
    sources, runs the callee's body under the prefix `site/`, and binds `ret` to an alias of the callee's `$ret`.
    `stack` = the routines being inlined with their prefixes: a RECURSIVE call is linked to the instance already on
    the stack (its parameters may share with the arguments, the result with its `$ret`) — sound because the
    semantics executes the statements in any order and multiplicity. -/
def flatten (t : Table) : Nat → List (String × String) → String → List Stmt → List FStmt
  | 0, _, pre, body => body.flatMap (flatStmt pre)
  | fuel + 1, stack, pre, body =>
    body.flatMap fun s =>
      match s with
      | .call site f args ret =>
        match stack.find? (fun e => e.1 == f) with
        | some (_, q) =>
          args.map (fun (par, srcs) => FStmt.alias (q ++ par) (srcs.map (pre ++ ·)))
            ++ [FStmt.alias (pre ++ ret) [q ++ retVar]]
        | none =>
          match t.find? f with
          | some r =>
            let pre' := pre ++ site ++ "/"
            args.map (fun (par, srcs) => FStmt.alias (pre' ++ par) (srcs.map (pre ++ ·)))
              ++ flatten t fuel ((f, pre') :: stack) pre' r.body
              ++ [FStmt.alias (pre ++ ret) [pre' ++ retVar]]
          | none => flatStmt pre s
      | s => flatStmt pre s

/-- inlining depth used for the live table (the helpers of _array_functions.py nest three deep) -/
def inlineDepth : Nat := 5

/-- the flat program of a routine -/
def flatOf (t : Table) (r : Routine) : List FStmt := flatten t inlineDepth [(r.name, "")] "" r.body

/-- the flat program of routine `f` -/
def progOf (t : Table) (f : String) : Option (List String × List FStmt) :=
  (t.find? f).map fun r => (r.params, flatOf t r)

/-! ## concrete semantics: names → buffers → versions -/

/-- `env`: which buffer the object bound to a name views; `heap`: the version of every buffer (bumped by every
    write); `next`: the next unused buffer id -/
structure St where
  env : String → Option Nat
  heap : Nat → Nat
  next : Nat

def upd (e : String → Option Nat) (v : String) (b : Option Nat) : String → Option Nat :=
  fun w => if w = v then b else e w

def St.bindFresh (σ : St) (v : String) : St := { σ with env := upd σ.env v (some σ.next), next := σ.next + 1 }

/-- one statement; `pick` resolves "may share with any of srcs": the `pick`-th source, or (out of range / unbound
    source) a new object -/
def step (s : FStmt) (pick : Nat) (σ : St) : St :=
  match s with
  | .fresh v => σ.bindFresh v
  | .alias v srcs =>
    match srcs[pick]? with
    | some x =>
      match σ.env x with
      | some b => { σ with env := upd σ.env v (some b) }
      | none => σ.bindFresh v
    | none => σ.bindFresh v
  | .write v =>
    match σ.env v with
    | some b => { σ with heap := fun i => if i = b then σ.heap i + 1 else σ.heap i }
    | none => σ

/-- an execution: any finite sequence of (statement index, pick) — order, repetition and omission are free -/
def run (prog : List FStmt) : List (Nat × Nat) → St → St
  | [], σ => σ
  | (i, pick) :: t, σ =>
    run prog t (match prog[i]? with
                | some s => step s pick σ
                | none => σ)

def idxOf? : List String → String → Option Nat
  | [], _ => none
  | a :: t, v => if a = v then some 0 else (idxOf? t v).map (· + 1)

/-- the state at entry: the k-th parameter views buffer k (distinct parameters, distinct buffers), versions `h` -/
def init (params : List String) (h : Nat → Nat) : St :=
  { env := idxOf? params, heap := h, next := params.length }

/-! ## the static verdict -/

/-- one pass: names that may share with a name already in `T` join `T` -/
def propagate (prog : List FStmt) (T : List String) : List String :=
  prog.foldl (fun T s =>
    match s with
    | .alias v srcs => if srcs.any (fun x => decide (x ∈ T)) && !decide (v ∈ T) then v :: T else T
    | _ => T) T

def iter (prog : List FStmt) : Nat → List String → List String
  | 0, T => T
  | n + 1, T =>
    let T' := propagate prog T
    if T'.length == T.length then T else iter prog n T'

/-- `T` is closed under "may share" -/
def closedB (prog : List FStmt) (T : List String) : Bool :=
  prog.all fun s =>
    match s with
    | .alias v srcs => srcs.all (fun x => !decide (x ∈ T)) || decide (v ∈ T)
    | _ => true

def writesIn (prog : List FStmt) (T : List String) : List String :=
  prog.filterMap fun s =>
    match s with
    | .write v => if decide (v ∈ T) then some v else none
    | _ => none

/-- names that may share their buffer with parameter `p` -/
def taint (prog : List FStmt) (p : String) : List String := iter prog (prog.length + 1) [p]

/-- the in-place statements that may reach parameter `p`'s buffer -/
def writesTo (prog : List FStmt) (p : String) : List String := writesIn prog (taint prog p)

/-- verdict: parameter `p`'s buffer MAY be written.  (`false` only when the computed set contains `p`, is closed
    and holds no written name — soundness does not depend on the iteration having converged.) -/
def mayWrite (prog : List FStmt) (p : String) : Bool :=
  let T := taint prog p
  !(decide (p ∈ T) && closedB prog T && (writesIn prog T).isEmpty)

/-- the parameters of routine `f` whose buffer may be written (`none`: no such routine) -/
def writtenParams (t : Table) (f : String) : Option (List String) :=
  (progOf t f).map fun (ps, prog) => ps.filter (mayWrite prog)

/-- the verdict table of a whole module: (routine, [(parameter, in-place statements that may reach it)]) for every
    routine with at least one parameter that may be written; `?` marks a verdict that is `true` without a named write -/
def verdicts (t : Table) : List (String × List (String × List String)) :=
  t.filterMap fun r =>
    let prog := flatOf t r
    let ws := r.params.filterMap fun p =>
      let w := writesTo prog p
      if mayWrite prog p then some (p, if w.isEmpty then ["?"] else w) else none
    if ws.isEmpty then none else some (r.name, ws)

end Unyt.AliasFlow
