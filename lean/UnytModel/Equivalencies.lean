/-
  UnytModel.Equivalencies — model of `unyt/equivalencies.py` and of the equivalence wrappers of
  `unyt/array.py` (`to_equivalent`, `convert_to_equivalent`, the `equivalence=` keyword of
  `to`/`in_units`/`to_value`/`convert_to_units`) and `Unit.has_equivalent`.

  * `Formula` — the deep-embedded arithmetic a `_convert` branch performs on its input `x`
    (atoms are `"x"`, `"c.<name>"` = `unyt.physical_constants.<name>`, `"p.<name>"` = keyword
    parameter of `_convert`), `Formula.eval` over any carrier (run at `Float`, proved about
    over ℝ), `Formula.subst` (composition), `Formula.dimOf` (dimension inference).
  * `Mono`, `norm` — the canonical monomial normal form `k · Π atomᵉ` (sorted, merged, zero
    exponents dropped).  Soundness over ℝ is `UnytProofs/Real/C09Monomial.lean`.
  * `Trace` — a recorded ufunc chain (what the translator emits for every branch, in copy mode
    and in in-place mode) and its two readings: `run false` = every result is its own value
    (SSA), `run true` = a result produced with `out=x` aliases the single buffer `x`.
  * `EquivRec` — one row of `equivalence_registry` as regenerated from the live source.
  * `EquivRec.convert`, `hasEquivalent`, `toEquivalent` — the decision logic of
    `Equivalence.convert`, `Unit.has_equivalent`, `unyt_array.to_equivalent` /
    `convert_to_equivalent`; `convertValue` — the numbers they produce.
  No Mathlib import.
-/
import UnytModel.Convert

namespace Unyt.Equiv
open Unyt

/-! ### carriers -/

class HasSqrt (K : Type) where
  sqrt : K → K

class OfRat (K : Type) where
  ofRat : Rat → K

instance : HasSqrt Float := ⟨Float.sqrt⟩
instance : OfRat Float := ⟨ratToFloat⟩

/-! ### formulas -/

inductive Formula
  | atom (a : String)
  | lit (q : Rat)
  | mul (a b : Formula)
  | div (a b : Formula)
  | sub (a b : Formula)
  | add (a b : Formula)
  | sqrt (a : Formula)
  | pow (a : Formula) (q : Rat)
deriving DecidableEq, Repr, Inhabited

namespace Formula

/-- the input of the branch -/
def x : Formula := .atom "x"

section eval
variable {K : Type} [Add K] [Sub K] [Mul K] [Div K] [RPow K] [HasSqrt K] [OfRat K]

/-- the value of a formula; `ρ "x"` is the input -/
def eval (ρ : String → K) : Formula → K
  | .atom a => ρ a
  | .lit q => OfRat.ofRat q
  | .mul a b => a.eval ρ * b.eval ρ
  | .div a b => a.eval ρ / b.eval ρ
  | .sub a b => a.eval ρ - b.eval ρ
  | .add a b => a.eval ρ + b.eval ρ
  | .sqrt a => HasSqrt.sqrt (a.eval ρ)
  | .pow a q => RPow.rpow (a.eval ρ) q

end eval

/-- `f.subst g`: `f` with `g` put in place of the input: "convert with `g`, then with `f`" -/
def subst : Formula → Formula → Formula
  | .atom a, g => if a = "x" then g else .atom a
  | .lit q, _ => .lit q
  | .mul a b, g => .mul (a.subst g) (b.subst g)
  | .div a b, g => .div (a.subst g) (b.subst g)
  | .sub a b, g => .sub (a.subst g) (b.subst g)
  | .add a b, g => .add (a.subst g) (b.subst g)
  | .sqrt a, g => .sqrt (a.subst g)
  | .pow a q, g => .pow (a.subst g) q

def atoms : Formula → List String
  | .atom a => [a]
  | .lit _ => []
  | .mul a b | .div a b | .sub a b | .add a b => a.atoms ++ b.atoms
  | .sqrt a | .pow a _ => a.atoms

/-- does the input occur as a direct operand of multiply / divide / subtract / add?  Those are
    the calls in which `unyt_array.__array_ufunc__` (and `Unit.__mul__`) refuse a unit with an
    offset (°C, °F: `InvalidUnitOperation`); for `power` and `sqrt` see `xInPow`. -/
def xInArith : Formula → Bool
  | .atom _ => false
  | .lit _ => false
  | .mul a b | .div a b | .sub a b | .add a b =>
    a == .atom "x" || b == .atom "x" || a.xInArith || b.xInArith
  | .sqrt a | .pow a _ => a.xInArith

/-- does the input occur as the direct operand of `power` / `sqrt`?  Whether those calls refuse a
    unit with an offset depends on `Unit.__pow__` (regenerated flag `Generated.powRefuses`). -/
def xInPow : Formula → Bool
  | .atom _ => false
  | .lit _ => false
  | .mul a b | .div a b | .sub a b | .add a b => a.xInPow || b.xInPow
  | .sqrt a | .pow a _ => a == .atom "x" || a.xInPow

/-- a syntactic sufficient condition for "the value is 0 when the input is 0" (over ℝ, where
    `0 / b = 0`): used to extend the Lorentz inverse law to the end point `v = 0` -/
def vanishesAtZero : Formula → Bool
  | .atom a => a == "x"
  | .lit _ => false
  | .mul a b => a.vanishesAtZero || b.vanishesAtZero
  | .div a _ => a.vanishesAtZero
  | .sub a b | .add a b => a.vanishesAtZero && b.vanishesAtZero
  | .sqrt a => a.vanishesAtZero
  | .pow a q => a.vanishesAtZero && q != 0

/-- dimension inference: `cd` gives the dimension of each atom; `sub`/`add` need equal
    dimensions (what `unyt_array.__array_ufunc__` enforces up to scale) -/
def dimOf (cd : String → Option Dim) : Formula → Option Dim
  | .atom a => cd a
  | .lit _ => some Dim.one
  | .mul a b => do some ((← a.dimOf cd) * (← b.dimOf cd))
  | .div a b => do some ((← a.dimOf cd) / (← b.dimOf cd))
  | .sub a b | .add a b => do
    let da ← a.dimOf cd
    let db ← b.dimOf cd
    if da = db then some da else none
  | .sqrt a => do some ((← a.dimOf cd).pow (1 / 2))
  | .pow a q => do some ((← a.dimOf cd).pow q)

end Formula

/-- the environment that binds the input -/
def withX {K : Type} (ρ : String → K) (v : K) : String → K :=
  fun a => if a = "x" then v else ρ a

/-! ### monomials -/

abbrev Atoms := List (String × Rat)

/-- insert `a ^ e` into a name-sorted list, merging with an existing entry -/
def insertAtom (a : String) (e : Rat) : Atoms → Atoms
  | [] => [(a, e)]
  | (b, f) :: rest =>
    if a = b then (b, f + e) :: rest
    else if a < b then (a, e) :: (b, f) :: rest
    else (b, f) :: insertAtom a e rest

def mulAtoms (m n : Atoms) : Atoms := n.foldl (fun acc p => insertAtom p.1 p.2 acc) m
def powAtoms (m : Atoms) (q : Rat) : Atoms := m.map (fun p => (p.1, p.2 * q))
def cleanAtoms (m : Atoms) : Atoms := m.filter (fun p => p.2 != 0)

/-- `coef · Π aᵉ` with a positive rational coefficient -/
structure Mono where
  coef : Rat
  atoms : Atoms
deriving DecidableEq, Repr, Inhabited

namespace Mono

def mul (m n : Mono) : Mono := ⟨m.coef * n.coef, mulAtoms m.atoms n.atoms⟩

/-- rational power: any exponent when the coefficient is 1, integer exponents otherwise -/
def pow (m : Mono) (q : Rat) : Option Mono :=
  if m.coef = 1 then some ⟨1, powAtoms m.atoms q⟩
  else if q.den = 1 ∧ 0 < m.coef then some ⟨zpowK m.coef q.num, powAtoms m.atoms q⟩
  else none

def clean (m : Mono) : Mono := ⟨m.coef, cleanAtoms m.atoms⟩

/-- the identity map `x ↦ x` -/
def idX : Mono := ⟨1, [("x", 1)]⟩

section eval
variable {K : Type} [Mul K] [OfNat K 1] [RPow K] [OfRat K]

def evalAtoms (ρ : String → K) : Atoms → K
  | [] => 1
  | (a, e) :: rest => RPow.rpow (ρ a) e * evalAtoms ρ rest

def eval (ρ : String → K) (m : Mono) : K := OfRat.ofRat m.coef * evalAtoms ρ m.atoms

end eval
end Mono

/-- normal form before dropping zero exponents; `none` = not a monomial (a difference, a sum,
    a non-positive literal, a fractional power of a coefficient) -/
def normRaw : Formula → Option Mono
  | .atom a => some ⟨1, [(a, 1)]⟩
  | .lit q => if 0 < q then some ⟨q, []⟩ else none
  | .mul a b => do
    let m ← normRaw a
    let n ← normRaw b
    some (m.mul n)
  | .div a b => do
    let m ← normRaw a
    let n ← normRaw b
    let ni ← n.pow (-1)
    some (m.mul ni)
  | .sub _ _ => none
  | .add _ _ => none
  | .sqrt a => do
    let m ← normRaw a
    m.pow (1 / 2)
  | .pow a q => do
    let m ← normRaw a
    m.pow q

/-- the canonical monomial a formula denotes on positive arguments -/
def norm (f : Formula) : Option Mono := (normRaw f).map Mono.clean

/-- same function on positive arguments, decided on normal forms -/
def sameMono (f g : Formula) : Bool :=
  match norm f, norm g with
  | some m, some n => m == n
  | _, _ => false

/-! ### recorded ufunc chains -/

inductive UFn
  | mul | div | sub | add | sqrt
  | pow (q : Rat)
deriving DecidableEq, Repr, Inhabited

/-- an operand of a recorded ufunc call, by object identity: the input array, the object
    returned by call number `i`, or a value that does not involve the input -/
inductive Arg
  | buf
  | tmp (i : Nat)
  | c (f : Formula)
deriving DecidableEq, Repr, Inhabited

structure Op where
  fn : UFn
  args : List Arg
  /-- `out=x` -/
  outBuf : Bool
deriving DecidableEq, Repr, Inhabited

structure Trace where
  ops : List Op
  /-- what `_convert` returned; `none` = Python `None` (no branch taken) -/
  ret : Option Arg
deriving DecidableEq, Repr, Inhabited

def UFn.apply : UFn → List Formula → Option Formula
  | .mul, [a, b] => some (.mul a b)
  | .div, [a, b] => some (.div a b)
  | .sub, [a, b] => some (.sub a b)
  | .add, [a, b] => some (.add a b)
  | .sqrt, [a] => some (.sqrt a)
  | .pow q, [a] => some (.pow a q)
  | _, _ => none

/-- the contents of the input buffer and of every returned object so far (value when it was
    produced, and whether it was produced with `out=x`) -/
structure RunState where
  buf : Formula
  tmps : List (Formula × Bool)
deriving Repr, Inhabited

/-- `alias = true`: an object returned by an `out=x` call is a view of `x` (arrays);
    `alias = false`: it is a value of its own (SSA; 0-d results are rebuilt as quantities) -/
def resolveArg (alias : Bool) (s : RunState) : Arg → Option Formula
  | .buf => some s.buf
  | .tmp i =>
    match s.tmps[i]? with
    | some (f, al) => if alias && al then some s.buf else some f
    | none => none
  | .c f => some f

def resolveArgs (alias : Bool) (s : RunState) : List Arg → Option (List Formula)
  | [] => some []
  | a :: rest => do
    let f ← resolveArg alias s a
    let fs ← resolveArgs alias s rest
    some (f :: fs)

def stepOp (alias : Bool) (s : RunState) (op : Op) : Option RunState := do
  let args ← resolveArgs alias s op.args
  let r ← op.fn.apply args
  some { buf := if op.outBuf then r else s.buf, tmps := s.tmps ++ [(r, op.outBuf)] }

def runOps (alias : Bool) : RunState → List Op → Option RunState
  | s, [] => some s
  | s, op :: rest => do
    let s' ← stepOp alias s op
    runOps alias s' rest

/-- run a chain on the input `x`: (final contents of the input buffer, returned value) -/
def Trace.run (alias : Bool) (t : Trace) : Option (Formula × Option Formula) := do
  let s ← runOps alias ⟨Formula.x, []⟩ t.ops
  match t.ret with
  | none => some (s.buf, none)
  | some a => do
    let r ← resolveArg alias s a
    some (s.buf, some r)

/-! ### the registry -/

structure Branch where
  src : Dim
  dst : Dim
  /-- chain recorded with `Equivalence()`; `none` = the branch could not be traced -/
  copy : Option Trace
  /-- chain recorded with `Equivalence(in_place=True)` -/
  inplace : Option Trace
deriving DecidableEq, Repr, Inhabited

structure EquivRec where
  name : String
  cls : String
  dims : List Dim
  /-- keyword parameters of `_convert` and the bits of their defaults -/
  params : List (String × Nat)
  branches : List Branch
deriving DecidableEq, Repr, Inhabited

inductive Mode | copy | inplace
deriving DecidableEq, Repr, Inhabited

def EquivRec.branch (e : EquivRec) (a b : Dim) : Option Branch :=
  e.branches.find? (fun br => br.src == a && br.dst == b)

/-- what `_convert` hands back to `to_equivalent`: the returned value of the copy-mode chain -/
def Branch.formula (b : Branch) : Option Formula := do
  let t ← b.copy
  let r ← t.run false
  r.2

/-- what `_convert(in_place=True)` leaves in the caller's array (`convert_to_equivalent`
    ignores the returned object) -/
def Branch.inplaceFormula (alias : Bool) (b : Branch) : Option Formula := do
  let t ← b.inplace
  let r ← t.run alias
  some r.1

/-- what copy mode leaves in the caller's array -/
def Branch.copyBuffer (b : Branch) : Option Formula := do
  let t ← b.copy
  let r ← t.run false
  some r.1

def EquivRec.formula (e : EquivRec) (a b : Dim) : Option Formula := do
  let br ← e.branch a b
  br.formula

def EquivRec.modeFormula (e : EquivRec) (m : Mode) (a b : Dim) : Option Formula := do
  let br ← e.branch a b
  match m with
  | .copy => br.formula
  | .inplace => br.inplaceFormula true

def findEquiv (reg : List EquivRec) (name : String) : Option EquivRec :=
  reg.find? (fun e => e.name == name)

/-! ### the wrappers -/

/-- `Equivalence.convert`: the membership gate, then `_convert`
    (`.ok none` = `_convert` fell through and returned `None`) -/
def EquivRec.convert (e : EquivRec) (m : Mode) (xdim newdim : Dim) : Except Err (Option Formula) :=
  if e.dims.contains xdim && e.dims.contains newdim then .ok (e.modeFormula m xdim newdim)
  else .error .InvalidUnitEquivalence

/-- `Unit.has_equivalent(equiv)` -/
def hasEquivalent (reg : List EquivRec) (xdim : Dim) (name : String) : Except Err Bool :=
  match findEquiv reg name with
  | none => .error .KeyError
  | some e => .ok (e.dims.contains xdim)

/-- what a request amounts to -/
inductive Route
  /-- same dimensions: ordinary unit conversion, the equivalence is not consulted -/
  | plain
  /-- `f` applied to the data, followed by ordinary conversion to the requested unit -/
  | via (f : Formula)
deriving DecidableEq, Repr, Inhabited

/-- `unyt_array.to_equivalent` (`Mode.copy`) / `convert_to_equivalent` (`Mode.inplace`), the
    decision part: same-dimension shortcut, registry look-up, `has_equivalent` gate, `convert` -/
def toEquivalent (reg : List EquivRec) (m : Mode) (xdim tdim : Dim) (name : String) : Except Err Route :=
  if xdim == tdim then .ok .plain
  else
    match findEquiv reg name with
    | none => .error .KeyError
    | some e =>
      if e.dims.contains xdim then
        match e.convert m xdim tdim with
        | .error er => .error er
        | .ok none => .error .Other
        | .ok (some f) => .ok (.via f)
      else .error .InvalidUnitEquivalence

/-- `to` / `in_units` / `to_value` / `convert_to_units` with their `equivalence=` keyword -/
def inUnitsRoute (reg : List EquivRec) (m : Mode) (xdim tdim : Dim) (equivalence : Option String) :
    Except Err Route :=
  match equivalence with
  | none => if xdim == tdim then .ok .plain else .error .UnitConversionError
  | some name => toEquivalent reg m xdim tdim name

/-! ### the numbers -/

section numbers
variable {K : Type} [Add K] [Sub K] [Mul K] [Div K] [OfNat K 0] [OfNat K 1] [BEq K]
  [RPow K] [HasSqrt K] [OfRat K]

/-- environment of a conversion: physical constants in SI, keyword parameters, the input -/
def mkEnv (consts params : List (String × K)) (xv : K) : String → K :=
  fun a =>
    if a = "x" then xv
    else match (params.find? (fun p => "p." ++ p.1 == a)) with
      | some p => p.2
      | none => match (consts.find? (fun p => "c." ++ p.1 == a)) with
        | some p => p.2
        | none => 0

def bound (consts params : List (String × K)) (a : String) : Bool :=
  a == "x" || params.any (fun p => "p." ++ p.1 == a) || consts.any (fun p => "c." ++ p.1 == a)

/-- the keyword parameters `_convert` receives: what the caller supplied, then the defaults of
    the signature (a look-up takes the first hit, so a supplied value wins) -/
def effectiveParams [OfBits K] (reg : List EquivRec) (equivalence : Option String)
    (supplied : List (String × K)) : List (String × K) :=
  supplied ++ (match equivalence.bind (findEquiv reg) with
    | some e => e.params.map (fun q => (q.1, (OfBits.ofBits q.2 : K)))
    | none => [])

def acceptsParams (reg : List EquivRec) (equivalence : Option String) (names : List String) : Bool :=
  let accepted : List (String × Nat) :=
    match equivalence.bind (findEquiv reg) with
    | some e => e.params
    | none => []
  names.all (fun n => accepted.any (fun q => q.1 == n))

/-- the reading, in `target`, of the quantity equivalent to the reading `xv` in `u`, and the unit
    the result is labelled with.
    `supplied` are the keyword arguments of the call (`mu=`, `gamma=`); they reach `_convert`
    only on the `via` route, where a keyword `_convert` does not accept is a `TypeError`
    and a missing one takes the default of the signature.
    The chain works on the data in the input's own unit and carries the unit along; because
    the final step converts to `target`, this is the formula evaluated on the SI magnitude
    followed by the ordinary conversion from the coherent SI unit of the new dimension.
    An input unit with an offset (°C, °F) is refused by the first multiply/divide/subtract/add
    that touches it.  `powRefuses` says what becomes, in the library being checked, of such a
    reading that a chain raises to a power (regenerated probe `np.multiply(k, np.power(1 °C, 4))`):
    `some err` = `power` itself (`Unit.__pow__`) or the multiply/divide applied to the power raises
    `err`, `none` = the offset is dropped silently, so that a chain that only ever raises the input
    to a power (`effective_temperature`, temperature → flux) works on the bare reading. -/
def convertState [OfBits K] (powRefuses : Option Err) (pre : Prefixes K) (t : Lut K)
    (reg : List EquivRec) (consts supplied : List (String × K)) (m : Mode) (u : UnitV K) (xv : K)
    (target : UnitV K) (equivalence : Option String) : Except Err (K × UnitV K) :=
  -- the last step differs by entry point: the copying forms end in `in_units(conv_unit)`, the
  -- in-place forms in `self.convert_to_units(conv_unit)` (`values *= factor; subtract offset`)
  let finish (w : UnitV K) (y : K) : Except Err (K × UnitV K) :=
    match m with
    | .copy => inUnits pre t w y target
    | .inplace => convertToUnits pre t (y, w) target
  match inUnitsRoute reg m u.dim target.dim equivalence with
  | .error e => .error e
  | .ok .plain => finish u xv
  | .ok (.via f) =>
    if !(acceptsParams reg equivalence (supplied.map (·.1))) then .error .TypeError
    else
      let params := effectiveParams reg equivalence supplied
      if !(f.atoms.all (bound consts params)) then .error .Other
      else if u.offset != 0 && f.xInArith then .error .InvalidUnitOperation
      else if u.offset != 0 && f.xInPow && powRefuses.isSome then .error (powRefuses.getD .Other)
      else
        let si := xv * u.scale
        let y := f.eval (mkEnv consts params si)
        let mid : UnitV K := ⟨UExpr.one, 1, 0, target.dim, true⟩
        finish mid y

/-- the numbers alone (`to_value`; what the driver reports) -/
def convertValue [OfBits K] (powRefuses : Option Err) (pre : Prefixes K) (t : Lut K)
    (reg : List EquivRec) (consts supplied : List (String × K)) (m : Mode) (u : UnitV K) (xv : K)
    (target : UnitV K) (equivalence : Option String) : Except Err K :=
  (convertState powRefuses pre t reg consts supplied m u xv target equivalence).map (·.1)

end numbers

/-! ### an exact carrier for concrete witnesses: ℚ with integer powers only (enough for chains
    without `sqrt` and fractional powers, e.g. `σ x⁴`) -/
namespace RatCarrier

scoped instance : RPow Rat := ⟨fun x q => if q.den = 1 then zpowK x q.num else 0⟩
scoped instance : HasSqrt Rat := ⟨fun _ => 0⟩
scoped instance : OfRat Rat := ⟨fun q => q⟩

end RatCarrier

/-! ### whole-table checks (decided by the kernel in `UnytProofs/C09.lean`) -/

def orderedPairs (ds : List Dim) : List (Dim × Dim) :=
  ds.flatMap (fun a => (ds.filter (fun b => b != a)).map (fun b => (a, b)))

def orderedTriples (ds : List Dim) : List (Dim × Dim × Dim) :=
  ds.flatMap (fun a => (ds.filter (fun b => b != a)).flatMap
    (fun b => (ds.filter (fun c => c != a && c != b)).map (fun c => (a, b, c))))

/-- every ordered pair of distinct `_dims` has a traced branch that returns a value (copy mode)
    and leaves a value in the caller's array (in-place mode) -/
def EquivRec.covered (e : EquivRec) : Bool :=
  (orderedPairs e.dims).all (fun p =>
    (e.modeFormula .copy p.1 p.2).isSome && (e.modeFormula .inplace p.1 p.2).isSome)

/-- registry look-up by `type_name` finds each record itself (names are distinct) -/
def namesOk (reg : List EquivRec) : Bool := reg.all (fun e => findEquiv reg e.name == some e)

/-- `B→A ∘ A→B` normalises to the identity -/
def EquivRec.inverseOk (e : EquivRec) : Bool :=
  (orderedPairs e.dims).all (fun p =>
    match e.formula p.1 p.2, e.formula p.2 p.1 with
    | some f, some g => norm (g.subst f) == some Mono.idX
    | _, _ => false)

/-- `B→C ∘ A→B` and `A→C` have the same normal form -/
def EquivRec.pathsOk (e : EquivRec) : Bool :=
  (orderedTriples e.dims).all (fun p =>
    match e.formula p.1 p.2.1, e.formula p.2.1 p.2.2, e.formula p.1 p.2.2 with
    | some f, some g, some h => sameMono (g.subst f) h
    | _, _, _ => false)

/-- in-place chain (under both readings of a returned object) leaves in the caller's array the
    formula the copy chain returns: syntactically, or at least with the same normal form -/
def Branch.inplaceOk (b : Branch) : Bool :=
  match b.formula, b.inplaceFormula true, b.inplaceFormula false with
  | some f, some g, some h => (f == g || sameMono f g) && (f == h || sameMono f h)
  | _, _, _ => false

/-- no recorded call of the copy-mode chain has `out=x` -/
def Branch.pureOk (b : Branch) : Bool :=
  match b.copy with
  | some t => t.ops.all (fun op => !op.outBuf)
  | none => false

/-- the result has the dimension that was asked for -/
def Branch.dimOk (cd : String → Option Dim) (b : Branch) : Bool :=
  match b.formula with
  | some f => f.dimOf (fun a => if a = "x" then some b.src else cd a) == some b.dst
  | none => false

/-- every chain of the equivalence refuses an input unit with an offset (`pow`: whether
    `power`/`sqrt` refuse such units) -/
def EquivRec.refusesOffsetInput (pow : Bool) (e : EquivRec) : Bool :=
  (orderedPairs e.dims).all (fun p =>
    match e.modeFormula .copy p.1 p.2, e.modeFormula .inplace p.1 p.2 with
    | some f, some g => (f.xInArith || (pow && f.xInPow)) && (g.xInArith || (pow && g.xInPow))
    | _, _ => false)

/-- dimension of an atom: constants from the regenerated table, keyword parameters are numbers -/
def atomDim (consts : List (String × Nat × Dim)) (a : String) : Option Dim :=
  match consts.find? (fun c => "c." ++ c.1 == a) with
  | some c => some c.2.2
  | none => if a.startsWith "p." then some Dim.one else none

end Unyt.Equiv
