/-
  UnytModel.UExpr — unit expressions.

  Models the sympy expression a `Unit` carries: a numeric coefficient times a product of
  positive symbols raised to rational powers.  The meaning of a factor list is its exponent
  function `expOf`; duplicates and zero exponents are allowed in intermediate values so that
  `mul` is append and `pow` is a map.  `normalize` (merge, drop zeros, sort by name in
  code-point order — sympy's `as_ordered_factors` order for symbols) is the canonical form
  used for printing, hashing and structural comparison.
-/
import UnytModel.Num

namespace Unyt

abbrev Factors := List (String × Rat)

/-- exponent of symbol `s` in a factor list -/
def expOf : Factors → String → Rat
  | [], _ => 0
  | (t, q) :: r, s => (if t = s then q else 0) + expOf r s

structure UExpr (K : Type) where
  coeff : K
  factors : Factors
deriving Repr

namespace UExpr
variable {K : Type}

def one [OfNat K 1] : UExpr K := ⟨1, []⟩
def sym [OfNat K 1] (s : String) : UExpr K := ⟨1, [(s, 1)]⟩
def num (c : K) : UExpr K := ⟨c, []⟩

def mul [Mul K] (a b : UExpr K) : UExpr K := ⟨a.coeff * b.coeff, a.factors ++ b.factors⟩

def negF (f : Factors) : Factors := f.map fun p => (p.1, -p.2)
def scaleF (f : Factors) (q : Rat) : Factors := f.map fun p => (p.1, p.2 * q)

def inv [Div K] [OfNat K 1] (a : UExpr K) : UExpr K := ⟨1 / a.coeff, negF a.factors⟩
def div [Div K] (a b : UExpr K) : UExpr K := ⟨a.coeff / b.coeff, a.factors ++ negF b.factors⟩
def pow [RPow K] (a : UExpr K) (q : Rat) : UExpr K := ⟨RPow.rpow a.coeff q, scaleF a.factors q⟩

/-- insert one factor into a list kept sorted by symbol name, merging equal symbols -/
def insertF (s : String) (q : Rat) : Factors → Factors
  | [] => [(s, q)]
  | (t, r) :: rest =>
    if s = t then (t, r + q) :: rest
    else if s < t then (s, q) :: (t, r) :: rest
    else (t, r) :: insertF s q rest

def sortMerge (f : Factors) : Factors := f.foldr (fun p acc => insertF p.1 p.2 acc) []
def dropZeros (f : Factors) : Factors := f.filter fun p => p.2 != 0
def normF (f : Factors) : Factors := dropZeros (sortMerge f)

def normalize (a : UExpr K) : UExpr K := ⟨a.coeff, normF a.factors⟩

/-- extensional equivalence: same coefficient, same exponent for every symbol — what sympy's
    `==` decides on these expressions -/
def Equiv (a b : UExpr K) : Prop := a.coeff = b.coeff ∧ ∀ s, expOf a.factors s = expOf b.factors s

/-- the symbols occurring with non-zero exponent (`expr.atoms()` minus numbers) -/
def atoms (a : UExpr K) : List String := (normF a.factors).map (·.1)

def isAtomic (a : UExpr K) [BEq K] [OfNat K 1] : Bool :=
  match normF a.factors with
  | [(_, q)] => q == 1 && a.coeff == 1
  | _ => false

end UExpr

/-- wire format of a factor list: `sym:p/q;sym:p/q` (empty string for no factors) -/
def Factors.str (f : Factors) : String :=
  ";".intercalate (f.map fun p => s!"{p.1}:{ratStr p.2}")

def Factors.parse (s : String) : Option Factors :=
  if s.isEmpty then some [] else
  (s.splitOn ";").mapM fun item =>
    match item.splitOn ":" with
    | [n, q] => (parseRat q).map fun r => (n, r)
    | _ => none

end Unyt
