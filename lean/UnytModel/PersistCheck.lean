/-
  UnytModel.PersistCheck — the C11 model instantiated at `K := Rat` over the regenerated default
  table, the witnesses of the counterexample theorems, and the executable Booleans
  `UnytProofs/C11.lean` decides in the kernel.  (The harness replays every witness on the real code.)
-/
import UnytModel.Persist
import UnytModel.SystemTables
import UnytModel.Generated.PersistRoutes
import UnytModel.Ref.C11

namespace Unyt.Persist
open Unyt

section
attribute [local instance] ratPowStub

def qPre : Prefixes Rat := defaultPrefixes Rat
def qLut : Lut Rat := defaultLut Rat

/-- the default registry: every row of the default table, canonical, `mks` -/
def qRows : PLut Rat := qLut.map fun p => (p.1, ⟨p.2, true⟩)
def qReg : PReg Rat := ⟨qRows, "mks"⟩

/-- the follow-up context at ℚ: regenerated tables, exact unit equality, no simplification
    coefficient, identity kernels (a follow-up's numbers are then the factor applied to the data) -/
def qCtx : FCtx Rat :=
  { T := Ufunc.Tables.generated, pre := qPre, ueq := UnitV.eqv, simp := fun u => (1, u),
    em := defaultEm Rat, systems := builtinSystems Rat, kern := fun _ v => v }

/-- `Unit(name)` for a symbol of the default table -/
def qUnit (name : String) : UnitV Rat :=
  match mkUnit qPre qLut (UExpr.sym name) with
  | .ok u => u
  | .error _ => ⟨UExpr.one, 1, 0, Dim.one, true⟩

/-- `unyt_quantity(v, name)` in the default registry -/
def qQuantity (v : Rat) (name : String) : PObj Rat :=
  { vals := [v], isQuantity := true, unit := qUnit name, reg := qReg }

/-- the regenerated configuration of a route (the shared-object configuration when absent — the
    table obligation `active_routes_classified` makes sure none is) -/
def liveCfg (r : Route) : RouteCfg := (Generated.persistRoutes.get r).getD Ref.c11Shared
def asIsCfg (r : Route) : RouteCfg := (Ref.c11AsIs.get r).getD Ref.c11Shared

def restoreQ (cfg : RouteCfg) (x : PObj Rat) : Except Err (PObj Rat) := restore cfg qPre qLut x
def guardQ (cfg : RouteCfg) (x : PObj Rat) : Bool := restoreGuard (EqTests.decide Rat) cfg qPre qLut x

/-- outcome of a follow-up as far as it is compared: refusal, or numbers and unit data -/
abbrev Obs := Option Err × List Rat × Option (Rat × Rat × Dim)

def obs (r : Except Err (Res Rat)) : Obs :=
  match r with
  | .error e => (some e, [], none)
  | .ok x => (none, x.vals, x.unit.map fun u => (u.scale, u.offset, u.dim))

def Obs.err (o : Obs) : Option Err := o.1

def errOf {α : Type} (r : Except Err α) : Option Err :=
  match r with | .error e => some e | .ok _ => none

/-! ### witnesses -/

/-- W1: `unyt_quantity(90, "degree")` -/
def wDeg : PObj Rat := qQuantity 90 "degree"
/-- W2: `unyt_quantity(300, "K")` -/
def wK : PObj Rat := qQuantity 300 "K"
/-- W3: `unyt_quantity(3, "dB")` -/
def wDB : PObj Rat := qQuantity 3 "dB"
/-- W4: `unyt_quantity(2, "delta_degC")` -/
def wDelta : PObj Rat := qQuantity 2 "delta_degC"
/-- W5: a registry in which the default symbol `g` was modified to 2.0; `unyt_quantity(2, "g")` -/
def wModG : PObj Rat :=
  let rows : PLut Rat := qRows.map fun p => if p.1 = "g" then (p.1, ⟨{ p.2.e with scale := 2 }, true⟩) else p
  { vals := [2], isQuantity := true, unit := { qUnit "g" with scale := 2 }, reg := ⟨rows, "mks"⟩ }
/-- W6: a registry from which the default symbol `lb` was removed; `unyt_quantity(2, "km")` -/
def wNoLb : PObj Rat :=
  { qQuantity 2 "km" with reg := ⟨qRows.filter fun p => p.1 ≠ "lb", "mks"⟩ }
/-- W7: `UnitRegistry(unit_system="cgs")`; `unyt_quantity(2, "km", registry=…)` -/
def wCgs : PObj Rat := { qQuantity 2 "km" with reg := ⟨qRows, "cgs"⟩ }
/-- W8: `reg.add("vfoo", 3.0, length)`; the quantity is created; `reg.modify("vfoo", 5.0)` -/
def wStale : PObj Rat :=
  let e : Entry Rat := { scale := 5, dim := Dim.dLength, offset := 0, prefixable := false }
  { vals := [2], isQuantity := true, unit := ⟨⟨1, [("vfoo", 1)]⟩, 3, 0, Dim.dLength, true⟩,
    reg := ⟨qRows ++ [("vfoo", ⟨e, true⟩)], "mks"⟩ }
/-- W9: a user-defined unit written with savetxt -/
def wUser : PObj Rat :=
  let e : Entry Rat := { scale := 3, dim := Dim.dLength, offset := 0, prefixable := false }
  { vals := [2], isQuantity := false, unit := ⟨⟨1, [("vfoo", 1)]⟩, 3, 0, Dim.dLength, true⟩,
    reg := ⟨qRows ++ [("vfoo", ⟨e, true⟩)], "mks"⟩ }

/-- W10: default symbols re-declared (`reg.add`) with exactly the default value, dimensions and offset
    and the OTHER SI-prefixability flag — `mile` made prefixable, `bar` made non-prefixable;
    `unyt_quantity(2, "mile", registry=…)` -/
def wFlag : PObj Rat :=
  let rows : PLut Rat := qRows.map fun p =>
    if p.1 = "mile" then (p.1, ⟨{ p.2.e with prefixable := true }, true⟩)
    else if p.1 = "bar" then (p.1, ⟨{ p.2.e with prefixable := false }, true⟩) else p
  { vals := [2], isQuantity := true, unit := qUnit "mile", reg := ⟨rows, "mks"⟩ }

def flagOf (r : Except Err (PObj Rat)) (k : String) : Option Bool :=
  match r with | .ok y => (y.reg.rows.find? k).map (·.e.prefixable) | .error _ => none

def canonOf (r : Except Err (PObj Rat)) : Option Bool :=
  match r with | .ok y => some y.unit.canon | .error _ => none

def rowOf (r : Except Err (PObj Rat)) (k : String) : Option (Option (Rat × Bool)) :=
  match r with | .ok y => some ((y.reg.rows.find? k).map fun r => (r.e.scale, r.canon)) | .error _ => none

/-- restore, then a follow-up on the restored object -/
def thenFollow (cfg : RouteCfg) (x : PObj Rat) (op : FollowOp Rat) : Obs :=
  match restoreQ cfg x with
  | .error e => (some e, [], none)
  | .ok y => obs (follow qCtx op y)

def eSym (s : String) : UExpr Rat := UExpr.sym s

/-- the routes whose configuration carries the unit's data but loses the identity of its
    dimension object -/
def losesUnitCanon (cfg : RouteCfg) : Bool :=
  !cfg.unitSame && cfg.unitDataCarried && !cfg.unitCanon.onCanon

/-- every route of a table that carries the unit's data without keeping the identity shows the
    three behavioural differences on W1–W3 -/
def canonLossShows (T : RouteTable) : Bool :=
  T.all fun p =>
    !(losesUnitCanon p.2) ||
    (canonOf (restoreQ p.2 wDeg) == some false
      -- sin(90 degree): the original converts to radian first, the restored object does not
      && obs (follow qCtx (.unary "sin") wDeg) != thenFollow p.2 wDeg (.unary "sin")
      && thenFollow p.2 wDeg (.unary "sin") == (none, [90], none)
      -- 300 K + 1 degC: UnitOperationError for the original, InvalidUnitOperation for the restored
      && Obs.err (obs (follow qCtx (.binaryQ "add" (eSym "degC") 1) wK)) == some .UnitOperationError
      && Obs.err (thenFollow p.2 wK (.binaryQ "add" (eSym "degC") 1)) == some .InvalidUnitOperation
      -- dB * m: refused for the original, accepted for the restored
      && Obs.err (obs (follow qCtx (.mulUnit (eSym "m")) wDB)) == some .InvalidUnitOperation
      && Obs.err (thenFollow p.2 wDB (.mulUnit (eSym "m"))) == none)

/-- the same for the routes that recompute the unit from a table whose rows lost their identity -/
def rowCanonLossShows (T : RouteTable) : Bool :=
  T.all fun p =>
    !(!p.2.unitSame && !p.2.unitDataCarried && !p.2.regSame && !p.2.dfltRowCanon.onCanon) ||
    (canonOf (restoreQ p.2 wDeg) == some false
      && thenFollow p.2 wDeg (.unary "sin") == (none, [90], none)
      && Obs.err (thenFollow p.2 wK (.binaryQ "add" (eSym "degC") 1)) == some .InvalidUnitOperation
      && Obs.err (thenFollow p.2 wDB (.mulUnit (eSym "m"))) == none)

/-- with identity kept / re-interned, W1–W3 come back exactly and behave the same -/
def canonKeptRoundTrips (T : RouteTable) : Bool :=
  T.all fun p =>
    [wDeg, wK, wDB].all fun x =>
      match restoreQ p.2 x with
      | .ok y => y.unit.canon
      | .error _ => false

/-! ### the other defect classes, each as a Boolean over a whole route table -/

/-- a route whose string form cannot name `delta_degC` cannot bring it back (no such route since the
    parser fix; the check stays for a table in which the flag is set) -/
def deltaDisplayShows (T : RouteTable) : Bool :=
  T.all fun p => !(!p.2.unitSame && p.2.unitByDisplayStr) || errOf (restoreQ p.2 wDelta) == some .UnitParseError

/-- a route that rebuilds the registry over the default table resets a MODIFIED default symbol:
    `g` is 1e-3 again, and `2 g → kg` differs from the original's answer -/
def modifiedDefaultShows (T : RouteTable) : Bool :=
  T.all fun p => !(!p.2.regSame && !p.2.keepsModifiedDefault && p.2.unitDataCarried) ||
    (rowOf (restoreQ p.2 wModG) "g" == some ((qLut.find? "g").map fun e => (e.scale, true))
      && thenFollow p.2 wModG (.toUnit (eSym "kg")) != obs (follow qCtx (.toUnit (eSym "kg")) wModG))

/-- a route that re-adds missing default symbols resurrects a REMOVED one -/
def removedDefaultShows (T : RouteTable) : Bool :=
  T.all fun p => !(!p.2.regSame && !p.2.keepsRemoved) ||
    ((wNoLb.reg.rows.find? "lb").isNone &&
      (match rowOf (restoreQ p.2 wNoLb) "lb" with | some (some _) => true | _ => false))

/-- a route that does not carry `unit_system` changes what `in_base()` answers -/
def unitSystemShows (T : RouteTable) : Bool :=
  T.all fun p => !(!p.2.regSame && !p.2.keepsUnitSystem) ||
    thenFollow p.2 wCgs (.inBase none) != obs (follow qCtx (.inBase none) wCgs)

/-- a route that recomputes the unit from the table rebinds a unit created BEFORE `modify` -/
def staleUnitShows (T : RouteTable) : Bool :=
  T.all fun p => !(!p.2.unitSame && !p.2.unitDataCarried && p.2.keepsAdded) ||
    (match restoreQ p.2 wStale with
     | .ok y => y.unit.scale == 5 && wStale.unit.scale == 3
     | .error _ => false)

/-- a route that does not carry user rows cannot bring a user-defined unit back -/
def userUnitShows (T : RouteTable) : Bool :=
  T.all fun p => !(!p.2.regSame && !p.2.keepsAdded) || errOf (restoreQ p.2 wUser) == some .UnitParseError

def allDefectsShow (T : RouteTable) : Bool :=
  deltaDisplayShows T && modifiedDefaultShows T && removedDefaultShows T && unitSystemShows T
    && staleUnitShows T && userUnitShows T

/-! ### rows that differ from the default table in the prefixable flag only -/

/-- the routes listed as preserving the contents of rows keyed by a default symbol -/
def contentPreserving (cfg : RouteCfg) : Bool := cfg.regSame || cfg.keepsModifiedDefault

/-- the flag column alone: a content-preserving route also carries a row that differs from the
    default in the prefixable flag only -/
def flagOnlyFlags (T : RouteTable) : Bool :=
  T.all fun p => !(contentPreserving p.2) || p.2.keepsFlagOnlyDefault

/-- … and what that means on W10: `mile` comes back prefixable, `bar` non-prefixable, `2 mile → kmile`
    is accepted with the original's answer, `→ mbar` is the original's refusal -/
def flagOnlyKept (T : RouteTable) : Bool :=
  T.all fun p => !(contentPreserving p.2) ||
    (flagOf (restoreQ p.2 wFlag) "mile" == some true && flagOf (restoreQ p.2 wFlag) "bar" == some false
      && thenFollow p.2 wFlag (.toUnit (eSym "kmile")) == obs (follow qCtx (.toUnit (eSym "kmile")) wFlag)
      && Obs.err (thenFollow p.2 wFlag (.toUnit (eSym "kmile"))) == none
      && thenFollow p.2 wFlag (.toUnit (eSym "mbar")) == obs (follow qCtx (.toUnit (eSym "mbar")) wFlag)
      && Obs.err (thenFollow p.2 wFlag (.toUnit (eSym "mbar"))) == some .UnitParseError)

/-- the flag is what the model's answer turns on: the same route WITHOUT it hands the default flags
    back — `kmile` is unknown, `mbar` is known again — and the guard rejects W10 -/
def flagOnlyLossShows (cfg : RouteCfg) : Bool :=
  let c := { cfg with keepsFlagOnlyDefault := false }
  flagOf (restoreQ c wFlag) "mile" == some false && flagOf (restoreQ c wFlag) "bar" == some true
    && Obs.err (thenFollow c wFlag (.toUnit (eSym "kmile"))) == some .UnitParseError
    && Obs.err (thenFollow c wFlag (.toUnit (eSym "mbar"))) != some .UnitParseError
    && !(guardQ c wFlag)
    -- a row that differs in its VALUE too still travels on such a route
    && rowOf (restoreQ c wModG) "g" == some (some (2, true))

/-- how many routes of the table each defect class concerns (non-vacuity of the checks above) -/
def defectCounts (T : RouteTable) : List Nat :=
  [ (T.filter fun p => losesUnitCanon p.2).length,
    (T.filter fun p => !p.2.unitSame && !p.2.unitDataCarried && !p.2.regSame && !p.2.dfltRowCanon.onCanon).length,
    (T.filter fun p => !p.2.unitSame && p.2.unitByDisplayStr).length,
    (T.filter fun p => !p.2.regSame && !p.2.keepsModifiedDefault && p.2.unitDataCarried).length,
    (T.filter fun p => !p.2.regSame && !p.2.keepsRemoved).length,
    (T.filter fun p => !p.2.regSame && !p.2.keepsUnitSystem).length,
    (T.filter fun p => !p.2.unitSame && !p.2.unitDataCarried && p.2.keepsAdded).length,
    (T.filter fun p => !p.2.regSame && !p.2.keepsAdded).length ]

end
end Unyt.Persist
