/-
  UnytModel.Shape — the shape algebra of NumPy as far as unyt's class decisions depend on it
  (DESIGN.md §2.8).  A shape is a `List Nat`; `[]` is a 0-d (scalar) array.

  Models (NumPy 2.x semantics, validated against the live library by the C16 correspondence):
    * `size`                      — `ndarray.size`
    * `broadcast`                 — `np.broadcast_shapes`
    * `reduceAxes`                — the shape of `ufunc.reduce` / `np.sum`-like reductions
                                    (`axis=None | int | tuple`, `keepdims`)
    * `index`                     — `ndarray.__getitem__`: integer, slice, Ellipsis, newaxis,
                                    boolean mask, integer-array ("fancy") index and tuples of these
    * `reshape/transpose/squeeze/expandDims/ravel/outer` — the view-making methods
  No Mathlib import; every definition is total and structurally recursive so that the theorems of
  `UnytProofs/C16.lean` are about exactly what the driver executes.
-/

namespace Unyt

abbrev Shape := List Nat

/-- errors of the shape layer (Python exception class names) -/
inductive SErr
  | IndexError | ValueError | TypeError | RuntimeError | AxisError
  | IterableUnitCoercionError | AttributeError | InvalidUnitOperation
deriving DecidableEq, Repr, Inhabited

def SErr.str : SErr → String
  | .IndexError => "IndexError" | .ValueError => "ValueError" | .TypeError => "TypeError"
  | .RuntimeError => "RuntimeError" | .AxisError => "AxisError"
  | .IterableUnitCoercionError => "IterableUnitCoercionError"
  | .AttributeError => "AttributeError" | .InvalidUnitOperation => "InvalidUnitOperation"

namespace Shape

/-- `ndarray.size`: the product of the dimensions (1 for a 0-d array) -/
def size : Shape → Nat
  | [] => 1
  | d :: s => d * size s

/-- `ndarray.ndim` -/
abbrev ndim (s : Shape) : Nat := s.length

/-! ### broadcasting -/

/-- broadcast of two shapes given innermost dimension first -/
def bcastRev : List Nat → List Nat → Option (List Nat)
  | [], b => some b
  | a, [] => some a
  | x :: a, y :: b =>
    match bcastRev a b with
    | none => none
    | some r =>
      if x = y then some (x :: r)
      else if x = 1 then some (y :: r)
      else if y = 1 then some (x :: r)
      else none

/-- `np.broadcast_shapes(a, b)`; `none` = "operands could not be broadcast together" -/
def broadcast (a b : Shape) : Option Shape :=
  (bcastRev a.reverse b.reverse).map List.reverse

/-- `ufunc.outer(a, b)`: the shapes are concatenated -/
def outer (a b : Shape) : Shape := a ++ b

/-- `np.matmul` (a generalised ufunc) for 1-d and 2-d operands: a 1-d operand is promoted to a
    row / column and the added axis removed again -/
def matmulShape (a b : Shape) : Option Shape :=
  match a, b with
  | [k], [k'] => if k = k' then some [] else none
  | [n, k], [k'] => if k = k' then some [n] else none
  | [k], [k', m] => if k = k' then some [m] else none
  | [n, k], [k', m] => if k = k' then some [n, m] else none
  | _, _ => none

/-- `np.vecdot`: the last axes are contracted, the leading ones broadcast -/
def vecdotShape (a b : Shape) : Option Shape :=
  match a.getLast?, b.getLast? with
  | some k, some k' => if k = k' then broadcast a.dropLast b.dropLast else none
  | _, _ => none

/-! ### reductions -/

/-- a possibly negative axis number against `n` dimensions (`normalize_axis_index`) -/
def normAxis (n : Nat) (ax : Int) : Option Nat :=
  if 0 ≤ ax ∧ ax < (n : Int) then some ax.toNat
  else if -(n : Int) ≤ ax ∧ ax < 0 then some (ax + n).toNat
  else none

/-- drop (or, with `keepdims`, collapse to 1) the dimensions whose position `i, i+1, …` is in `axs` -/
def reduceFrom (i : Nat) (axs : List Nat) (keep : Bool) : Shape → Shape
  | [] => []
  | d :: s =>
    if i ∈ axs then
      (if keep then 1 :: reduceFrom (i + 1) axs keep s else reduceFrom (i + 1) axs keep s)
    else d :: reduceFrom (i + 1) axs keep s

/-- normalise a list of axes; duplicates are an error ("duplicate value in 'axis'") -/
def normAxes (n : Nat) : List Int → Option (List Nat)
  | [] => some []
  | a :: as =>
    match normAxis n a, normAxes n as with
    | some i, some is => if i ∈ is then none else some (i :: is)
    | _, _ => none

/-- shape of a reduction: `axis=None` reduces everything -/
def reduceAxes (s : Shape) (axes : Option (List Int)) (keep : Bool) : Except SErr Shape :=
  match axes with
  | none => .ok (if keep then s.map (fun _ => 1) else [])
  | some as =>
    match normAxes s.length as with
    | none => .error .AxisError
    | some is => .ok (reduceFrom 0 is keep s)

/-! ### view-making methods -/

/-- `ndarray.squeeze()` (no axis): drop every dimension equal to 1 -/
def squeeze (s : Shape) : Shape := s.filter (· ≠ 1)

/-- `ndarray.squeeze(axis=k)`: the dimension must be 1 -/
def squeezeAxis (s : Shape) (ax : Int) : Except SErr Shape :=
  -- NumPy lets `axis=0` / `axis=-1` through for a 0-d array
  if s = [] ∧ (ax = 0 ∨ ax = -1) then .ok [] else
  match normAxis s.length ax with
  | none => .error .AxisError
  | some i => if s.getD i 0 = 1 then .ok (s.eraseIdx i) else .error .ValueError

/-- `ndarray.T` / `transpose()` without axes: reverse -/
def transpose (s : Shape) : Shape := s.reverse

/-- `transpose(axes)`: `axes` must be a permutation of `range(ndim)` -/
def transposeAxes (s : Shape) (perm : List Nat) : Except SErr Shape :=
  if perm.length = s.length ∧ (List.range s.length).all (· ∈ perm) then
    .ok (perm.map (fun i => s.getD i 0))
  else .error .ValueError

/-- `np.expand_dims(x, k)` for `0 ≤ k ≤ ndim` -/
def expandDims (s : Shape) (k : Nat) : Except SErr Shape :=
  if k ≤ s.length then .ok (s.take k ++ 1 :: s.drop k) else .error .AxisError

/-- `ravel()` / `flatten()` -/
def ravel (s : Shape) : Shape := [size s]

/-- `np.atleast_1d` -/
def atleast1d (s : Shape) : Shape := if s = [] then [1] else s

/-- product of the non-negative entries and the number of `-1` entries of a reshape request -/
def reshapeKnown : List Int → Nat × Nat
  | [] => (1, 0)
  | d :: t =>
    let (p, k) := reshapeKnown t
    if d < 0 then (p, k + 1) else (d.toNat * p, k)

/-- `ndarray.reshape(t)` with at most one `-1` entry; other negative entries are refused -/
def reshape (s : Shape) (t : List Int) : Except SErr Shape :=
  if t.any (· < -1) then .error .ValueError
  else
    let (p, k) := reshapeKnown t
    if k = 0 then (if p = size s then .ok (t.map Int.toNat) else .error .ValueError)
    else if k = 1 then
      (if p = 0 then .error .ValueError
       else if size s % p = 0 then .ok (t.map (fun d => if d < 0 then size s / p else d.toNat))
       else .error .ValueError)
    else .error .ValueError

/-! ### indexing -/

/-- one item of an index tuple -/
inductive Ix
  | int (i : Int)
  | slice (start stop : Option Int) (step : Int)
  | ellipsis
  | newaxis
  /-- boolean array of shape `mshape` with `ntrue` true entries (`mshape = []`: `True`/`False`) -/
  | mask (mshape : Shape) (ntrue : Nat)
  /-- integer array of shape `ishape` whose entries lie in `[lo, hi]` -/
  | fancy (ishape : Shape) (lo hi : Int)
deriving DecidableEq, Repr, Inhabited

/-- `PySlice_AdjustIndices`: the clamped start/stop of a slice over a dimension of size `d` -/
def clampSlice (d : Nat) (step : Int) (v : Option Int) (isStart : Bool) : Int :=
  match v with
  | none => if step < 0 then (if isStart then (d : Int) - 1 else -1) else (if isStart then 0 else d)
  | some v =>
    let v := if v < 0 then v + d else v
    if v < 0 then (if step < 0 then -1 else 0)
    else if v ≥ d then (if step < 0 then (d : Int) - 1 else d)
    else v

/-- number of elements selected by `start:stop:step` from a dimension of size `d` (`step ≠ 0`) -/
def sliceLen (d : Nat) (start stop : Option Int) (step : Int) : Nat :=
  let a := clampSlice d step start true
  let b := clampSlice d step stop false
  if step < 0 then (if b < a then ((a - b - 1) / (-step) + 1).toNat else 0)
  else if step = 0 then 0
  else (if a < b then ((b - a - 1) / step + 1).toNat else 0)

/-- a (possibly negative) integer index is valid for a dimension of size `d` -/
def intInRange (d : Nat) (i : Int) : Bool := decide (-(d : Int) ≤ i ∧ i < d)

/-- number of dimensions an index item consumes -/
def Ix.consumed : Ix → Nat
  | .int _ => 1
  | .slice .. => 1
  | .ellipsis => 0
  | .newaxis => 0
  | .mask ms _ => ms.length
  | .fancy .. => 1

def Ix.isAdvanced : Ix → Bool
  | .mask .. => true
  | .fancy .. => true
  | _ => false

def Ix.isEllipsis : Ix → Bool
  | .ellipsis => true
  | _ => false

/-- accumulator of the index walk: dimensions produced by basic items before / after the first
    advanced item, the broadcast shape of the advanced items, and the adjacency state
    (0 no advanced item yet, 1 inside the run of advanced items, 2 a basic item followed the run,
    3 a second run started: the advanced dimensions go first — `mit->consec == 0` in mapping.c) -/
structure IxAcc where
  pre : List Nat := []
  post : List Nat := []
  adv : Option Shape := none
  state : Nat := 0
  /-- some integer array held an out-of-range entry (raises only if the broadcast is non-empty) -/
  oob : Bool := false
deriving Repr, DecidableEq

def IxAcc.pushBasic (a : IxAcc) (dims : List Nat) : IxAcc :=
  if a.state = 0 then { a with pre := a.pre ++ dims }
  else if a.state = 1 then { a with post := a.post ++ dims, state := 2 }
  else { a with post := a.post ++ dims }

def IxAcc.pushAdv (a : IxAcc) (sh : Shape) : Except SErr IxAcc :=
  match a.adv with
  | none => .ok { a with adv := some sh, state := 1 }
  | some b =>
    match broadcast b sh with
    | none => .error .IndexError
    | some r => .ok { a with adv := some r, state := if a.state = 1 then 1 else 3 }

def IxAcc.result (a : IxAcc) : Shape :=
  match a.adv with
  | none => a.pre ++ a.post
  | some b => if a.state = 3 then b ++ (a.pre ++ a.post) else a.pre ++ (b ++ a.post)

/-- the walk over the index items; `hasAdv`: some item is a mask or an integer array (integers
    are then advanced indices too); `ell`: number of dimensions the Ellipsis stands for -/
def walk (hasAdv : Bool) (ell : Nat) : List Ix → Shape → IxAcc → Except SErr IxAcc
  | [], rest, acc => .ok (acc.pushBasic rest)
  | .newaxis :: ixs, rest, acc => walk hasAdv ell ixs rest (acc.pushBasic [1])
  | .ellipsis :: ixs, rest, acc => walk hasAdv ell ixs (rest.drop ell) (acc.pushBasic (rest.take ell))
  | .mask ms nt :: ixs, rest, acc =>
    -- an empty 1-d boolean array is treated as an empty integer array (mapping.c legacy rule)
    if ms = [0] ∧ rest ≠ [] then
      match acc.pushAdv [0] with
      | .error e => .error e
      | .ok acc' => walk hasAdv ell ixs (rest.drop 1) acc'
    else if ms.length ≤ rest.length ∧ rest.take ms.length = ms then
      match acc.pushAdv [nt] with
      | .error e => .error e
      | .ok acc' => walk hasAdv ell ixs (rest.drop ms.length) acc'
    else .error .IndexError
  | .int _ :: _, [], _ => .error .IndexError
  | .int i :: ixs, d :: rest, acc =>
    if intInRange d i then
      (if hasAdv then
        match acc.pushAdv [] with
        | .error e => .error e
        | .ok acc' => walk hasAdv ell ixs rest acc'
       else walk hasAdv ell ixs rest acc)
    else .error .IndexError
  | .slice .. :: _, [], _ => .error .IndexError
  | .slice a b st :: ixs, d :: rest, acc =>
    if st = 0 then .error .ValueError
    else walk hasAdv ell ixs rest (acc.pushBasic [sliceLen d a b st])
  | .fancy .. :: _, [], _ => .error .IndexError
  | .fancy sh lo hi :: ixs, d :: rest, acc =>
    -- bounds are checked while iterating, so not at all when the broadcast index is empty
    let bad : Bool := !(decide (size sh = 0) || (intInRange d lo && intInRange d hi))
    -- … except for 0-d integer arrays, which are converted to plain integers first
    if bad ∧ sh = [] then .error .IndexError
    else
    match acc.pushAdv sh with
    | .error e => .error e
    | .ok acc' => walk hasAdv ell ixs rest { acc' with oob := acc'.oob || bad }

def consumedTotal (ixs : List Ix) : Nat := (ixs.map Ix.consumed).sum

/-- shape of `a[ixs]` for `a.shape = s` (a non-tuple index is the one-element list) -/
def index (s : Shape) (ixs : List Ix) : Except SErr Shape :=
  let nell := (ixs.filter Ix.isEllipsis).length
  let c := consumedTotal ixs
  if nell > 1 then .error .IndexError
  else if c > s.length then .error .IndexError
  else
    let ell := if nell = 1 then s.length - c else 0
    match walk (ixs.any Ix.isAdvanced) ell ixs s {} with
    | .error e => .error e
    | .ok acc =>
      if acc.oob ∧ size (acc.adv.getD []) ≠ 0 then .error .IndexError else .ok acc.result

/-- the index consists of basic items only (result is a view of the parent) -/
def isBasic (ixs : List Ix) : Bool := !(ixs.any Ix.isAdvanced)

end Shape
end Unyt
