/-
  UnytModel.DriverBase — state and helpers of the line-protocol driver (DESIGN.md §1.2).
  One tab-separated operation per input line, one output line per operation.
  Doubles travel as the decimal value of their 64-bit pattern.
-/
import UnytModel.Tables
import UnytModel.Convert

namespace Unyt

structure DriverState where
  /-- tables of the registries created so far; index 0 is a fresh copy of the default table -/
  luts : Array (Lut Float) := #[defaultLut Float]
  pre : Prefixes Float := defaultPrefixes Float

def fb (s : String) : Option Float := floatOfBitsStr s

def parseBool (s : String) : Option Bool :=
  if s == "1" then some true else if s == "0" then some false else none

def unitOut (u : UnitV Float) : String :=
  s!"ok\t{bitsStr u.scale}\t{bitsStr u.offset}\t{u.dim.str}\t{bitsStr u.expr.coeff}\t{Factors.str (UExpr.normF u.expr.factors)}"

def parseUnitV (sc off dim co fac : String) : Option (UnitV Float) := do
  let s ← fb sc
  let o ← fb off
  let d ← Dim.parse dim
  let c ← fb co
  let f ← Factors.parse fac
  some ⟨⟨c, f⟩, s, o, d, true⟩

def exceptOut {α} (f : α → String) : Except Err α → String
  | .ok a => f a
  | .error e => s!"err\t{e.str}"

/-- an op handler: `none` = "not my opcode" -/
abbrev Handler := DriverState → List String → Option (DriverState × String)

end Unyt
