/-
  UnytModel.NameCode — unit names as numerals, and the Python string methods the name
  generator uses.

  A `Name` is the *code* of a Python `str`: the little-endian base-2²¹ numeral whose digits are
  (code point + 1); the first character is the least significant digit, the empty string is 0.
  The kernel compares two numerals in one accelerated step, whereas a comparison of two `String`
  literals costs it hundreds of microseconds (measured), and the whole-table obligations of C14
  perform millions of comparisons.  Character-level logic (`str.title`, `str.islower`,
  `str.lower`, `str.split("_")`, `str.replace`) works on the decoded list of code points.

  Python's case mappings are exact for ASCII; for the non-ASCII characters that occur in unyt's
  tables they are taken from a regenerated table (`Generated.C14.charTable`, one row per character
  with what CPython answers), and a kernel-decided obligation states that every non-ASCII
  character of the generator's inputs has a row.
-/

namespace Unyt

/-- a Python `str`, as its code -/
abbrev Name := Nat

namespace Name

/-- the radix: 2²¹ > 0x110000 + 1 -/
def B : Nat := 2097152

def nil : Name := 0

/-- `chr(c) + n` -/
def cons (c : Nat) (n : Name) : Name := (c + 1) + B * n

/-- `n[0]` as a code point (only meaningful when `n ≠ ""`) -/
def head (n : Name) : Nat := n % B - 1

/-- `n[1:]` -/
def tail (n : Name) : Name := n / B

/-- least `k ≥ k₀` with `n < B^k` (the fuel is never exhausted: `n < B^n`) -/
def lenAux : Nat → Nat → Name → Nat
  | 0, k, _ => k
  | f + 1, k, n => if Nat.blt n (B ^ k) then k else lenAux f (k + 1) n

/-- `len(n)`: the number of base-`B` digits.  (Not `Nat.log2`: the kernel has no accelerated
    `log2` and takes minutes on the 500-bit codes of long names.) -/
def len (n : Name) : Nat := lenAux n 0 n

/-- `n[:i]` -/
def take (i : Nat) (n : Name) : Name := n % B ^ i

/-- `n[i:]` -/
def drop (i : Nat) (n : Name) : Name := n / B ^ i

/-- `a + b` -/
def append (a b : Name) : Name := a + B ^ (len a) * b

/-- `k n`, with `n` evaluated first.  The kernel's evaluator is call-by-name: an unevaluated
    argument handed to a loop is recomputed at every use.  Matching on the numeral forces it once.
    (`force_eq : force n k = k n`.) -/
def force {α : Type} (n : Name) (k : Name → α) : α :=
  match n with
  | 0 => k 0
  | m + 1 => k (Nat.succ m)

theorem force_eq {α : Type} (n : Name) (k : Name → α) : force n k = k n := by
  cases n <;> rfl

def charsAux : Nat → Name → List Nat
  | 0, _ => []
  | f + 1, n =>
    if Nat.beq n 0 then []
    else force (n % B - 1) fun c => force (n / B) fun q => c :: charsAux f q

/-- `[ord(c) for c in n]` -/
def chars (n : Name) : List Nat := charsAux (len n) n

/-- `''.join(chr(c) for c in cs)` -/
def ofChars : List Nat → Name
  | [] => 0
  | c :: r => (c + 1) + B * ofChars r

def ofString (s : String) : Name := ofChars (s.toList.map Char.toNat)

def toString (n : Name) : String := String.ofList ((chars n).map Char.ofNat)

end Name

/-- association list keyed by name codes (a Python `dict` dumped in insertion order) -/
def findN {α : Type} (k : Name) : List (Name × α) → Option α
  | [] => none
  | (k', v) :: r => if Nat.beq k' k then some v else findN k r

def memN (k : Name) : List Name → Bool
  | [] => false
  | k' :: r => if Nat.beq k' k then true else memN k r

/-- a Python `dict` keyed by names, laid out by the translator as a search tree over the codes
    (a look-up walks ≈ log₂ n nodes; the kernel pays ≈ 0.1 ms per node) -/
inductive Dict (α : Type)
  | leaf
  | node (l : Dict α) (k : Name) (v : α) (r : Dict α)

namespace Dict
variable {α β : Type}

/-- `d.get(k)` -/
def get? : Dict α → Name → Option α
  | leaf, _ => none
  | node l k' v r, k =>
    if Nat.beq k' k then some v else if Nat.blt k k' then get? l k else get? r k

def contains (d : Dict α) (k : Name) : Bool := (d.get? k).isSome

def size : Dict α → Nat
  | leaf => 0
  | node l _ _ r => size l + 1 + size r

def map (f : α → β) : Dict α → Dict β
  | leaf => leaf
  | node l k v r => node (map f l) k (f v) (map f r)

/-- in-order items -/
def toList : Dict α → List (Name × α)
  | leaf => []
  | node l k v r => toList l ++ (k, v) :: toList r

theorem get?_map (f : α → β) (d : Dict α) (k : Name) : (d.map f).get? k = (d.get? k).map f := by
  induction d with
  | leaf => rfl
  | node l k' v r ihl ihr =>
    simp only [map, get?]
    split
    · rfl
    · split
      · exact ihl
      · exact ihr

end Dict

/-- names ↦ (`inv_name_alternatives[name]`, listing key of `name_alternatives`) -/
abbrev NameTree := Dict (Name × Name)

/-- the spellings of the units keyed by their lower-cased form: the bucket of
    (spelling, table key, prefixable) rows sharing one lower-cased spelling -/
abbrev BaseTree := Dict (List (Name × Name × Bool))

/-! ### Python string methods on lists of code points -/

/-- Python's case data of non-ASCII characters: (code point, lower, upper, title, class) with
    class 0 = uncased, 1 = lower, 2 = upper, 3 = title -/
abbrev CaseTable := List (Nat × Nat × Nat × Nat × Nat)

namespace Py

def caseRow (ct : CaseTable) (c : Nat) : Option (Nat × Nat × Nat × Nat) := findN c ct

def isAsciiUpper (c : Nat) : Bool := Nat.ble 65 c && Nat.ble c 90
def isAsciiLower (c : Nat) : Bool := Nat.ble 97 c && Nat.ble c 122

/-- 0 uncased, 1 lower, 2 upper, 3 title -/
def chClass (ct : CaseTable) (c : Nat) : Nat :=
  match Nat.blt c 128 with
  | true => (match isAsciiUpper c with
             | true => 2
             | false => match isAsciiLower c with
               | true => 1
               | false => 0)
  | false => match caseRow ct c with
    | some (_, _, _, k) => k
    | none => 0

def chLower (ct : CaseTable) (c : Nat) : Nat :=
  match Nat.blt c 128 with
  | true => (match isAsciiUpper c with
             | true => c + 32
             | false => c)
  | false => match caseRow ct c with
    | some (lo, _, _, _) => lo
    | none => c

def chUpper (ct : CaseTable) (c : Nat) : Nat :=
  match Nat.blt c 128 with
  | true => (match isAsciiLower c with
             | true => c - 32
             | false => c)
  | false => match caseRow ct c with
    | some (_, up, _, _) => up
    | none => c

def chTitle (ct : CaseTable) (c : Nat) : Nat :=
  match Nat.blt c 128 with
  | true => (match isAsciiLower c with
             | true => c - 32
             | false => c)
  | false => match caseRow ct c with
    | some (_, _, ti, _) => ti
    | none => c

/-- `str.lower()` -/
def lower (ct : CaseTable) (s : List Nat) : List Nat := s.map (chLower ct)

/-- `str.title()` (unicodeobject.c `do_title`): a cased character following a cased character is
    lower-cased, any other character is title-cased -/
def titleAux (ct : CaseTable) : Bool → List Nat → List Nat
  | _, [] => []
  | prevCased, c :: r =>
    (match prevCased with
     | true => chLower ct c
     | false => chTitle ct c) :: titleAux ct (!(Nat.beq (chClass ct c) 0)) r

def title (ct : CaseTable) (s : List Nat) : List Nat := titleAux ct false s

/-- `str.islower()`: no upper/title-case character and at least one lower-case character -/
def isLower (ct : CaseTable) (s : List Nat) : Bool :=
  s.all (fun c => !(Nat.beq (chClass ct c) 2) && !(Nat.beq (chClass ct c) 3))
    && s.any (fun c => Nat.beq (chClass ct c) 1)

/-- `str.split("_")` -/
def splitUnderscore : List Nat → List (List Nat)
  | [] => [[]]
  | c :: r =>
    match splitUnderscore r with
    | [] => [[]]   -- unreachable
    | w :: ws => if c = 95 then [] :: w :: ws else (c :: w) :: ws

end Py

/-- `str.lower()`, `str.title()`, `str.islower()` on codes -/
def Name.lower (ct : CaseTable) (n : Name) : Name := Name.ofChars (Py.lower ct (Name.chars n))
def Name.title (ct : CaseTable) (n : Name) : Name := Name.ofChars (Py.title ct (Name.chars n))
def Name.isLower (ct : CaseTable) (n : Name) : Bool := Py.isLower ct (Name.chars n)

end Unyt
