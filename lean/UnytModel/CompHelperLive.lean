/-
  UnytModel.CompHelperLive — the `numpy.isclose` / `numpy.allclose` handlers over the helper program
  regenerated from the live source (`Generated.compHelperProg`): what `drv_c19` executes for
  `c19.isclose` / `c19.allclose`.
-/
import UnytModel.CompHelper
import UnytModel.Generated.C19CompHelper

namespace Unyt.Testing
section
variable {K : Type} [Add K] [Sub K] [Mul K] [Div K] [Neg K] [OfNat K 0] [OfNat K 1] [BEq K]
  [LE K] [DecidableLE K] [UnitClose K]

def arrayCompHelperLive (a b : ArgIn K) : Except Err (List K × List K × TUnit K) :=
  runCompProg Generated.compHelperProg a b

def iscloseHandlerLive (a b : ArgIn K) (rt atl : K) : Except Err (List Bool) :=
  iscloseHandlerOf Generated.compHelperProg a b rt atl

def allcloseHandlerLive (a b : ArgIn K) (rt atl : K) : Except Err Bool :=
  allcloseHandlerOf Generated.compHelperProg a b rt atl

end
end Unyt.Testing
