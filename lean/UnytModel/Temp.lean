/-
  UnytModel.Temp — the temperature logic of `unyt_array.__array_ufunc__` and friends (C08).

  Models, for operands whose units are the temperature symbols K, R, degC, degF, delta_degC,
  delta_degF and their SI-prefixed spellings:
    * unyt/array.py `_preserve_units`, `_difference_units`                       (201-243)
    * unyt/array.py `__array_ufunc__`: the K/R + offset refusal (1893-1901), the second-operand
      conversion with its `delta_` offset refusal (1903-1974), the multiply/divide refusal
      (1983-1992), the unary path (`sqrt`, `square`, `reciprocal`, `cbrt`, `power`, reductions)
    * unyt/unit_object.py `Unit.__eq__`, `Unit.__mul__/__truediv__/__pow__` offset rules (through
      `UnytModel.Unit`; the offset refusal of `__pow__` is `unitPow` here), `_get_conversion_factor` with the prefix-aware offset (928-941)
    * unyt/unit_systems.py `_split_prefix`
    * unyt/_array_functions.py `diff_helper` (diff / ediff1d / ptp)

  Names are lists of Unicode code points, so that `in`, `startswith` and `==` on `repr(unit)` are
  the real string tests and still reduce to `Nat` comparisons in the kernel.
  Numbers are polymorphic: the driver runs these definitions at `Float`, table obligations are
  decided at `Rat`, theorems are over any field of characteristic zero.
-/
import UnytModel.Unit

namespace Unyt.Temp

/-! ### names -/

abbrev Name := List Nat

def Name.ofString (s : String) : Name := s.toList.map Char.toNat
def Name.toString (n : Name) : String := String.ofList (n.map Char.ofNat)

/-- `prefix.startswith`-style test: `p` is an initial segment of `s` -/
def startsWith : Name → Name → Bool
  | _, [] => true
  | [], _ :: _ => false
  | a :: s, b :: p => a == b && startsWith s p

/-- Python `a in b` on strings: `a` occurs as a contiguous substring of `b` -/
def isInfix (a : Name) : Name → Bool
  | [] => a.isEmpty
  | c :: b => startsWith (c :: b) a || isInfix a b

/-- the six temperature symbols of the table the property is about -/
inductive TBase | K | R | degC | degF | dC | dF
deriving DecidableEq, Repr, Inhabited

def TBase.all : List TBase := [.K, .R, .degC, .degF, .dC, .dF]

/-- the table key / sympy symbol name: "K", "R", "degC", "degF", "delta_degC", "delta_degF" -/
def TBase.name : TBase → Name
  | .K => [75]
  | .R => [82]
  | .degC => [100, 101, 103, 67]
  | .degF => [100, 101, 103, 70]
  | .dC => [100, 101, 108, 116, 97, 95, 100, 101, 103, 67]
  | .dF => [100, 101, 108, 116, 97, 95, 100, 101, 103, 70]

/-- `Unit.__str__`: "°C", "Δ°C", "°F", "Δ°F" for the four bare symbols, else the name -/
def TBase.display : TBase → Name
  | .degC => [176, 67]
  | .dC => [916, 176, 67]
  | .degF => [176, 70]
  | .dF => [916, 176, 70]
  | b => b.name

def TBase.ofName (n : Name) : Option TBase := TBase.all.find? (fun b => b.name == n)

/-- the literal `"delta_"` of the two `startswith` calls -/
def deltaLit : Name := [100, 101, 108, 116, 97, 95]

/-- the list literal of `str(u0.expr) in ["K", "R"]` -/
def krLit : List Name := [[75], [82]]

/-! ### units -/

/-- one table row: `(base_value, base_offset, prefixable)` (dimension: temperature) -/
structure TRow (K : Type) where
  scale : K
  offset : K
  prefixable : Bool

abbrev TTable (K : Type) := TBase → TRow K

/-- an SI prefix: its symbol and `unit_prefixes[sym][0]` -/
structure Pfx (K : Type) where
  sym : Name
  val : K
deriving DecidableEq

/-- a temperature unit: an optional SI prefix in front of a table symbol -/
structure TU (K : Type) where
  pre : Option (Pfx K)
  base : TBase
deriving DecidableEq

/-- approximate equality as used by `Unit.__eq__` (`math.isclose`); exact equality at a lawful carrier -/
class IsClose (K : Type) where
  close : K → K → Bool

instance : IsClose Float := ⟨Float.isclose⟩
instance : IsClose Rat := ⟨fun a b => a == b⟩

namespace TU
variable {K : Type}

/-- `repr(unit)` = `str(unit.expr)`: the symbol name -/
def repr (u : TU K) : Name :=
  match u.pre with
  | none => u.base.name
  | some p => p.sym ++ u.base.name

/-- `str(unit)` (`Unit.__str__`): the four bare offset/delta symbols are displayed with `°`/`Δ` -/
def str (u : TU K) : Name :=
  match u.pre with
  | none => u.base.display
  | some p => p.sym ++ u.base.name

def bare (b : TBase) : TU K := ⟨none, b⟩

section
variable [Mul K]

/-- `base_value`: the row's scale, times the prefix value (`_lookup_unit_symbol`) -/
def scale (tab : TTable K) (u : TU K) : K :=
  match u.pre with
  | none => (tab u.base).scale
  | some p => (tab u.base).scale * p.val

/-- `base_offset`: the row's offset, unchanged by a prefix (`_lookup_unit_symbol`) -/
def offset (tab : TTable K) (u : TU K) : K := (tab u.base).offset

end
end TU

section model
variable {K : Type} [Add K] [Sub K] [Mul K] [Div K] [OfNat K 0] [BEq K] [IsClose K]

/-- `unit.base_offset != 0.0` -/
def hasOffset (tab : TTable K) (u : TU K) : Bool := u.offset tab != 0

/-- `Unit.__eq__` on two temperature units: `isclose` on scale and on offset (the expression is
    not compared: `K == delta_degC`) -/
def unitEq (tab : TTable K) (u v : TU K) : Bool :=
  IsClose.close (u.scale tab) (v.scale tab) && IsClose.close (u.offset tab) (v.offset tab)

/-- array.py:1893-1901 — `_preserve_units` operator, `u1.base_offset != 0`, `u0.base_offset == 0`
    and `str(u0.expr) in ["K", "R"]`: raise `UnitOperationError` -/
def krGuard (tab : TTable K) (u0 u1 : TU K) : Bool :=
  hasOffset tab u1 && !hasOffset tab u0 && krLit.contains u0.repr

/-- array.py:1903-1974 for two `unyt_array` operands of temperature dimension: when
    `u0 != u1` the second operand is multiplied by `u1.get_conversion_factor(u0)[0]`; the call is
    refused with `InvalidUnitOperation` when the returned offset is not `None`, `u1` has an offset
    and `repr(u0)` does not start with `"delta_"`.  `none` = operand left untouched. -/
def convSecond (tab : TTable K) (u0 u1 : TU K) : Except Err (Option K) :=
  if unitEq tab u0 u1 then .ok none
  else
    let conv := u1.scale tab / u0.scale tab
    -- `_get_conversion_factor` returns `None` for the offset iff both base offsets are zero
    let offsetIsSome := !(u1.offset tab == 0 && u0.offset tab == 0)
    if offsetIsSome && hasOffset tab u1 && !startsWith u0.repr deltaLit then
      .error .InvalidUnitOperation
    else .ok (some conv)

/-- `inp1 = np.asarray(inp1) * conv` -/
def applyC (c : Option K) (x : K) : K :=
  match c with
  | none => x
  | some c => x * c

/-- array.py `_preserve_units(unit1, unit2)` for temperature units -/
def preserveUnits (tab : TTable K) (u0 u1 : TU K) : TU K :=
  if !hasOffset tab u0 && hasOffset tab u1 then u1 else u0

/-- array.py `_difference_units(unit1, unit2)` for temperature units -/
def differenceUnits (tab : TTable K) (u0 : TU K) (u1 : Option (TU K)) : Except Err (TU K) :=
  let s1 := u0.repr
  let tail : Except Err (TU K) :=
    if !hasOffset tab u0 then .ok u0
    else if s1 == TBase.degF.name then .ok (TU.bare .dF)
    else if s1 == TBase.degC.name then .ok (TU.bare .dC)
    else .error .RuntimeError
  match u1 with
  | none => tail
  | some u1 =>
    if !unitEq tab u1 u0 then
      let s2 := u1.repr
      if isInfix s1 s2 && startsWith s2 deltaLit then .ok u0
      else if isInfix s2 s1 && startsWith s1 deltaLit then .ok u1
      else .error .InvalidUnitOperation
    else tail

/-- the unit rules the additive / comparison block of `__array_ufunc__` distinguishes -/
inductive Rule | preserve | difference | comparison
deriving DecidableEq, Repr

/-- the binary path of `__array_ufunc__` up to the call of the NumPy kernel: the unit the result
    is labelled with (`none` for comparisons) and the factor applied to the second operand -/
def binaryPrep (rule : Rule) (tab : TTable K) (u0 u1 : TU K) : Except Err (Option (TU K) × Option K) :=
  if rule == .preserve && krGuard tab u0 u1 then .error .UnitOperationError
  else
    match convSecond tab u0 u1 with
    | .error e => .error e
    | .ok c =>
      match rule with
      | .preserve => .ok (some (preserveUnits tab u0 u1), c)
      | .difference =>
        match differenceUnits tab u0 (some u1) with
        | .error e => .error e
        | .ok u => .ok (some u, c)
      | .comparison => .ok (none, c)

/-- `x0 + x1`, `np.add`, `+=` on two temperature quantities: label and reading.
    array.py (conversion block of the binary path): when the operands' units differ and the sum will
    be labelled with the second unit (`_preserve_units`: offset-free first unit, second unit with an
    offset — difference + point), the *first* operand is rescaled by `u0.base_value / u1.base_value`;
    otherwise the second operand is rescaled to the first unit. -/
def tempAdd (tab : TTable K) (u0 : TU K) (x0 : K) (u1 : TU K) (x1 : K) : Except Err (TU K × K) :=
  match binaryPrep .preserve tab u0 u1 with
  | .ok (some u, c) =>
    if !hasOffset tab u0 && hasOffset tab u1 then
      .ok (u, applyC (c.map fun _ => u0.scale tab / u1.scale tab) x0 + x1)
    else .ok (u, x0 + applyC c x1)
  | .ok (none, _) => .error .Other
  | .error e => .error e

/-- `x0 - x1`, `np.subtract`, `-=` -/
def tempSub (tab : TTable K) (u0 : TU K) (x0 : K) (u1 : TU K) (x1 : K) : Except Err (TU K × K) :=
  match binaryPrep .difference tab u0 u1 with
  | .ok (some u, c) => .ok (u, x0 - applyC c x1)
  | .ok (none, _) => .error .Other
  | .error e => .error e

/-- comparisons: the two numbers handed to the NumPy kernel -/
def tempCmpArgs (tab : TTable K) (u0 : TU K) (x0 : K) (u1 : TU K) (x1 : K) : Except Err (K × K) :=
  match binaryPrep .comparison tab u0 u1 with
  | .ok (_, c) => .ok (x0, applyC c x1)
  | .error e => .error e

/-- unary reductions `np.add.reduce` (`_preserve_units(u)`) and `np.subtract.reduce`
    (`_difference_units(u)`): the label of the result -/
def reduceUnit (rule : Rule) (tab : TTable K) (u : TU K) : Except Err (Option (TU K)) :=
  match rule with
  | .preserve => .ok (some u)
  | .difference => (differenceUnits tab u none).map some
  | .comparison => .ok none

/-- _array_functions.py `diff_helper` (np.diff, np.ediff1d, np.ptp) on a temperature array:
    refuses offset units; a unit equal to `delta_degC` (`Unit.__eq__`: K, delta_degC) is labelled
    `delta_degC`, any other offset-free unit keeps its own unit; the numbers are not touched -/
def diffHelper (tab : TTable K) (u : TU K) : Except Err (TU K) :=
  if hasOffset tab u then .error .InvalidUnitOperation
  else if unitEq tab u (TU.bare .dC) then .ok (TU.bare .dC)
  else .ok u

/-- one difference `x[i+1] - x[i]` as `np.diff` returns it -/
def tempDiff (tab : TTable K) (u : TU K) (xa xb : K) : Except Err (TU K × K) :=
  match diffHelper tab u with
  | .ok l => .ok (l, xb - xa)
  | .error e => .error e

end model

/-! ### conversion (`_get_conversion_factor`) -/
section conv
variable {K : Type} [Add K] [Sub K] [Mul K] [Div K] [OfNat K 0] [BEq K]

/-- unit_systems.py `_split_prefix(symbol_str, lut)[0] != ""`: the first character (or `da`) is a
    prefix symbol and the rest is a prefixable table symbol.  `syms`: the prefix symbols,
    `names`: every table symbol with its prefixable flag. -/
def splitsPrefix (syms : List Name) (names : List (Name × Bool)) (s : Name) : Bool :=
  match s with
  | [] => false
  | c :: rest =>
    let da : Bool := s.take 2 == [100, 97]
    let p : Name := if da then [100, 97] else [c]
    let wo : Name := if da then s.drop 2 else rest
    syms.contains p &&
      (match names.find? (fun e => e.1 == wo) with
       | some e => e.2
       | none => false)

/-- `_get_conversion_factor(old, new)` on two temperature units: `(ratio, offset or None)`; the
    offset of a unit whose `str` splits into prefix + prefixable symbol is divided by its scale -/
def tempConvFactor (syms : List Name) (names : List (Name × Bool)) (tab : TTable K)
    (old new : TU K) : K × Option K :=
  let ratio := old.scale tab / new.scale tab
  if old.offset tab == 0 && new.offset tab == 0 then (ratio, none)
  else
    let oo := effOffset (splitsPrefix syms names old.str) (old.scale tab) (old.offset tab)
    let no := effOffset (splitsPrefix syms names new.str) (new.scale tab) (new.offset tab)
    (ratio, some (ratio * oo - no))

/-- `ret = x * factor; if offset: ret -= offset` (`in_units`, `to`, `convert_to_units`) -/
def applyTempFactor (f : K × Option K) (x : K) : K :=
  match f.2 with
  | some o => if o != 0 then x * f.1 - o else x * f.1
  | none => x * f.1

/-- `quantity.to(new)` between temperature units -/
def tempConv (syms : List Name) (names : List (Name × Bool)) (tab : TTable K)
    (old new : TU K) (x : K) : K :=
  applyTempFactor (tempConvFactor syms names tab old new) x

end conv

/-! ### multiplicative and power forms -/
section mulpow
variable {K : Type} [Mul K] [Div K] [OfNat K 0] [OfNat K 1] [RPow K] [BEq K]

/-- the other operand of `*` and `/` -/
inductive Opnd (K : Type)
  | temp (u : TU K)      -- a temperature quantity
  | dimless              -- a bare number, or a dimensionless quantity (the code gives both `Unit()`)
  | other                -- a quantity of another dimension without offset (e.g. metres)

/-- the unit object of a temperature symbol as `unyt.Unit` holds it -/
def toUnitV (tab : TTable K) (u : TU K) : UnitV K :=
  ⟨⟨1, [(Name.toString u.repr, 1)]⟩, u.scale tab, u.offset tab, Dim.dTemperature, true⟩

def Opnd.unit (tab : TTable K) : Opnd K → UnitV K
  | .temp u => toUnitV tab u
  | .dimless => UnitV.dimensionless
  | .other => ⟨⟨1, [("m", 1)]⟩, 1, 0, Dim.dLength, true⟩

/-- array.py:1983-1992: `u.base_offset and u.dimensions is temperature` -/
def offsetTemp (u : UnitV K) : Bool := u.offset != 0 && u.canon && u.dim == Dim.dTemperature

/-- `multiply` (`_multiply_units` → `Unit.__mul__`, then the array-level refusal): the result unit -/
def tempMul (tab : TTable K) (a b : Opnd K) : Except Err (UnitV K) :=
  match UnitV.mul (a.unit tab) (b.unit tab) with
  | .error e => .error e
  | .ok r => if offsetTemp (a.unit tab) || offsetTemp (b.unit tab) then .error .InvalidUnitOperation else .ok r

/-- `divide` (`_divide_units` → `Unit.__truediv__`, then the array-level refusal); also
    `floor_divide` when the operands have different dimensions (the dispatcher's fall-back) -/
def tempDivide (tab : TTable K) (a b : Opnd K) : Except Err (UnitV K) :=
  match UnitV.div (a.unit tab) (b.unit tab) with
  | .error e => .error e
  | .ok r => if offsetTemp (a.unit tab) || offsetTemp (b.unit tab) then .error .InvalidUnitOperation else .ok r

/-- `floor_divide` (array.py `_floor_divide_units` and its place in `__array_ufunc__`): operands of
    different dimensions fall back to `_divide_units`; two temperature operands go through the
    rescaling block (second operand converted to the first's unit, with the `delta_` offset
    refusal), then the rule divides the units — `Unit.__truediv__` refuses an offset on either side —
    and the floored ratio is a pure number.  Result: the unit of the result and the factor applied to
    the second operand before the kernel runs. -/
def tempFloorDivide [Add K] [Sub K] [IsClose K] (tab : TTable K) (a b : Opnd K) :
    Except Err (UnitV K × Option K) :=
  match a, b with
  | .temp u0, .temp u1 =>
    match convSecond tab u0 u1 with
    | .error e => .error e
    | .ok c =>
      match UnitV.div (toUnitV tab u0) (toUnitV tab u1) with
      | .error e => .error e
      | .ok _ => .ok (UnitV.dimensionless, c)
  | _, _ => (tempDivide tab a b).map fun r => (r, none)

/-- the unary / power forms -/
inductive UnOp
  | sqrt | cbrt | square | reciprocal
  | power (p : Rat)        -- `np.power(x, p)`, `x ** p` for exponents NumPy does not special-case
  | mulReduce (n : Nat)    -- `np.multiply.reduce`, `np.prod` over `n` elements
deriving Repr

/-- unit_object.py `Unit.__pow__` on a unit of the family: a unit with an offset refuses every
    exponent but 0 and 1 (`InvalidUnitOperation`); otherwise the shared `UnitV.pow` -/
def unitPow (tab : TTable K) (u : TU K) (p : Rat) : Except Err (UnitV K) :=
  if (u.offset tab != 0) && p != 0 && p != 1 then .error .InvalidUnitOperation
  else (toUnitV tab u).pow p

/-- `_sqrt_unit`, `_cbrt_unit`, `_square_unit`, `_reciprocal_unit`, `_power_unit`,
    `_apply_power_mapping`: the result unit (`unit**0.5`, `unit**(1/3)`, `unit*unit`, `unit**-1`,
    `unit**p`, `unit**n`) -/
def tempUnary (tab : TTable K) (op : UnOp) (u : TU K) : Except Err (UnitV K) :=
  let v := toUnitV tab u
  match op with
  | .sqrt => unitPow tab u (1 / 2)
  | .cbrt => unitPow tab u (1 / 3)
  | .square => v.mul v
  | .reciprocal => unitPow tab u (-1)
  | .power p => unitPow tab u p
  | .mulReduce n => unitPow tab u n

end mulpow

/-! ### the source text of the guards modelled above (`ast.unparse` layout)

  The translator regenerates these texts from the current source; `TempCheck.codeConstantsMatch`
  (kernel-decided in `UnytProofs/C08Tab.lean`) compares them with the texts below, each of which
  is written next to the model function that implements it.  A guard that is inverted, widened or
  narrowed in the source changes its text and breaks the obligation. -/

/-- `Unit.__pow__`: the two refusals — `UnitV.pow` (logarithmic) and `unitPow` (`u.offset tab != 0 && p != 0 && p != 1`) -/
def srcPowRaiseGuards : List String :=
  ["self.dimensions is logarithmic and p != 1", "self.base_offset != 0.0 and p != 0 and (p != 1)"]

/-- `diff_helper`: the temperature branch, its refusal (`hasOffset tab u`) and its label
    (`if unitEq tab u (TU.bare .dC) then TU.bare .dC else u`) — `diffHelper` -/
def srcDiffHelperOuter : List String := ["u.dimensions is temperature"]
def srcDiffHelperRaiseGuards : List String := ["u.base_offset"]
def srcDiffHelperLabel : List String := ["delta_degC if u == delta_degC else u"]

/-- `__array_ufunc__`: the only assignment to `inp0` in the conversion block — `tempAdd`
    (`!hasOffset tab u0 && hasOffset tab u1` under the `preserve` rule → `x0 * (u0.scale / u1.scale)`,
    else the second operand times `conv`) -/
def srcFirstOperandRescaling : List (String × String × List String) :=
  [("unit_operator is _preserve_units and u0.dimensions is temperature and (u0.base_offset == 0.0) and (u1.base_offset != 0.0)",
    "np.asarray(inp0) * (u0.base_value / u1.base_value)",
    ["inp1 = np.asarray(inp1, dtype=new_dtype) * conv"])]

end Unyt.Temp
