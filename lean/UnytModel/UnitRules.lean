/-
  UnytModel.UnitRules — the UNIT RULE of an `__array_function__` handler as data + an evaluator.

  Models the unit arithmetic every handler of unyt/_array_functions.py performs on its result
  (`* a.units`, `/ a.units`, `* a.units**2`, `* a.units ** (a.shape[0])`,
  `* a.units ** (a.size // res.size)`, `* bu / au`, `prod_units = a.units * b.units`,
  `ret_units = _validate_units_consistency(arrs)`, tuple results labelled component by component,
  `out.units = ret_units`):  the unit attached to a result leaf is a monomial

        Π_g  u_g ^ e_g            g = commensurability group of operands, u_g its unit,

  whose exponents `e_g` are *expressions* in the shapes of the operands and of the result.  One call
  form of one handler is a `Row` (regenerated from the live source by
  tools/extract.d/c07_unitrules.py: the handler is run on operands whose units are fresh symbols of a
  custom registry and the exponent vector of the result unit is read off; shape-dependent exponents
  are fitted over several shapes and cross-checked with an `ast` pass over `**` on units).
  Sits on top of UnytModel.NpHandlers (C06): `unitRule` is the parameter `Np.run` leaves open.
  No Mathlib.
-/
import UnytModel.Num
import UnytModel.Shape
import UnytModel.NpHandlers

namespace Unyt.UR

/-- exponent expressions.  `dim`, `sizeRatio`, `const`, `unknown` are produced by the translator;
    `reduced`, `nops`, `plusConst` only occur in the hand-written reference (`Ref/C07Degrees.lean`). -/
inductive Expo where
  | const (q : Rat)
  /-- `param.shape[i]` (Python index, may be negative) -/
  | dim (param : String) (i : Int)
  /-- `param.size // result.size` -/
  | sizeRatio (param : String)
  /-- number of elements of `param` that are combined into each element of the result -/
  | reduced (param : String)
  /-- number of unit-carrying operands passed in the list parameter `param` -/
  | nops (param : String)
  | plusConst (e : Expo) (q : Rat)
  /-- the translator could not explain the observed exponents -/
  | unknown
  deriving DecidableEq, Repr, Inhabited

/-- a concrete call, as far as exponents can depend on it -/
structure Env where
  /-- shape of the operand bound to a parameter -/
  shape : String → Option Shape
  /-- size of the result leaf the exponent belongs to -/
  resultSize : Nat
  /-- number of elements of the operand combined into each result element (reductions) -/
  reduced : String → Option Nat
  /-- number of unit-carrying operands in a list parameter -/
  nops : String → Nat

/-- `s[i]` with a Python index -/
def pyIndex (s : Shape) (i : Int) : Option Nat :=
  match Shape.normAxis s.length i with
  | some k => s[k]?
  | none => none

def Expo.eval (env : Env) : Expo → Option Rat
  | .const q => some q
  | .dim p i => (env.shape p).bind fun s => (pyIndex s i).map fun n => (n : Rat)
  | .sizeRatio p =>
    (env.shape p).bind fun s =>
      if env.resultSize = 0 then none else some ((Shape.size s / env.resultSize : Nat) : Rat)
  | .reduced p => (env.reduced p).map fun n => (n : Rat)
  | .nops p => some (env.nops p : Rat)
  | .plusConst e q => (e.eval env).map (· + q)
  | .unknown => none

/-- the parameters whose "elements combined per result element" an expression refers to -/
def Expo.reducedParams : Expo → List String
  | .reduced p => [p]
  | .plusConst e _ => e.reducedParams
  | _ => []

/-- for the parameters `ps`: "elements combined per result element" is what `p.size // result.size`
    computes in this call (decidable form of `EnvValidFor`, UnytProofs/Lemmas/C07.lean; the driver reports it) -/
def envValidForB (ps : List String) (env : Env) : Bool :=
  ps.all fun p => (Expo.reduced p).eval env == (Expo.sizeRatio p).eval env

/-- one result leaf: does it carry units (a unyt object) and which exponent has the unit of each
    operand group in its unit (groups are named "0", "1", "2"; "out" = the unit an out= buffer was
    created with) -/
structure Leaf where
  carries : Bool
  cls : String
  expo : List (String × Expo)
  /-- scale of the unit the handler really attaches, divided by `Π scale_g ^ e_g`, observed by the
      translator under an assignment of operand units that CANCEL across groups (same dimension in
      different symbols: products and quotients simplify with a numeric coefficient).  A handler may attach
      the unsimplified product (`a.units * b.units`) or a simplified unit, but since it hands the kernel's
      numbers on unchanged, the scale of its label must be the product of the operand scales: `kappa = 1`.
      (`__array_ufunc__` simplifies and multiplies the numbers by the coefficient; a handler that takes only
      the unit of `_multiply_units(au, bu)` has `kappa = 1 / coefficient`.) -/
  kappa : Rat
  deriving DecidableEq, Repr, Inhabited

/-- one call form of one handler -/
structure Row where
  func : String
  variant : String
  outMode : String
  /-- unit-carrying operands: (parameter path, group) — group "d" = dimensionless selector, "out" = out= buffer -/
  operands : List (String × String)
  /-- the other parameters of the call: None/True/False/strings verbatim, anything else "*" -/
  flags : List (String × String)
  raised : Bool
  exc : String
  leaves : List Leaf
  /-- unit of a unit-carrying out= buffer after the call -/
  outLabel : Option (List (String × Expo))
  /-- the result has one copy of the LAST leaf per row/axis of an operand (their number depends on the
      shape): `leaves = [h, r]` stands for `h, r, r, …` -/
  tailRepeats : Bool
  /-- instances (shapes × dtypes × seeds) the row summarises -/
  n : Nat
  deriving Repr, Inhabited

/-- exponent of group `g` in a label (absent = 0) -/
def expoOf (l : List (String × Expo)) (g : String) : Expo :=
  match l.find? (·.1 == g) with
  | some (_, e) => e
  | none => .const 0

/-- the exponent vector of a leaf for a concrete call -/
def Leaf.exponents (env : Env) (leaf : Leaf) : Option (List (String × Rat)) :=
  leaf.expo.mapM fun (g, e) => (e.eval env).map fun q => (g, q)

/-- the scale (`units.base_value`) of the label `Π u_g ^ e_g` given the scales of the group units:
    models `Unit.__mul__/__truediv__/__pow__` on `base_value` (unit_object.py) -/
def labelScale {K : Type} [Mul K] [OfNat K 1] [RPow K] (u : String → K) : List (String × Rat) → K
  | [] => 1
  | (g, q) :: r => RPow.rpow (u g) q * labelScale u r

def Leaf.scale {K : Type} [Mul K] [OfNat K 1] [RPow K] (u : String → K) (env : Env) (leaf : Leaf) : Option K :=
  (leaf.exponents env).map (labelScale u)

/-- the label as text (what `Np.run` attaches): used as the `unitRule` parameter of C06's interpreter -/
def labelStr (l : List (String × Rat)) : String :=
  "*".intercalate ((l.filter (·.2 != 0)).map fun (g, q) => "u" ++ g ++ "^" ++ ratStr q)

/-- a handled call in C06's interpreter with the unit rule of the row filled in: the numbers are
    the kernel's (C06), the label is the first leaf's monomial (C07) -/
def runWithRule {V R : Type} (numpy : Np.Kernel V R) (alt : String → Np.PyVal V) (alter : R → R)
    (fwd : Np.Row) (rule : Row) (env : Env) (args : Np.Args V) : Np.Outcome R :=
  let label := match rule.leaves with
    | leaf :: _ => (match leaf.exponents env with | some l => labelStr l | none => "?")
    | [] => ""
  Np.run numpy alt alter (fun _ => label) fwd args

/-! ### symbolic comparison of exponent expressions (for all shapes) -/

inductive Atom where
  | dim (p : String) (i : Int)
  | ratio (p : String)
  deriving DecidableEq, Repr

/-- normal form `atom? + c`; `reduced p` and `sizeRatio p` are the same atom (for every reduction the
    two agree: `UnytProofs/Lemmas/C07.lean: sizeRatio_eq_reduced`); `nops` must have been specialised -/
def Expo.nf : Expo → Option (Option Atom × Rat)
  | .const q => some (none, q)
  | .dim p i => some (some (.dim p i), 0)
  | .sizeRatio p => some (some (.ratio p), 0)
  | .reduced p => some (some (.ratio p), 0)
  | .nops _ => none
  | .plusConst e q => (e.nf).map fun (a, c) => (a, c + q)
  | .unknown => none

/-- replace `nops p` by the number of operands the call form has in `p` -/
def Expo.spec (count : String → Nat) : Expo → Expo
  | .nops p => .const (count p : Rat)
  | .plusConst e q => .plusConst (e.spec count) q
  | e => e

/-- equal for all shapes -/
def Expo.same (a b : Expo) : Bool :=
  match a.nf, b.nf with
  | some x, some y => x == y
  | _, _ => false

def Expo.isZero (e : Expo) : Bool := e.same (.const 0)

/-! ### wire format of the driver -/

def Expo.str : Expo → String
  | .const q => "c:" ++ ratStr q
  | .dim p i => "d:" ++ p ++ ":" ++ toString i
  | .sizeRatio p => "r:" ++ p
  | .reduced p => "k:" ++ p
  | .nops p => "n:" ++ p
  | .plusConst e q => e.str ++ "+" ++ ratStr q
  | .unknown => "?"

end Unyt.UR
