/-
  UnytModel.PhysicalConstants — the model behind C15.

  * `CExpr`: the arithmetic vocabulary of `unyt/_physical_ratios.py` and of the value cells of
    `unyt/_unit_lookup_table.py` (decimal literals, names, `np.pi`, `np.sqrt`, `np.log`,
    `+ - * / **`), as a deep embedding.  The translator (`tools/extract.d/c15_ratios.py`) emits
    every assignment of `_physical_ratios.py` and every table cell as a `CExpr` with *exact*
    decimal literals; `π`, `sqrt` and `log` stay symbolic.
  * `CExpr.eval`: the evaluator, polymorphic in the carrier (run at `Float` by the driver,
    reasoned about at ℝ in `UnytProofs/Real/C15Mono.lean`).
  * `execModule` / `closedForms`: what executing the module means (assignments in source order,
    each evaluated in the environment of the previous ones), and the closed form of every name
    over the *base constants* (names assigned a bare literal).
  * `norm`: the monomial normaliser — `coef · ∏ atomᵉ` with atoms `π`, natural numbers (under
    fractional powers) and base constants, rational exponents; proved sound over ℝ.
  * `addConstantsNames` etc.: the naming / suffix logic of
    `unyt/unit_systems.py::add_constants` and the precedence rule of `unyt/__init__.py`.
  No Mathlib import.
-/
import UnytModel.Dim

namespace Unyt

/-! ### carriers -/

/-- embedding of exact decimal literals -/
class OfRat (K : Type) where
  ofRat : Rat → K

/-- the transcendental vocabulary of `_physical_ratios.py`: `np.pi`, `np.sqrt`, `np.log` -/
class Transc (K : Type) where
  pi : K
  sqrt : K → K
  log : K → K

instance : OfRat Float := ⟨ratToFloat⟩
instance : OfRat Rat := ⟨id⟩
/-- `np.pi` is the double 0x400921FB54442D18 -/
instance : Transc Float := ⟨Float.ofBits 0x400921FB54442D18, Float.sqrt, Float.log⟩

/-! ### expressions -/

/-- the arithmetic of `_physical_ratios.py` / the value cells of `_unit_lookup_table.py` -/
inductive CExpr where
  | lit (q : Rat)
  | pi
  | ref (name : String)
  | neg (a : CExpr)
  | add (a b : CExpr)
  | sub (a b : CExpr)
  | mul (a b : CExpr)
  | div (a b : CExpr)
  | pow (a : CExpr) (q : Rat)
  | sqrt (a : CExpr)
  | log (a : CExpr)
deriving Repr, Inhabited

namespace CExpr

section eval
variable {K : Type} [Add K] [Sub K] [Mul K] [Div K] [Neg K] [OfRat K] [Transc K] [RPow K]

/-- value of an expression in an environment for its free names -/
def eval (ρ : String → K) : CExpr → K
  | .lit q => OfRat.ofRat q
  | .pi => Transc.pi
  | .ref n => ρ n
  | .neg a => - a.eval ρ
  | .add a b => a.eval ρ + b.eval ρ
  | .sub a b => a.eval ρ - b.eval ρ
  | .mul a b => a.eval ρ * b.eval ρ
  | .div a b => a.eval ρ / b.eval ρ
  | .pow a q => RPow.rpow (a.eval ρ) q
  | .sqrt a => Transc.sqrt (a.eval ρ)
  | .log a => Transc.log (a.eval ρ)

end eval

/-- replace names by expressions (names not in `σ` stay) -/
def subst (σ : List (String × CExpr)) : CExpr → CExpr
  | .lit q => .lit q
  | .pi => .pi
  | .ref n => match σ.lookup n with
    | some e => e
    | none => .ref n
  | .neg a => .neg (a.subst σ)
  | .add a b => .add (a.subst σ) (b.subst σ)
  | .sub a b => .sub (a.subst σ) (b.subst σ)
  | .mul a b => .mul (a.subst σ) (b.subst σ)
  | .div a b => .div (a.subst σ) (b.subst σ)
  | .pow a q => .pow (a.subst σ) q
  | .sqrt a => .sqrt (a.subst σ)
  | .log a => .log (a.subst σ)

def isLit : CExpr → Bool
  | .lit _ => true
  | _ => false

/-- the names an expression mentions -/
def names : CExpr → List String
  | .lit _ | .pi => []
  | .ref n => [n]
  | .neg a | .pow a _ | .sqrt a | .log a => a.names
  | .add a b | .sub a b | .mul a b | .div a b => a.names ++ b.names

end CExpr

/-- a module body: assignments `name = expr` in source order -/
abbrev Defs := List (String × CExpr)

section exec
variable {K : Type} [Add K] [Sub K] [Mul K] [Div K] [Neg K] [OfRat K] [Transc K] [RPow K]

/-- environment as an association list, latest binding first; unbound names read as `dflt` -/
def envOf (dflt : K) (bs : List (String × K)) (n : String) : K :=
  match bs.lookup n with
  | some v => v
  | none => dflt

/-- executing the module: every right-hand side is evaluated in the environment built by the
    assignments before it (what importing `_physical_ratios.py` does) -/
def execModule (dflt : K) (defs : Defs) : List (String × K) :=
  defs.foldl (fun env d => (d.1, d.2.eval (envOf dflt env)) :: env) []

end exec

/-- closed forms: every name assigned a bare literal is a *base constant* and stays a name;
    every other name is rewritten, in source order, over the base constants -/
def closedForms (defs : Defs) : Defs :=
  defs.foldl (fun acc d => if d.2.isLit then acc else (d.1, d.2.subst acc) :: acc) []

/-- the base constants with their literal values -/
def baseConstants (defs : Defs) : List (String × Rat) :=
  defs.filterMap fun d => match d.2 with
    | .lit q => some (d.1, q)
    | _ => none

/-- rewrite an expression over module names into one over base constants only -/
def closeOver (defs : Defs) (e : CExpr) : CExpr := e.subst (closedForms defs)

/-- environment of the base constants at a carrier -/
def baseEnv {K : Type} [OfRat K] (defs : Defs) (dflt : K) (n : String) : K :=
  match (baseConstants defs).lookup n with
  | some q => OfRat.ofRat q
  | none => dflt

/-! ### monomial normal forms -/

/-- what a monomial is a product of powers of -/
inductive Atom
  | pi
  | num (n : Nat)        -- a natural number under a fractional power
  | name (s : String)    -- a base constant
deriving DecidableEq, Repr, Inhabited

abbrev Atoms := List (Atom × Rat)

namespace Atoms

/-- multiply by `a ^ e`, merging with an existing power of `a` -/
def insert (a : Atom) (e : Rat) : Atoms → Atoms
  | [] => [(a, e)]
  | (b, f) :: rest => if a = b then (b, f + e) :: rest else (b, f) :: insert a e rest

def mul (m n : Atoms) : Atoms := n.foldl (fun acc p => insert p.1 p.2 acc) m
def pow (m : Atoms) (q : Rat) : Atoms := m.map (fun p => (p.1, p.2 * q))

/-- exponent of an atom -/
def exp (m : Atoms) (a : Atom) : Rat :=
  match m with
  | [] => 0
  | (b, f) :: rest => if a = b then f + exp rest a else exp rest a

def allZero (m : Atoms) : Bool := m.all (fun p => p.2 == 0)

end Atoms

/-- `coef · ∏ atomᵉ` -/
structure Mono where
  coef : Rat
  atoms : Atoms
deriving Repr, Inhabited

namespace Mono

/-- insert `n ^ e` unless `n ≤ 1` -/
def insertNum (n : Nat) (e : Rat) (m : Atoms) : Atoms :=
  if n ≤ 1 then m else m.insert (.num n) e

/-- `m ^ q` for a monomial with positive coefficient: integer powers keep a rational
    coefficient, fractional powers move numerator and denominator into the atoms -/
def rpow (m : Mono) (q : Rat) : Option Mono :=
  if 0 < m.coef then
    if q.den = 1 then some ⟨zpowK m.coef q.num, m.atoms.pow q⟩
    else some ⟨1, insertNum m.coef.den (-q) (insertNum m.coef.num.toNat q (m.atoms.pow q))⟩
  else none

def isOne (m : Mono) : Bool := m.coef == 1 && m.atoms.allZero

/-- the quotient `m / n` (`n.coef ≠ 0` is checked by the callers) -/
def quot (m n : Mono) : Mono := ⟨m.coef / n.coef, m.atoms.mul (n.atoms.pow (-1))⟩

end Mono

/-- the normaliser: `none` outside the multiplicative fragment (sums, logarithms, powers of
    non-positive coefficients) -/
def norm : CExpr → Option Mono
  | .lit q => some ⟨q, []⟩
  | .pi => some ⟨1, [(.pi, 1)]⟩
  | .ref n => some ⟨1, [(.name n, 1)]⟩
  | .neg a => match norm a with
    | some m => some ⟨-m.coef, m.atoms⟩
    | none => none
  | .mul a b => match norm a, norm b with
    | some m, some n => some ⟨m.coef * n.coef, m.atoms.mul n.atoms⟩
    | _, _ => none
  | .div a b => match norm a, norm b with
    | some m, some n => if n.coef = 0 then none else some (m.quot n)
    | _, _ => none
  | .pow a q => match norm a with
    | some m => m.rpow q
    | none => none
  | .sqrt a => match norm a with
    | some m => m.rpow (1 / 2)
    | none => none
  | .add _ _ | .sub _ _ | .log _ => none

/-- two expressions have the same normal form (their quotient is the empty monomial) -/
def sameNormalForm (a b : CExpr) : Bool :=
  match norm a, norm b with
  | some m, some n => n.coef != 0 && (m.quot n).isOne
  | _, _ => false

/-! ### exact evaluation of a normal form with a rational stand-in for π -/

/-- `x ^ e` at ℚ for an integer exponent given as a rational -/
def qpowInt (x e : Rat) : Option Rat := if e.den = 1 then some (zpowK x e.num) else none

/-- value of a π-free atom list with the base constants from `env`; `none` when π, a fractional
    exponent or an unknown name occurs -/
def Atoms.evalQ (env : List (String × Rat)) : Atoms → Option Rat
  | [] => some 1
  | (a, e) :: rest =>
    let base : Option Rat := match a with
      | .pi => none
      | .num n => if n = 0 then none else some (n : Rat)
      | .name s => env.lookup s
    match base, Atoms.evalQ env rest with
    | some b, some r => (qpowInt b e).map (· * r)
    | _, _ => none

/-- the π-free part of an atom list -/
def Atoms.dropPi (m : Atoms) : Atoms := m.filter (fun p => p.1 != Atom.pi)

/-- value of a monomial `coef · π^k · rest` (`k` an integer) with `π := p` -/
def Mono.evalAtPi (p : Rat) (env : List (String × Rat)) (m : Mono) : Option Rat :=
  match qpowInt p (m.atoms.exp .pi), m.atoms.dropPi.evalQ env with
  | some pk, some r => some (m.coef * pk * r)
  | _, _ => none

/-- `a / b` with `π := p` and the base constants from `env` (both in the multiplicative
    fragment, integer exponents after cancellation) -/
def ratioAtPi (env : List (String × Rat)) (p : Rat) (a b : CExpr) : Option Rat :=
  match norm a, norm b with
  | some m, some n => if n.coef = 0 then none else (m.quot n).evalAtPi p env
  | _, _ => none

def Mono.square (m : Mono) : Mono := ⟨m.coef * m.coef, m.atoms.pow 2⟩

/-- `a²` with `π := p` (squares turn the half-integer exponents of `sqrt` into integers) -/
def squareAtPi (env : List (String × Rat)) (p : Rat) (a : CExpr) : Option Rat :=
  match norm a with
  | some m => m.square.evalAtPi p env
  | none => none

/-- sign of the coefficient of the normal form -/
def coefOf (a : CExpr) : Rat :=
  match norm a with
  | some m => m.coef
  | none => 0

/-! ### `add_constants` (unit_systems.py) and the namespace precedence (`__init__.py`) -/

/-- one row of `physical_constants`: name ↦ (value, unit string, alternate names) -/
structure ConstSpec where
  name : String
  aliases : List String
  /-- dimension of the unit string -/
  dim : Dim
  /-- the unit string, as written -/
  unit : String

inductive Guise | plain | mks | cgs | hmks | hcgs
deriving DecidableEq, Repr

def Guise.str : Guise → String
  | .plain => "plain" | .mks => "mks" | .cgs => "cgs" | .hmks => "hmks" | .hcgs => "hcgs"

/-- `quan.in_cgs()` succeeds: the dimension has no MKS current, or the unit is one of the five
    atomic E&M units of `em_conversions` (`unit_object.py::_check_em_conversion`) -/
def cgsRepresentable (emUnits : List (String × Dim)) (c : ConstSpec) : Bool :=
  !c.dim.hasCurrent || emUnits.any (fun p => p.1 == c.unit && p.2 == c.dim)

/-- the keys one row of the table makes `add_constants` write, in order, each with the guise it
    denotes: for every alternate name and then the name itself `X`, `X_mks`, `X_cgs` (unless
    `UnitsNotReducible`), and `hmks` / `hcgs` after `h` -/
def constWrites (emUnits : List (String × Dim)) (c : ConstSpec) : List (String × Guise) :=
  (c.aliases ++ [c.name]).flatMap fun n =>
    [(n, Guise.plain), (n ++ "_mks", Guise.mks)]
    ++ (if cgsRepresentable emUnits c then [(n ++ "_cgs", Guise.cgs)] else [])
    ++ (if n == "h" then
          [("hmks", Guise.hmks)] ++ (if cgsRepresentable emUnits c then [("hcgs", Guise.hcgs)] else [])
        else [])

/-- position, within `constWrites`, of the bare principal name `c.name` -/
def principalPos (emUnits : List (String × Dim)) (c : ConstSpec) : Nat :=
  c.aliases.length * (if cgsRepresentable emUnits c then 3 else 2)
  + (if c.aliases.contains "h" then (if cgsRepresentable emUnits c then 2 else 1) else 0)

/-- the keys `add_constants(namespace, registry)` writes, in order, with the constant they
    come from -/
def addConstantsNames (emUnits : List (String × Dim)) (table : List ConstSpec) :
    List (String × String × Guise) :=
  table.flatMap fun c => (constWrites emUnits c).map fun w => (w.1, c.name, w.2)

/-- what a dict holds after the writes: the last write to a key wins -/
def lastWrite (ws : List (String × String × Guise)) (k : String) : Option (String × Guise) :=
  (ws.reverse.lookup k)

/-- `unyt/__init__.py::import_units`: a name already present is not overwritten, and the
    constants are imported before the unit symbols — the constant wins -/
def topLevel (constNames unitNames : List String) (k : String) : Option Bool :=
  if constNames.contains k then some true        -- the constant
  else if unitNames.contains k then some false   -- the unit
  else none

end Unyt
