/-
  UnytModel.NpAlias — object identity of the operands and the pre-kernel decision logic of a handler.

  `Np.run` (NpHandlers) sees a call as parameter ↦ value.  Python handlers can see more: WHICH OBJECT
  sits in a slot (`a1 is a2`, `id(a) == id(b)`, `np.shares_memory`), and they can leave before the
  kernel call (`if u2 != u1: return False` in unyt/_array_functions.py: array_equal / array_equiv).
  This file models

    * a call with identities (`ObjCall`: slot ↦ object number, object number ↦ value),
    * the early exits of a handler as data (`Exit`, regenerated from the live source by
      tools/extract.d/c06_alias.py → Generated/C06Alias.lean: harness/c06_alias.py:static_exits),
    * `runGuarded`: walk the exits in source order, the first one whose test fires answers WITHOUT
      a kernel call; otherwise `Np.run`.

  What a test can depend on is explicit: a `units` test on the units of the operands only, an
  `identity` test on the alias pattern of the call only, an `other` test on anything (uninterpreted
  oracle `env.other`).  No Mathlib.
-/
import UnytModel.NpHandlers

namespace Unyt.Np

inductive TestKind where
  | units      -- reads names bound to operands' units only (`u2 != u1`)
  | identity   -- depends on two local objects being the same object / sharing memory
  | other      -- anything else (data, presence of an argument, …)
  deriving DecidableEq, Repr, Inhabited

def TestKind.str : TestKind → String
  | .units => "units" | .identity => "identity" | .other => "other"

/-- `if <src>: return <no call>` (or `raise`) placed before the kernel call -/
structure Exit where
  kind : TestKind
  raises : Bool
  src : String
  deriving DecidableEq, Repr, Inhabited

/-- a call as Python passes it: every slot holds a reference -/
structure ObjCall (V : Type) where
  slots : List (String × Nat)
  heap : Nat → PyVal V

/-- what `Np.run` sees of it -/
def ObjCall.args {V : Type} (c : ObjCall V) : Args V := c.slots.map fun (p, i) => (p, c.heap i)

def hasDup : List Nat → Bool
  | [] => false
  | x :: xs => xs.contains x || hasDup xs

/-- two slots hold the same object (f(x, x)) -/
def ObjCall.aliased {V : Type} (c : ObjCall V) : Bool := hasDup (c.slots.map (·.2))

/-- everything else a pre-kernel test may read -/
structure Env (V : Type) where
  /-- the operands' units are not all the same (decided on the VALUES: identity plays no role) -/
  unitsDiffer : Args V → Bool
  /-- verdict of an uninterpreted test, by source text, on the values -/
  other : String → Args V → Bool

def Exit.fires {V : Type} (env : Env V) (c : ObjCall V) (e : Exit) : Bool :=
  match e.kind with
  | .units => env.unitsDiffer c.args
  | .identity => c.aliased
  | .other => env.other e.src c.args

def firstExit {V : Type} (env : Env V) (c : ObjCall V) (es : List Exit) : Option Exit :=
  es.find? (Exit.fires env c)

/-- one handled call with the handler's early exits in front of the forwarding interpreter -/
def runGuarded {V R : Type} (numpy : Kernel V R) (alt : String → PyVal V) (alter : R → R)
    (unitRule : Args V → String) (env : Env V) (es : List Exit) (row : Row) (c : ObjCall V) : Outcome R :=
  match firstExit env c es with
  | some e => if e.raises then .raised "handler" else .noKernel
  | none => run numpy alt alter unitRule row c.args

/-- no test of the handler looks at operand identity -/
def identityFree (es : List Exit) : Bool := es.all fun e => e.kind != .identity

/-- every early exit is guarded by the operands' units alone -/
def unitsOnly (es : List Exit) : Bool := es.all fun e => e.kind == .units

/-! ### one observed aliased / mixed-unit call form (regenerated) -/

structure AliasRow where
  row : Row
  /-- operand slots of the call and the object each holds (same number = same object) -/
  slots : List (String × Nat)
  /-- the operands were given different units -/
  mixed : Bool
  deriving Repr, Inhabited

/-- does the exit list predict an early exit for this call form?  (`other` tests are not predicted) -/
def predictsExit (es : List Exit) (a : AliasRow) : Bool :=
  es.any fun e =>
    match e.kind with
    | .units => a.mixed
    | .identity => hasDup (a.slots.map (·.2))
    | .other => false

/-- the observed record agrees with the exit list: an exit is predicted ⇒ no kernel was called;
    none predicted ⇒ the kernel of the requested function was called and the row has no defect
    outside the exclusion list (a handler that tells `f(x, x)` from `f(x, y)` in any way the ast pass
    does not see still fails here) -/
def aliasRowOk (excl : List (String × String)) (es : List Exit) (a : AliasRow) : Bool :=
  if predictsExit es a then a.row.calls.isEmpty
  else (a.row.raised || !a.row.calls.isEmpty) && (defects a.row).all fun d => excl.contains (a.row.func, d)

def exitsOf (tbl : List (String × List Exit)) (f : String) : List Exit :=
  match tbl.find? (·.1 == f) with
  | some (_, es) => es
  | none => []

def aliasTableOk (excl : List (String × String)) (tbl : List (String × List Exit)) (rows : List AliasRow) : Bool :=
  rows.all fun a => aliasRowOk excl (exitsOf tbl a.row.func) a

/-- the static obligation: every early exit of every handler is guarded by units alone -/
def exitsTableOk (tbl : List (String × List Exit)) : Bool := tbl.all fun (_, es) => unitsOnly es

end Unyt.Np
