/-
  UnytModel.Em — the CGS/SI electromagnetic pairing table (C10, also used by C03's EM route).

  Models `unyt/unit_object.py::em_conversions` (a dict keyed by `(unit name, dimensions)` with
  values `(partner dimensions, partner unit name, factor)`) and `em_conversion_dims`.
  The table itself is regenerated from the live object (`Generated/EmTable.lean`).
-/
import UnytModel.Unit

namespace Unyt

/-- one item of `em_conversions`: `(name, dim) ↦ (toDim, partner, factor)` -/
structure EmRow (K : Type) where
  name : String
  dim : Dim
  toDim : Dim
  partner : String
  factor : K
  /-- `prefix ↦ the symbol parse_unyt_expr(prefix + partner) yields` for `""` and every SI prefix
      (the parser maps names through `inv_name_alternatives`; the translator evaluates it on this
      finite set of inputs) -/
  syms : List (String × String) := []
deriving Repr

/-- the symbol of `Unit(prefix + partner)`; the concatenation itself where the translator found
    nothing to record -/
def EmRow.partnerSym {K : Type} (r : EmRow K) (p : String) : String :=
  match r.syms.find? (fun x => x.1 == p) with
  | some (_, s) => s
  | none => p ++ r.partner

abbrev EmTable (K : Type) := List (EmRow K)

namespace EmTable
variable {K : Type}

/-- `em_conversions[name, dim]` (`none` = `KeyError` / not `in`) -/
def find? (T : EmTable K) (name : String) (d : Dim) : Option (EmRow K) :=
  match T with
  | [] => none
  | r :: rest => if r.name = name ∧ r.dim = d then some r else find? rest name d

/-- `em_conversion_dims = [k[1] for k in em_conversions.keys()]` -/
def dims (T : EmTable K) : List Dim := T.map (·.dim)

/-- `dims in em_conversion_dims` -/
def hasDim (T : EmTable K) (d : Dim) : Bool := T.dims.contains d

end EmTable
end Unyt
