/-
  UnytModel.TempSeq — Python sequences (list / tuple) of temperature quantities as operands (C08).

  Models
    * unyt/array.py `_coerce_iterable_units(input_object)` for a non-empty list/tuple whose elements
      are temperature `unyt_quantity`s: `ff = input_object[0].units`; when some element's unit is
      `!= ff` (`Unit.__ne__` = `not Unit.__eq__`) every element is replaced by `datum.in_units(ff)`
      (`_get_conversion_factor` + `x * factor - offset`), otherwise the readings are taken as they are;
      the result is one array labelled `ff`.  Called by `unyt_array.__new__` (`unyt_array([q0, q1, …])`)
      and by `__array_ufunc__` for BOTH operands of every binary ufunc (`arr - [q0, q1]`,
      `np.add((q0, q1), arr)`, `arr -= [q0, q1]`, comparisons …).
    * the binary path of `__array_ufunc__` with such a sequence on either side: the coerced array
      takes the place of the operand, then the additive / comparison block of `UnytModel.Temp` runs
      element by element (one unit decision for the whole array).
-/
import UnytModel.Temp

namespace Unyt.Temp

/-- `Except`-valued map (all elements must succeed; the first error wins, as a raised exception does) -/
def mapE {α β : Type} (f : α → Except Err β) : List α → Except Err (List β)
  | [] => .ok []
  | a :: as =>
    match f a with
    | .error e => .error e
    | .ok b =>
      match mapE f as with
      | .error e => .error e
      | .ok bs => .ok (b :: bs)

section
variable {K : Type} [Add K] [Sub K] [Mul K] [Div K] [OfNat K 0] [BEq K] [IsClose K]

/-- array.py `_coerce_iterable_units` on a list/tuple of temperature quantities `(unit, reading)`:
    the label (unit of the first element) and the readings of the unified array.  `none`: the empty
    sequence (no quantity inside, `np.asarray` without units). -/
def coerceIterable (syms : List Name) (names : List (Name × Bool)) (tab : TTable K) :
    List (TU K × K) → Option (TU K × List K)
  | [] => none
  | d :: rest =>
    if (d :: rest).any (fun e => !unitEq tab d.1 e.1) then
      -- `ret.append(datum.in_units(ff.units))` for every datum (the first one included)
      some (d.1, (d :: rest).map fun e => tempConv syms names tab e.1 d.1 e.2)
    else
      -- `unyt_array(np.array(input_object), ff)`: readings untouched
      some (d.1, (d :: rest).map fun e => e.2)

/-- which operand of the binary ufunc is the Python sequence -/
inductive SeqSide | left | right
deriving DecidableEq, Repr

/-- one element of `array ∘ sequence` (`right`) or `sequence ∘ array` (`left`), the sequence already
    coerced to `(ff, y)` -/
def seqElem {β : Type} (f : TU K → K → TU K → K → Except Err β) (side : SeqSide)
    (u : TU K) (x : K) (ff : TU K) (y : K) : Except Err β :=
  match side with
  | .right => f u x ff y
  | .left => f ff y u x

/-- `__array_ufunc__` on a `unyt_array` `(u, xs)` and a list/tuple of quantities `seq`:
    `inp = _coerce_iterable_units(seq)`, then the binary path `f` (`tempAdd`, `tempSub`,
    `tempCmpArgs`) on every pair of elements -/
def tempSeqBinary {β : Type} (f : TTable K → TU K → K → TU K → K → Except Err β) (side : SeqSide)
    (syms : List Name) (names : List (Name × Bool)) (tab : TTable K)
    (u : TU K) (xs : List K) (seq : List (TU K × K)) : Except Err (List β) :=
  match coerceIterable syms names tab seq with
  | none => .error .Other
  | some (ff, ys) => mapE (fun p => seqElem (f tab) side u p.1 ff p.2) (xs.zip ys)

end

/-! ### source text of the conversion loop (`ast.unparse` layout), compared with the regenerated
    text by `UnytProofs/C08Seq.lean` (`temp_seq_source_matches`) -/

/-- `_coerce_iterable_units`: the test that selects the conversion branch (`coerceIterable`: `any … !unitEq`),
    the statement that converts one datum (`tempConv … e.1 d.1 e.2`) and the two array constructions -/
def srcCoerceTest : List String :=
  ["any((ff != getattr(_, 'units', NULL_UNIT) for _ in input_object))"]
def srcCoerceLoopBody : List String :=
  ["try:\n    ret.append(datum.in_units(ff.units))\nexcept UnitConversionError:\n    raise IterableUnitCoercionError(str(input_object))"]
def srcCoerceResults : List String :=
  ["ret = unyt_array(np.array(ret), ff, registry=registry)",
   "ret = unyt_array(np.array(input_object), ff, registry=registry)"]

end Unyt.Temp
